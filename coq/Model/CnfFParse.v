(* CnfFParse.v — the conditions of a `when` over clauses whose queries may carry filters: CnfParse.cnf over the element
   "access clause (ClauseFParse.clause_f), else parameterised call (outside the model), else rule reference".  No proofs here. *)
From GV.Model Require Import Ast.
From GV.Model Require Import ValueParse QueryParse OpParse ClauseParse CnfParse FilterParse ClauseFParse.
Local Open Scope string_scope.

Inductive fwhen := FWClause (c : gclause (Q := fquery)) | FWNamed (n : pnamed).

Section WithRegex.
Variable regex_valid : string -> bool.

Definition when_elem_f (fuel : nat) (s : string) : pres fwhen :=
  match clause_f regex_valid fuel s with
  | PErr =>
      match call_like s with
      | PErr => pmap FWNamed (rule_clause s)
      | PFail => PFail
      | PUnk => PUnk
      | POof => POof
      | POk _ _ => PUnk
      end
  | other => pmap FWClause other
  end.

Definition single_clauses_f (fuel : nat) (s : string) : pres (list (list fwhen)) := cnf when_elem_f fuel s.
Definition single_clauses_f_top (s : string) : pres (list (list fwhen)) := single_clauses_f (S (S (S (S (S (String.length s)))))) s.
End WithRegex.

(* ---------------------------------------------------------------- the tie *)
Inductive impl_fwhen :=
| IFWClause (neg : bool) (parts : list impl_fpart) (all : bool) (o : cmp_op) (n : bool) (w : impl_frhs) (msg : option string)
| IFWNamed (name : string) (neg : bool) (msg : option string)
| IFWOther.
Inductive impl_fconds := IFCNOk (l : list (list impl_fwhen)) (offset : N) | IFCNError | IFCNFailure | IFCNOther.

Definition fwhen_agree (m : fwhen) (i : impl_fwhen) : bool :=
  match m, i with
  | FWClause c, IFWClause neg parts all o n w msg =>
      Bool.eqb (gc_neg c) neg && fquery_agree (gc_query c) parts all && cmp_op_eqb (fst (gc_cmp c)) o && Bool.eqb (snd (gc_cmp c)) n
      && frhs_agree (gc_rhs c) w && ostr_eqb (gc_msg c) msg
  | FWNamed x, IFWNamed name neg msg => String.eqb (pn_name x) name && Bool.eqb (pn_neg x) neg && ostr_eqb (pn_msg x) msg
  | _, _ => false
  end.

Definition conds_f_obs (regex_valid : string -> bool) (text : string) (i : impl_fconds) : pcl_verdict :=
  match single_clauses_f_top regex_valid text, i with
  | PUnk, _ => PLNotModelled
  | POk l r, IFCNOk l' off =>
      if list_agree (list_agree fwhen_agree) l l' && N.eqb (N.of_nat (String.length text - String.length r)) off then PLAgree else PLDisagree
  | PErr, IFCNError => PLAgreeReject
  | PFail, IFCNFailure => PLAgreeReject
  | _, _ => PLDisagree
  end.
