(* StatusProps.v — laws of Status::and, of the aggregators and of the CNF combinator,
   for lists of any length (C02, C04, C09). *)
From GV.Model Require Import Status SEval.
From Coq Require Import Permutation.

Lemma status_eqb_eq a b : status_eqb a b = true <-> a = b.
Proof. destruct a, b; cbn; split; congruence. Qed.

Lemma existsb_status s l : existsb (status_eqb s) l = true <-> In s l.
Proof.
  rewrite existsb_exists. split.
  - intros (x & Hx & He). apply status_eqb_eq in He. subst. exact Hx.
  - intros H. exists s. split; [exact H|]. apply status_eqb_eq. reflexivity.
Qed.

Lemma existsb_status_false s l : existsb (status_eqb s) l = false <-> ~ In s l.
Proof.
  rewrite <- existsb_status. destruct (existsb (status_eqb s) l); split; congruence.
Qed.

(* ---------- Status::and : commutative monoid with identity SKIP, FAIL absorbing ---------- *)
Theorem status_and_comm a b : status_and a b = status_and b a.
Proof. destruct a, b; reflexivity. Qed.
Theorem status_and_assoc a b c : status_and a (status_and b c) = status_and (status_and a b) c.
Proof. destruct a, b, c; reflexivity. Qed.
Theorem status_and_skip a : status_and SKIP a = a /\ status_and a SKIP = a.
Proof. destruct a; split; reflexivity. Qed.
Theorem status_and_fail a : status_and FAIL a = FAIL /\ status_and a FAIL = FAIL.
Proof. destruct a; split; reflexivity. Qed.

(* folding `and` over statuses is the FAIL / PASS / SKIP rule *)
Theorem fold_status_and l : fold_left status_and l SKIP = fold_fail_pass_skip l.
Proof.
  assert (H : forall l acc, fold_left status_and l acc = status_and acc (fold_fail_pass_skip l)).
  { induction l0 as [|x l0 IH]; intros acc; cbn [fold_left].
    - destruct acc; reflexivity.
    - rewrite IH. unfold fold_fail_pass_skip. cbn [existsb].
      destruct acc, x; cbn; destruct (existsb (status_eqb FAIL) l0), (existsb (status_eqb PASS) l0); reflexivity. }
  rewrite H. reflexivity.
Qed.

(* ---------- the aggregators, for lists of any length ---------- *)
Theorem fold_fail_pass_skip_spec l :
  (fold_fail_pass_skip l = FAIL <-> In FAIL l) /\
  (fold_fail_pass_skip l = PASS <-> ~ In FAIL l /\ In PASS l) /\
  (fold_fail_pass_skip l = SKIP <-> ~ In FAIL l /\ ~ In PASS l).
Proof.
  unfold fold_fail_pass_skip.
  destruct (existsb (status_eqb FAIL) l) eqn:Hf; [apply existsb_status in Hf | apply existsb_status_false in Hf];
  destruct (existsb (status_eqb PASS) l) eqn:Hp; [apply existsb_status in Hp | apply existsb_status_false in Hp
                                                  | apply existsb_status in Hp | apply existsb_status_false in Hp];
  repeat split; intros; try tauto; try discriminate; try (destruct H; tauto).
Qed.

Theorem disjunction_status_spec l :
  (disjunction_status l = PASS <-> In PASS l) /\
  (disjunction_status l = FAIL <-> ~ In PASS l /\ In FAIL l) /\
  (disjunction_status l = SKIP <-> ~ In PASS l /\ ~ In FAIL l).
Proof.
  unfold disjunction_status.
  destruct (existsb (status_eqb PASS) l) eqn:Hp; [apply existsb_status in Hp | apply existsb_status_false in Hp];
  destruct (existsb (status_eqb FAIL) l) eqn:Hf; [apply existsb_status in Hf | apply existsb_status_false in Hf
                                                  | apply existsb_status in Hf | apply existsb_status_false in Hf];
  repeat split; intros; try tauto; try discriminate; try (destruct H; tauto).
Qed.

(* CNF of any shape: FAIL iff one line has no passing and one failing alternative, ... *)
Theorem conj_status_spec lines :
  (conj_status lines = FAIL <-> exists l, In l lines /\ ~ In PASS l /\ In FAIL l) /\
  (conj_status lines = PASS <->
     (forall l, In l lines -> In PASS l \/ ~ In FAIL l) /\ exists l, In l lines /\ In PASS l).
Proof.
  unfold conj_status. destruct (fold_fail_pass_skip_spec (map disjunction_status lines)) as (HF & HP & _).
  split.
  - rewrite HF, in_map_iff. split.
    + intros (l & Hl & Hin). exists l. split; [exact Hin|]. apply disjunction_status_spec. exact Hl.
    + intros (l & Hin & Hl). exists l. split; [|exact Hin]. apply disjunction_status_spec. exact Hl.
  - rewrite HP. split.
    + intros (Hnf & Hp). split.
      * intros l Hin. destruct (disjunction_status l) eqn:E.
        -- left. apply disjunction_status_spec. exact E.
        -- exfalso. apply Hnf. apply in_map_iff. exists l. split; assumption.
        -- right. apply disjunction_status_spec in E. tauto.
      * apply in_map_iff in Hp. destruct Hp as (l & E & Hin). exists l. split; [exact Hin|].
        apply disjunction_status_spec. exact E.
    + intros (Hall & (l & Hin & Hp)). split.
      * intros Hf. apply in_map_iff in Hf. destruct Hf as (l' & E & Hin').
        apply disjunction_status_spec in E. destruct (Hall l' Hin'); tauto.
      * apply in_map_iff. exists l. split; [|exact Hin]. apply disjunction_status_spec. exact Hp.
Qed.

(* ---------- order and repetition do not matter (C04) ---------- *)
Lemma existsb_perm {A} (f : A -> bool) l l' : Permutation l l' -> existsb f l = existsb f l'.
Proof.
  induction 1; cbn; try congruence.
  - destruct (f y), (f x); reflexivity.
Qed.

Theorem fold_fail_pass_skip_perm l l' : Permutation l l' -> fold_fail_pass_skip l = fold_fail_pass_skip l'.
Proof. intros H. unfold fold_fail_pass_skip. rewrite !(existsb_perm _ _ _ H). reflexivity. Qed.

Theorem disjunction_status_perm l l' : Permutation l l' -> disjunction_status l = disjunction_status l'.
Proof. intros H. unfold disjunction_status. rewrite !(existsb_perm _ _ _ H). reflexivity. Qed.

Theorem conj_status_perm_lines lines lines' :
  Permutation lines lines' -> conj_status lines = conj_status lines'.
Proof. intros H. unfold conj_status. apply fold_fail_pass_skip_perm. apply Permutation_map. exact H. Qed.

Theorem conj_status_perm_alternatives l l' rest :
  Permutation l l' -> conj_status (l :: rest) = conj_status (l' :: rest).
Proof. intros H. unfold conj_status. cbn [map]. rewrite (disjunction_status_perm _ _ H). reflexivity. Qed.

Theorem fold_dup x l : In x l -> fold_fail_pass_skip (x :: l) = fold_fail_pass_skip l.
Proof.
  intros H. unfold fold_fail_pass_skip. cbn [existsb].
  destruct x; cbn [status_eqb orb];
    try (apply existsb_status in H; rewrite H); reflexivity.
Qed.

Theorem conj_status_dup_line l rest : In l rest -> conj_status (l :: rest) = conj_status rest.
Proof. intros H. unfold conj_status. cbn [map]. apply fold_dup. apply in_map. exact H. Qed.

(* ---------- clause over values ---------- *)
Theorem clause_all_spec l : clause_all l = FAIL <-> In FAIL l.
Proof.
  unfold clause_all. destruct (existsb (status_eqb FAIL) l) eqn:E.
  - apply existsb_status in E. tauto.
  - apply existsb_status_false in E. split; [discriminate|tauto].
Qed.
Theorem clause_some_spec l : clause_some l = PASS <-> In PASS l.
Proof.
  unfold clause_some. destruct (existsb (status_eqb PASS) l) eqn:E.
  - apply existsb_status in E. tauto.
  - apply existsb_status_false in E. split; [discriminate|tauto].
Qed.
