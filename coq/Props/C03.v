(* C03 — prefix negation is honoured and means the operator-level negation.
   Pinned statements only. *)
From GV.Model Require Import SEval.
From GV.Proofs Require Import StatusProps EvalLaws CompareProps NegationProps.

(* `not X exists` == `X !exists`, likewise empty and the is_* tests: same status, same
   final state, for every query, all/some, every callee evaluator, every state *)
Theorem C03_prefix_not_unary : forall re r aq o n custom,
  is_unary o = true ->
  sim (access_clause_body re r (GuardAccessClause aq (o, n) None custom true))
      (access_clause_body re r (GuardAccessClause aq (o, negb n) None custom false)).
Proof. exact prefix_not_unary. Qed.
Print Assumptions C03_prefix_not_unary.

Theorem C03_double_negation_unary : forall re r aq o custom,
  is_unary o = true ->
  sim (access_clause_body re r (GuardAccessClause aq (o, true) None custom true))
      (access_clause_body re r (GuardAccessClause aq (o, false) None custom false)).
Proof. exact double_negation_unary. Qed.
Print Assumptions C03_double_negation_unary.

(* `not X == v` IS `X != v`, `not X in L` IS `X not in L` (identical computation) *)
Theorem C03_prefix_not_binary : forall re r aq o n w custom,
  is_unary o = false ->
  access_clause_body re r (GuardAccessClause aq (o, n) w custom true)
  = access_clause_body re r (GuardAccessClause aq (o, negb n) w custom false).
Proof. exact prefix_not_binary. Qed.
Print Assumptions C03_prefix_not_binary.

Theorem C03_double_negation_binary : forall re r aq o w custom,
  is_unary o = false ->
  access_clause_body re r (GuardAccessClause aq (o, true) w custom true)
  = access_clause_body re r (GuardAccessClause aq (o, false) w custom false).
Proof. exact double_negation_binary. Qed.
Print Assumptions C03_double_negation_binary.

(* a single comparable value: the negated comparison succeeds exactly when the plain one fails *)
Theorem C03_single_comparable_flips : forall re o cmpf l rv b,
  ordering_op o = Some cmpf -> is_list l = false -> is_list rv = false ->
  cmpf l rv = Done b ->
  cmp_compare re (o, false) [QResolved l] [QLiteral rv]
    = Done (EResult [VComparison (if b then CRSuccess (CValue l rv) else CRFail (CValue l rv))]) /\
  cmp_compare re (o, true) [QResolved l] [QLiteral rv]
    = Done (EResult [VComparison (if b then CRFail (CValue l rv) else CRSuccess (CValue l rv))]).
Proof. exact single_comparable_flips. Qed.
Print Assumptions C03_single_comparable_flips.

Theorem C03_not_gt_is_le : forall a b,
  ordered_pair a b ->
  exists g le, compare_gt a b = Done g /\ compare_le a b = Done le /\ le = negb g.
Proof. exact not_gt_is_le. Qed.
Print Assumptions C03_not_gt_is_le.

Theorem C03_not_comparable_stays_fail : forall re o cmpf l rv,
  ordering_op o = Some cmpf -> is_list l = false -> is_list rv = false ->
  cmpf l rv = Err ENotComparable ->
  forall n, cmp_compare re (o, n) [QResolved l] [QLiteral rv]
            = Done (EResult [VComparison (CRNotComparable l rv)]).
Proof. exact not_comparable_stays_fail. Qed.
Print Assumptions C03_not_comparable_stays_fail.

(* `not R` for a rule name R is PASS exactly when R is not PASS *)
Theorem C03_not_rule : forall prog r dep negation custom s st recs s',
  named_clause_body prog r (GuardNamedRuleClause dep negation custom) s = Done (st, recs, s') ->
  exists rst ch, rule_status_body prog r dep s = Done (rst, ch, s') /\
                 st = (if Bool.eqb (status_eqb rst PASS) negation then FAIL else PASS) /\
                 exists c, recs = [Rec c ch] /\ container_status c = Some st.
Proof. exact named_clause_law. Qed.
Print Assumptions C03_not_rule.
