(* ClauseParseProps.v — one access clause (Model/ClauseParse.v = parser.rs clause_with_map): the parser always answers with the
   standard fuel, a leading negation is recorded (never dropped, never invented), layout in front of the clause is irrelevant,
   and a parsed clause consumed input. *)
From Coq Require Import Lia.
From GV.Model Require Import Ast.
From GV.Model Require Import ValueParse QueryParse OpParse ClauseParse.
From GV.Proofs Require Import LexProps ValueParseProps ValueSpellProps QueryParseProps OpParseProps.
Local Open Scope string_scope.
Local Open Scope nat_scope.

Section Clause.
Variable rv : string -> bool.

(* ---------------------------------------------------------------- no fuel exhaustion *)
Lemma tagged_nooof {T} (x : T) tags s : tagged x tags s <> POof.
Proof. unfold tagged. destruct (alt_tags tags s); discriminate. Qed.

Lemma keyword_op_nooof s : keyword_op s <> POof.
Proof. unfold keyword_op, is_type_ops. repeat apply palt_not_oof; apply tagged_nooof. Qed.

Lemma value_cmp_nooof s : value_cmp s <> POof.
Proof.
  unfold value_cmp. destruct (str_prefix "<<" s); [discriminate|]. apply palt_not_oof.
  - unfold symbol_op. repeat apply palt_not_oof; apply tagged_nooof.
  - unfold other_operations. destruct (not_kw s); intros H; apply pmap_oof in H; now apply keyword_op_nooof in H.
Qed.

Lemma opt_message_nooof s : opt_message s <> POof.
Proof.
  unfold opt_message, custom_message. destruct (str_prefix "<<" (skip_ws_comments s)); [|discriminate].
  destruct (find_close (drop 2 (skip_ws_comments s)) EmptyString) as [[m r]|]; discriminate.
Qed.

Lemma with_message_nooof neg q c w s : with_message neg q c w s <> POof.
Proof. unfold with_message. intros H. apply pmap_oof in H. now apply opt_message_nooof in H. Qed.

Lemma var_name_nooof t : var_name t <> POof.
Proof.
  unfold var_name. destruct (span_while is_alpha t) as [a r1]. destruct a; [discriminate|].
  destruct (span_while name_char r1) as [b r2]. destruct r2 as [|c2 r2]; [discriminate|]. destruct (is_ascii c2); discriminate.
Qed.

Lemma function_like_nooof t : function_like t <> POof.
Proof.
  unfold function_like. pose proof (var_name_nooof t). destruct (var_name t) as [a r| | | |]; try discriminate; [|congruence].
  destruct r as [|c r]; [discriminate|]. destruct (Ascii.eqb c "("); discriminate.
Qed.

Lemma function_like_not_ok t a r : function_like t <> POk a r.
Proof.
  unfold function_like. destruct (var_name t) as [a0 r0| | | |]; try discriminate.
  destruct r0 as [|c r0]; [discriminate|]. destruct (Ascii.eqb c "("); discriminate.
Qed.

Lemma access_at n t : len t < n -> access n t = access_top t.
Proof. intros L. apply access_fuel_irrelevant. unfold access_fuel. lia. Qed.

Lemma not_kw_le s r : not_kw s = Some r -> len r <= len s.
Proof. intros H. apply not_kw_len in H. lia. Qed.

Theorem clause_enough_fuel : forall n s, len s < n -> clause rv n s <> POof.
Proof.
  intros n s Hn. unfold clause.
  pose proof (skip_len s false) as L0. fold (skip_ws_comments s) in L0.
  destruct (match not_kw (skip_ws_comments s) with Some r => (true, r) | None => (false, skip_ws_comments s) end) as [neg s1] eqn:E0.
  assert (L1 : len s1 <= len s).
  { destruct (not_kw (skip_ws_comments s)) as [r|] eqn:E; inversion E0; subst; [apply not_kw_le in E; lia|lia]. }
  rewrite (access_at n s1) by lia.
  pose proof (access_answers s1) as A1. destruct (access_top s1) as [q r1| | | |] eqn:Ea; try discriminate; [|congruence].
  assert (L2 : len r1 < len s1) by (unfold access_top in Ea; now apply access_consumes in Ea).
  pose proof (skip_len r1 false) as L3. fold (skip_ws_comments r1) in L3.
  pose proof (value_cmp_nooof (skip_ws_comments r1)) as V. destruct (value_cmp (skip_ws_comments r1)) as [c r2| | | |] eqn:Ec; try discriminate; [|congruence].
  apply value_cmp_consumes in Ec.
  destruct (is_unary (fst c)); [apply with_message_nooof|].
  pose proof (parse_value_enough_fuel rv n r2 ltac:(lia)) as P.
  destruct (parse_value rv n r2) as [l r3| | | |]; try discriminate; [apply with_message_nooof| |congruence].
  pose proof (function_like_nooof (skip_ws_comments r2)) as F. destruct (function_like (skip_ws_comments r2)); try discriminate; [|congruence].
  pose proof (skip_len r2 false) as L4. fold (skip_ws_comments r2) in L4.
  rewrite (access_at n (skip_ws_comments r2)) by lia.
  pose proof (access_answers (skip_ws_comments r2)) as A2. destruct (access_top (skip_ws_comments r2)); try discriminate; [apply with_message_nooof|congruence].
Qed.

Theorem clause_answers : forall s, clause_top rv s <> POof.
Proof. intros s. unfold clause_top. apply clause_enough_fuel. lia. Qed.

(* ---------------------------------------------------------------- the negation in front of a clause *)
Lemma clause_neg_flag n s c rest : clause rv n s = POk c rest ->
  pc_neg c = match not_kw (skip_ws_comments s) with Some _ => true | None => false end.
Proof.
  unfold clause. destruct (not_kw (skip_ws_comments s)) as [r|];
  match goal with |- context [access n ?t] => destruct (access n t) as [q r1| | | |]; try discriminate end;
  (destruct (value_cmp (skip_ws_comments r1)) as [cm r2| | | |]; try discriminate);
  (destruct (is_unary (fst cm)); [unfold with_message; intros H; apply pmap_ok in H as (m & _ & ->); reflexivity|]);
  (destruct (parse_value rv n r2) as [l r3| | | |]; try discriminate; [unfold with_message; intros H; apply pmap_ok in H as (m & _ & ->); reflexivity|]);
  (destruct (function_like (skip_ws_comments r2)) eqn:EF; try discriminate; [exfalso; eapply function_like_not_ok; exact EF|]);
  (destruct (access n (skip_ws_comments r2)) as [q2 r3| | | |]; try discriminate);
  unfold with_message; intros H; apply pmap_ok in H as (m & _ & ->); reflexivity.
Qed.

Theorem leading_negation_is_recorded : forall n s r c rest,
  not_kw (skip_ws_comments s) = Some r -> clause rv n s = POk c rest -> pc_neg c = true.
Proof. intros n s r c rest Hn H. rewrite (clause_neg_flag n s c rest H), Hn. reflexivity. Qed.

Theorem no_negation_is_invented : forall n s c rest,
  not_kw (skip_ws_comments s) = None -> clause rv n s = POk c rest -> pc_neg c = false.
Proof. intros n s c rest Hn H. rewrite (clause_neg_flag n s c rest H), Hn. reflexivity. Qed.

(* ---------------------------------------------------------------- layout, consumption *)
Theorem clause_layout_irrelevant : forall n w s, layout w -> clause rv n (w +++ s) = clause rv n s.
Proof. intros n w s Hw. unfold clause. now rewrite (skip_layout w s Hw). Qed.

Lemma opt_message_le s m r : opt_message s = POk m r -> len r <= len s.
Proof.
  unfold opt_message, custom_message. pose proof (skip_len s false) as L. fold (skip_ws_comments s) in L.
  destruct (str_prefix "<<" (skip_ws_comments s)).
  - destruct (find_close (drop 2 (skip_ws_comments s)) EmptyString) as [[m' r']|] eqn:E; [|discriminate]. intros H. inversion H; subst.
    assert (G : forall t acc m0 r0, find_close t acc = Some (m0, r0) -> len r0 <= len t).
    { induction t as [|c t IH]; intros acc m0 r0 Hf; cbn [find_close] in Hf; [discriminate|].
      destruct (str_prefix ">>" (String c t)).
      - injection Hf as _ E2. subst r0. destruct t as [|c2 t2]; cbn; lia.
      - apply IH in Hf. cbn. lia. }
    apply G in E. pose proof (drop_len 2 (skip_ws_comments s)). lia.
  - intros H. inversion H; subst. exact L.
Qed.

Theorem clause_consumes : forall n s c rest, clause rv n s = POk c rest -> len rest < len s.
Proof.
  intros n s c rest. unfold clause.
  pose proof (skip_len s false) as L0. fold (skip_ws_comments s) in L0.
  destruct (match not_kw (skip_ws_comments s) with Some r => (true, r) | None => (false, skip_ws_comments s) end) as [neg s1] eqn:E0.
  assert (L1 : len s1 <= len s).
  { destruct (not_kw (skip_ws_comments s)) as [r|] eqn:E; inversion E0; subst; [apply not_kw_le in E; lia|lia]. }
  destruct (access n s1) as [q r1| | | |] eqn:Ea; try discriminate. apply access_consumes in Ea.
  pose proof (skip_len r1 false) as L3. fold (skip_ws_comments r1) in L3.
  destruct (value_cmp (skip_ws_comments r1)) as [cm r2| | | |] eqn:Ec; try discriminate. apply value_cmp_consumes in Ec.
  assert (W : forall w t, len t <= len r2 -> with_message neg q cm w t = POk c rest -> len rest < len s).
  { intros w t Lt H. unfold with_message in H. apply pmap_ok in H as (m & H & _). apply opt_message_le in H. lia. }
  destruct (is_unary (fst cm)); [apply W; lia|].
  destruct (parse_value rv n r2) as [l r3| | | |] eqn:Ep; try discriminate.
  - apply parse_value_consumes in Ep. apply W. lia.
  - destruct (function_like (skip_ws_comments r2)) eqn:EF; try discriminate; [exfalso; eapply function_like_not_ok; exact EF|].
    pose proof (skip_len r2 false) as L4. fold (skip_ws_comments r2) in L4.
    destruct (access n (skip_ws_comments r2)) as [q2 r3| | | |] eqn:Ea2; try discriminate. apply access_consumes in Ea2. apply W. lia.
Qed.

End Clause.
