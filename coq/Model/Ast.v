(* Ast.v — exprs.rs one to one (locations dropped), plus the evaluation
   record tree (rules/mod.rs 195-355; eval_context.rs 40-45). No proofs here. *)
From GV.Model Require Export Value Status.

Inductive cmp_op :=
| OEq | OIn | OGt | OLt | OLe | OGe | OExists | OEmpty
| OIsString | OIsList | OIsMap | OIsBool | OIsInt | OIsFloat | OIsNull.

Definition cmp_op_eqb (a b : cmp_op) : bool :=
  match a, b with
  | OEq, OEq | OIn, OIn | OGt, OGt | OLt, OLt | OLe, OLe | OGe, OGe | OExists, OExists
  | OEmpty, OEmpty | OIsString, OIsString | OIsList, OIsList | OIsMap, OIsMap
  | OIsBool, OIsBool | OIsInt, OIsInt | OIsFloat, OIsFloat | OIsNull, OIsNull => true
  | _, _ => false
  end.

(* CmpOperator::is_unary *)
Definition is_unary (o : cmp_op) : bool :=
  match o with
  | OExists | OEmpty | OIsString | OIsBool | OIsList | OIsInt | OIsMap | OIsFloat | OIsNull => true
  | _ => false
  end.

Definition cmp := (cmp_op * bool)%type.
Definition cmp_eqb (a b : cmp) : bool := cmp_op_eqb (fst a) (fst b) && Bool.eqb (snd a) (snd b).

Inductive fn_name :=
| FCount | FJoin | FJsonParse | FNow | FParseBoolean | FParseChar | FParseEpoch | FParseFloat
| FParseInt | FParseString | FRegexReplace | FSubstring | FToLower | FToUpper | FUrlDecode.

Inductive let_value :=
| LValue (v : pv)
| LAccess (q : access_query)
| LFunction (params : list let_value) (name : fn_name)
with query_part :=
| QThis
| QKey (k : string)
| QMapKeyFilter (name : option string) (c : cmp) (w : let_value)
| QAllValues (name : option string)
| QAllIndices (name : option string)
| QIndex (i : Z)
| QFilter (name : option string) (cnf : list (list guard_clause))
with access_query :=
| AccessQuery (q : list query_part) (match_all : bool)
with access_clause :=
| GuardAccessClause (q : access_query) (c : cmp) (w : option let_value)
                    (custom : option string) (negation : bool)
with named_clause :=
| GuardNamedRuleClause (rule : string) (negation : bool) (custom : option string)
with guard_clause :=
| GClause (c : access_clause)
| GNamedRule (n : named_clause)
| GParameterizedNamedRule (params : list let_value) (n : named_clause)
| GBlockClause (q : access_query) (b : gblock) (not_empty : bool)
| GWhenBlock (conds : list (list when_clause)) (b : gblock)
with when_clause :=
| WClause (c : access_clause)
| WNamedRule (n : named_clause)
| WParameterizedNamedRule (params : list let_value) (n : named_clause)
with gblock :=
| Block (lets : list (string * let_value)) (cnf : list (list guard_clause)).

Definition query := list query_part.
Definition let_expr := (string * let_value)%type.
Definition when_conditions := list (list when_clause).

Definition aq_query (a : access_query) : query := match a with AccessQuery q _ => q end.
Definition aq_all (a : access_query) : bool := match a with AccessQuery _ m => m end.

Inductive rule_clause :=
| RClause (g : guard_clause)
| RWhenBlock (conds : when_conditions) (b : gblock)
| RTypeBlock (type_name : string) (conds : option when_conditions) (b : gblock) (q : query).

Record rule := mkRule {
  rule_name : string;
  rule_conditions : option when_conditions;
  rule_lets : list let_expr;
  rule_cnf : list (list rule_clause) }.

Record param_rule := mkParamRule {
  pr_params : list string;
  pr_rule : rule }.

Record rules_file := mkRulesFile {
  rf_lets : list let_expr;
  rf_rules : list rule;
  rf_param_rules : list param_rule }.

(* QueryPart::is_variable / variable *)
Definition key_variable (k : string) : option string :=
  match k with
  | String a r => if Ascii.eqb a "%" then Some r else None
  | EmptyString => None
  end.
Definition part_variable (p : query_part) : option string :=
  match p with QKey k => key_variable k | _ => None end.
Definition part_is_variable (p : query_part) : bool :=
  match part_variable p with Some _ => true | None => false end.

(* Display for QueryPart and SliceDisplay (exprs.rs 97-136, 286-303):
   parts joined with "." and every ".[" replaced by "[" *)
Definition part_display (p : query_part) : string :=
  match p with
  | QKey s => s
  | QAllIndices _ => "[*]"
  | QAllValues _ => "*"
  | QIndex i => Z_to_string i
  | QFilter n _ => (match n with Some s => s | None => "" end) +++ " (filter-clauses)"
  | QMapKeyFilter n _ _ => (match n with Some s => s | None => "" end) +++ " (map-key-filter-clauses)"
  | QThis => "_"
  end.

Fixpoint replace_dot_bracket (s : string) : string :=
  match s with
  | EmptyString => EmptyString
  | String a r =>
      match r with
      | String b r' =>
          if Ascii.eqb a "." && Ascii.eqb b "[" then String "[" (replace_dot_bracket r')
          else String a (replace_dot_bracket r)
      | EmptyString => String a EmptyString
      end
  end.

Definition slice_display (q : query) : string :=
  replace_dot_bracket (str_join "." (map part_display q)).

(* ------------------------------------------------------------------ *)
(* Evaluation records *)

Inductive clause_check :=
| CSuccess
| CComparison (c : cmp) (from : qres) (to : option qres) (has_msg : bool)
              (custom : option string) (st : status)
| CInComparison (c : cmp) (from : qres) (to : list qres) (has_msg : bool)
                (custom : option string) (st : status)
| CUnary (c : cmp) (from : qres) (has_msg : bool) (custom : option string) (st : status)
| CNoValueForEmptyCheck (custom : option string)
| CDependentRule (rule : string) (has_msg : bool) (custom : option string) (st : status)
| CMissingBlockValue (from : qres) (has_msg : bool) (custom : option string) (st : status).

(* BlockCheck { at_least_one_matches, status, message } with message reduced to presence *)
Inductive container :=
| KFileCheck (st : status)
| KRuleCheck (name : string) (st : status) (msg : option string)
| KRuleCondition (st : status)
| KTypeCheck (type_name : string) (alo : bool) (st : status) (has_msg : bool)
| KTypeCondition (st : status)
| KTypeBlock (st : status)
| KFilter (st : status)
| KWhenCheck (alo : bool) (st : status) (has_msg : bool)
| KWhenCondition (st : status)
| KDisjunction (alo : bool) (st : status) (has_msg : bool)
| KBlockGuardCheck (alo : bool) (st : status) (has_msg : bool)
| KGuardClauseBlockCheck (alo : bool) (st : status) (has_msg : bool)
| KClauseValueCheck (c : clause_check).

Inductive record := Rec (c : container) (children : list record).

Definition rec_container (r : record) := match r with Rec c _ => c end.
Definition rec_children (r : record) := match r with Rec _ ch => ch end.

Definition ostr_eqb := option_eqb String.eqb.

Definition clause_check_eqb (a b : clause_check) : bool :=
  match a, b with
  | CSuccess, CSuccess => true
  | CComparison c f t m cu s, CComparison c' f' t' m' cu' s' =>
      cmp_eqb c c' && qres_eqb f f' && option_eqb qres_eqb t t' && Bool.eqb m m'
      && ostr_eqb cu cu' && status_eqb s s'
  | CInComparison c f t m cu s, CInComparison c' f' t' m' cu' s' =>
      cmp_eqb c c' && qres_eqb f f' && list_eqb qres_eqb t t' && Bool.eqb m m'
      && ostr_eqb cu cu' && status_eqb s s'
  | CUnary c f m cu s, CUnary c' f' m' cu' s' =>
      cmp_eqb c c' && qres_eqb f f' && Bool.eqb m m' && ostr_eqb cu cu' && status_eqb s s'
  | CNoValueForEmptyCheck cu, CNoValueForEmptyCheck cu' => ostr_eqb cu cu'
  | CDependentRule r m cu s, CDependentRule r' m' cu' s' =>
      String.eqb r r' && Bool.eqb m m' && ostr_eqb cu cu' && status_eqb s s'
  | CMissingBlockValue f m cu s, CMissingBlockValue f' m' cu' s' =>
      qres_eqb f f' && Bool.eqb m m' && ostr_eqb cu cu' && status_eqb s s'
  | _, _ => false
  end.

Definition container_eqb (a b : container) : bool :=
  match a, b with
  | KFileCheck s, KFileCheck s' => status_eqb s s'
  | KRuleCheck n s m, KRuleCheck n' s' m' => String.eqb n n' && status_eqb s s' && ostr_eqb m m'
  | KRuleCondition s, KRuleCondition s' => status_eqb s s'
  | KTypeCheck n a s m, KTypeCheck n' a' s' m' =>
      String.eqb n n' && Bool.eqb a a' && status_eqb s s' && Bool.eqb m m'
  | KTypeCondition s, KTypeCondition s' => status_eqb s s'
  | KTypeBlock s, KTypeBlock s' => status_eqb s s'
  | KFilter s, KFilter s' => status_eqb s s'
  | KWhenCheck a s m, KWhenCheck a' s' m' => Bool.eqb a a' && status_eqb s s' && Bool.eqb m m'
  | KWhenCondition s, KWhenCondition s' => status_eqb s s'
  | KDisjunction a s m, KDisjunction a' s' m' => Bool.eqb a a' && status_eqb s s' && Bool.eqb m m'
  | KBlockGuardCheck a s m, KBlockGuardCheck a' s' m' =>
      Bool.eqb a a' && status_eqb s s' && Bool.eqb m m'
  | KGuardClauseBlockCheck a s m, KGuardClauseBlockCheck a' s' m' =>
      Bool.eqb a a' && status_eqb s s' && Bool.eqb m m'
  | KClauseValueCheck c, KClauseValueCheck c' => clause_check_eqb c c'
  | _, _ => false
  end.

Fixpoint record_eqb (a b : record) : bool :=
  match a, b with
  | Rec c ch, Rec c' ch' =>
      container_eqb c c' &&
      (fix go (l m : list record) : bool :=
         match l, m with
         | [], [] => true
         | x :: l', y :: m' => record_eqb x y && go l' m'
         | _, _ => false
         end) ch ch'
  end.

Definition container_status (c : container) : option status :=
  match c with
  | KFileCheck s | KRuleCheck _ s _ | KRuleCondition s | KTypeCheck _ _ s _ | KTypeCondition s
  | KTypeBlock s | KFilter s | KWhenCheck _ s _ | KWhenCondition s | KDisjunction _ s _
  | KBlockGuardCheck _ s _ | KGuardClauseBlockCheck _ s _ => Some s
  | KClauseValueCheck c =>
      match c with
      | CSuccess => Some PASS
      | CComparison _ _ _ _ _ s | CInComparison _ _ _ _ _ s | CUnary _ _ _ _ s
      | CDependentRule _ _ _ s | CMissingBlockValue _ _ _ s => Some s
      | CNoValueForEmptyCheck _ => Some FAIL
      end
  end.
