"""C12 — evaluations are isolated: each (rules file, data file) pair stands alone.

proof   : Props/C12.v over Model/Batch.v + Cli.v (a batch is the pointwise product of eval_file from the fresh
          state; permuting files permutes reports; failure iff some pair fails; exit status independent of order)
tie     : inventories regenerated from the source on every run: every `root_scope(` construction site with the loops
          it sits in, and every process-wide `static` item, compared with the reviewed classification; the SEval
          model itself is tied to the evaluator by the correspondence runs of C01/C02
monitor : the real binary: 1..3 rules files sharing rule and variable names x 1..4 documents, as files in every order,
          as directories (-a / -m) and as --payload lists, each data file's structured report compared with the
          union of the reports of the pairs validated alone; the cases of one `test` file vs the cases run alone
"""
import json, random, os, itertools
from .. import impl, gen, e2e, inventory
from ..common import *

HAND = [
    'let v = Resources.*[ Type == "AWS::S3::Bucket" ]\nrule r0 when %v !empty {\n  %v.Properties.Size >= 1\n}\nrule r1 {\n  r0\n}\n'
    'rule r2 when Resources[ k | Type == "AWS::S3::Bucket" ] !empty {\n  let c = count(%k)\n  %c == 1\n}\n',
    'let v = Resources.*[ Type == "AWS::IAM::Role" ]\nrule r0 {\n  %v empty\n}\nrule r1 when r0 {\n  Resources.* { Type exists }\n}\n'
    'rule r2 when Resources[ k | Type == "AWS::IAM::Role" ] !empty {\n  let c = count(%k)\n  %c == 1\n}\n',
    'let v = this\nrule r0 {\n  %v is_struct\n}\nrule r1 {\n  not r0\n}\nrule r2 {\n  r1 or\n  r0\n}\n',
]
HAND_DOCS = [
    {"Resources": {"b1": {"Type": "AWS::S3::Bucket", "Properties": {"Size": 1}}, "role": {"Type": "AWS::IAM::Role"}}},
    {"Resources": {"b1": {"Type": "AWS::S3::Bucket", "Properties": {"Size": 0}}, "b2": {"Type": "AWS::S3::Bucket", "Properties": {"Size": 2}}}},
    {"Resources": {}},
    {"a": 1},
]


def reports(stdout):
    try:
        j = json.loads(stdout.decode())
    except Exception:
        return None
    return {fr['name']: fr for fr in j}


def norm_report(fr):
    return {'status': fr['status'], 'compliant': sorted(fr['compliant']), 'not_applicable': sorted(fr['not_applicable']),
            'not_compliant': sorted(json.dumps(x, sort_keys=True) for x in fr['not_compliant'])}


def status_and(a, b):
    if a == 'FAIL' or b == 'FAIL':
        return 'FAIL'
    if a == 'SKIP':
        return b
    if a == 'PASS':
        return 'PASS'
    return b


def union(singles, name=None):
    st = 'SKIP'
    out = {'compliant': set(), 'not_applicable': set(), 'not_compliant': []}
    first = True
    for fr in singles:
        st = fr['status'] if first else status_and(st, fr['status'])
        first = False
        out['compliant'] |= set(fr['compliant'])
        out['not_applicable'] |= set(fr['not_applicable'])
        out['not_compliant'] += [json.dumps(x, sort_keys=True) for x in fr['not_compliant']]
    # FileReport::default status then `and`: Default for Status is SKIP
    return {'status': status_and('SKIP', st) if singles else 'SKIP', 'compliant': sorted(out['compliant']),
            'not_applicable': sorted(out['not_applicable']), 'not_compliant': sorted(out['not_compliant'])}


def run_validate(ctx, nscen, thorough):
    rng = random.Random(ctx.seed * 41 + 12)
    scen = []
    for k in range(nscen):
        nr, nd = rng.choice([1, 2, 2, 3]), rng.choice([1, 2, 3, 4])
        rules, docs = [], []
        for _ in range(nr):
            if rng.random() < 0.4:
                rules.append(rng.choice(HAND))
            else:
                doc, prog = gen.gen_pair(rng, {'cycles': 0.0, 'types': False, 'functions': False})
                rules.append(gen.render_file(prog))
                docs.append(doc)
        while len(docs) < nd:
            docs.append(rng.choice(HAND_DOCS) if rng.random() < 0.5 else gen.gen_doc(rng))
        docs = docs[:nd]
        scen.append({'rules': rules, 'docs': docs})
    flags = ['--structured', '-o', 'json', '-S', 'none']
    jobs, meta = [], []
    for k, sc in enumerate(scen):
        d = os.path.join(ctx.wd, 'b%d' % k)
        files = {}
        for i, r in enumerate(sc['rules']):
            files['rules/r%d.guard' % i] = r
        # every other scenario keeps its data files under ONE base name in different directories (a cache keyed by the
        # base name would hand one document to another file)
        dn = [('data/s%d/template.json' % j) if k % 2 == 1 else ('data/d%d.json' % j) for j in range(len(sc['docs']))]
        for j, t in enumerate(sc['docs']):
            files[dn[j]] = json.dumps(t)
        e2e.write_files(d, files)
        rn = ['rules/r%d.guard' % i for i in range(len(sc['rules']))]
        for i, r in enumerate(rn):
            for j, x in enumerate(dn):
                jobs.append({'args': ['validate', '-r', r, '-d', x] + flags, 'cwd': d})
                meta.append((k, 'single', (i, j)))
        rorders = list(itertools.permutations(range(len(rn))))
        dorders = list(itertools.permutations(range(len(dn))))
        combos = [(ro, do) for ro in rorders for do in dorders]
        if len(combos) > (24 if thorough else 6):
            combos = [combos[0]] + rng.sample(combos[1:], (23 if thorough else 5))
        for ro, do in combos:
            args = ['validate'] + flags
            for i in ro:
                args += ['-r', rn[i]]
            for j in do:
                args += ['-d', dn[j]]
            jobs.append({'args': args, 'cwd': d})
            meta.append((k, 'batch', (ro, do)))
        for fl in ('-a', '-m'):
            jobs.append({'args': ['validate', '-r', 'rules', '-d', 'data', fl] + flags, 'cwd': d})
            meta.append((k, 'dir' + fl, None))
        args = ['validate', '--structured', '-o', 'junit', '-S', 'none']
        for r in rn:
            args += ['-r', r]
        for x in dn:
            args += ['-d', x]
        jobs.append({'args': args, 'cwd': d})
        meta.append((k, 'junit', None))
        payload = json.dumps({'rules': sc['rules'], 'data': [json.dumps(t) for t in sc['docs']]})
        jobs.append({'args': ['validate', '--payload'] + flags, 'cwd': d, 'stdin': payload.encode()})
        meta.append((k, 'payload', None))
        # plain mode exit code of the batch
        args = ['validate']
        for r in rn:
            args += ['-r', r]
        for x in dn:
            args += ['-d', x]
        jobs.append({'args': args, 'cwd': d})
        meta.append((k, 'plain', None))
    res = e2e.run_many(jobs)
    by = {}
    for m, r in zip(meta, res):
        by.setdefault(m[0], []).append((m[1], m[2], r))
    nb = 0
    dist = {'scenarios': 0, 'batch_runs': 0, 'pairs': 0, 'skipped_error_scenarios': 0, 'pair_status': {}}
    for k, sc in enumerate(scen):
        info = {'class': 'isolation', 'rules': sc['rules'], 'docs': sc['docs']}
        singles = {}
        bad = False
        for kind, key, (code, so, se) in by[k]:
            if kind == 'single':
                if code not in (0, 19):
                    bad = True
                    continue
                rep = reports(so)
                if rep is None or len(rep) != 1:
                    bad = True
                    continue
                singles[key] = (code, list(rep.values())[0])
        if bad:
            dist['skipped_error_scenarios'] += 1     # a pair errs or crashes alone: the batch has no report to compare (C06/C08)
            continue
        dist['scenarios'] += 1
        dist['pairs'] += len(singles)
        for (i, j), (c, fr) in singles.items():
            dist['pair_status'][fr['status']] = dist['pair_status'].get(fr['status'], 0) + 1
        nr, nd = len(sc['rules']), len(sc['docs'])
        want_exit = 19 if any(c == 19 for c, _ in singles.values()) else 0
        for kind, key, (code, so, se) in by[k]:
            if kind == 'single':
                continue
            nb += 1
            dist['batch_runs'] += 1
            if code != want_exit:
                ctx.failing('batch (%s %s) exits %s although the pairs alone give %d' % (kind, key, code, want_exit),
                            dict(info, mode=kind, order=key, stderr=se[-300:].decode('utf-8', 'replace')), found=True)
                continue
            if kind == 'plain':
                continue
            if kind == 'junit':
                # every <testsuite> (one per data file) carries the marks and the counters of its own pairs only
                import xml.etree.ElementTree as ET
                try:
                    root = ET.fromstring(so.decode())
                except ET.ParseError as e:
                    ctx.failing('batch: JUnit output is not well-formed XML: %s' % e, dict(info, mode=kind), found=True)
                    continue
                suites = list(root.iter('testsuite'))
                if len(suites) != nd:
                    ctx.failing('batch: JUnit has %d test suites for %d data files' % (len(suites), nd), dict(info, mode=kind), found=True)
                    continue
                for j, suite in enumerate(suites):
                    marks = []
                    for tc in suite.iter('testcase'):
                        marks.append('FAIL' if tc.find('failure') is not None else ('ERROR' if tc.find('error') is not None else
                                     ('SKIP' if (tc.get('status') == 'skip' or tc.find('skipped') is not None) else 'PASS')))
                    wantm = [singles[(i, j)][1]['status'] for i in range(nr)]
                    wantf = str(sum(1 for x in wantm if x == 'FAIL'))
                    if marks != wantm or suite.get('failures') != wantf or suite.get('errors') != '0':
                        ctx.failing('batch: JUnit suite of data file %d has marks %s failures=%s errors=%s; the pairs validated alone give %s failures=%s errors=0' % (
                            j, marks, suite.get('failures'), suite.get('errors'), wantm, wantf), dict(info, mode=kind, data_index=j), found=True)
                continue
            rep = reports(so)
            if rep is None or len(rep) != nd:
                ctx.failing('batch (%s) structured output has %s reports for %d data files' % (kind, None if rep is None else len(rep), nd), dict(info, mode=kind), found=True)
                continue
            for j in range(nd):
                dname = ('data/s%d/template.json' % j) if k % 2 == 1 else ('data/d%d.json' % j)
                name = ('DATA_STDIN[%d]' % (j + 1)) if kind == 'payload' else dname
                fr = rep.get(name)
                if fr is None:
                    fr = next((v for n, v in rep.items() if n.endswith(dname.split('/', 1)[1])), None)
                if fr is None:
                    ctx.failing('batch (%s): no report for data file %d' % (kind, j), dict(info, mode=kind, names=list(rep)), found=True)
                    continue
                want = union([singles[(i, j)][1] for i in range(nr)])
                got = norm_report(fr)
                if kind == 'payload':
                    # file names differ (RULES_STDIN[i]/DATA_STDIN[j]): compare verdict sets only
                    got = {x: got[x] for x in ('status', 'compliant', 'not_applicable')}
                    got['nc'] = sorted(json.loads(x)['Rule']['name'] for x in norm_report(fr)['not_compliant'] if 'Rule' in json.loads(x))
                    w = {x: want[x] for x in ('status', 'compliant', 'not_applicable')}
                    w['nc'] = sorted(json.loads(x)['Rule']['name'] for x in want['not_compliant'] if 'Rule' in json.loads(x))
                    want = w
                if got != want:
                    diff = {x: (got[x], want[x]) for x in got if got[x] != want[x]}
                    ctx.failing('batch (%s %s): report for data file %d differs from the union of the pairs validated alone: %s' % (kind, key, j, str(diff)[:400]),
                                dict(info, mode=kind, order=key, data_index=j), found=True)
    ctx.coverage['validate_distribution'] = dist
    ctx.coverage['evaluations'] += nb
    ctx.sample({'rules': scen[0]['rules'], 'docs': scen[0]['docs']})
    return dist['scenarios']


def text_cases(out):
    """the plain report of `test`, split at the `Test Case #n` lines; the numbering itself is dropped"""
    blocks, cur = [], None
    for line in out.decode('utf-8', 'replace').splitlines():
        if line.startswith('Test Case #'):
            cur = []
            blocks.append(cur)
        elif cur is not None:
            if line.strip():
                cur.append(line.rstrip())
    return blocks


def run_test_cases(ctx, n):
    """the cases of one test file vs each case run alone"""
    rng = random.Random(ctx.seed * 41 + 13)
    jobs, meta, scen = [], [], []
    for k in range(n):
        rules = rng.choice(HAND) if rng.random() < 0.5 else gen.render_file(gen.gen_pair(rng, {'cycles': 0.0, 'types': False, 'functions': False})[1])
        docs = [rng.choice(HAND_DOCS) if rng.random() < 0.5 else gen.gen_doc(rng) for _ in range(rng.choice([2, 3, 4]))]
        cases = [{'name': 'c%d' % i, 'input': dd, 'expectations': {'rules': {'r0': rng.choice(['PASS', 'FAIL', 'SKIP'])}}} for i, dd in enumerate(docs)]
        d = os.path.join(ctx.wd, 'tc%d' % k)
        files = {'r.guard': rules, 'all/t.yaml': json.dumps(cases)}
        for i, c in enumerate(cases):
            files['one%d/t.yaml' % i] = json.dumps([c])
        e2e.write_files(d, files)
        scen.append({'rules': rules, 'cases': cases})
        jobs.append({'args': ['test', '-r', 'r.guard', '-t', 'all/t.yaml', '-o', 'json'], 'cwd': d})
        meta.append((k, 'all'))
        for i in range(len(cases)):
            jobs.append({'args': ['test', '-r', 'r.guard', '-t', 'one%d/t.yaml' % i, '-o', 'json'], 'cwd': d})
            meta.append((k, i))
        # the plain-text and the verbose reports (a different reporter): case by case
        for flag in ([], ['-v']):
            jobs.append({'args': ['test', '-r', 'r.guard', '-t', 'all/t.yaml'] + flag, 'cwd': d})
            meta.append((k, ('text', tuple(flag), 'all')))
            for i in range(len(cases)):
                jobs.append({'args': ['test', '-r', 'r.guard', '-t', 'one%d/t.yaml' % i] + flag, 'cwd': d})
                meta.append((k, ('text', tuple(flag), i)))
    res = e2e.run_many(jobs)
    by = {}
    for m, r in zip(meta, res):
        by.setdefault(m[0], {})[m[1]] = r
    ok = 0
    for k, sc in enumerate(scen):
        info = {'class': 'test-isolation', 'rules': sc['rules'], 'cases': sc['cases']}
        try:
            allr = json.loads(by[k]['all'][1].decode())
            if 'test_cases' not in allr:
                continue
            ones = []
            for i in range(len(sc['cases'])):
                o = json.loads(by[k][i][1].decode())
                ones.append(o['test_cases'][0])
        except Exception:
            continue        # parse/eval errors: C06/C08
        ok += 1
        if allr['test_cases'] != ones:
            ctx.failing('the cases of one test file do not equal the cases run alone', dict(info, together=allr['test_cases'], alone=ones), found=True)
        want = 7 if any(c['failed_rules'] for c in ones) else 0
        if by[k]['all'][0] != want:
            ctx.failing('test exits %s, the cases alone give %d' % (by[k]['all'][0], want), info, found=True)
        for flag in ((), ('-v',)):
            together = text_cases(by[k][('text', flag, 'all')][1])
            alone = []
            for i in range(len(sc['cases'])):
                alone += text_cases(by[k][('text', flag, i)][1])
            if together != alone:
                ctx.failing('test %s: the text report of the cases of one file differs from the cases reported alone' % ' '.join(flag),
                            dict(info, together=together, alone=alone, flags=list(flag)), found=True)
            if by[k][('text', flag, 'all')][0] != want:
                ctx.failing('test %s exits %s, the cases alone give %d' % (' '.join(flag), by[k][('text', flag, 'all')][0], want), dict(info, flags=list(flag)), found=True)
    ctx.coverage['test_files_compared'] = ok
    ctx.coverage['evaluations'] += ok
    return ok


def run_rules_file_names(ctx):
    """rules files of which some hold no rule at all (empty, comments only, blank lines) given before, between and after the
    others, in every order, against two documents: in the JUnit report every test case is named after the rules file it belongs to
    and carries the mark that file gets on that document alone; in the JSON report the rules of a file stay with their verdict"""
    import xml.etree.ElementTree as ET
    files = {'a_empty.guard': '', 'm_comment.guard': '# only a comment\n\n', 'b.guard': 'rule b {\n  x == 2 <<x is not 2>>\n}\n', 'c.guard': 'rule c {\n  x == 1\n}\n',
             'z_skip.guard': 'rule z when y exists {\n  x == 3\n}\n', 'd1.json': '{"x": 1}', 'd2.json': '{"x": 2}'}
    alone = {('b.guard', 'd1.json'): 'FAIL', ('b.guard', 'd2.json'): 'PASS', ('c.guard', 'd1.json'): 'PASS', ('c.guard', 'd2.json'): 'FAIL',
             ('z_skip.guard', 'd1.json'): 'SKIP', ('z_skip.guard', 'd2.json'): 'SKIP'}
    d = os.path.join(ctx.wd, 'rfn')
    e2e.write_files(d, files)
    real, hollow = ['b.guard', 'c.guard', 'z_skip.guard'], ['a_empty.guard', 'm_comment.guard']
    orders = []
    for h in hollow:
        for sub in (['b.guard', 'c.guard'], ['c.guard', 'b.guard'], real):
            for pos in range(len(sub) + 1):
                o = list(sub); o.insert(pos, h); orders.append(o)
    orders.append(hollow + real); orders.append(['b.guard', 'a_empty.guard', 'c.guard', 'm_comment.guard', 'z_skip.guard'])
    jobs, meta = [], []
    for o in orders:
        for dd in (['d1.json', 'd2.json'], ['d2.json']):
            args = [x for r in o for x in ('-r', r)] + [x for y in dd for x in ('-d', y)]
            jobs.append({'args': ['validate'] + args + ['--structured', '-o', 'junit', '-S', 'none'], 'cwd': d}); meta.append((tuple(o), tuple(dd), 'junit'))
            jobs.append({'args': ['validate'] + args + ['--structured', '-o', 'json', '-S', 'none'], 'cwd': d}); meta.append((tuple(o), tuple(dd), 'json'))
    n = 0
    for (o, dd, fmt), (code, so, se) in zip(meta, e2e.run_many(jobs)):
        n += 1
        info = {'class': 'batch-rules-file-names', 'rules_files': list(o), 'data': list(dd), 'format': fmt, 'stdout': so[:900].decode('utf-8', 'replace'), 'stderr': se[-200:].decode('utf-8', 'replace')}
        mine = [r for r in o if r in real]
        if fmt == 'junit':
            try:
                root = ET.fromstring(so.decode())
            except ET.ParseError as e:
                ctx.failing('JUnit output is not well-formed XML: %s' % e, info, found=True)
                continue
            suites = list(root.iter('testsuite'))
            if len(suites) != len(dd):
                ctx.failing('JUnit has %d test suites for %d data files' % (len(suites), len(dd)), info, found=True)
                continue
            for y, suite in zip(dd, suites):
                got = [(os.path.basename(tc.get('name') or ''), 'FAIL' if tc.find('failure') is not None else ('ERROR' if tc.find('error') is not None else
                        ('SKIP' if (tc.get('status') == 'skip' or tc.find('skipped') is not None) else 'PASS'))) for tc in suite.iter('testcase')]
                want = [(r, alone[(r, y)]) for r in mine]
                if got != want:
                    ctx.failing('rules files %s on %s: the JUnit suite lists %s; file by file the verdicts are %s' % (list(o), y, got, want), info, found=True)
        else:
            try:
                rep = json.loads(so.decode())
            except Exception as e:
                ctx.failing('JSON output unreadable: %s' % e, info, found=True)
                continue
            for y, fr in zip(dd, rep):
                got = {'PASS': sorted(fr['compliant']), 'SKIP': sorted(fr['not_applicable']), 'FAIL': sorted(x['Rule']['name'] for x in fr['not_compliant'] if 'Rule' in x)}
                want = {'PASS': [], 'SKIP': [], 'FAIL': []}
                for r in mine:
                    want[alone[(r, y)]].append(r.split('.')[0].split('_')[0])
                want = {k_: sorted(v) for k_, v in want.items()}
                if got != want:
                    ctx.failing('rules files %s on %s: the JSON report has %s; file by file the verdicts are %s' % (list(o), y, got, want), info, found=True)
    ctx.coverage['rules_file_name_runs'] = n
    ctx.coverage['evaluations'] += n
    return n


def run_params_batch(ctx):
    """input parameters (-i) with several data files in one run: every data file is evaluated with the parameters, in every
    order of the data files, in plain and structured modes - the verdict of a file is the verdict of that file alone with -i"""
    files = {'r.guard': 'rule within {\n  size <= Limits.max <<too big>>\n}\nrule named {\n  Limits.name exists\n}\n', 'lim.json': '{"Limits": {"max": 10, "name": "n"}}',
             'lim2.yaml': 'Extra:\n  k: 1\n', 'd1.json': '{"size": 5}', 'd2.json': '{"size": 50}', 'd3.yaml': 'size: 7\n'}
    alone = {'d1.json': 'PASS', 'd2.json': 'FAIL', 'd3.yaml': 'PASS'}
    d = os.path.join(ctx.wd, 'pb')
    e2e.write_files(d, files)
    jobs, meta = [], []
    names = list(alone)
    for k in (2, 3):
        for od in itertools.permutations(names, k):
            for params in (['-i', 'lim.json'], ['-i', 'lim.json', '-i', 'lim2.yaml']):
                dargs = [x for y in od for x in ('-d', y)]
                for mlab, flags in (('s-json', ['--structured', '-o', 'json', '-S', 'none']), ('s-junit', ['--structured', '-o', 'junit', '-S', 'none']), ('plain', ['-S', 'all'])):
                    jobs.append({'args': ['validate', '-r', 'r.guard'] + dargs + params + flags, 'cwd': d}); meta.append((od, len(params) // 2, mlab))
    n = 0
    for (od, np_, mlab), (code, so, se) in zip(meta, e2e.run_many(jobs)):
        n += 1
        want_code = 19 if any(alone[y] == 'FAIL' for y in od) else 0
        info = {'class': 'batch-parameters', 'data': list(od), 'parameter_files': np_, 'mode': mlab, 'stdout': so[:700].decode('utf-8', 'replace'), 'stderr': se[-300:].decode('utf-8', 'replace')}
        if code != want_code:
            ctx.failing('validate -i with data files %s (%s): exit %s; each file alone with -i gives %s' % (list(od), mlab, code, [alone[y] for y in od]), info, found=True)
            continue
        if mlab == 's-json':
            try:
                rep = json.loads(so.decode())
                got = [fr['status'] for fr in rep]
            except Exception as e:
                ctx.failing('validate -i (%s): output unreadable: %s' % (mlab, e), info, found=True)
                continue
            if got != [alone[y] for y in od]:
                ctx.failing('validate -i with data files %s: statuses %s; each file alone with -i gives %s' % (list(od), got, [alone[y] for y in od]), info, found=True)
    ctx.coverage['parameter_batch_runs'] = n
    ctx.coverage['evaluations'] += n
    return n


def run_console_batches(ctx):
    """the console (non --structured) paths, enumerated: rules entries that FAIL / PASS / SKIP on a document in every order (so the entry
    that fails is first, in the middle, last), rules that name other rules whose status differs from document to document, documents in
    every order; as files (default, -v, --print-json) and as --payload without --structured. The run fails iff some pair fails alone,
    and with --print-json every document's rule statuses are those of the pair alone."""
    r_fail = 'rule needs_on {\n  versioning == "on"\n}\n'
    r_pass = 'rule has_name {\n  name exists\n}\n'
    r_skip = 'rule only_prod when env == "prod" {\n  name exists\n}\n'
    r_refs = 'rule is_prod when env == "prod" {\n  env exists\n}\nrule prod_encrypted when is_prod {\n  enc == true\n}\nrule uses {\n  is_prod or name exists\n}\nrule neg {\n  not is_prod\n}\n'
    docs = {'dev': {'env': 'dev', 'enc': False, 'name': 'a', 'versioning': 'off'}, 'prod': {'env': 'prod', 'enc': False, 'name': 'b', 'versioning': 'on'},
            'prod_ok': {'env': 'prod', 'enc': True, 'name': 'c', 'versioning': 'on'}}
    rule_sets = [[r_fail, r_pass], [r_pass, r_fail], [r_fail, r_skip], [r_skip, r_fail, r_pass], [r_fail, r_pass, r_skip], [r_pass, r_skip], [r_refs], [r_refs, r_pass], [r_fail, r_refs]]
    doc_orders = [['dev'], ['prod'], ['dev', 'prod'], ['prod', 'dev'], ['dev', 'prod_ok', 'prod'], ['prod_ok', 'dev'], ['prod', 'prod_ok', 'dev']]
    jobs, meta = [], []
    k = 0
    for rs in rule_sets:
        for do in doc_orders:
            d = os.path.join(ctx.wd, 'cb%d' % k); k += 1
            files = {}
            for i, r in enumerate(rs):
                files['r%d.guard' % i] = r
            for j, dn in enumerate(do):
                files['d%d_%s.json' % (j, dn)] = json.dumps(docs[dn])
            e2e.write_files(d, files)
            rn = ['r%d.guard' % i for i in range(len(rs))]
            dn_ = ['d%d_%s.json' % (j, x) for j, x in enumerate(do)]
            for i, r in enumerate(rn):
                for j, x in enumerate(dn_):
                    jobs.append({'args': ['validate', '-r', r, '-d', x, '-p'], 'cwd': d}); meta.append((k, 'single', (i, j), rs, do))
            base = ['validate'] + [a for r in rn for a in ('-r', r)] + [a for x in dn_ for a in ('-d', x)]
            for mode, extra in (('plain', []), ('verbose', ['-v']), ('print-json', ['-p'])):
                jobs.append({'args': base + extra, 'cwd': d}); meta.append((k, mode, None, rs, do))
            payload = json.dumps({'rules': rs, 'data': [json.dumps(docs[x]) for x in do]})
            for mode, extra in (('payload', []), ('payload-v', ['-v']), ('payload-p', ['-p'])):
                jobs.append({'args': ['validate', '--payload'] + extra, 'cwd': d, 'stdin': payload.encode()}); meta.append((k, mode, None, rs, do))
    res = e2e.run_many(jobs)
    def records(so):
        txt, out, i = so.decode('utf-8', 'replace'), [], 0
        dec = json.JSONDecoder()
        while i < len(txt):
            if txt[i] != '{':
                i += 1
                continue
            try:
                o, j = dec.raw_decode(txt, i)
            except ValueError:
                i += 1
                continue
            if isinstance(o, dict) and isinstance(o.get('container'), dict) and 'FileCheck' in o['container']:
                out.append(o)
            i = j
        return out
    def statuses(rec):
        return sorted((c['container']['RuleCheck']['name'], c['container']['RuleCheck']['status']) for c in rec.get('children', []) if isinstance(c.get('container'), dict) and 'RuleCheck' in c['container'])
    by = {}
    for m, r in zip(meta, res):
        by.setdefault(m[0], []).append((m, r))
    n = 0
    for kk, items in by.items():
        singles, any_fail = {}, False
        rs, do = items[0][0][3], items[0][0][4]
        for (k_, mode, key, _, _), (code, so, se) in items:
            if mode == 'single':
                recs = records(so)
                singles[key] = (code, statuses(recs[0]) if recs else None)
                any_fail = any_fail or code == 19
        if any(c not in (0, 19) for c, _ in singles.values()):
            continue
        want = 19 if any_fail else 0
        info = {'class': 'isolation', 'rules': rs, 'docs': [docs[x] for x in do], 'doc_order': do}
        for (k_, mode, key, _, _), (code, so, se) in items:
            if mode == 'single':
                continue
            n += 1
            if code != want:
                ctx.failing('console batch (%s): exit %s although the pairs alone give %d (rules entries %d, documents %s)' % (mode, code, want, len(rs), do), dict(info, mode=mode), found=True)
                continue
            if mode in ('print-json', 'payload-p'):
                recs = records(so)
                if len(recs) != len(rs) * len(do):
                    continue          # the record layout of this mode is C07's subject
                idx = 0
                for j in range(len(do)):
                    for i in range(len(rs)):
                        pass
                # records come grouped by rules file, then data file, or the other way round: compare as multisets of (document index, statuses)
                got = sorted(json.dumps(statuses(r)) for r in recs)
                exp = sorted(json.dumps(singles[(i, j)][1]) for i in range(len(rs)) for j in range(len(do)))
                if got != exp:
                    ctx.failing('console batch (%s): the rule statuses printed for the documents differ from those of the pairs evaluated alone (documents %s)' % (mode, do),
                                dict(info, mode=mode, printed=got, alone=exp), found=True)
    ctx.coverage['console_batch_runs'] = n
    ctx.coverage['evaluations'] += len(jobs)
    return n


def run_sarif_batches(ctx):
    """--structured -o sarif: the results listed for each data file in a run over several files are the results of that file validated
    alone - documents that are identical, that differ only in a value, that fail at the same position under the same rule and message,
    in both orders, as a directory and one by one, with one and with two rules files"""
    r1 = 'rule port {\n  port == 443 <<wrong port>>\n}\nrule named {\n  name exists\n}\n'
    r2 = 'rule port {\n  port == 443 <<wrong port>>\n}\n'      # a second rules file with a rule of the same name and message
    docs = {'dev.json': '{"port": 80, "name": "a"}', 'prod.json': '{"port": 80, "name": "a"}', 'stage.json': '{"port": 81, "name": "b"}', 'ok.json': '{"port": 443, "name": "c"}',
            'noname.json': '{"port": 80}'}
    d = os.path.join(ctx.wd, 'sarif')
    files = {'r1.guard': r1, 'r2.guard': r2}
    for nm, body in docs.items():
        files[nm] = body
        files['all/' + nm] = body
    e2e.write_files(d, files)
    def results(stdout):
        j = json.loads(stdout.decode())
        out = []
        for run in j.get('runs', []):
            for r in run.get('results', []):
                loc = (r.get('locations') or [{}])[0].get('physicalLocation', {})
                out.append((os.path.basename(loc.get('artifactLocation', {}).get('uri', '?')), r.get('ruleId'), r.get('message', {}).get('text'), json.dumps(loc.get('region'), sort_keys=True)))
        return sorted(out)
    flags = ['--structured', '-o', 'sarif', '-S', 'none']
    jobs, meta = [], []
    rule_sets = {'one rules file': ['-r', 'r1.guard'], 'two rules files': ['-r', 'r1.guard', '-r', 'r2.guard']}
    for rl, rargs in rule_sets.items():
        for nm in docs:
            jobs.append({'args': ['validate'] + rargs + ['-d', nm] + flags, 'cwd': d}); meta.append((rl, 'single', (nm,)))
        for order in (('dev.json', 'prod.json'), ('prod.json', 'dev.json'), ('dev.json', 'stage.json', 'prod.json'), ('ok.json', 'dev.json', 'prod.json'), ('noname.json', 'dev.json'),
                      ('dev.json', 'noname.json', 'prod.json', 'ok.json', 'stage.json')):
            jobs.append({'args': ['validate'] + rargs + sum((['-d', x] for x in order), []) + flags, 'cwd': d}); meta.append((rl, 'batch', order))
        jobs.append({'args': ['validate'] + rargs + ['-d', 'all'] + flags, 'cwd': d}); meta.append((rl, 'batch', tuple(sorted(docs))))
    res = {}
    n = 0
    for (rl, kind, order), (code, so, se) in zip(meta, e2e.run_many(jobs)):
        try:
            rr = results(so)
        except Exception as e:
            ctx.failing('validate -o sarif (%s, %s) printed no readable SARIF (exit %s)' % (rl, list(order), code), {'class': 'sarif-batch', 'stdout': so[:300].decode('utf-8', 'replace'), 'stderr': se[-300:].decode('utf-8', 'replace')}, found=True)
            continue
        if kind == 'single':
            res[(rl, order[0])] = rr
            continue
        n += 1
        want = sorted(x for nm in order for x in res.get((rl, nm), []))
        if rr != want:
            missing = [x for x in want if x not in rr]
            extra = [x for x in rr if x not in want]
            ctx.failing('validate -o sarif over %s (%s): the results are not those of the files validated alone (missing %d, unexpected %d)' % (list(order), rl, len(missing), len(extra)),
                        {'class': 'sarif-batch', 'rules_files': rl, 'documents': list(order), 'missing': missing[:6], 'unexpected': extra[:6]}, found=True)
    ctx.coverage['sarif_batches'] = n
    ctx.coverage['evaluations'] += len(jobs)
    return n


def run(ctx):
    ctx.build(cli=True)
    pr = ctx.proofs('C12')
    thorough = ctx.tier == 'thorough'
    inv_problems = []
    for kind in ('root_scope', 'static'):
        cur, problems, rev = inventory.compare(kind)
        ctx.coverage['inventory_' + kind] = len(cur)
        inv_problems += ['%s: %s' % (kind, p) for p in problems]
    n1 = run_validate(ctx, 120 if thorough else 24, thorough)
    n2 = run_test_cases(ctx, 100 if thorough else 20) + run_rules_file_names(ctx) + run_params_batch(ctx) + run_console_batches(ctx) + run_sarif_batches(ctx)
    ctx.coverage['distinct_nontrivial'] = n1 + n2
    ctx.coverage['rule'] = ('scenario = 1..3 rules files (hand-written files reusing the names v, r0, r1, r2 and the capture variable k with different meanings, '
                            'and generated programs whose names collide) x 1..4 documents; every pair alone, then the batch in up to %d orders of -r/-d, as '
                            'directories with -a and -m, as --payload and in plain mode; distinct = scenarios whose pairs all evaluate' % (24 if thorough else 6))
    ctx.coverage['trusted_base'] = [
        'Coq 8.16.1 kernel (coqc); no axioms',
        'hand-written models Batch.v/Cli.v/SEval.v (modelled, not verified); that the code builds a fresh root scope per pair and keeps no mutable '
        'static is certified by the inventories tools/gv/inventory.py (pattern-based) against /verif/inventory/{root_scope,static}.json',
        'CLI runs + python comparison of structured reports',
    ]
    ctx.assumptions = ['scenarios in which a pair alone errs or crashes are skipped here (C06/C08)',
                       'payload runs are compared on verdict sets only (the reported file names differ by construction)']
    if inv_problems:
        ctx.failing('the evaluation-state inventory changed: %s' % inv_problems[:4], {'class': 'inventory', 'problems': inv_problems}, found=False)
    if not pr['ok']:
        ctx.failing('proof obligations of Props/C12.v no longer check: %s' % (pr.get('problems') or pr.get('log', '')[-500:]),
                    {'class': 'proof', 'theorems': pr['theorems']}, found=False)


def replay(ctx, path):
    j = json.load(open(path))
    for v in j.get('violations', []):
        print(json.dumps(v, indent=1)[:3000])
    return 0
