(* ClauseProps.v — the sentences of C01 about unresolved paths, empty selections and emptiness tests, over the
   model of the implementation (Operators.v / SEval.v) and over the documented semantics (Spec.v). *)
From GV.Model Require Import SEval Spec.
From GV.Proofs Require Import EvalLaws.

Section P.
Variable re : re_oracle.

Lemma omapM_in_preserved : forall A B (f : A -> outcome B) (P : A -> B -> Prop) l out,
  omapM f l = Done out -> (forall x y, f x = Done y -> P x y) ->
  forall x, In x l -> exists y, In y out /\ P x y.
Proof.
  induction l as [|a l IH]; intros out H HP x Hin; [destruct Hin|].
  cbn in H. destruct (f a) as [b| | | |] eqn:Ea; try discriminate. cbn in H.
  destruct (omapM f l) as [bs| | | |] eqn:El; try discriminate. cbn in H. inversion H; subst.
  destruct Hin as [->|Hin].
  - exists b. split; [now left|auto].
  - destruct (IH bs eq_refl HP x Hin) as (y & Hy & Hp). exists y. split; [now right|assumption].
Qed.

Lemma in_selected_unres : forall lhs u, In (QUnResolved u) lhs -> In u (selected_unres lhs).
Proof.
  induction lhs as [|x l IH]; intros u H; [destruct H|].
  destruct H as [->|H]; cbn; [now left|]. destruct x; cbn; auto.
Qed.

Lemma unresolved_not_literal : forall lhs u, In (QUnResolved u) lhs -> is_literal lhs = None.
Proof.
  intros lhs u H. destruct lhs as [|x [|y l]].
  - destruct H.
  - destruct H as [->|H]; [reflexivity|destruct H].
  - cbn. now destruct x.
Qed.

Lemma obind_inv : forall A B (m : outcome A) (f : A -> outcome B) b,
  obind m f = Done b -> exists a, m = Done a /\ f a = Done b.
Proof. intros A B m f b H. destruct m; cbn in H; try discriminate. eauto. Qed.

Ltac keep_r1 H :=
  cbv zeta in H;
  repeat match type of H with
         | obind _ _ = Done _ => let a := fresh "a" in let Ha := fresh "Ha" in apply obind_inv in H as (a & Ha & H)
         end;
  inversion H; subst; apply in_or_app; left; apply in_map; assumption.

Lemma eq_compare_unres : forall lhs rhs l u,
  eq_compare re lhs rhs = Done l -> is_literal lhs = None -> In u (selected_unres lhs) -> In (VLhsUnresolved u) l.
Proof.
  intros lhs rhs l u H Hl Hu. unfold eq_compare in H. rewrite Hl in H.
  destruct (is_literal rhs) as [r|].
  - destruct r; keep_r1 H.
  - keep_r1 H.
Qed.

Lemma in_compare_unres : forall lhs rhs l u,
  in_compare re lhs rhs = Done l -> is_literal lhs = None -> In u (selected_unres lhs) -> In (VLhsUnresolved u) l.
Proof.
  intros lhs rhs l u H Hl Hu. unfold in_compare in H. rewrite Hl in H.
  destruct (is_literal rhs) as [r|]; keep_r1 H.
Qed.

Lemma common_compare_unres : forall f lhs rhs l u,
  common_compare f lhs rhs = Done l -> In u (selected_unres lhs) -> In (VLhsUnresolved u) l.
Proof. intros f lhs rhs l u H Hu. unfold common_compare in H. keep_r1 H. Qed.

(* every comparison operator reports an unresolved left-hand value as such ... *)
Lemma op_compare_keeps_unresolved : forall o lhs rhs l u,
  op_compare re o lhs rhs = Done (EResult l) -> In (QUnResolved u) lhs -> In (VLhsUnresolved u) l.
Proof.
  intros o lhs rhs l u H Hin.
  pose proof (in_selected_unres lhs u Hin) as Hu.
  pose proof (unresolved_not_literal lhs u Hin) as Hl.
  unfold op_compare in H.
  destruct lhs as [|x lhs']; [destruct Hin|]. destruct rhs as [|y rhs']; [discriminate|].
  destruct o; try discriminate;
    apply obind_inv in H as (r & Hr & H); inversion H; subst;
    eauto using eq_compare_unres, in_compare_unres, common_compare_unres.
Qed.

(* ... under both polarities: negation never turns an unresolved value into a success *)
Theorem unresolved_cmp_fails : forall c lhs rhs l u,
  cmp_compare re c lhs rhs = Done (EResult l) -> In (QUnResolved u) lhs ->
  In (VLhsUnresolved u) l /\
  forall custom, In (CComparison c (QUnResolved u) None false custom FAIL, QUnResolved u, FAIL)
                    (flat_map (report_binary c custom) l).
Proof.
  intros [o neg] lhs rhs l u H Hin. unfold cmp_compare in H. cbn [fst snd] in H.
  destruct (op_compare re o lhs rhs) as [[|l0]| | | |] eqn:E; cbn in H; try discriminate.
  assert (H0 : In (VLhsUnresolved u) l0) by (eapply op_compare_keeps_unresolved; eauto).
  assert (Hl : In (VLhsUnresolved u) l).
  { destruct neg.
    - destruct (omapM _ l0) as [l'| | | |] eqn:Em; cbn in H; try discriminate. inversion H; subst.
      destruct (omapM_in_preserved _ _ _ (fun x y => x = VLhsUnresolved u -> y = VLhsUnresolved u) _ _ Em) with (x := VLhsUnresolved u)
        as (y & Hy & Hp); auto.
      + intros x y Hxy ->. cbn in Hxy. now inversion Hxy.
      + rewrite <- (Hp eq_refl). exact Hy.
    - inversion H; subst. exact H0. }
  split; [exact Hl|]. intros custom. apply in_flat_map. exists (VLhsUnresolved u). split; [exact Hl|now left].
Qed.

(* an unresolved path counts as `empty` and as `not exists`, under either spelling of the negation *)
Theorem unresolved_is_empty_not_exists : forall u,
  unary_op (OExists, false) false exists_operation (QUnResolved u) = Done false /\
  unary_op (OExists, true) false exists_operation (QUnResolved u) = Done true /\
  unary_op (OExists, false) true exists_operation (QUnResolved u) = Done true /\
  unary_op (OEmpty, false) false element_empty_operation (QUnResolved u) = Done true /\
  unary_op (OEmpty, true) false element_empty_operation (QUnResolved u) = Done false /\
  forall t n, unary_op (t, n) false (is_type_operation TString) (QUnResolved u) = Done n.
Proof. intros. repeat split; intros; cbn; try reflexivity. now destruct n. Qed.

(* an empty selection: every comparison is skipped *)
Theorem empty_selection_compare_skips : forall c rhs, cmp_compare re c [] rhs = Done ESkip.
Proof. intros [o n] rhs. reflexivity. Qed.

(* `empty` is undefined on numbers and null: an evaluation error, not a verdict *)
Theorem empty_on_number_is_an_error : forall p z f,
  element_empty_operation (QResolved (PInt p z)) = Err EIncompatible /\
  element_empty_operation (QResolved (PFloat p f)) = Err EIncompatible /\
  element_empty_operation (QResolved (PNull p)) = Err EIncompatible.
Proof. intros. repeat split. Qed.

(* the same sentences hold of the documented semantics *)
Theorem spec_sentences : forall o neg r lit p z,
  check_value re o neg SMiss r = SOk [FAIL] /\
  unary_value OExists SMiss = SOk false /\ unary_value OEmpty SMiss = SOk true /\
  unary_value OEmpty (SV lit (PInt p z)) = SUndef.
Proof. intros. repeat split. Qed.

End P.

(* clause level: a clause whose query selects nothing is SKIP (binary and non-emptiness unary), a block whose query
   selects nothing is SKIP unless written with !empty *)
Theorem empty_selection_clause_skips : forall re r aq c w custom negation s recs s',
  fst c <> OEmpty \/ True ->
  ctx_query r (aq_query aq) s = Done ([], recs, s') ->
  is_unary (fst c) = false ->
  forall wv rhs recs2 s2,
    w = Some wv ->
    (match wv with
     | LValue v => ret [QLiteral v]
     | LAccess a => ctx_query r (aq_query a)
     | LFunction ps n => ev_fn r n ps
     end) s = Done (rhs, recs2, s2) ->
    ctx_query r (aq_query aq) s2 = Done ([], recs, s') ->
    exists recs', access_clause_body re r (GuardAccessClause aq c w custom negation) s = Done (SKIP, recs', s').
Proof.
  intros re r aq c w custom negation s recs s' _ _ Hun wv rhs recs2 s2 -> Hrhs Hq.
  unfold access_clause_body. rewrite Hun. unfold node, bind.
  rewrite Hrhs. unfold binary_operation, bind. rewrite Hq.
  destruct negation; cbn; eexists; reflexivity.
Qed.

Theorem empty_selection_block_skips : forall r aq b s recs s',
  ctx_query r (aq_query aq) s = Done ([], recs, s') ->
  exists recs', block_clause_body r aq b false s = Done (SKIP, recs', s') /\
  exists recs'', block_clause_body r aq b true s = Done (FAIL, recs'', s').
Proof.
  intros r aq b s recs s' H. unfold block_clause_body, node, bind. rewrite H. cbn.
  eexists. split; [reflexivity|]. eexists. reflexivity.
Qed.
