#!/usr/bin/env python3
"""adds my own confirmation (tools/confirm_mutant.sh log) to seeded/<id>/meta.json"""
import json, sys, os, re
for mid in sys.argv[1:]:
    prop = mid.split('-')[0]
    d = '/verif/seeded/' + mid
    try:
        m = json.load(open(d + '/meta.json'))
    except Exception as e:
        m = {'property': prop, 'summary': '(meta.json unreadable: %s)' % e}
    if 'confirmed_by_me' in m:
        continue
    log = ''
    for pat in ('/tmp/seeded-out/confirm-%s.log', '/tmp/seeded-out/confirm2-%s.log'):
        if os.path.exists(pat % prop):
            log += open(pat % prop).read()
    sec = log.split('== ' + mid)[1].split('== ')[0].strip() if ('== ' + mid) in log else ''
    out = {'property': m.get('property', prop), 'breaks': m.get('summary'), 'needs': m.get('needs'), 'files': m.get('files'),
           'author': 'fresh sub-agent given only the property text and a scratch worktree', 'agent_ran': m.get('ran'),
           'confirmed_by_me': {'script': 'tools/confirm_mutant.sh <scratch worktree at /repo HEAD> <dir>', 'result': sec}}
    json.dump(out, open(d + '/meta.json', 'w'), indent=1)
    print(mid, 'CONFIRMED' in sec)
