#!/bin/bash
# usage: benign_lab.sh <out.tsv> <dir-with-patch.diff> ...  — applies each semantics-preserving patch to a scratch worktree and runs
# EVERY check's quick tier in a scratch copy of /verif: any VIOLATION is a false alarm of the machinery (or the patch is not benign).
OUT=$1; shift
LAB=${LAB:-/tmp/mutverif}; WT=${WT:-/tmp/wt/mut}
mkdir -p $LAB
rsync -a --delete --exclude .cache --exclude work --exclude .git --exclude evidence /verif/ $LAB/
sed -i "s#/repo/guard#$WT/guard#" $LAB/harness/Cargo.toml
if [ ! -d $WT ]; then git -C /repo worktree add --detach $WT HEAD >/dev/null 2>&1; fi
git -C $WT checkout -q -- . ; git -C $WT checkout -q --detach "$(git -C /repo rev-parse HEAD)"
cp -n /repo/Cargo.lock $LAB/harness/Cargo.lock 2>/dev/null
export VERIF_DIR=$LAB REPO_DIR=$WT VERIF_EVIDENCE_DIR=$LAB/evidence-mut VERIF_JOBS=${VERIF_JOBS:-8}
for d in "$@"; do
  id=$(basename $d)
  git -C $WT checkout -q -- .
  if ! git -C $WT apply $d/patch.diff 2>/dev/null; then echo -e "$id\t-\tPATCH-DOES-NOT-APPLY" >> $OUT; continue; fi
  for c in C01 C02 C03 C04 C05 C06 C07 C08 C09 C10 C11 C12 C13 C14 C15 C16 C17 C18 C19; do
    full=$(cd $LAB && timeout 1500 ./check $c quick 2>&1)
    if echo "$full" | grep -q "^VIOLATION property=$c"; then v=ALARM; elif echo "$full" | grep -q "^OK property"; then v=ok; else v=other; fi
    res=$(echo "$full" | grep -v "^KNOWN-FINDING" | tail -3 | tr '\n' ' ' | cut -c1-400)
    if [ "$v" != "ok" ]; then echo -e "$id\t$c\t$v\t$res" >> $OUT; fi
  done
  echo -e "$id\tall\tdone" >> $OUT
  git -C $WT checkout -q -- .
done
echo DONE >> $OUT
