(* QuerySpellExample.v — the premises of query_spelling_parses are met by a spelling with every construct in it. *)
From Coq Require Import Lia.
From GV.Model Require Import Ast.
From GV.Model Require Import ValueParse QueryParse.
From GV.Proofs Require Import LexProps ValueParseProps ValueSpellProps ValueSpellExample QueryParseProps QuerySpellProps.
Local Open Scope string_scope.

Definition ex_query : cquery :=
  mkCQ (Some (" ", true, " # which" +++ nl +++ " ")) (CVar "buckets")
       [CBrStar EmptyString " " EmptyString; CDotKey (nl +++ "  ") KBare "Properties"; CBrKey EmptyString true "a b" " ";
        CDotIndex EmptyString false "007"; CBrIndex " " true "1" (" #i" +++ nl); CDotVar EmptyString "k"; CDotStar " ";
        CDotKey EmptyString (KQuoted false) "it's"; CBrName EmptyString "idx" EmptyString].

Definition ex_plain : cquery :=
  mkCQ (Some (EmptyString, false, " ")) (CVar "buckets")
       [CBrStar EmptyString EmptyString EmptyString; CDotKey EmptyString (KQuoted true) "Properties"; CDotKey EmptyString (KQuoted false) "a b";
        CBrIndex EmptyString false "7" EmptyString; CDotIndex EmptyString true "01"; CDotVar EmptyString "k"; CDotStar EmptyString;
        CBrKey EmptyString true "it's" EmptyString; CBrName EmptyString "idx" EmptyString].

Ltac wf_tac := cbn; unfold wf_name, wf_digits, no_keyword_prefix;
  repeat first [ split | apply Forall_cons | apply Forall_nil | apply layout_dec_sound; reflexivity | discriminate | reflexivity
               | (eexists; eexists; split; [reflexivity|split; reflexivity]) | (vm_compute; discriminate) ].

Example ex_query_wf : qwf ex_query.
Proof. unfold qwf, ex_query. wf_tac. Qed.
Example ex_plain_wf : qwf ex_plain.
Proof. unfold qwf, ex_plain. wf_tac. Qed.

Example ex_query_end : query_end " == 1".
Proof. unfold query_end, name_end. cbn. repeat split; discriminate. Qed.

Example ex_query_parses :
  access_top (qrender ex_query +++ " == 1") = POk (qdenote ex_query) " == 1" /\
  qdenote ex_query = AccessQuery [QKey "%buckets"; QAllIndices None; QKey "Properties"; QKey "a b"; QIndex 7; QIndex (-1); QKey "%k"; QAllValues None;
                                  QKey "it's"; QAllIndices (Some "idx")] false /\
  qdenote ex_plain = qdenote ex_query /\ qrender ex_plain <> qrender ex_query.
Proof.
  split; [apply query_spelling_parses; [exact ex_query_wf|exact ex_query_end]|]. split; [reflexivity|]. split; [reflexivity|]. vm_compute. discriminate.
Qed.
