(* ClauseFParse.v — the access clause of ClauseParse.v, generic in the query parser, and its instance over the parser with filters
   (FilterParse.access_f): clauses such as `Resources.*[ Type == 'T' ].Properties.X == %allowed[ k | v exists ]`.  With the
   filter-free parser as the instance it is ClauseParse.clause (ClauseFProps).  No proofs here. *)
From GV.Model Require Import Ast.
From GV.Model Require Import ValueParse QueryParse OpParse ClauseParse CnfParse FilterParse.
Local Open Scope string_scope.

Section Generic.
Context {Q : Type}.
Variable qp : nat -> string -> pres Q.         (* the query parser, with its fuel *)
Variable regex_valid : string -> bool.

Inductive grhs := GLit (l : lit) | GQuery (q : Q).
Record gclause := mkGC { gc_neg : bool; gc_query : Q; gc_cmp : cmp_op * bool; gc_rhs : option grhs; gc_msg : option string }.

Definition gwith_message (neg : bool) (q : Q) (c : cmp_op * bool) (w : option grhs) (s : string) : pres gclause :=
  pmap (fun m => mkGC neg q c w m) (opt_message s).

Definition gfail {X} (x : pres X) : pres gclause :=
  match x with POk _ _ => PUnk | PErr => PErr | PFail => PFail | PUnk => PUnk | POof => POof end.

Definition gclause_parse (fuel : nat) (s : string) : pres gclause :=
  let s0 := skip_ws_comments s in
  let '(neg, s1) := match not_kw s0 with Some r => (true, r) | None => (false, s0) end in
  match qp fuel s1 with
  | POk q r1 =>
      match value_cmp (skip_ws_comments r1) with
      | POk c r2 =>
          if is_unary (fst c) then gwith_message neg q c None r2
          else
            match parse_value regex_valid fuel r2 with
            | POk l r3 => gwith_message neg q c (Some (GLit l)) r3
            | PErr =>
                let t := skip_ws_comments r2 in
                match function_like t with
                | PErr =>
                    match qp fuel t with
                    | POk q2 r3 => gwith_message neg q c (Some (GQuery q2)) r3
                    | PErr => PFail
                    | other => gfail other
                    end
                | other => gfail other
                end
            | other => gfail other
            end
      | other => gfail other
      end
  | other => gfail other
  end.
End Generic.

Arguments GLit {Q} l.
Arguments GQuery {Q} q.
Arguments mkGC {Q} gc_neg gc_query gc_cmp gc_rhs gc_msg.
Arguments gc_neg {Q} g.
Arguments gc_query {Q} g.
Arguments gc_cmp {Q} g.
Arguments gc_rhs {Q} g.
Arguments gc_msg {Q} g.

Definition clause_f (regex_valid : string -> bool) (fuel : nat) (s : string) : pres (gclause (Q := fquery)) :=
  gclause_parse (access_f regex_valid) regex_valid fuel s.
Definition clause_f_top (regex_valid : string -> bool) (s : string) : pres (gclause (Q := fquery)) :=
  clause_f regex_valid (S (S (S (S (String.length s))))) s.

(* ---------------------------------------------------------------- the tie *)
Inductive impl_frhs := IFRNone | IFRLit (l : lit) | IFRQuery (parts : list impl_fpart) (all : bool) | IFROther.
Inductive impl_fclause :=
| IFCOk (neg : bool) (parts : list impl_fpart) (all : bool) (o : cmp_op) (n : bool) (w : impl_frhs) (msg : option string) (offset : N)
| IFCError | IFCFailure | IFCOther.

Definition fquery_agree (q : fquery) (parts : list impl_fpart) (all : bool) : bool :=
  list_agree fpart_agree (fq_parts q) parts && Bool.eqb (fq_all q) all.
Definition frhs_agree (w : option (grhs (Q := fquery))) (i : impl_frhs) : bool :=
  match w, i with
  | None, IFRNone => true
  | Some (GLit a), IFRLit b => lit_eqb a b
  | Some (GQuery q), IFRQuery parts all => fquery_agree q parts all
  | _, _ => false
  end.

Definition clause_f_obs (regex_valid : string -> bool) (text : string) (i : impl_fclause) : pcl_verdict :=
  match clause_f_top regex_valid text, i with
  | PUnk, _ => PLNotModelled
  | POk c r, IFCOk neg parts all o n w msg off =>
      if Bool.eqb (gc_neg c) neg && fquery_agree (gc_query c) parts all && cmp_op_eqb (fst (gc_cmp c)) o && Bool.eqb (snd (gc_cmp c)) n
         && frhs_agree (gc_rhs c) w && ostr_eqb (gc_msg c) msg && N.eqb (N.of_nat (String.length text - String.length r)) off
      then PLAgree else PLDisagree
  | PErr, IFCError => PLAgreeReject
  | PFail, IFCFailure => PLAgreeReject
  | _, _ => PLDisagree
  end.
