"""C01 — rule verdicts equal the documented semantics of clauses, queries and blocks.

proof   : Props/C01.v (the sentences of the statement about unresolved paths, empty selections and emptiness tests, over
          SEval/Operators; aggregation laws)
tie     : SEval vs implementation (status, error kind, whole record tree) on the same generated programs
monitor : Spec.v - an independent, stateless reading of the documented semantics written in Gallina (no memo, no
          status cache, no records) - is evaluated by Coq on the AST the implementation parsed and the value it loaded;
          its verdict table (every rule + the file, or "undefined") must equal what the implementation reports.
          Generated programs of the core fragment x documents, plus the exhaustive enumeration of single-clause programs
          over a fixed query / operator / literal / document universe.
"""
import json, random, re, itertools
from .. import coqterm as ct
from .. import impl, model, corr, gen
from ..common import *

FUEL = 40
CORE = {'functions': False, 'types': True, 'params': False, 'keys': False, 'query_rhs': False, 'captures': False, 'cycles': 0.0}
HEADER = 'From GV.Model Require Import CheckSpec.\n'


def spec_cases(pairs, wd, tag):
    """pairs: list of dict(rules, data). returns list of (verdict text or None, raw op result, info)"""
    ops = [{'op': 'eval', 'rules': p['rules'], 'data': p['data'], 'loader': p.get('loader', 'cli')} for p in pairs]
    res = impl.run_ops_parallel(ops, wd, tag + '.eval')
    cases, skipped = [], {}
    out = [None] * len(pairs)
    # regex tables
    oops, spans = [], {}
    prelim = {}
    for i, r in enumerate(res):
        d = r.get('res') if isinstance(r, dict) else None
        if 'panic' in r or 'abort' in r or 'timeout' in r:
            out[i] = ('crash', r)
            continue
        if not isinstance(d, dict) or d.get('ast', [None])[0] != 'Ok' or d.get('doc', [None])[0] != 'Ok':
            out[i] = ('unparsed', r)
            continue
        prelim[i] = d
        o = [x for x in corr.oracle_ops(d['ast'][1], d['doc'][1]) if x['op'] == 'regex']
        spans[i] = (len(oops), len(o))
        oops.extend(o)
    ores = impl.run_ops_parallel(oops, wd, tag + '.oracle') if oops else []
    for i, d in prelim.items():
        a, n = spans[i]
        rt, _ = corr.tables(oops[a:a + n], ores[a:a + n])
        try:
            defs = ('Definition p%d : rules_file := %s.\nDefinition d%d : pv := %s.\nDefinition i%d : impl_result := %s.\nDefinition rt%d : re_table := %s.'
                    % (i, ct.rules_file(d['ast'][1]), i, ct.pv(d['doc'][1]), i, ct.impl_result(d['result']), i, rt))
        except (ct.TranslateError, KeyError, AssertionError, TypeError) as e:
            out[i] = ('untranslatable', str(e))
            continue
        cases.append((i, defs, 'c01_check %d rt%d p%d d%d i%d' % (FUEL, i, i, i, i)))
        out[i] = ('case', d)
    verdicts, errors = model.eval_cases(cases, wd, tag, header=HEADER, per_file=50)
    if errors:
        raise ToolingError('model evaluation failed: %r' % (errors[:1],))
    final = []
    for i, p in enumerate(pairs):
        kind, payload = out[i]
        if kind == 'case':
            final.append((verdicts.get(i, 'NoModelOutput'), payload))
        else:
            final.append((kind, payload))
    return final


def alias_explains(ctx, d):
    """does the undocumented case-converter fallback (eval_context.rs 539-569) explain a disagreement? true when some key of
    the rules file misses in the document as written but one of its seven cruet conversions is a key of the document"""
    keys = ct.collect_keys(d['ast'][1])
    dockeys = ct.collect_strings(d['doc'][1])
    ops = [{'op': 'cruet', 'key': k} for k in sorted(keys)]
    if not ops:
        return False
    res = impl.run_ops(ops, ctx.wd, 'c01alias')
    for op, r in zip(ops, res):
        for conv in (r.get('res') or []):
            if conv != op['key'] and conv in dockeys and op['key'] not in dockeys:
                return True
    return False


def judge(ctx, pairs, results, stats):
    n = 0
    for p, (v, d) in zip(pairs, results):
        key = v.split(' ')[0] if isinstance(v, str) else str(v)
        stats[key] = stats.get(key, 0) + 1
        if key in ('C01Agree', 'C01AgreeUndef'):
            n += 1
        elif key in ('C01NotCovered', 'crash', 'unparsed', 'untranslatable'):
            pass
        else:
            impl_sum = d['result'][0] + ' ' + (d['result'][1] if isinstance(d['result'][1], str) else '') if isinstance(d, dict) else ''
            cls = 'alias-fallback' if isinstance(d, dict) and alias_explains(ctx, d) else 'spec-disagreement'
            ctx.failing('the implementation reports %s, the documented semantics says otherwise: %s' % (impl_sum, v),
                        {'class': cls, 'verdict': v, 'rules': p['rules'], 'data': p['data']}, found=True)
    return n


def generated(ctx, nprog):
    rng = random.Random(ctx.seed * 101 + 1)
    pairs = []
    for i in range(nprog):
        doc, prog = gen.gen_pair(rng, CORE)
        text = gen.render_file(prog)
        pairs.append({'rules': text, 'data': json.dumps(doc)})
        if rng.random() < 0.5:
            pairs.append({'rules': text, 'data': json.dumps(gen.gen_doc(rng))})
    # the recorded deviation is replayed on every run
    pairs.append({'rules': 'rule alias { bucket_name == 1 }\n', 'data': '{"BucketName": 1}'})
    res = spec_cases(pairs, ctx.wd, 'c01gen')
    stats = {}
    n = judge(ctx, pairs, res, stats)
    ctx.coverage['generated_pairs'] = len(pairs)
    ctx.coverage['generated_verdicts'] = stats
    ctx.coverage['evaluations'] += len(pairs)
    ctx.sample({'rules': pairs[0]['rules'], 'data': pairs[0]['data'], 'spec_vs_impl': res[0][0]})
    return n, pairs


DOCS = [
    {"a": 1, "s": "ab", "l": [1, 2, 3], "e": [], "m": {"k": 1, "j": "x"}, "em": {}, "n": None, "b": True, "f": 1.5,
     "lm": [{"k": 1, "t": "x", "sub": [{"x": 1, "y": 1}]}, {"k": 5, "sub": [{"x": 2, "y": 1}]}, {"j": 2, "sub": []}], "ll": [[1, 2], [3]], "ls": ["a", "ab"]},
    {"a": "1", "s": "", "l": [], "e": [0], "m": {}, "lm": [], "b": False, "f": 2, "n": 0},
    {"a": [1], "l": [3, 2, 1], "m": {"k": [1, 2]}, "lm": [{"k": [1, 5]}, {"k": "5"}], "s": "abc", "k": 5, "x": 1},
]
QUERIES = ['a', 's', 'l', 'l[*]', 'l[0]', 'l[7]', 'e', 'e[*]', 'm', 'm.k', 'm.*', 'm.zz', 'zz', 'zz.k', 'lm[*].k', 'lm[ k == 5 ].k',
           'lm[ k == 77 ]', 'lm[ k exists ].t', 'ls[*]', 'll[*]', 'll', 'n', 'b', 'f', 'this', 'em', 'em.*', 'lm.*.k', 'm[ this == 1 ]',
           'lm[*][ k == 5 ].t', 'lm[*][ k exists ]', 'l[*][ this == 1 ]', 'm[*][ k == 1 ]', 'lm[*].sub[*][ x == 1 ].y', 'm.*[ this == 1 ]',
           'lm[ sub[ x == 99 ].y == 1 ].k', 'lm[ sub[ x == 1 ].y == 1 ].k', 'lm[ sub[ x == 99 ] empty ].k', 'lm[ zz == 1 or k == 5 ].k']
LITERALS = ['1', '5', '"ab"', '"a"', '""', '1.5', 'true', 'null', '[1, 2, 3]', '[1]', '[]', '["a", "ab"]', '[[1, 2], [3]]', '{k: 1, j: "x"}',
            'r[1,3]', 'r(1,3)', '/^a/', '[5, 1]', '[1, 2]', '2']
BLOCK_QUERIES = ['lm[*]', 'lm[*].sub[*]', 'lm[*].t', 'm', 'zz', 'l[*]', 'lm[ k exists ]', 'lm[ k == 77 ]', 'lm[*].k']
BLOCK_BODIES = ['k exists', 'this exists', 'when k == 5 {\n      t !exists\n    }', 'when zz exists {\n      k == 1\n    }', 'k == 1 or\n    t exists',
                'x == 1', 'when this is_string {\n      this == "x"\n    }', 'this is_int']
UNOPS = ['exists', 'empty', 'is_string', 'is_list', 'is_struct', 'is_int', 'is_bool', 'is_float', 'is_null']
BINOPS = ['==', '!=', 'in', 'not in', '>', '>=', '<', '<=']


def exhaustive(ctx, sample):
    """all single-clause programs q [some] op rhs over the fixed universe, x prefix not, x documents"""
    rng = random.Random(ctx.seed * 101 + 2)
    clauses = []
    for q in QUERIES:
        for some in ('', 'some '):
            for neg in ('', 'not '):
                for op in UNOPS:
                    for opn in ('', '!'):
                        clauses.append('%s%s%s %s%s' % (neg, some, q, opn, op))
                for op in BINOPS:
                    for lit in LITERALS:
                        clauses.append('%s%s%s %s %s' % (neg, some, q, op, lit))
    # block clauses: selections with unresolved members, bodies that PASS / FAIL / SKIP per value
    blocks = []
    for q in BLOCK_QUERIES:
        for some in ('', 'some '):
            for body in BLOCK_BODIES:
                blocks.append('%s%s {\n    %s\n  }' % (some, q, body))
            blocks.append('%s%s !empty {\n    this exists\n  }' % (some, q))
    total = (len(clauses) + len(blocks)) * len(DOCS)
    if sample is not None and sample < len(clauses):
        # the emptiness / existence tests (special-cased in the evaluator) and the block clauses always; a seeded sample of the rest
        core = [c for c in clauses if re.search(r'(exists|empty)$', c)]
        rest = [c for c in clauses if c not in set(core)]
        clauses = core + rng.sample(rest, sample)
    clauses = clauses + blocks
    pairs = []
    per_file = 25
    for di, doc in enumerate(DOCS):
        for k in range(0, len(clauses), per_file):
            chunk = clauses[k:k + per_file]
            text = ''.join('rule r%d {\n  %s\n}\n' % (i, c) for i, c in enumerate(chunk))
            pairs.append({'rules': text, 'data': json.dumps(doc), 'loader': 'json'})
    res = spec_cases(pairs, ctx.wd, 'c01exh')
    stats = {}
    n = judge(ctx, pairs, res, stats)
    ctx.coverage['single_clause_programs_total'] = total
    ctx.coverage['single_clause_programs_run'] = len(clauses) * len(DOCS)
    ctx.coverage['single_clause_file_verdicts'] = stats
    ctx.coverage['exhaustive'] = sample is None
    ctx.coverage['evaluations'] += len(clauses) * len(DOCS)
    return n


VDEFS = ['lm', 'lm[*]', 'm', 'l', 'l[*]', 'a', 'zz', 'lm[ k exists ]', 'lm[*].sub', '"x"', '[1, 5]', 'll']
VUSES = ['%v', '%v[*]', '%v[ k exists ]', '%v[ k == 5 ].k', '%v.k', '%v[0]', '%v[0].k', '%v[ this == 1 ]', '%v.*', '%v[ x == 1 ].y', '%v[*][ k exists ].t',
         '%v[ sub[ x == 1 ] !empty ].k']
VOPS = ['exists', '!exists', 'empty', '!empty', 'is_list', '== 1', '== 5', '!= 1', 'in [1, 5]', 'not in [1, 5]', '== "x"', '>= 2']


def variables(ctx, sample):
    """single clauses whose query starts with a variable: definition x use x operator x all/some x prefix not, x documents.
    (`%v[ filter ]` tests each value of the variable; a filter after `[*]` likewise)"""
    rng = random.Random(ctx.seed * 101 + 3)
    pairs = []
    n_clauses = 0
    for di, doc in enumerate(DOCS):
        for d in VDEFS:
            clauses = ['%s%s%s %s' % (neg, some, u, op) for u in VUSES for op in VOPS for some in ('', 'some ') for neg in ('', 'not ')]
            if sample is not None:
                clauses = rng.sample(clauses, sample)
            n_clauses += len(clauses)
            for k in range(0, len(clauses), 25):
                chunk = clauses[k:k + 25]
                text = 'let v = %s\n' % d + ''.join('rule r%d {\n  %s\n}\n' % (i, c) for i, c in enumerate(chunk))
                pairs.append({'rules': text, 'data': json.dumps(doc), 'loader': 'json'})
    res = spec_cases(pairs, ctx.wd, 'c01var')
    stats = {}
    n = judge(ctx, pairs, res, stats)
    ctx.coverage['variable_clause_programs_run'] = n_clauses
    ctx.coverage['variable_clause_file_verdicts'] = stats
    ctx.coverage['evaluations'] += n_clauses
    return n


TB_DOCS = [
    {'Resources': {'a': {'Type': 'AWS::S3::Bucket', 'Properties': {'Size': 5, 'Tags': [1]}}, 'b': {'Type': 'AWS::S3::Bucket', 'Properties': {'Size': 50}},
                   'c': {'Type': 'AWS::IAM::Role', 'Properties': {'Size': 500}}}, 'Settings': {'Level': 3}},
    {'Resources': {'c': {'Type': 'AWS::IAM::Role', 'Properties': {'Size': 1}}}, 'Settings': {'Level': 1}},
    {'Resources': {}, 'Settings': {'Level': 3}},
    {'Settings': {'Level': 3}},
    {'Resources': {'a': {'Type': 'AWS::S3::Bucket'}, 's': 'not a resource'}, 'Settings': {'Level': 3}},
    {'Resources': [{'Type': 'AWS::S3::Bucket', 'Properties': {'Size': 5}}], 'Settings': {}},
    {'Resources': {'a': {'Type': ['AWS::S3::Bucket'], 'Properties': {'Size': 5}}, 'b': {'Type': 'AWS::S3::Bucket', 'Properties': {'Size': 'x'}}}, 'Settings': {'Level': 3}},
]
TB_BODIES = ['Properties.Size >= 10', 'Properties.Size exists', 'Properties.Tags !empty', 'Properties.Size >= 10 or\n    Properties.Tags exists',
             'Properties {\n      Size <= 100\n    }', 'let s = Properties.Size\n    %s >= 10', 'when Properties.Tags exists {\n      Properties.Size < 10\n    }',
             'Properties.Missing !exists', 'this is_struct', 'Type == "AWS::S3::Bucket"']
TB_CONDS = ['', ' when Settings.Level >= 2', ' when Settings.Level exists', ' when Missing exists', ' when other']


def type_blocks(ctx):
    """directed: one type block per rule - body x optional condition x documents with several / one / no resource of the type,
    an empty `Resources`, no `Resources`, a non-map resource, a list of resources, a `Type` that is not a string"""
    pairs = []
    n_blocks = 0
    for doc in TB_DOCS:
        for cond in TB_CONDS:
            rules = 'rule other {\n  Settings.Level >= 2\n}\n'
            for i, body in enumerate(TB_BODIES):
                rules += 'rule t%d {\n  AWS::S3::Bucket%s {\n    %s\n  }\n}\n' % (i, cond, body)
                n_blocks += 1
            rules += 'rule two {\n  AWS::S3::Bucket {\n    Properties.Size exists\n  }\n  AWS::IAM::Role {\n    Properties.Size >= 1\n  } or\n  Settings.Level == 3\n}\n'
            pairs.append({'rules': rules, 'data': json.dumps(doc), 'loader': 'json'})
            # each block in a file of its own as well: an error in one rule ends the file
            for i, body in enumerate(TB_BODIES[:4]):
                pairs.append({'rules': 'rule other {\n  Settings.Level >= 2\n}\nrule t {\n  AWS::S3::Bucket%s {\n    %s\n  }\n}\n' % (cond, body), 'data': json.dumps(doc), 'loader': 'json'})
    res = spec_cases(pairs, ctx.wd, 'c01tb')
    stats = {}
    n = judge(ctx, pairs, res, stats)
    ctx.coverage['type_block_programs_run'] = len(pairs)
    ctx.coverage['type_block_file_verdicts'] = stats
    ctx.coverage['evaluations'] += len(pairs)
    return n


WB_GUARDS = [('P', 'a exists'), ('P', 'lm[ k == 1 ] !empty'), ('F', 'a !exists'), ('F', 'a == 2'), ('S', 'lm[ k == 99 ].t exists'),
             ('S', 'lm[ k == 99 ].t == "x"'), ('S', 'some lm[ k == 99 ].t > 10'), ('PS', 'a exists\n    lm[ k == 99 ].t exists'), ('SF', 'lm[ k == 99 ].t exists or\n    a == 2'),
             ('SS', 'lm[ k == 99 ].t exists or\n    lm[ k == 98 ].t exists')]
WB_BODIES = ['a == 1', 'a == 2', 'lm[ k == 99 ].t == 1', 'a == 2 or\n      a == 1']
WB_ELEM_GUARDS = ['k exists', 'k == 1', 'k == 99', 'sub[ x == 99 ].y exists', 'sub[ x == 99 ].y == 1', 'j !exists']


def when_blocks(ctx):
    """directed: a block-level `when` runs its block only if the guard PASSes - guards that PASS, FAIL and SKIP (a comparison on an
    empty filtered selection), one or several lines, x bodies that PASS / FAIL / SKIP, in a rule body, nested in another `when`, and
    inside a query block over list elements (guard on the element)"""
    pairs = []
    doc = json.dumps(DOCS[0])
    rules, n = '', 0
    for cls, g in WB_GUARDS:
        for b in WB_BODIES:
            rules += 'rule w%d {\n  when %s {\n      %s\n  }\n}\n' % (n, g, b); n += 1
            rules += 'rule w%d {\n  a exists\n  when %s {\n      %s\n  }\n}\n' % (n, g, b); n += 1
            rules += 'rule w%d {\n  when a exists {\n    when %s {\n      %s\n    }\n  }\n}\n' % (n, g, b); n += 1
        if n >= 30:
            pairs.append({'rules': rules, 'data': doc, 'loader': 'json'}); rules, n = '', 0
    for g in WB_ELEM_GUARDS:
        for b in ['k >= 1', 'k == 1', 't exists']:
            for some in ('', 'some '):
                rules += 'rule w%d {\n  %slm[*] {\n    when %s {\n      %s\n    }\n  }\n}\n' % (n, some, g, b); n += 1
    pairs.append({'rules': rules, 'data': doc, 'loader': 'json'})
    res = spec_cases(pairs, ctx.wd, 'c01wb')
    stats = {}
    k = judge(ctx, pairs, res, stats)
    ctx.coverage['when_block_files_run'] = len(pairs)
    ctx.coverage['when_block_file_verdicts'] = stats
    ctx.coverage['evaluations'] += len(pairs)
    return k


def errors_in_filters(ctx):
    """directed: a clause that is an evaluation ERROR for some entry (`empty` on a number, an ordering of a number against a string is
    not one - it is NotComparable -, `empty` on a string / bool) inside a struct filter after a key, a struct filter after `.*`, a list
    filter, a block over struct entries, a block over list elements, a when condition, and as a plain clause: the evaluation stops
    with the error in every container alike. Against Spec (where it speaks) and against the model (status, error kind, records)."""
    doc = {'Resources': {'a': {'Type': 'T', 'Size': 5, 'Tags': []}, 'b': {'Type': 'U', 'Size': 7, 'Tags': [1]}}, 'l': [{'Size': 5, 'Tags': []}, {'Size': 6, 'Tags': [2]}],
           'ok': {'a': {'Tags': []}, 'b': {'Tags': [1]}}, 'n': 5, 's': 'x', 'b': True}
    bad = ['Size empty', 'Size !empty', 'not Size empty']
    shapes = ['Resources[ %s ] !empty', 'Resources[ %s ].Type exists', 'Resources.*[ %s ] !empty', 'Resources.*[ %s ].Type exists', 'Resources.*[ %s ] {\n    Type exists\n  }',
              'Resources.*[ %s ] empty', 'some Resources.*[ %s ].Type == "T"', 'l[ %s ].Size exists', 'l[ %s ] empty', 'l[*] {\n    %s\n  }', 'Resources.* {\n    %s\n  }',
              'Resources.*[ Type == "T" ][ %s ] !empty', 'Resources.*[ Type == "T" or %s ] !empty', 'Resources.*[ %s or Type == "T" ] !empty', 'when Resources.*[ %s ] !empty {\n    n exists\n  }']
    pairs = []
    for b in bad:
        for sh in shapes:
            pairs.append({'rules': 'rule r {\n  %s\n}\nrule after {\n  n exists\n}\n' % sh.replace('%s', b), 'data': json.dumps(doc), 'loader': 'json'})
    # the same containers with a clause that is defined for every entry: verdicts, not errors
    for sh in shapes:
        pairs.append({'rules': 'rule r {\n  %s\n}\n' % sh.replace('%s', 'Tags empty').replace('Resources', 'ok') if 'Type' not in sh else 'rule r {\n  %s\n}\n' % sh.replace('%s', 'Tags empty'), 'data': json.dumps(doc), 'loader': 'json'})
    pairs += [{'rules': 'rule r {\n  n empty\n}\n', 'data': json.dumps(doc), 'loader': 'json'}, {'rules': 'rule r {\n  s empty\n}\n', 'data': json.dumps(doc), 'loader': 'json'},
              {'rules': 'rule r {\n  b !empty\n}\n', 'data': json.dumps(doc), 'loader': 'json'}]
    res = spec_cases(pairs, ctx.wd, 'c01err')
    stats = {}
    k = judge(ctx, pairs, res, stats)
    ctx.coverage['error_in_container_files'] = len(pairs)
    ctx.coverage['error_in_container_verdicts'] = stats
    ctx.coverage['evaluations'] += len(pairs)
    return k, pairs


def run(ctx):
    ctx.build()
    pr = ctx.proofs('C01')
    thorough = ctx.tier == 'thorough'
    n1, pairs = generated(ctx, 1500 if thorough else 250)
    n2 = exhaustive(ctx, None if thorough else 1500)
    n2 += variables(ctx, None if thorough else 25)
    n2 += type_blocks(ctx)
    n2 += when_blocks(ctx)
    k_err, err_pairs = errors_in_filters(ctx)
    n2 += k_err
    pairs = [{'rules': p_['rules'], 'data': p_['data']} for p_ in err_pairs] + pairs
    out, errs = corr.run(pairs[:400 + len(err_pairs)], ctx.wd, 'c01corr', loader='cli')
    if errs:
        raise ToolingError('model evaluation failed: %r' % (errs[:1],))
    stats = {}
    for o, p in zip(out, pairs):
        key = o['kind'] if o['kind'] != 'compared' else o['verdict']
        stats[key] = stats.get(key, 0) + 1
        if o['kind'] == 'compared' and re.search(r'VDis|VModelOOF|NoModelOutput', o['verdict']):
            ctx.failing('model and implementation disagree on a generated program (%s)' % o['verdict'],
                        {'class': 'eval-correspondence', 'verdict': o['verdict'], 'rules': p['rules'], 'data': p['data']}, found=False)
    ctx.coverage['correspondence_verdicts'] = stats
    ctx.coverage['distinct_nontrivial'] = n1 + n2
    ctx.coverage['rule'] = ('generated programs of the core fragment (tools/gv/gen.py incl. type blocks; with functions, parameterised rules, keys filters, query right-hand sides and '
                            'captures switched off) x their document and a random document; single-clause programs: every query of a %d-query universe x all/some x prefix not '
                            'x every unary operator and polarity / every binary operator x a %d-literal universe, against %d documents (quick: a seeded sample); counted when '
                            'Spec covers the case and agrees' % (len(QUERIES), len(LITERALS), len(DOCS)))
    ctx.coverage['trusted_base'] = [
        'Coq 8.16.1 kernel (coqc), vm_compute for case evaluation; no axioms',
        'Spec.v: hand-written reading of docs/CLAUSES.md, QUERY_AND_FILTERING.md, CONTEXTAWARE_EVALUATIONS_AND_LOOPS.md; it shares only the scalar comparison kernels of Compare.v with the model',
        'hand-written model SEval.v (modelled, not verified); hook eval_dump + tools/gv glue; fancy_regex oracle table per case',
    ]
    ctx.assumptions = ['the undocumented case-converter key fallback (bucket_name resolves BucketName) is not part of Spec; a disagreement that it explains is reported as the recorded finding',
                       'crashes and non-termination are C08']
    if not pr['ok']:
        ctx.failing('proof obligations of Props/C01.v no longer check: %s' % (pr.get('problems') or pr.get('log', '')[-500:]),
                    {'class': 'proof', 'theorems': pr['theorems']}, found=False)


def replay(ctx, path):
    j = json.load(open(path))
    for v in j.get('violations', []):
        print(json.dumps(v, indent=1)[:3000])
    return 0
