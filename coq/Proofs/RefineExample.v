(* RefineExample.v — the hypotheses of the C01 refinement theorem are satisfiable, for a non-trivial program.
   okv is a decidable sufficient condition on a document (and on the literal values of variables): structs are well
   formed and have no key that the case converters of the example oracle can produce, lists hold plain scalars.
   For such a world the three conditions of RefineFile.refinement hold, hence the theorem applies; an example
   program with variables, filters, a when block, a rule reference, `in` / `not in`, `some`, a range and a query
   block is evaluated by both interpreters (vm_compute) and the theorem is instantiated on it. *)
From GV.Model Require Import SEval PEval Spec CheckSpec.
From GV.Proofs Require Import RefineOps RefineProps RefineFile.
Local Open Scope string_scope.

Definition forbidden_key (k : string) : bool := String.eqb k "BucketName".

Fixpoint okv (v : pv) : bool :=
  match v with
  | PNull _ | PString _ _ | PBool _ _ | PInt _ _ => true
  | PList _ l => forallb scalar_plain l
  | PMap _ ks vals =>
      Nat.eqb (List.length ks) (List.length vals) && negb (existsb (fun kv => forbidden_key (fst kv)) vals)
      && (fix go (l : list (string * pv)) : bool := match l with [] => true | (_, x) :: r => okv x && go r end) vals
  | _ => false
  end.

Lemma scalar_okv x : scalar_plain x = true -> okv x = true.
Proof. destruct x; try discriminate; reflexivity. Qed.

Lemma okv_sub root v : okv root = true -> subvalue root v -> okv v = true.
Proof.
  intros Hr Hs. induction Hs as [|p l x Hs IH Hin|p ks vals k x Hs IH Hin]; [exact Hr| |].
  - cbn in IH. rewrite forallb_forall in IH. apply scalar_okv, IH, Hin.
  - cbn in IH. apply andb_prop in IH as [_ Hgo]. clear -Hgo Hin. induction vals as [|[k0 x0] vals IHv]; [destruct Hin|].
    apply andb_prop in Hgo as [H0 Hgo]. destruct Hin as [E|Hin]; [inversion E; subst; exact H0|apply IHv; assumption].
Qed.

(* an oracle for the case converters: one key has an alias *)
Definition conv_ex : conv_oracle := fun _ k => if String.eqb k "bucket_name" then Some "BucketName" else Some k.
Definition re_ex : re_oracle := fun _ _ => ReMatch false.

Section Example.
Variable doc : pv.
Hypothesis doc_ok : okv doc = true.

Lemma world_okv v : world okv doc v -> okv v = true.
Proof. intros (root & [->|Hr] & Hs); eapply okv_sub; eassumption. Qed.

Lemma ex_wf p ks vals : world okv doc (PMap p ks vals) -> List.length ks = List.length vals.
Proof. intros H. apply world_okv in H. cbn in H. apply andb_prop in H as [H _]. apply andb_prop in H as [H _]. apply Nat.eqb_eq, H. Qed.

Lemma no_key_assoc (vals : list (string * pv)) k : existsb (fun kv => String.eqb (fst kv) k) vals = false -> assoc k vals = None.
Proof.
  induction vals as [|[k0 x] vals IH]; [reflexivity|]. cbn. intros H. apply Bool.orb_false_iff in H as [H0 H].
  rewrite String.eqb_sym, H0. apply IH, H.
Qed.

Lemma ex_alias p ks vals c k k' : world okv doc (PMap p ks vals) -> conv_ex c k = Some k' -> map_get k vals = None -> map_get k' vals = None.
Proof.
  intros H Hc Hk. apply world_okv in H. cbn in H. apply andb_prop in H as [H _]. apply andb_prop in H as [_ H].
  apply Bool.negb_true_iff in H. unfold conv_ex in Hc. destruct (String.eqb k "bucket_name"); inversion Hc; subst; [|exact Hk].
  apply no_key_assoc. exact H.
Qed.

Lemma ex_notin v r : world okv doc v -> nin_ok re_ex v r.
Proof.
  intros H. apply world_okv in H. destruct v; try exact I. destruct r; try exact I. cbn in H.
  apply notin_coherent_scalars. exact H.
Qed.

(* the refinement theorem for every program, on every document that satisfies okv *)
Theorem refinement_okv prog n m st recs s' :
  nc_prog prog = true ->
  eval_file re_ex conv_ex prog n doc = Done (st, recs, s') ->
  match spec_file re_ex okv prog doc m with
  | SOk (st', table) => st = st' /\ exists rec, recs = [rec] /\ compare_rules table (rule_statuses rec) = None
  | SUndef => False
  | SOut => True
  end.
Proof. apply (refinement re_ex conv_ex okv prog doc ex_wf ex_alias ex_notin). Qed.

End Example.

(* a concrete instance (written by tools/gv from the implementation's own parse of the rules text and load of the
   document): variables, a filter, `when`, a rule reference, in / not in, some, a range, a query block *)
Definition ex_prog : rules_file := (mkRulesFile [("wanted", (LValue (PList (mkPath "" 0%N 0%N) [(PString (mkPath "/0" 0%N 0%N) "x"); (PString (mkPath "/1" 0%N 0%N) "y"); (PString (mkPath "/2" 0%N 0%N) "z")]))); ("buckets", (LAccess (AccessQuery [(QKey "Resources"); (QAllValues None); (QFilter None [[(GClause (GuardAccessClause (AccessQuery [(QKey "Type")] true) (OEq, false) (Some (LValue (PString (mkPath "" 0%N 0%N) "Bucket"))) None false))]])] true)))] [(mkRule "sized" None [] [[(RClause (GClause (GuardAccessClause (AccessQuery [(QKey "%buckets"); (QAllIndices None); (QKey "n")] true) (OGe, false) (Some (LValue (PInt (mkPath "" 0%N 0%N) (5)%Z))) None false)))]; [(RClause (GClause (GuardAccessClause (AccessQuery [(QKey "Resources"); (QAllValues None); (QKey "bucket_name")] true) (OExists, true) None None false)))]]); (mkRule "named" (Some [[(WNamedRule (GuardNamedRuleClause "sized" false None))]]) [] [[(RClause (GClause (GuardAccessClause (AccessQuery [(QKey "%buckets"); (QAllIndices None); (QKey "Names"); (QAllIndices None)] true) (OIn, false) (Some (LAccess (AccessQuery [(QKey "%wanted")] true))) None false))); (RClause (GClause (GuardAccessClause (AccessQuery [(QKey "%buckets"); (QAllIndices None); (QKey "n")] true) (OEq, false) (Some (LValue (PInt (mkPath "" 0%N 0%N) (0)%Z))) None false)))]; [(RClause (GClause (GuardAccessClause (AccessQuery [(QKey "Resources"); (QKey "b"); (QKey "Names")] true) (OIn, true) (Some (LValue (PList (mkPath "" 0%N 0%N) [(PString (mkPath "/0" 0%N 0%N) "q")]))) None false)))]; [(RClause (GClause (GuardAccessClause (AccessQuery [(QKey "Resources"); (QAllValues None); (QKey "Names"); (QAllIndices None)] false) (OEq, false) (Some (LValue (PString (mkPath "" 0%N 0%N) "x"))) None false)))]; [(RClause (GBlockClause (AccessQuery [(QKey "Resources"); (QKey "b")] true) (Block [] [[(GClause (GuardAccessClause (AccessQuery [(QKey "n")] true) (OIn, false) (Some (LValue (PRangeInt (mkPath "" 0%N 0%N) (1)%Z (10)%Z 3%N))) None false))]; [(GClause (GuardAccessClause (AccessQuery [(QKey "Type")] true) (OEmpty, false) None None true))]]) false))]]); (mkRule "unused" (Some [[(WClause (GuardAccessClause (AccessQuery [(QKey "Resources"); (QKey "b"); (QKey "zz")] true) (OExists, false) None None false))]]) [] [[(RClause (GClause (GuardAccessClause (AccessQuery [(QKey "Resources"); (QKey "b"); (QKey "n")] true) (OLt, false) (Some (LValue (PInt (mkPath "" 0%N 0%N) (0)%Z))) None false)))]])] []).
Definition ex_doc : pv := (PMap (mkPath "" 0%N 0%N) [(PString (mkPath "" 0%N 1%N) "Resources")] [("Resources", (PMap (mkPath "/Resources" 0%N 14%N) [(PString (mkPath "/Resources" 0%N 15%N) "b"); (PString (mkPath "/Resources" 0%N 69%N) "q")] [("b", (PMap (mkPath "/Resources/b" 0%N 20%N) [(PString (mkPath "/Resources/b" 0%N 21%N) "Type"); (PString (mkPath "/Resources/b" 0%N 39%N) "Names"); (PString (mkPath "/Resources/b" 0%N 60%N) "n")] [("Type", (PString (mkPath "/Resources/b/Type" 0%N 29%N) "Bucket")); ("Names", (PList (mkPath "/Resources/b/Names" 0%N 48%N) [(PString (mkPath "/Resources/b/Names/0" 0%N 49%N) "x"); (PString (mkPath "/Resources/b/Names/1" 0%N 54%N) "y")])); ("n", (PInt (mkPath "/Resources/b/n" 0%N 65%N) (5)%Z))])); ("q", (PMap (mkPath "/Resources/q" 0%N 74%N) [(PString (mkPath "/Resources/q" 0%N 75%N) "Type"); (PString (mkPath "/Resources/q" 0%N 92%N) "n")] [("Type", (PString (mkPath "/Resources/q/Type" 0%N 83%N) "Queue")); ("n", (PInt (mkPath "/Resources/q/n" 0%N 97%N) (1)%Z))]))]))]).

Example ex_doc_ok : okv ex_doc = true.
Proof. vm_compute. reflexivity. Qed.
Example ex_nc : nc_prog ex_prog = true.
Proof. vm_compute. reflexivity. Qed.

(* both interpreters answer, and the documented semantics covers the file: PASS, with sized PASS, named PASS, unused SKIP *)
Example ex_spec : spec_file re_ex okv ex_prog ex_doc 40 = SOk (PASS, [("sized", PASS); ("named", PASS); ("unused", SKIP)]).
Proof. vm_compute. reflexivity. Qed.
Example ex_impl : exists recs s', eval_file re_ex conv_ex ex_prog 60 ex_doc = Done (PASS, recs, s').
Proof. vm_compute. eexists. eexists. reflexivity. Qed.

(* the theorem on the instance: its premises hold, so its conclusion is not vacuous *)
Example ex_refinement : forall st recs s',
  eval_file re_ex conv_ex ex_prog 60 ex_doc = Done (st, recs, s') -> st = PASS.
Proof.
  intros st recs s' H. pose proof (refinement_okv ex_doc ex_doc_ok ex_prog 60 40 st recs s' ex_nc H) as R.
  rewrite ex_spec in R. exact (proj1 R).
Qed.
