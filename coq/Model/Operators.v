(* Operators.v — eval/operators.rs 100-787, and the per-value reporting of
   eval.rs binary_operation 765-974. Pure functions in the outcome monad. *)
From GV.Model Require Export Ast Compare.

Inductive compare_kind :=
| CValue (lhs rhs : pv)
| CQueryIn (diff lhs rhs : list pv)
| CListIn (diff : list pv) (lhs rhs : pv)
| CValueIn (lhs rhs : pv).

Inductive comparison_result :=
| CRSuccess (c : compare_kind)
| CRFail (c : compare_kind)
| CRNotComparable (lhs rhs : pv)
| CRRhsUnresolved (u : unresolved) (lhs : pv).

Inductive value_eval_result :=
| VLhsUnresolved (u : unresolved)
| VComparison (c : comparison_result).

Inductive eval_result :=
| ESkip
| EResult (l : list value_eval_result).

Notation "x <-- m ;; f" := (obind m (fun x => f)) (at level 100, m at next level, right associativity).

Section WithRegex.
Variable re : re_oracle.

(* selected(query_results, on_unresolved, Vec::push) *)
Fixpoint selected_values (l : list qres) : list pv :=
  match l with
  | [] => []
  | QLiteral v :: r | QResolved v :: r => v :: selected_values r
  | QUnResolved _ :: r => selected_values r
  end.
Fixpoint selected_unres (l : list qres) : list unresolved :=
  match l with
  | [] => []
  | QUnResolved u :: r => u :: selected_unres r
  | _ :: r => selected_unres r
  end.

(* flattened : lists contribute their elements *)
Definition flatten_values (l : list pv) : list pv :=
  flat_map (fun v => match v with PList _ xs => xs | other => [other] end) l.

Definition success (l r : pv) := VComparison (CRSuccess (CValue l r)).
Definition failure (l r : pv) := VComparison (CRFail (CValue l r)).

Definition match_value (cmpf : pv -> pv -> outcome bool) (l r : pv) : outcome value_eval_result :=
  match cmpf l r with
  | Done true => Done (success l r)
  | Done false => Done (failure l r)
  | Err ENotComparable => Done (VComparison (CRNotComparable l r))
  | Err _ => Done (VComparison (CRNotComparable l r))   (* fix in /repo: any other comparator error, e.g. a regex run-time failure *)
  | Panic s => Panic s
  | OutOfFuel => OutOfFuel
  | Unknown => Unknown
  end.

Definition is_literal (l : list qres) : option pv :=
  match l with
  | [QLiteral p] => Some p
  | _ => None
  end.

(* CommonOperator::compare *)
Definition common_compare (cmpf : pv -> pv -> outcome bool) (lhs rhs : list qres)
  : outcome (list value_eval_result) :=
  let lhs_f := flatten_values (selected_values lhs) in
  let rhs_f := flatten_values (selected_values rhs) in
  let r1 := map VLhsUnresolved (selected_unres lhs) in
  let r2 := flat_map (fun ur => map (fun l => VComparison (CRRhsUnresolved ur l)) lhs_f)
                     (selected_unres rhs) in
  r3 <-- omapM (fun l => omapM (fun r => match_value cmpf l r) rhs_f) lhs_f ;;
  Done (r1 ++ r2 ++ List.concat r3).

Definition string_in (l r : pv) : value_eval_result :=
  match l, r with
  | PString _ ls, PString _ rs => if str_contains rs ls then success l r else failure l r
  | _, _ => VComparison (CRNotComparable l r)
  end.

Definition is_success (v : value_eval_result) : bool :=
  match v with VComparison (CRSuccess _) => true | _ => false end.

(* filter keeping the elements NOT contained in `other` *)
Fixpoint not_contained (l other : list pv) : outcome (list pv) :=
  match l with
  | [] => Done []
  | x :: r =>
      c <-- contains_pv re other x ;;
      rest <-- not_contained r other ;;
      Done (if c then rest else x :: rest)
  end.

Definition contained_in (l r : pv) : outcome value_eval_result :=
  match l with
  | PList _ lhsl =>
      match r with
      | PList _ rhsl =>
          if (match rhsl with x :: _ => is_list x | [] => false end) then
            (* a list looked up as one member of a list of lists: plain membership (fix in /repo: ValueIn) *)
            c <-- contains_pv re rhsl l ;;
            Done (if c then VComparison (CRSuccess (CValueIn l r))
                  else VComparison (CRFail (CValueIn l r)))
          else
            diff <-- not_contained lhsl rhsl ;;
            Done (match diff with
                  | [] => VComparison (CRSuccess (CListIn diff l r))
                  | _ => VComparison (CRFail (CListIn diff l r))
                  end)
      | _ => Done (VComparison (CRNotComparable l r))
      end
  | rest =>
      match r with
      | PList _ rhsl =>
          c <-- contains_pv re rhsl rest ;;
          Done (if c then VComparison (CRSuccess (CValueIn rest r))
                else VComparison (CRFail (CValueIn rest r)))
      | rhs_rest => match_value (compare_eq re) rest rhs_rest
      end
  end.

Definition rhs_unresolved_for (l : pv) (rhs : list qres) : list value_eval_result :=
  map (fun ur => VComparison (CRRhsUnresolved ur l)) (selected_unres rhs).

Definition query_in_result (diff lhs rhs : list pv) : value_eval_result :=
  match diff with
  | [] => VComparison (CRSuccess (CQueryIn diff lhs rhs))
  | _ => VComparison (CRFail (CQueryIn diff lhs rhs))
  end.

(* InOperation::compare *)
Definition in_compare (lhs rhs : list qres) : outcome (list value_eval_result) :=
  match is_literal lhs, is_literal rhs with
  | Some l, Some r =>
      let s := string_in l r in
      if is_success s then Done [s] else (c <-- contained_in l r ;; Done [c])
  | Some l, None =>
      let r1 := rhs_unresolved_for l rhs in
      let rv := selected_values rhs in
      if existsb is_list rv then
        r2 <-- omapM (contained_in l) rv ;; Done (r1 ++ r2)
      else
        match l with
        | PList _ list =>
            diff <-- not_contained list rv ;;
            Done (r1 ++ [query_in_result diff [l] rv])
        | _ => r2 <-- omapM (contained_in l) rv ;; Done (r1 ++ r2)
        end
  | None, Some r =>
      let r1 := map VLhsUnresolved (selected_unres lhs) in
      r2 <-- omapM (fun l =>
               match r with
               | PString _ _ =>
                   match l with
                   | PList _ lhsl => Done (map (fun e => string_in e r) lhsl)
                   | rest => Done [string_in rest r]
                   end
               | rest => c <-- contained_in l rest ;; Done [c]
               end) (selected_values lhs) ;;
      Done (r1 ++ List.concat r2)
  | None, None =>
      let lv := selected_values lhs in
      let rv := selected_values rhs in
      let r1 := map VLhsUnresolved (selected_unres lhs) in
      let r2 := flat_map (fun ur => map (fun l => VComparison (CRRhsUnresolved ur l)) lv)
                         (selected_unres rhs) in
      diff <-- (fix go (l : list pv) : outcome (list pv) :=
                  match l with
                  | [] => Done []
                  | x :: rest =>
                      found <-- (fix any (rs : list pv) : outcome bool :=
                                   match rs with
                                   | [] => Done false
                                   | y :: rs' =>
                                       c <-- contained_in x y ;;
                                       if is_success c then Done true else any rs'
                                   end) rv ;;
                      d <-- go rest ;;
                      Done (if found then d else x :: d)
                  end) lv ;;
      Done (r1 ++ r2 ++ [query_in_result diff lv rv])
  end.

(* EqOperation::compare *)
Definition eq_compare (lhs rhs : list qres) : outcome (list value_eval_result) :=
  let ceq := compare_eq re in
  match is_literal lhs, is_literal rhs with
  | Some l, Some r => c <-- match_value ceq l r ;; Done [c]
  | Some l, None =>
      let r1 := rhs_unresolved_for l rhs in
      let rv := selected_values rhs in
      match l with
      | PList _ _ => r2 <-- omapM (fun each => match_value ceq l each) rv ;; Done (r1 ++ r2)
      | single =>
          r2 <-- omapM (fun eachr =>
                   match eachr with
                   | PList _ rhsl => omapM (fun e => match_value ceq single e) rhsl
                   | rest => c <-- match_value ceq single rest ;; Done [c]
                   end) rv ;;
          Done (r1 ++ List.concat r2)
      end
  | None, Some r =>
      let r1 := map VLhsUnresolved (selected_unres lhs) in
      let lv := selected_values lhs in
      match r with
      | PList _ rhsl =>
          r2 <-- omapM (fun each =>
                   match rhsl with
                   | [single] => if is_scalar each then match_value ceq each single
                                 else match_value ceq each r
                   | _ => match_value ceq each r
                   end) lv ;;
          Done (r1 ++ r2)
      | single =>
          r2 <-- omapM (fun each =>
                   match each with
                   | PList _ lhs_list => omapM (fun e => match_value ceq e single) lhs_list
                   | _ => c <-- match_value ceq each r ;; Done [c]
                   end) lv ;;
          Done (r1 ++ List.concat r2)
      end
  | None, None =>
      let lv := selected_values lhs in
      let rv := selected_values rhs in
      let r1 := map VLhsUnresolved (selected_unres lhs) in
      let r2 := flat_map (fun ur => map (fun l => VComparison (CRRhsUnresolved ur l)) lv)
                         (selected_unres rhs) in
      diff <-- (if Nat.ltb (List.length rv) (List.length lv)
                then not_contained lv rv else not_contained rv lv) ;;
      Done (r1 ++ r2 ++ [query_in_result diff lv rv])
  end.

(* impl Comparator for CmpOperator *)
Definition op_compare (op : cmp_op) (lhs rhs : list qres) : outcome eval_result :=
  match lhs, rhs with
  | [], _ | _, [] => Done ESkip
  | _, _ =>
      match op with
      | OEq => r <-- eq_compare lhs rhs ;; Done (EResult r)
      | OIn => r <-- in_compare lhs rhs ;; Done (EResult r)
      | OLt => r <-- common_compare compare_lt lhs rhs ;; Done (EResult r)
      | OGt => r <-- common_compare compare_gt lhs rhs ;; Done (EResult r)
      | OLe => r <-- common_compare compare_le lhs rhs ;; Done (EResult r)
      | OGe => r <-- common_compare compare_ge lhs rhs ;; Done (EResult r)
      | _ => Err EIncompatible
      end
  end.

(* reverse_diff(diff, other) = other filtered to elements not in diff *)
Definition reverse_diff (diff other : list pv) : outcome (list pv) := not_contained other diff.

Definition negate_result (op : cmp_op) (nlhs nrhs : nat) (e : value_eval_result)
  : outcome value_eval_result :=
  match e with
  | VComparison (CRFail c) =>
      match c with
      | CQueryIn diff ql qr =>
          rd <-- (if Nat.leb nlhs nrhs && cmp_op_eqb op OEq then reverse_diff diff qr
                  else reverse_diff diff ql) ;;
          Done (match rd with
                | [] => VComparison (CRSuccess (CQueryIn rd ql qr))
                | _ => VComparison (CRFail (CQueryIn rd ql qr))
                end)
      | CListIn diff l r =>
          match l with
          | PList _ v =>
              rd <-- not_contained v diff ;;
              Done (match rd with
                    | [] => VComparison (CRSuccess (CListIn rd l r))
                    | _ => VComparison (CRFail (CListIn rd l r))
                    end)
          | _ => Panic P_other
          end
      | rest => Done (VComparison (CRSuccess rest))
      end
  | VComparison (CRSuccess c) =>
      match c with
      | CQueryIn _ ql qr => Done (VComparison (CRFail (CQueryIn ql ql qr)))
      | CListIn _ l r =>
          match l with
          | PList _ v => Done (VComparison (CRFail (CListIn v l r)))
          | _ => Panic P_other
          end
      | rest => Done (VComparison (CRFail rest))
      end
  | rest => Done rest
  end.

(* impl Comparator for (CmpOperator, bool) *)
Definition cmp_compare (c : cmp) (lhs rhs : list qres) : outcome eval_result :=
  r <-- op_compare (fst c) lhs rhs ;;
  match r with
  | ESkip => Done ESkip
  | EResult l =>
      if snd c then
        l' <-- omapM (negate_result (fst c) (List.length lhs) (List.length rhs)) l ;;
        Done (EResult l')
      else Done (EResult l)
  end.

(* binary_operation's reporting (eval.rs 779-970): each result yields zero or more
   (clause check, value, status) triples, in order *)
Definition report_binary (c : cmp) (custom : option string) (e : value_eval_result)
  : list (clause_check * qres * status) :=
  match e with
  | VLhsUnresolved ur =>
      [(CComparison c (QUnResolved ur) None false custom FAIL, QUnResolved ur, FAIL)]
  | VComparison (CRRhsUnresolved urhs l) =>
      [(CComparison c (QResolved l) (Some (QUnResolved urhs)) false custom FAIL, QResolved l, FAIL)]
  | VComparison (CRNotComparable l r) =>
      [(CComparison c (QResolved l) (Some (QResolved r)) true custom FAIL, QResolved l, FAIL)]
  | VComparison (CRSuccess k) =>
      match k with
      | CListIn _ l _ => [(CSuccess, QResolved l, PASS)]
      | CQueryIn _ ql _ => map (fun each => (CSuccess, QResolved each, PASS)) ql
      | CValue l _ => [(CSuccess, QResolved l, PASS)]
      | CValueIn l _ => [(CSuccess, QResolved l, PASS)]
      end
  | VComparison (CRFail k) =>
      match k with
      | CValue l r =>
          [(CComparison c (QResolved l) (Some (QResolved r)) false custom FAIL, QResolved l, FAIL)]
      | CValueIn l r =>
          [(CInComparison c (QResolved l) [QResolved r] false custom FAIL, QResolved l, FAIL)]
      | CListIn _ l r =>
          [(CInComparison c (QResolved l) [QResolved r] false custom FAIL, QResolved l, FAIL)]
      | CQueryIn diff _ qr =>
          map (fun l => (CInComparison c (QResolved l) (map QResolved qr) false custom FAIL,
                         QResolved l, FAIL)) diff
      end
  end.

(* ---- the older per-value kernel still used by `keys` filters
        (eval.rs each_lhs_compare 434-558, in_cmp 560-583, real_binary_operation 976-1075) *)

Inductive old_cmp_result :=
| OComparable (outcome_ : bool) (lhs rhs : pv)
| ONotComparable (lhs rhs : pv)
| OUnResolvedRhs (rhs : qres) (lhs : pv).

Definition not_compare (cmpf : pv -> pv -> outcome bool) (invert : bool) (l r : pv) : outcome bool :=
  b <-- cmpf l r ;; Done (if invert then negb b else b).

Definition in_cmp (not_in : bool) (l r : pv) : outcome bool :=
  match l, r with
  | PString _ lv, PString _ rv =>
      let result := str_contains rv lv in Done (if not_in then negb result else result)
  | _, PList _ rhs_list =>
      tracking <-- omapM (fun each => compare_eq re l each) rhs_list ;;
      Done (if existsb (fun b => b) tracking then negb not_in else not_in)
  | _, _ =>
      result <-- compare_eq re l r ;; Done (if not_in then negb result else result)
  end.

(* one application of cmp with the NotComparable case split off *)
Definition try_cmp (cmpf : pv -> pv -> outcome bool) (l r : pv) : outcome (option bool) :=
  match cmpf l r with
  | Done b => Done (Some b)
  | Err ENotComparable => Done None
  | Err e => Err e
  | Panic s => Panic s
  | OutOfFuel => OutOfFuel
  | Unknown => Unknown
  end.

Definition each_lhs_compare (cmpf : pv -> pv -> outcome bool) (l : pv) (rhs : list qres)
  : outcome (list old_cmp_result) :=
  r <-- omapM (fun each_rhs =>
        match each_rhs with
        | QUnResolved _ => Done [OUnResolvedRhs each_rhs l]
        | QLiteral rv | QResolved rv =>
            o <-- try_cmp cmpf l rv ;;
            match o with
            | Some b => Done [OComparable b l rv]
            | None =>
                match l with
                | PList _ inner =>
                    omapM (fun each =>
                             o' <-- try_cmp cmpf each rv ;;
                             Done (match o' with
                                   | Some b => OComparable b each rv
                                   | None => ONotComparable each rv
                                   end)) inner
                | _ =>
                    if is_scalar l then
                      match each_rhs, rv with
                      | QLiteral _, PList _ [single] =>
                          o' <-- try_cmp cmpf l single ;;
                          Done [match o' with
                                | Some b => OComparable b l single
                                | None => ONotComparable l single
                                end]
                      | _, _ => Done [ONotComparable l rv]
                      end
                    else Done [ONotComparable l rv]
                end
            end
        end) rhs ;;
  Done (List.concat r).

End WithRegex.
