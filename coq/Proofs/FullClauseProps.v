(* FullClauseProps.v — `xclause`, the clause parser the whole-grammar parser uses inside blocks and filters (when block, block clause,
   parameterised call, access clause - in that order), reads an access clause of the proved layer to the tree of that clause when the
   text does not start with `when`, is not a call, and is not a block clause (no `{` after the query or after `query !empty`). *)
From Coq Require Import Lia.
From GV.Model Require Import Ast.
From GV.Model Require Import ValueParse QueryParse OpParse ClauseParse CnfParse FilterParse ClauseFParse LetParse CallParse FullParse.
From GV.Proofs Require Import LexProps ValueParseProps QueryParseProps ClauseParseProps CnfParseProps FullLinkProps FullCondsProps.
Local Open Scope string_scope.
Local Open Scope nat_scope.

Section XClause.
Variable rv : string -> bool.

Lemma xclause_S n s : xclause rv (S n) s =
  let when_block : pres tree :=
    pbind (xwhen_conds rv n s) (fun conds r => pmap (fun b => T "When" [conds; b]) (xblock rv n 0 r)) in
  let block_clause : pres tree :=
    pbind (xaccess rv n s) (fun q r =>
      let '(ne, r1) :=
        match not_kw (skip_ws_comments r) with
        | Some r' => match alt_tags kw_empty r' with Some r'' => (true, r'') | None => (false, r) end
        | None => (false, r)
        end in
      pmap (fun b => T "BlockClause" [q; tbool ne; b]) (xblock rv n 0 r1)) in
  palt when_block (palt block_clause (palt (xparam_call rv n s) (xaccess_clause rv n s))).
Proof. reflexivity. Qed.

Lemma xblock_no_brace n k s : ws_char "{" s = None -> xblock rv (S n) k s = PErr.
Proof. intros H. cbn [xblock]. now rewrite H. Qed.

(* what is left for a block after the query: the text behind an optional `not empty` / `!empty` *)
Definition after_not_empty (r : string) : string :=
  match not_kw (skip_ws_comments r) with
  | Some r' => match alt_tags kw_empty r' with Some r'' => r'' | None => r end
  | None => r
  end.

Definition not_a_block_clause (n : nat) (s : string) : Prop :=
  match access n s with
  | POk _ r => ws_char "{" (after_not_empty r) = None
  | PErr => True
  | _ => False
  end.

Theorem xclause_reads_access_clause : forall n s c r, clause rv n s = POk c r ->
  alt_tags kw_when (skip_ws_comments s) = None -> call_like s = PErr -> not_a_block_clause n s ->
  forall m, n <= m -> xclause rv (S (S (S (S (S m))))) s = POk (clause_tree c) r.
Proof.
  intros n s c r H Hw Hc Hb m L. rewrite xclause_S. cbv zeta.
  (* not a when block *)
  rewrite xwhen_conds_S. rewrite Hw. cbn [pbind palt].
  (* not a block clause *)
  assert (Eb : pbind (xaccess rv (S (S (S (S m)))) s) (fun q r0 =>
      let '(ne, r1) := match not_kw (skip_ws_comments r0) with
                       | Some r' => match alt_tags kw_empty r' with Some r'' => (true, r'') | None => (false, r0) end
                       | None => (false, r0) end in
      pmap (fun b => T "BlockClause" [q; tbool ne; b]) (xblock rv (S (S (S (S m)))) 0 r1)) = PErr).
  { unfold not_a_block_clause in Hb. destruct (access n s) as [q r0| | | |] eqn:Ea; try contradiction.
    - rewrite (xaccess_extends rv n s _ Ea ltac:(discriminate) ltac:(discriminate) (S (S m)) ltac:(lia)). cbn [pmap pbind].
      unfold after_not_empty in Hb. destruct (not_kw (skip_ws_comments r0)) as [r'|].
      + destruct (alt_tags kw_empty r') as [r''|]; rewrite (xblock_no_brace _ _ _ Hb); reflexivity.
      + rewrite (xblock_no_brace _ _ _ Hb). reflexivity.
    - rewrite (xaccess_extends rv n s _ Ea ltac:(discriminate) ltac:(discriminate) (S (S m)) ltac:(lia)). reflexivity. }
  rewrite Eb. cbn [palt].
  rewrite (no_param_call rv _ _ Hc). cbn [palt].
  apply (xaccess_clause_extends rv n s c r H m L).
Qed.

End XClause.
