"""Run the Gallina model: write case files, evaluate them with coqc (vm_compute),
parse one verdict per case."""
import os, re, subprocess
from concurrent.futures import ThreadPoolExecutor
from .common import *

COQ_ARGS = ['-noglob', '-Q', os.path.join(COQDIR, 'Model'), 'GV.Model',
            '-Q', os.path.join(COQDIR, 'Proofs'), 'GV.Proofs',
            '-Q', os.path.join(COQDIR, 'Generated'), 'GV.Generated',
            '-w', '-notation-overridden,-abstract-large-number']

def coq_make(targets=None, timeout=3600):
    """full .vo build of the development (or of some targets)"""
    if not os.path.exists(os.path.join(COQDIR, 'Makefile.coq')) or \
       os.path.getmtime(os.path.join(COQDIR, '_CoqProject')) > os.path.getmtime(os.path.join(COQDIR, 'Makefile.coq')):
        sh(['coq_makefile', '-f', '_CoqProject', '-o', 'Makefile.coq'], cwd=COQDIR)
    cmd = ['make', '-f', 'Makefile.coq', '-j%d' % NPROC] + (targets or [])
    return sh(cmd, cwd=COQDIR, timeout=timeout, check=False)

def run_coq_file(path, timeout=900):
    p = subprocess.run(['coqc'] + COQ_ARGS + [path], cwd=os.path.dirname(path), timeout=timeout,
                       stdout=subprocess.PIPE, stderr=subprocess.PIPE)
    return p.returncode, p.stdout.decode('utf-8', 'replace'), p.stderr.decode('utf-8', 'replace')

RESULT_RE = re.compile(r'=\s*\(\s*(\d+)%N\s*,\s*([A-Za-z_0-9 ()%;,\[\]"\-\n]+?)\s*\)\s*:', re.S)

def eval_cases(cases, wd, tag, header='From GV.Model Require Import Check.\n', per_file=60, jobs=NPROC):
    """cases: list of (id:int, defs:str, expr:str). For each case the file contains
    the definitions and `Eval vm_compute in (id%N, expr).`  Returns {id: text}."""
    files = []
    for k in range(0, len(cases), per_file):
        chunk = cases[k:k + per_file]
        path = os.path.join(wd, '%s_%d.v' % (tag, k // per_file))
        with open(path, 'w') as f:
            f.write(header)
            f.write('Open Scope string_scope.\n')
            for cid, defs, expr in chunk:
                f.write(defs)
                f.write('\nEval vm_compute in (%d%%N, %s).\n' % (cid, expr))
        files.append(path)
    out = {}
    errors = []
    def work(path):
        rc, so, se = run_coq_file(path)
        return path, rc, so, se
    with ThreadPoolExecutor(max_workers=jobs) as ex:
        for path, rc, so, se in ex.map(work, files):
            for m in RESULT_RE.finditer(so):
                out[int(m.group(1))] = ' '.join(m.group(2).split())
            if rc != 0:
                errors.append((path, se[-2000:]))
    return out, errors

def run_coq_file_in_project(rel, timeout=900):
    """recompile one project file in place (dependencies must be built): used to capture
    the Print Assumptions output of a Props file on every run"""
    p = subprocess.run(['coqc', '-Q', 'Model', 'GV.Model', '-Q', 'Proofs', 'GV.Proofs', '-Q', 'Props', 'GV.Props',
                        '-Q', 'Generated', 'GV.Generated', '-w', '-notation-overridden,-deprecated-hint-without-locality',
                        rel], cwd=COQDIR, timeout=timeout, stdout=subprocess.PIPE, stderr=subprocess.PIPE)
    return p.returncode, p.stdout.decode('utf-8', 'replace'), p.stderr.decode('utf-8', 'replace')
