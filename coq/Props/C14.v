(* C14 — alternative spellings, layout and comments do not change a rule file's meaning (partial). Pinned statements only.
   Proved: the lexical layer (keyword synonym classes over tables regenerated from parser.rs, white space and comments,
   quoted strings) and the VALUE-LITERAL grammar (Model/ValueParse.v = parser.rs parse_value: null, strings, integers,
   booleans, regular expressions, ranges, lists, maps): every spelling of a value - any layout and comments at every
   position the grammar allows, either quote character, either keyword case, signs and leading zeros - parses to that
   value; and the QUERY grammar (Model/QueryParse.v = parser.rs `access`: some, this, variable / bare / quoted heads, .n, [n],
   .key, ."key", ['key'], .%var, .*, [*], [name], the i32 wrap of an index, the [*] inserted after a variable head): every
   spelling of a query parses to that query; an explicit leading `this` means the query itself in the documented semantics.
   NOT modelled: filters `[ clauses ]` and keys filters inside a query, and the rest of the nom grammar (clauses, blocks,
   rules) - that a synonym is accepted identically in EVERY context is
   checked by correspondence (pretty-printing generated ASTs under all spellings/layouts and comparing the parser's
   ASTs and the verdicts; tools/gv/props/c14.py). *)
From GV.Model Require Import Ast Spec.
From GV.Model Require Import Lex ValueParse QueryParse OpParse ClauseParse CnfParse FilterParse ClauseFParse CnfFParse LetParse CallParse FullParse.
From GV.Proofs Require Import LexProps ValueParseProps ValueSpellProps ValueSpellExample.
From GV.Proofs Require Import QueryParseProps QuerySpellProps QuerySpellExample ThisProps OpParseProps ClauseParseProps ClauseSpellProps ClauseSpellExample CnfParseProps OpSoundProps ClauseFuelProps CnfSpellProps CnfSpellExample FilterParseProps ClauseFProps CnfFProps LetParseProps CallParseProps FuelMonoProps CallExtendProps FullParseProps FullLinkProps FullCondsProps FullClauseProps FullLetProps.

Theorem C14_keyword_tables_are_the_documented_ones :
  set_eqb kw_in_keyword ["in"; "IN"] = true /\ set_eqb kw_keys ["keys"; "KEYS"] = true /\
  set_eqb kw_exists ["exists"; "EXISTS"] = true /\ set_eqb kw_empty ["empty"; "EMPTY"] = true /\
  set_eqb kw_is_list ["is_list"; "IS_LIST"] = true /\ set_eqb kw_is_struct ["is_struct"; "IS_STRUCT"] = true /\
  set_eqb kw_is_string ["is_string"; "IS_STRING"] = true /\ set_eqb kw_is_bool ["is_bool"; "IS_BOOL"] = true /\
  set_eqb kw_is_int ["is_int"; "IS_INT"] = true /\ set_eqb kw_is_float ["is_float"; "IS_FLOAT"] = true /\
  set_eqb kw_is_null ["is_null"; "IS_NULL"] = true /\ set_eqb kw_some_keyword ["some"; "SOME"] = true /\
  set_eqb kw_this_keyword ["this"; "THIS"] = true /\ set_eqb kw_when ["when"; "WHEN"] = true /\
  set_eqb kw_or_term ["or"; "OR"; "|OR|"] = true /\ set_eqb kw_parse_null ["null"; "NULL"] = true /\
  set_eqb kw_not_words ["not"; "NOT"] = true /\ set_eqb kw_not_chars ["!"] = true /\
  set_eqb kw_assign ["="; ":="] = true /\ set_eqb kw_let_keyword ["let"] = true /\
  set_eqb kw_bool_true ["true"; "True"] = true /\ set_eqb kw_bool_false ["false"; "False"] = true.
Proof. exact keyword_tables_are_the_documented_ones. Qed.
Print Assumptions C14_keyword_tables_are_the_documented_ones.

Theorem C14_synonyms_same_token : forall T (x : T) tags s r1,
  alt_tags tags s = Some r1 -> keyword x tags s = Some (x, r1).
Proof. exact synonyms_same_token. Qed.
Print Assumptions C14_synonyms_same_token.

Theorem C14_tag_accepted : forall tags t rest,
  In t tags -> (forall u, In u tags -> u <> t -> str_prefix u (t +++ rest) = false) ->
  alt_tags tags (t +++ rest) = Some rest.
Proof. exact tag_accepted. Qed.
Print Assumptions C14_tag_accepted.

(* indentation, blank lines, trailing spaces, line breaks and # comments: consumed down to the same remainder *)
Theorem C14_ws_comment_absorbing : forall w rest, layout w -> solid rest -> skip_ws_comments (w +++ rest) = rest.
Proof. exact ws_comment_absorbing. Qed.
Print Assumptions C14_ws_comment_absorbing.

Theorem C14_layouts_are_interchangeable : forall w1 w2 rest,
  layout w1 -> layout w2 -> solid rest -> skip_ws_comments (w1 +++ rest) = skip_ws_comments (w2 +++ rest).
Proof. exact layouts_are_interchangeable. Qed.
Print Assumptions C14_layouts_are_interchangeable.

(* single vs double quoted strings *)
Theorem C14_string_quote_roundtrip : forall q s rest,
  q <> "\"%char -> ends_with_backslash s = false ->
  parse_quoted q (quote q s +++ rest) = Some (s, rest).
Proof. exact string_quote_roundtrip. Qed.
Print Assumptions C14_string_quote_roundtrip.

Theorem C14_single_and_double_quotes_agree : forall s rest,
  ends_with_backslash s = false ->
  parse_quoted "'" (quote "'" s +++ rest) = parse_quoted """" (quote """" s +++ rest).
Proof. exact single_and_double_quotes_agree. Qed.
Print Assumptions C14_single_and_double_quotes_agree.

(* ---- the value-literal grammar (parse_value) ---- *)

(* blanks, line breaks and comments in front of a value do not matter, whatever the value and whatever follows *)
Theorem C14_layout_before_a_value_is_irrelevant : forall rv n w s,
  layout w -> parse_value rv n (w +++ s) = parse_value rv n s.
Proof. exact parse_value_layout. Qed.
Print Assumptions C14_layout_before_a_value_is_irrelevant.

(* every well-formed spelling (concrete syntax tree with a layout at every position, quote style, keyword case, sign and
   leading zeros) of a value is read as that value and leaves what follows untouched *)
Theorem C14_every_spelling_of_a_value_parses_to_it : forall rv t rest,
  wf rv t -> follow t rest -> parse_value_top rv (render t +++ rest) = POk (denote t) rest.
Proof. exact spelling_parses. Qed.
Print Assumptions C14_every_spelling_of_a_value_parses_to_it.

Theorem C14_spellings_of_one_value_agree : forall rv t1 t2 rest,
  wf rv t1 -> wf rv t2 -> follow t1 rest -> follow t2 rest -> denote t1 = denote t2 ->
  parse_value_top rv (render t1 +++ rest) = parse_value_top rv (render t2 +++ rest).
Proof. exact spellings_agree. Qed.
Print Assumptions C14_spellings_of_one_value_agree.

(* the parser's fuel bounds nesting and list length only: the standard fuel always suffices and more fuel changes nothing *)
Theorem C14_value_parser_answers : forall rv s, parse_value_top rv s <> POof.
Proof. exact parse_value_top_answers. Qed.
Print Assumptions C14_value_parser_answers.

Theorem C14_value_parser_fuel_irrelevant : forall rv s n,
  (value_fuel s <= n)%nat -> parse_value rv n s = parse_value_top rv s.
Proof. exact parse_value_fuel_irrelevant. Qed.
Print Assumptions C14_value_parser_fuel_irrelevant.

(* a parsed value consumed at least one character: what is left is strictly shorter *)
Theorem C14_value_parser_consumes : forall rv n s v r,
  parse_value rv n s = POk v r -> (String.length r < String.length s)%nat.
Proof. exact parse_value_consumes. Qed.
Print Assumptions C14_value_parser_consumes.

(* the premises are met: a map with comments, both quote styles, signs, leading zeros, ranges, a regex, nested lists *)
Theorem C14_spelling_instance :
  wf (fun _ => true) ex_cst /\
  parse_value_top (fun _ => true) (render ex_cst) = POk (denote ex_cst) EmptyString /\
  denote ex_cst = VMap [("ports", VList [VInt 80; VInt (-1); VRangeInt 1 5 1]);
                        ("a ""b", VList [VStr "it's"; VNull; VBool true; VRegex "^a.*$"; VRangeChar "a" "z" 2; VMap []])].
Proof. exact (conj ex_cst_wf ex_cst_parses). Qed.
Print Assumptions C14_spelling_instance.

(* ---- the query grammar (Model/QueryParse.v = parser.rs `access`) ---- *)

(* every concrete spelling of a query - .n or [n], leading zeros, a key bare / quoted either way / in brackets, some / SOME,
   this / THIS, any layout in front of every part and inside the brackets - parses to that query, to the end of the spelling *)
Theorem C14_every_spelling_of_a_query_parses_to_it : forall c rest,
  qwf c -> query_end rest -> access_top (qrender c +++ rest) = POk (qdenote c) rest.
Proof. exact query_spelling_parses. Qed.
Print Assumptions C14_every_spelling_of_a_query_parses_to_it.

Theorem C14_spellings_of_one_query_agree : forall c1 c2 rest,
  qwf c1 -> qwf c2 -> query_end rest -> qdenote c1 = qdenote c2 ->
  access_top (qrender c1 +++ rest) = access_top (qrender c2 +++ rest).
Proof. exact query_spellings_agree. Qed.
Print Assumptions C14_spellings_of_one_query_agree.

(* `.n` and `[n]` *)
Theorem C14_dotted_and_bracketed_index_agree : forall w w' w2 neg d X,
  layout w -> layout w' -> layout w2 -> wf_digits d -> name_end X ->
  part (render_part (CDotIndex w neg d) +++ X) = part (render_part (CBrIndex w' neg d w2) +++ X).
Proof. exact index_spellings_agree. Qed.
Print Assumptions C14_dotted_and_bracketed_index_agree.

(* `.key`, `."key"` / `.'key'` and `["key"]` / `['key']` *)
Theorem C14_key_spellings_agree : forall w w' w'' w2 dq dq' k X,
  layout w -> layout w' -> layout w'' -> layout w2 -> wf_name k -> ends_with_backslash k = false -> name_end X ->
  part (render_part (CDotKey w KBare k) +++ X) = part (render_part (CDotKey w' (KQuoted dq) k) +++ X) /\
  part (render_part (CDotKey w KBare k) +++ X) = part (render_part (CBrKey w'' dq' k w2) +++ X).
Proof. exact key_spellings_agree. Qed.
Print Assumptions C14_key_spellings_agree.

(* the query parser always answers, its fuel is irrelevant once it suffices, and it consumes input *)
Theorem C14_query_parser_answers : forall s, access_top s <> POof.
Proof. exact access_answers. Qed.
Print Assumptions C14_query_parser_answers.

Theorem C14_query_parser_fuel_irrelevant : forall s n, (access_fuel s <= n)%nat -> access n s = access_top s.
Proof. exact access_fuel_irrelevant. Qed.
Print Assumptions C14_query_parser_fuel_irrelevant.

Theorem C14_query_parser_consumes : forall n s q r, access n s = POk q r -> (String.length r < String.length s)%nat.
Proof. exact access_consumes. Qed.
Print Assumptions C14_query_parser_consumes.

(* the premises are met: a spelling with every construct in it, and a second spelling of the same query *)
Theorem C14_query_spelling_instance :
  access_top (qrender ex_query +++ " == 1") = POk (qdenote ex_query) " == 1" /\
  qdenote ex_query = AccessQuery [QKey "%buckets"; QAllIndices None; QKey "Properties"; QKey "a b"; QIndex 7; QIndex (-1); QKey "%k"; QAllValues None;
                                  QKey "it's"; QAllIndices (Some "idx")] false /\
  qdenote ex_plain = qdenote ex_query /\ qrender ex_plain <> qrender ex_query.
Proof. exact ex_query_parses. Qed.
Print Assumptions C14_query_spelling_instance.

(* an explicit leading `this` means the query itself (documented semantics; the implementation model refines it) *)
Theorem C14_leading_this_selects_the_same : forall lit_ok r env q,
  head_not_variable q -> query_s lit_ok r env q <> SOut -> query_s lit_ok r env (QThis :: q) = query_s lit_ok r env q.
Proof. exact leading_this_selects_the_same. Qed.
Print Assumptions C14_leading_this_selects_the_same.

Theorem C14_leading_this_same_clause : forall re lit_ok r env q all c w m neg,
  head_not_variable q -> query_s lit_ok r env q <> SOut ->
  access_s re lit_ok r env (GuardAccessClause (AccessQuery (QThis :: q) all) c w m neg) =
  access_s re lit_ok r env (GuardAccessClause (AccessQuery q all) c w m neg).
Proof. exact leading_this_same_clause. Qed.
Print Assumptions C14_leading_this_same_clause.

(* ---- the operator grammar (Model/OpParse.v = parser.rs value_cmp) ---- *)

(* either case of a keyword operator is the same operator, whatever follows *)
Theorem C14_operator_keyword_case : forall o t, is_keyword_spelling o t -> forall rest, value_cmp (t +++ rest) = POk (o, false) rest.
Proof. exact plain_keyword_operator. Qed.
Print Assumptions C14_operator_keyword_case.

(* `not `, `NOT ` (any run of blanks) and `!` in front of a keyword operator are one negation *)
Theorem C14_the_three_negations_agree : forall o t, is_keyword_spelling o t -> forall b1 b2 rest,
  blanks b1 -> b1 <> EmptyString -> blanks b2 -> b2 <> EmptyString ->
  value_cmp ("not" +++ (b1 +++ (t +++ rest))) = value_cmp ("NOT" +++ (b2 +++ (t +++ rest))) /\
  value_cmp ("not" +++ (b1 +++ (t +++ rest))) = value_cmp (String "!" (t +++ rest)).
Proof. exact the_three_negations_agree. Qed.
Print Assumptions C14_the_three_negations_agree.

Theorem C14_operator_parser_consumes : forall s x r, value_cmp s = POk x r -> (String.length r < String.length s)%nat.
Proof. exact value_cmp_consumes. Qed.
Print Assumptions C14_operator_parser_consumes.

Theorem C14_message_opener_is_not_an_operator : forall s, value_cmp ("<<" +++ s) = PErr.
Proof. exact message_opener_is_not_an_operator. Qed.
Print Assumptions C14_message_opener_is_not_an_operator.

(* ---- one access clause (Model/ClauseParse.v = parser.rs clause_with_map) ---- *)

Theorem C14_layout_before_a_clause_is_irrelevant : forall rv n w s, layout w -> clause rv n (w +++ s) = clause rv n s.
Proof. exact clause_layout_irrelevant. Qed.
Print Assumptions C14_layout_before_a_clause_is_irrelevant.

Theorem C14_clause_parser_answers : forall rv s, clause_top rv s <> POof.
Proof. exact clause_answers. Qed.
Print Assumptions C14_clause_parser_answers.

Theorem C14_clause_parser_consumes : forall rv n s c rest, clause rv n s = POk c rest -> (String.length rest < String.length s)%nat.
Proof. exact clause_consumes. Qed.
Print Assumptions C14_clause_parser_consumes.

(* every concrete spelling of an access clause - layout in front, a negation spelled not / NOT with any blanks or !, any spelling of
   the query, layout before the operator, a symbol or a keyword operator in either case with its own negation, layout before the
   right-hand side, any spelling of a value literal or a %variable query, layout before an optional message - parses to that clause *)
Theorem C14_every_spelling_of_a_clause_parses_to_it : forall rv c o rest, cwf rv c o -> cfollow rv c rest ->
  clause_top rv (crender rv c +++ rest) = POk (cdenote c o) (match cl_msg c with Some _ => rest | None => skip_ws_comments rest end).
Proof. exact clause_spelling_parses. Qed.
Print Assumptions C14_every_spelling_of_a_clause_parses_to_it.

Theorem C14_spellings_of_one_clause_agree : forall rv c1 c2 o rest, cwf rv c1 o -> cwf rv c2 o -> cfollow rv c1 rest -> cfollow rv c2 rest ->
  cdenote c1 o = cdenote c2 o -> (cl_msg c1 = None <-> cl_msg c2 = None) ->
  clause_top rv (crender rv c1 +++ rest) = clause_top rv (crender rv c2 +++ rest).
Proof. exact clause_spellings_agree. Qed.
Print Assumptions C14_spellings_of_one_clause_agree.

(* the premises are met: two different spellings of one negated `not in` clause with a literal and a message, a unary clause
   under `some this`, a comparison against a %variable query *)
Theorem C14_clause_spelling_instance :
  clause_top rv0 (crender rv0 ex_c1 +++ nl) = POk (cdenote ex_c1 (OIn, true)) nl /\
  cdenote ex_c1 (OIn, true) =
    mkPC true (AccessQuery [QKey "%buckets"; QAllIndices None; QKey "Properties"; QKey "a b"; QIndex 0] true) (OIn, true) (Some (RLit (VInt 10))) (Some " must be ten ") /\
  cdenote ex_c2 (OIn, true) = cdenote ex_c1 (OIn, true) /\ crender rv0 ex_c2 <> crender rv0 ex_c1 /\
  clause_top rv0 (crender rv0 ex_c2 +++ nl) = clause_top rv0 (crender rv0 ex_c1 +++ nl) /\
  clause_top rv0 (crender rv0 ex_unary +++ (nl +++ "}")) =
    POk (mkPC false (AccessQuery [QThis; QKey "Tags"] false) (OEmpty, true) None None) "}" /\
  clause_top rv0 (crender rv0 ex_var +++ (nl +++ "}")) =
    POk (mkPC false (AccessQuery [QKey "size"] true) (OLe, false) (Some (RQuery (AccessQuery [QKey "%limit"; QAllIndices None; QKey "max"] true))) None) "}".
Proof. exact ex_clauses_parse. Qed.
Print Assumptions C14_clause_spelling_instance.

(* ---- lines of or-joined clauses (Model/CnfParse.v = parser.rs or_join / disjunction_clauses / cnf_clauses / single_clauses) ---- *)

(* `or`, `OR` and `|OR|`, with any layout in front and any non-empty layout behind, are one separator *)
Theorem C14_or_spellings_agree : forall t1 t2 w1 w1' w2 w2' X, In t1 kw_or_term -> In t2 kw_or_term ->
  layout w1 -> layout w1' -> w1' <> EmptyString -> layout w2 -> layout w2' -> w2' <> EmptyString -> solid X ->
  or_join (w1 +++ (t1 +++ (w1' +++ X))) = or_join (w2 +++ (t2 +++ (w2' +++ X))).
Proof. exact or_spellings_agree. Qed.
Print Assumptions C14_or_spellings_agree.

(* in a line of alternatives: whichever way the separator is spelled, the line goes on with the same alternative from the same place *)
Theorem C14_or_synonyms_in_a_line : forall A (f : string -> pres A) t1 t2 w1 w1' w2 w2' X n acc v r,
  In t1 kw_or_term -> In t2 kw_or_term -> layout w1 -> layout w1' -> w1' <> EmptyString -> layout w2 -> layout w2' -> w2' <> EmptyString ->
  solid X -> f X = POk v r ->
  sep_loop or_join f (S n) acc (w1 +++ (t1 +++ (w1' +++ X))) = sep_loop or_join f (S n) acc (w2 +++ (t2 +++ (w2' +++ X))).
Proof. exact or_synonyms_in_a_line. Qed.
Print Assumptions C14_or_synonyms_in_a_line.

Theorem C14_conditions_parser_answers : forall rv s, single_clauses_top rv s <> POof.
Proof. exact conditions_parser_answers. Qed.
Print Assumptions C14_conditions_parser_answers.

(* the converse for operators: whatever is accepted as an operator is one of the documented spellings - a symbol, a keyword of the
   tables in one of its two cases, optionally behind not / NOT and blanks or ! - and stands for what that spelling stands for *)
Theorem C14_only_documented_operators : forall s c r, value_cmp s = POk c r -> exists sp, operator_spelling sp c /\ s = sp +++ r.
Proof. exact only_documented_operators. Qed.
Print Assumptions C14_only_documented_operators.

Theorem C14_clause_parser_fuel_irrelevant : forall rv n s, (String.length s < n)%nat -> clause rv n s = clause_top rv s.
Proof. exact clause_fuel_irrelevant. Qed.
Print Assumptions C14_clause_parser_fuel_irrelevant.

(* every concrete spelling of the conditions of a `when` - lines with any layout (blank lines, comments) in front, alternatives that
   are any spelling of an access clause or a reference to a named rule (negated, with a message), joined by or / OR / |OR| with
   any layout around - parses to those conditions *)
Theorem C14_every_spelling_of_conditions_parses : forall rv l0 ls tail, lines_ok rv (l0 :: ls) tail ->
  or_join (after (final_alt ls (last_alt l0)) tail) = None ->
  (forall m, when_elem rv m (skip_ws_comments (after (final_alt ls (last_alt l0)) tail)) = PErr) ->
  single_clauses_top rv (render_conds rv (l0 :: ls) +++ tail) = POk (map denote_line (l0 :: ls)) (after (final_alt ls (last_alt l0)) tail).
Proof. exact conditions_spelling_parses. Qed.
Print Assumptions C14_every_spelling_of_conditions_parses.

(* the conditions end where a block opens *)
Theorem C14_conditions_end_at_a_brace : forall rv prev w r, layout w ->
  or_join (after prev (w +++ String "{" r)) = None /\ (forall m, when_elem rv m (skip_ws_comments (after prev (w +++ String "{" r))) = PErr).
Proof. exact conditions_end_at_a_brace. Qed.
Print Assumptions C14_conditions_end_at_a_brace.

(* the premises are met: three lines - a negated comparison OR (over a line break) a comparison with a message; after a comment a
   `!` clause; a negated rule reference with a message |OR| a plain reference - ending where the block opens *)
Theorem C14_conditions_spelling_instance :
  single_clauses_top rv0 (render_conds rv0 ex_lines +++ ex_tail) =
  POk [[PWClause (mkPC true (AccessQuery [QKey "%b"; QAllIndices None; QKey "Size"] true) (OGe, false) (Some (RLit (VInt 10))) None);
        PWClause (mkPC false (AccessQuery [QThis; QKey "Mode"] true) (OEq, false) (Some (RLit (VStr "strict"))) (Some "mode"))];
       [PWClause (mkPC true (AccessQuery [QKey "Tags"] true) (OEmpty, false) None None)];
       [PWNamed (mkPN "other_rule" true (Some "see docs")); PWNamed (mkPN "r2" false None)]] (" {" +++ nl).
Proof. exact ex_conditions_parse. Qed.
Print Assumptions C14_conditions_spelling_instance.

(* ---- queries with filters (Model/FilterParse.v: keys filters and one level of `[ clauses ]`) ---- *)

(* the parser with filters answers exactly what the filter-free parser answers wherever that one answers at all: every theorem
   above about spellings of filter-free queries holds for it *)
Theorem C14_filter_parser_extends_the_query_parser : forall rv s x, access_top s = x -> x <> PUnk -> access_f_top rv s = pmap embed x.
Proof. exact access_f_top_extends. Qed.
Print Assumptions C14_filter_parser_extends_the_query_parser.

Theorem C14_filter_parser_answers : forall rv s, access_f_top rv s <> POof.
Proof. exact access_f_answers. Qed.
Print Assumptions C14_filter_parser_answers.

(* the clause parser over queries with filters answers what the filter-free clause parser answers wherever that one answers *)
Theorem C14_clause_parser_with_filters_extends : forall rv s x, clause_top rv s = x -> x <> PUnk -> clause_f_top rv s = pmap embed_clause x.
Proof. exact clause_f_top_extends. Qed.
Print Assumptions C14_clause_parser_with_filters_extends.

(* the conditions parser over clauses with filtered queries answers what the filter-free conditions parser answers wherever that answers *)
Theorem C14_conditions_parser_with_filters_extends : forall rv s x, single_clauses_top rv s = x -> x <> PUnk -> x <> POof ->
  single_clauses_f_top rv s = pmap (map (map embed_when)) x.
Proof. exact conditions_f_extend. Qed.
Print Assumptions C14_conditions_parser_with_filters_extends.

(* ---- assignments (Model/LetParse.v = parser.rs let_assignment_expr / assignment) ---- *)

(* every spelling `let <layout> name <layout> = or := <layout> value` is the assignment of that value to that name *)
Theorem C14_every_spelling_of_an_assignment_parses : forall rv w1 name w2 eq w3 t rest,
  layout w1 -> w1 <> EmptyString -> wf_name name -> layout w2 -> In eq kw_assign -> layout w3 -> wf rv t -> follow t rest ->
  assignment_top rv ("let" +++ (w1 +++ (name +++ (w2 +++ (eq +++ (w3 +++ (render t +++ rest))))))) = POk (mkPL name (LVLit (denote t))) rest.
Proof. exact let_spelling_parses. Qed.
Print Assumptions C14_every_spelling_of_an_assignment_parses.

(* `=` and `:=` are one sign *)
Theorem C14_assignment_signs_agree : forall rv w1 w1' name w2 w2' w3 w3' t t' rest,
  layout w1 -> w1 <> EmptyString -> layout w1' -> w1' <> EmptyString -> wf_name name -> layout w2 -> layout w2' -> layout w3 -> layout w3' ->
  wf rv t -> wf rv t' -> follow t rest -> follow t' rest -> denote t = denote t' ->
  assignment_top rv ("let" +++ (w1 +++ (name +++ (w2 +++ ("=" +++ (w3 +++ (render t +++ rest))))))) =
  assignment_top rv ("let" +++ (w1' +++ (name +++ (w2' +++ (":=" +++ (w3' +++ (render t' +++ rest))))))).
Proof. exact assignment_signs_agree. Qed.
Print Assumptions C14_assignment_signs_agree.

Theorem C14_assignment_of_a_variable_query_parses : forall rv w1 name w2 eq w3 v ps rest,
  layout w1 -> w1 <> EmptyString -> wf_name name -> layout w2 -> In eq kw_assign -> layout w3 -> qwf (mkCQ None (CVar v) ps) -> query_end rest ->
  assignment_top rv ("let" +++ (w1 +++ (name +++ (w2 +++ (eq +++ (w3 +++ (qrender (mkCQ None (CVar v) ps) +++ rest))))))) =
  POk (mkPL name (LVQuery (embed (qdenote (mkCQ None (CVar v) ps))))) rest.
Proof. exact let_query_spelling_parses. Qed.
Print Assumptions C14_assignment_of_a_variable_query_parses.

(* ---- function calls (Model/CallParse.v = parser.rs let_value / call_expr / function_expr) ---- *)

(* something is read as a call only for a built-in function name with exactly the number of arguments that function expects *)
Theorem C14_only_known_functions_are_calls : forall rv n s f args r, let_value rv n s = POk (PVCall f args) r ->
  exists name k, assoc name fn_table = Some (f, k) /\ List.length args = k.
Proof. exact let_value_calls_are_known. Qed.
Print Assumptions C14_only_known_functions_are_calls.

Theorem C14_function_table : map (fun p => (fst p, snd (snd p))) fn_table =
  [("count", 1); ("join", 2); ("json_parse", 1); ("now", 0); ("parse_boolean", 1); ("parse_char", 1); ("parse_epoch", 1); ("parse_float", 1);
   ("parse_int", 1); ("parse_string", 1); ("regex_replace", 3); ("substring", 3); ("to_lower", 1); ("to_upper", 1); ("url_decode", 1)]%nat.
Proof. exact function_table. Qed.
Print Assumptions C14_function_table.

(* more fuel never changes an answer of the query parser with filters or of the clause parser over it *)
Theorem C14_filter_parser_fuel_monotone : forall rv n m s x, (n <= m)%nat -> access_f rv n s = x -> x <> POof -> access_f rv m s = x.
Proof. exact access_f_mono. Qed.
Print Assumptions C14_filter_parser_fuel_monotone.

(* the three layers of the clause grammar - filter-free, with filters, with calls - read a filter-free clause alike *)
Theorem C14_three_layers_agree : forall rv s c r, clause_top rv s = POk c r ->
  clause_f_top rv s = POk (embed_clause c) r /\ clause_c_top rv s = POk (with_calls (embed_clause c)) r.
Proof. exact three_layers_agree. Qed.
Print Assumptions C14_three_layers_agree.

Theorem C14_clause_parser_with_calls_extends : forall rv n s x, clause_f rv n s = x -> x <> PUnk -> x <> POof ->
  forall m, (n <= m)%nat -> clause_c rv (S m) s = pmap with_calls x.
Proof. exact clause_c_extends. Qed.
Print Assumptions C14_clause_parser_with_calls_extends.

(* ---- the whole grammar (Model/FullParse.v = parser.rs rules_file), tied on whole files ---- *)

(* the comparison used by the whole-file tie is equality: an agreement means the model's tree IS the tree of the implementation's AST *)
Theorem C14_whole_file_agreement_is_equality : forall rv name text t',
  rules_file_obs rv name text (IFileOk t') = FVAgree -> rules_file rv name text = FOk t'.
Proof. exact agreement_is_equality. Qed.
Print Assumptions C14_whole_file_agreement_is_equality.

Theorem C14_layout_only_is_the_empty_file : forall rv name s, skip_ws_comments s = EmptyString -> rules_file rv name s = FEmpty.
Proof. exact layout_only_is_empty. Qed.
Print Assumptions C14_layout_only_is_the_empty_file.

(* the whole-grammar parser reads the filter-free fragment exactly as the proved layers do ... *)
Theorem C14_whole_grammar_reads_queries_alike : forall rv n s x, access n s = x -> x <> PUnk -> x <> POof ->
  forall m, (n <= m)%nat -> xaccess rv (S (S m)) s = pmap query_tree x.
Proof. exact xaccess_extends. Qed.
Print Assumptions C14_whole_grammar_reads_queries_alike.

Theorem C14_whole_grammar_reads_clauses_alike : forall rv n s c r, clause rv n s = POk c r ->
  forall m, (n <= m)%nat -> xaccess_clause rv (S (S (S (S m)))) s = POk (clause_tree c) r.
Proof. exact xaccess_clause_extends. Qed.
Print Assumptions C14_whole_grammar_reads_clauses_alike.

(* ... so every concrete spelling of an access clause / of a query, read by the whole-grammar parser, is the tree of that clause / query *)
Theorem C14_whole_grammar_reads_every_clause_spelling : forall rv c o rest, cwf rv c o -> cfollow rv c rest ->
  xaccess_clause rv (S (S (S (S (S (String.length (crender rv c +++ rest))))))) (crender rv c +++ rest) =
  POk (clause_tree (cdenote c o)) (match cl_msg c with Some _ => rest | None => skip_ws_comments rest end).
Proof. exact whole_grammar_reads_every_clause_spelling. Qed.
Print Assumptions C14_whole_grammar_reads_every_clause_spelling.

Theorem C14_whole_grammar_reads_every_query_spelling : forall rv c rest, qwf c -> query_end rest ->
  xaccess rv (S (S (access_fuel (qrender c +++ rest)))) (qrender c +++ rest) = POk (query_tree (qdenote c)) rest.
Proof. exact whole_grammar_reads_every_query_spelling. Qed.
Print Assumptions C14_whole_grammar_reads_every_query_spelling.

(* the conditions of a when: read by the whole-grammar parser to the tree of the conditions the proved layer reads; hence every
   spelling of conditions, behind when / WHEN and any layout *)
Theorem C14_whole_grammar_reads_conditions_alike : forall rv kw w0 w1 X l r N,
  In kw kw_when -> layout w0 -> layout w1 -> w1 <> EmptyString ->
  single_clauses_top rv X = POk l r -> (String.length X + 6 <= N)%nat ->
  xwhen_conds rv (S N) (w0 +++ (kw +++ (w1 +++ X))) = POk (T "cnf" (map tor (map (map when_tree) l))) r.
Proof. exact xwhen_conds_reads_conditions. Qed.
Print Assumptions C14_whole_grammar_reads_conditions_alike.

Theorem C14_whole_grammar_reads_every_conditions_spelling : forall rv kw w0 w1 l0 ls tail N,
  In kw kw_when -> layout w0 -> layout w1 -> w1 <> EmptyString -> lines_ok rv (l0 :: ls) tail ->
  or_join (after (final_alt ls (last_alt l0)) tail) = None ->
  (forall m, when_elem rv m (skip_ws_comments (after (final_alt ls (last_alt l0)) tail)) = PErr) ->
  (String.length (render_conds rv (l0 :: ls) +++ tail) + 6 <= N)%nat ->
  xwhen_conds rv (S N) (w0 +++ (kw +++ (w1 +++ (render_conds rv (l0 :: ls) +++ tail)))) =
  POk (T "cnf" (map tor (map (map when_tree) (map denote_line (l0 :: ls))))) (after (final_alt ls (last_alt l0)) tail).
Proof. exact whole_grammar_reads_every_conditions_spelling. Qed.
Print Assumptions C14_whole_grammar_reads_every_conditions_spelling.

(* `xclause`, the clause parser the whole-grammar parser uses inside blocks and filters, reads an access clause of the proved layer to
   the tree of that clause when the text does not start with `when`, is not a call and is not a block clause *)
Theorem C14_whole_grammar_clause_parser_reads_access_clauses : forall rv n s c r, clause rv n s = POk c r ->
  alt_tags kw_when (skip_ws_comments s) = None -> call_like s = PErr -> not_a_block_clause n s ->
  forall m, (n <= m)%nat -> xclause rv (S (S (S (S (S m))))) s = POk (clause_tree c) r.
Proof. exact xclause_reads_access_clause. Qed.
Print Assumptions C14_whole_grammar_clause_parser_reads_access_clauses.

(* `xassignment`, the assignment parser of the whole-grammar parser: every spelling `let <layout> name <layout> = | := <layout> value`
   is read as Let name (Lit value) - nothing of the remainder consumed - and `=` and `:=` are one sign *)
Theorem C14_whole_grammar_reads_every_let_spelling : forall rv w1 name w2 eq w3 t rest,
  layout w1 -> w1 <> EmptyString -> wf_name name -> layout w2 -> In eq kw_assign -> layout w3 -> wf rv t -> follow t rest ->
  let text := "let" +++ (w1 +++ (name +++ (w2 +++ (eq +++ (w3 +++ (render t +++ rest)))))) in
  xassignment rv (S (S (S (S (S (String.length text)))))) text = POk (T "Let" [Leaf name; T "Lit" [lit_tree (denote t)]]) rest.
Proof. exact xlet_spelling_parses. Qed.
Print Assumptions C14_whole_grammar_reads_every_let_spelling.

Theorem C14_whole_grammar_let_signs_agree : forall rv w1 name w2 w3 t rest,
  layout w1 -> w1 <> EmptyString -> wf_name name -> layout w2 -> layout w3 -> wf rv t -> follow t rest ->
  let a := "let" +++ (w1 +++ (name +++ (w2 +++ ("=" +++ (w3 +++ (render t +++ rest)))))) in
  let b := "let" +++ (w1 +++ (name +++ (w2 +++ (":=" +++ (w3 +++ (render t +++ rest)))))) in
  xassignment rv (S (S (S (S (S (String.length a)))))) a = xassignment rv (S (S (S (S (S (String.length b)))))) b.
Proof. exact xlet_signs_agree. Qed.
Print Assumptions C14_whole_grammar_let_signs_agree.

(* and with a filter-free %variable query on the right: Let name (Query query) *)
Theorem C14_whole_grammar_reads_every_let_query_spelling : forall rv w1 name w2 eq w3 v ps rest,
  layout w1 -> w1 <> EmptyString -> wf_name name -> layout w2 -> In eq kw_assign -> layout w3 -> qwf (mkCQ None (CVar v) ps) -> query_end rest ->
  let text := "let" +++ (w1 +++ (name +++ (w2 +++ (eq +++ (w3 +++ (qrender (mkCQ None (CVar v) ps) +++ rest)))))) in
  xassignment rv (S (S (S (S (S (String.length text)))))) text =
  POk (T "Let" [Leaf name; T "Query" [query_tree (qdenote (mkCQ None (CVar v) ps))]]) rest.
Proof. exact xlet_query_spelling_parses. Qed.
Print Assumptions C14_whole_grammar_reads_every_let_query_spelling.
