(* CnfParseProps.v — lines of or-joined clauses (Model/CnfParse.v): `or`, `OR` and `|OR|` with any layout around them are one
   separator; the conditions parser consumes input and always answers with the standard fuel. *)
From Coq Require Import Lia.
From GV.Model Require Import Ast.
From GV.Model Require Import ValueParse QueryParse OpParse ClauseParse CnfParse.
From GV.Proofs Require Import LexProps ValueParseProps ValueSpellProps QueryParseProps QuerySpellProps OpParseProps ClauseParseProps.
Local Open Scope string_scope.
Local Open Scope nat_scope.

(* ---------------------------------------------------------------- the separator *)
Lemma or_join_len s r : or_join s = Some r -> len r < len s.
Proof.
  unfold or_join. destruct (alt_tags kw_or_term (skip_ws_comments s)) as [r1|] eqn:E; [|discriminate].
  destruct (starts_layout r1); [|discriminate]. intros H. inversion H; subst.
  apply alt_tags_len in E; [|repeat constructor; discriminate].
  pose proof (skip_len s false). pose proof (skip_len r1 false). unfold skip_ws_comments in *. lia.
Qed.

Theorem or_join_spelled : forall t w w' X, In t kw_or_term -> layout w -> layout w' -> w' <> EmptyString -> solid X ->
  or_join (w +++ (t +++ (w' +++ X))) = Some X.
Proof.
  intros t w w' X Ht Hw Hw' Hne HX. unfold or_join. rewrite (skip_layout w _ Hw). unfold kw_or_term in Ht.
  destruct Ht as [<-|[<-|[<-|[]]]]; cbn [append]; rewrite skip_solid by reflexivity;
    cbn [alt_tags kw_or_term str_prefix Ascii.eqb Bool.eqb andb drop String.length];
    rewrite (layout_nonempty_starts w' X Hw' Hne); rewrite (ws_comment_absorbing w' X Hw' HX); reflexivity.
Qed.

Corollary or_spellings_agree : forall t1 t2 w1 w1' w2 w2' X, In t1 kw_or_term -> In t2 kw_or_term ->
  layout w1 -> layout w1' -> w1' <> EmptyString -> layout w2 -> layout w2' -> w2' <> EmptyString -> solid X ->
  or_join (w1 +++ (t1 +++ (w1' +++ X))) = or_join (w2 +++ (t2 +++ (w2' +++ X))).
Proof. intros. rewrite !or_join_spelled by assumption. reflexivity. Qed.

(* in a line: whatever the spelling of the separator, the next alternative is read from the same place *)
Theorem alternative_after_or : forall A (f : string -> pres A) t w w' X n acc v r,
  In t kw_or_term -> layout w -> layout w' -> w' <> EmptyString -> solid X -> f X = POk v r ->
  sep_loop or_join f (S n) acc (w +++ (t +++ (w' +++ X))) = sep_loop or_join f n (acc ++ [v]) r.
Proof. intros A f t w w' X n acc v r Ht Hw Hw' Hne HX Hf. cbn [sep_loop]. rewrite (or_join_spelled t w w' X Ht Hw Hw' Hne HX), Hf. reflexivity. Qed.

Corollary or_synonyms_in_a_line : forall A (f : string -> pres A) t1 t2 w1 w1' w2 w2' X n acc v r,
  In t1 kw_or_term -> In t2 kw_or_term -> layout w1 -> layout w1' -> w1' <> EmptyString -> layout w2 -> layout w2' -> w2' <> EmptyString ->
  solid X -> f X = POk v r ->
  sep_loop or_join f (S n) acc (w1 +++ (t1 +++ (w1' +++ X))) = sep_loop or_join f (S n) acc (w2 +++ (t2 +++ (w2' +++ X))).
Proof. intros. erewrite !alternative_after_or by eassumption. reflexivity. Qed.

(* ---------------------------------------------------------------- generic: consumption and fuel *)
Section Generic.
Context {A : Type}.
Variable elem : nat -> string -> pres A.
Hypothesis elem_len : forall n t v r, elem n t = POk v r -> len r < len t.
Hypothesis elem_fuel : forall n t, len t < n -> elem n t <> POof.

Lemma skipped_elem_len n t v r : elem n (skip_ws_comments t) = POk v r -> len r <= len t.
Proof. intros H. apply elem_len in H. pose proof (skip_len t false). unfold skip_ws_comments in *. lia. Qed.

Lemma disjunction_len n s l r : disjunction elem n s = POk l r -> len r < len s.
Proof.
  unfold disjunction. destruct (elem n (skip_ws_comments s)) as [v s1| | | |] eqn:E; try discriminate. intros H.
  apply elem_len in E. pose proof (skip_len s false). unfold skip_ws_comments in *.
  eapply (sep_loop_len or_join or_join_len _ (S (len s1))) in H; [lia| |lia].
  intros t v0 r0 _ Ht. now apply skipped_elem_len in Ht.
Qed.

Lemma disjunction_nooof n s : len s < n -> disjunction elem n s <> POof.
Proof.
  intros L. unfold disjunction. pose proof (skip_len s false) as L0. fold (skip_ws_comments s) in L0.
  destruct (elem n (skip_ws_comments s)) as [v s1| | | |] eqn:E; try discriminate.
  - apply elem_len in E. apply (sep_loop_nooof or_join or_join_len _ (S (len s1))); try lia.
    + intros t v0 r0 _ Ht. now apply skipped_elem_len in Ht.
    + intros t Lt. apply elem_fuel. pose proof (skip_len t false). unfold skip_ws_comments in *. lia.
  - exfalso. eapply elem_fuel; [|exact E]. lia.
Qed.

Lemma cnf_loop_len : forall n acc s l r, cnf_loop elem n acc s = POk l r -> len r <= len s.
Proof.
  induction n as [|n IH]; intros acc s l r H; [discriminate|]. cbn [cnf_loop] in H.
  destruct (disjunction elem n s) as [d r1| | | |] eqn:E; try discriminate.
  - apply disjunction_len in E. apply IH in H. lia.
  - destruct acc; [discriminate|]. inversion H; subst. lia.
Qed.

Lemma cnf_loop_nooof : forall n acc s, len s + 1 < n -> cnf_loop elem n acc s <> POof.
Proof.
  induction n as [|n IH]; intros acc s L; [lia|]. cbn [cnf_loop].
  destruct (disjunction elem n s) as [d r1| | | |] eqn:E; try discriminate.
  - apply IH. apply disjunction_len in E. lia.
  - destruct acc; discriminate.
  - exfalso. eapply disjunction_nooof; [|exact E]. lia.
Qed.

End Generic.

(* ---------------------------------------------------------------- the conditions of a when *)
Section Conds.
Variable rv : string -> bool.

Lemma rule_clause_len s v r : rule_clause s = POk v r -> len r < len s.
Proof.
  unfold rule_clause.
  destruct (match not_kw s with Some r0 => (true, r0) | None => (false, s) end) as [neg s1] eqn:E0.
  assert (L1 : len s1 <= len s).
  { destruct (not_kw s) as [r0|] eqn:E; inversion E0; subst; [apply not_kw_len in E; lia|lia]. }
  destruct (var_name s1) as [name r1| | | |] eqn:Ev; try discriminate. apply var_name_len in Ev.
  match goal with |- context [if ?b then _ else _] => destruct b end.
  - intros H. inversion H; subst. lia.
  - destruct (span_while is_blank r1) as [bl b] eqn:Eb. apply span_while_len in Eb. cbn [snd].
    unfold custom_message. destruct (str_prefix "<<" b) eqn:Ep; [|discriminate].
    destruct (find_close (drop 2 b) EmptyString) as [[m r2]|] eqn:Ef; [|discriminate]. intros H. inversion H; subst.
    assert (G : forall t acc m0 r0, find_close t acc = Some (m0, r0) -> len r0 <= len t).
    { induction t as [|c t IH]; intros acc m0 r0 Hf; cbn [find_close] in Hf; [discriminate|].
      destruct (str_prefix ">>" (String c t)).
      - injection Hf as _ E2. subst r0. destruct t as [|c2 t2]; cbn; lia.
      - apply IH in Hf. cbn. lia. }
    apply G in Ef. pose proof (drop_len 2 b). lia.
Qed.

Lemma rule_clause_nooof s : rule_clause s <> POof.
Proof.
  unfold rule_clause. destruct (match not_kw s with Some r0 => (true, r0) | None => (false, s) end) as [neg s1].
  pose proof (var_name_nooof s1) as V. destruct (var_name s1) as [name r1| | | |]; try discriminate; [|congruence].
  match goal with |- context [if ?b then _ else _] => destruct b end; [discriminate|].
  unfold custom_message. destruct (str_prefix "<<" _); [|discriminate]. destruct (find_close _ _) as [[m r2]|]; discriminate.
Qed.

Lemma when_elem_len n s v r : when_elem rv n s = POk v r -> len r < len s.
Proof.
  unfold when_elem. destruct (clause rv n s) as [c r1| | | |] eqn:E; cbn [pmap]; try discriminate.
  - intros H. inversion H; subst. now apply clause_consumes in E.
  - destruct (call_like s) eqn:Ec; cbn [pmap]; try discriminate.
    + unfold call_like in Ec. exfalso. eapply function_like_not_ok. exact Ec.
    + intros H. apply pmap_ok in H as (a & H & _). now apply rule_clause_len in H.
Qed.

Lemma when_elem_nooof n s : len s < n -> when_elem rv n s <> POof.
Proof.
  intros L. unfold when_elem. pose proof (clause_enough_fuel rv n s L) as C.
  destruct (clause rv n s) as [c r1| | | |]; cbn [pmap]; try discriminate; [|congruence].
  unfold call_like. pose proof (function_like_nooof (match not_kw s with Some r => r | None => s end)) as F.
  destruct (function_like _); cbn [pmap]; try discriminate; [|congruence].
  intros H. apply pmap_oof in H. now apply rule_clause_nooof in H.
Qed.

Theorem conditions_parser_answers : forall s, single_clauses_top rv s <> POof.
Proof.
  intros s. unfold single_clauses_top, single_clauses, cnf. apply cnf_loop_nooof; [apply when_elem_len|apply when_elem_nooof|lia].
Qed.

Theorem conditions_parser_consumes : forall n s l r, single_clauses rv n s = POk l r -> len r <= len s.
Proof. intros n s l r H. unfold single_clauses, cnf in H. eapply cnf_loop_len; [apply when_elem_len|exact H]. Qed.

(* a rule reference: the negation in front of it is recorded *)
Theorem rule_reference_negation : forall s v r, rule_clause s = POk v r -> pn_neg v = match not_kw s with Some _ => true | None => false end.
Proof.
  intros s v r. unfold rule_clause. destruct (not_kw s) as [r0|];
  match goal with |- context [var_name ?t] => destruct (var_name t) as [name r1| | | |]; try discriminate end;
  (match goal with |- context [if ?b then _ else _] => destruct b end; [intros H; inversion H; reflexivity|]);
  (destruct (custom_message _) as [m r2| | | |]; try discriminate; intros H; inversion H; reflexivity).
Qed.

End Conds.
