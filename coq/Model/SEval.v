(* SEval.v — the faithful, stateful, fuel-indexed model of the evaluator:
   eval_context.rs 95-1177, 1482-1606, 2437-2472 and eval.rs 10-405, 765-974, 1078-2065.
   Open recursion: non-recursive bodies over a record of callees; one Fixpoint on fuel.
   No proofs in this file. *)
From GV.Model Require Export Functions.

(* the seven cruet converters of the key-miss fallback, as an oracle:
   None = the pair is not in the table shipped with the case *)
Definition conv_oracle := N -> string -> option string.

Inductive frame :=
| FRoot (root : pv) (lets : list let_expr) (memo : list (string * list qres))
| FBlock (root : pv) (lets : list let_expr) (memo : list (string * list qres))
| FValue (root : pv)
| FParams (bindings : list (string * list qres)) (call_name : string) (call_msg : option string).

Record state := mkState {
  frames : list frame;                       (* innermost first; the last one is the root scope *)
  statuses : list (string * status) }.       (* RootScope.rules_status *)

Definition M (A : Type) := state -> outcome (A * list record * state).

Definition ret {A} (a : A) : M A := fun s => Done (a, [], s).
Definition bind {A B} (m : M A) (f : A -> M B) : M B := fun s =>
  match m s with
  | Done (a, r1, s1) =>
      match f a s1 with
      | Done (b, r2, s2) => Done (b, r1 ++ r2, s2)
      | Err e => Err e
      | Panic p => Panic p
      | OutOfFuel => OutOfFuel
      | Unknown => Unknown
      end
  | Err e => Err e
  | Panic p => Panic p
  | OutOfFuel => OutOfFuel
  | Unknown => Unknown
  end.
Definition failM {A} (e : err_kind) : M A := fun _ => Err e.
Definition panicM {A} (p : panic_site) : M A := fun _ => Panic p.
Definition unknownM {A} : M A := fun _ => Unknown.
Definition oofM {A} : M A := fun _ => OutOfFuel.
Definition lift {A} (o : outcome A) : M A := fun s =>
  match o with
  | Done a => Done (a, [], s)
  | Err e => Err e
  | Panic p => Panic p
  | OutOfFuel => OutOfFuel
  | Unknown => Unknown
  end.

Notation "x <- m ;; f" := (bind m (fun x => f)) (at level 100, m at next level, right associativity).

Fixpoint mapM {A B} (f : A -> M B) (l : list A) : M (list B) :=
  match l with
  | [] => ret []
  | x :: xs => y <- f x ;; ys <- mapM f xs ;; ret (y :: ys)
  end.

Definition concatMapM {A B} (f : A -> M (list B)) (l : list A) : M (list B) :=
  r <- mapM f l ;; ret (List.concat r).

(* ResolvedParameterContext::end_record rewriting, innermost context first *)
Fixpoint rewrite_container (fs : list frame) (c : container) : container :=
  match fs with
  | [] => c
  | FParams _ name msg :: r =>
      rewrite_container r
        (match c with
         | KRuleCheck n st m => if String.eqb n name then KRuleCheck n st msg else c
         | _ => c
         end)
  | _ :: r => rewrite_container r c
  end.

(* start_record .. end_record around m; the container is computed from m's result *)
Definition node {A} (m : M A) (mk : A -> container) : M A := fun s =>
  match m s with
  | Done (a, recs, s') => Done (a, [Rec (rewrite_container (frames s') (mk a)) recs], s')
  | other => other
  end.

(* a leaf record *)
Definition leaf (c : container) : M unit := node (ret tt) (fun _ => c).

Definition with_frame {A} (f : frame) (m : M A) : M A := fun s =>
  match m (mkState (f :: frames s) (statuses s)) with
  | Done (a, recs, s') => Done (a, recs, mkState (tl (frames s')) (statuses s'))
  | other => other
  end.

Definition with_parent {A} (m : M A) : M A := fun s =>
  match frames s with
  | [] => Unknown
  | f :: rest =>
      match m (mkState rest (statuses s)) with
      | Done (a, recs, s') => Done (a, recs, mkState (f :: frames s') (statuses s'))
      | other => other
      end
  end.

(* run m with the stack truncated to the root scope *)
Definition at_root {A} (m : M A) : M A := fun s =>
  let n := List.length (frames s) in
  match n with
  | O => Unknown
  | S k =>
      let upper := firstn k (frames s) in
      match m (mkState (skipn k (frames s)) (statuses s)) with
      | Done (a, recs, s') => Done (a, recs, mkState (upper ++ frames s') (statuses s'))
      | other => other
      end
  end.

Fixpoint root_of (fs : list frame) : option pv :=
  match fs with
  | [] => None
  | (FRoot r _ _ | FBlock r _ _ | FValue r) :: _ => Some r
  | FParams _ _ _ :: rest => root_of rest
  end.

Definition ctx_root : M pv := fun s =>
  match root_of (frames s) with
  | Some r => Done (r, [], s)
  | None => Unknown
  end.

(* extract_variables: three maps, a later definition of the same kind overrides *)
Fixpoint find_literal (name : string) (lets : list let_expr) : option pv :=
  match lets with
  | [] => None
  | (n, v) :: r =>
      match find_literal name r with
      | Some x => Some x
      | None => match v with LValue x => if String.eqb n name then Some x else None | _ => None end
      end
  end.
Fixpoint find_query (name : string) (lets : list let_expr) : option access_query :=
  match lets with
  | [] => None
  | (n, v) :: r =>
      match find_query name r with
      | Some x => Some x
      | None => match v with LAccess x => if String.eqb n name then Some x else None | _ => None end
      end
  end.
Fixpoint find_function (name : string) (lets : list let_expr) : option (list let_value * fn_name) :=
  match lets with
  | [] => None
  | (n, v) :: r =>
      match find_function name r with
      | Some x => Some x
      | None => match v with
                | LFunction ps f => if String.eqb n name then Some (ps, f) else None
                | _ => None
                end
      end
  end.

Definition set_top_memo (name : string) (vals : list qres) : M unit := fun s =>
  match frames s with
  | FRoot r l memo :: rest => Done (tt, [], mkState (FRoot r l (assoc_set name vals memo) :: rest) (statuses s))
  | FBlock r l memo :: rest => Done (tt, [], mkState (FBlock r l (assoc_set name vals memo) :: rest) (statuses s))
  | _ => Unknown
  end.

(* add_variable_capture_key: every scope forwards to the root, which appends *)
Fixpoint capture_in (name : string) (key : pv) (fs : list frame) : option (list frame) :=
  match fs with
  | [] => None
  | [FRoot r l memo] =>
      let old := match assoc name memo with Some v => v | None => [] end in
      Some [FRoot r l (assoc_set name (old ++ [QResolved key]) memo)]
  | f :: rest => option_map (cons f) (capture_in name key rest)
  end.
Definition add_capture (name : string) (key : pv) : M unit := fun s =>
  match capture_in name key (frames s) with
  | Some fs => Done (tt, [], mkState fs (statuses s))
  | None => Unknown
  end.

Definition is_resolved (q : qres) : bool := match q with QResolved _ => true | _ => false end.

Definition unresolved_at (cur : pv) (q : query) : qres :=
  QUnResolved (mkUnres cur (slice_display q) true).

(* `index.unsigned_abs() as usize` (fix ff08e75; before it, -i32::MIN overflowed) *)
Definition abs_index (i : Z) : outcome nat := Done (Z.to_nat (Z.abs i)).

Definition retrieve_index (parent : pv) (i : Z) (elements : list pv) (q : query) : outcome qres :=
  check <-- abs_index i ;;
  Done (match nth_error elements check with
        | Some e => QResolved e
        | None => unresolved_at parent q
        end).

(* the record of mutually recursive entry points *)
Record ev := mkEv {
  ev_query : nat -> query -> pv -> option N -> M (list qres);  (* query_retrieval_with_converter *)
  ev_clause : guard_clause -> M status;                        (* eval_guard_clause *)
  ev_rule : rule -> M status;                                  (* eval_rule *)
  ev_resolve : string -> M (list qres);                        (* EvalContext::resolve_variable *)
  ev_fn : fn_name -> list let_value -> M (list qres) }.        (* resolve_function *)

Section Eval.
Variable re : re_oracle.
Variable conv : conv_oracle.
Variable prog : rules_file.

(* ------------------------------------------------------------------ *)
(* eval_conjunction_clauses, generic in the clause type *)

Fixpoint disj_body {T} (f : T -> M status) (l : list T) (failed : bool) : M status :=
  match l with
  | [] => ret (if failed then FAIL else SKIP)
  | x :: r =>
      st <- f x ;;
      match st with
      | PASS => ret PASS
      | SKIP => disj_body f r failed
      | FAIL => disj_body f r true
      end
  end.

Definition line_body {T} (f : T -> M status) (line : list T) : M status :=
  match line with
  | _ :: _ :: _ => node (disj_body f line false) (fun st => KDisjunction true st false)
  | _ => disj_body f line false
  end.

Definition cnf_body {T} (f : T -> M status) (cnf : list (list T)) : M status :=
  sts <- mapM (line_body f) cnf ;;
  ret (fold_fail_pass_skip sts).

(* ------------------------------------------------------------------ *)
(* EvalContext::query on the current scope chain *)

Section Bodies.
Variable r : ev.

Fixpoint ctx_query_fs (fs : list frame) (q : query) : M (list qres) :=
  match fs with
  | [] => unknownM
  | (FRoot root _ _ | FBlock root _ _) :: _ => ev_query r 0 q root None
  | FValue root :: _ => with_parent (ev_query r 0 q root None)
  | FParams _ _ _ :: rest => with_parent (ctx_query_fs rest q)
  end.
Definition ctx_query (q : query) : M (list qres) := fun s => ctx_query_fs (frames s) q s.

(* ------------------------------------------------------------------ *)
(* resolve_function *)

Definition fn_body (name : fn_name) (params : list let_value) : M (list qres) :=
  args <- mapM (fun p =>
            match p with
            | LValue v => ret [QLiteral v]
            | LAccess a => ctx_query (aq_query a)
            | LFunction ps n => ev_fn r n ps
            end) params ;;
  res <- lift (call_fn name args) ;;
  ret (flat_map (fun o => match o with Some v => [QResolved v] | None => [] end) res).

(* ------------------------------------------------------------------ *)
(* resolve_variable *)

Definition resolve_scope (is_root : bool) (root : pv) (lets : list let_expr)
           (memo : list (string * list qres)) (name : string) : M (list qres) :=
  match find_literal name lets with
  | Some v => ret [QLiteral v]
  | None =>
      match assoc name memo with
      | Some vals => ret vals
      | None =>
          match find_function name lets with
          | Some (ps, f) =>
              result <- ev_fn r f ps ;;
              _ <- set_top_memo name result ;;
              ret result
          | None =>
              match find_query name lets with
              | Some aq =>
                  result <- ev_query r 0 (aq_query aq) root None ;;
                  let result' := if aq_all aq then result else filter is_resolved result in
                  _ <- set_top_memo name result' ;;
                  ret result'
              | None =>
                  if is_root then failM EMissingValue else with_parent (ev_resolve r name)
              end
          end
      end
  end.

Definition resolve_body (name : string) : M (list qres) := fun s =>
  match frames s with
  | [] => Unknown
  | FValue _ :: _ => with_parent (ev_resolve r name) s
  | FParams b _ _ :: _ =>
      match assoc name b with
      | Some res => ret res s
      | None => with_parent (ev_resolve r name) s
      end
  | FBlock root lets memo :: _ => resolve_scope false root lets memo name s
  | FRoot root lets memo :: _ => resolve_scope true root lets memo name s
  end.

(* ------------------------------------------------------------------ *)
(* query_retrieval_with_converter *)

Definition rq := ev_query r.

Definition map_resolved (qr : qres) (f : pv -> M (list qres)) : M (list qres) :=
  match qr with
  | QResolved v => f v
  | rest => ret [rest]
  end.

Definition accumulate (parent : pv) (qi : nat) (q : query) (elements : list pv) (cv : option N)
  : M (list qres) :=
  match elements with
  | [] => ret [unresolved_at parent (skipn qi q)]
  | _ => concatMapM (fun each => rq (S qi) q each cv) elements
  end.

(* func index query key value converter, run inside ValueScope{root: value} *)
Definition accumulate_map (parent : pv) (keys : list pv) (vals : list (string * pv))
           (qi : nat) (q : query) (cv : option N)
           (func : nat -> query -> pv -> pv -> option N -> M (list qres)) : M (list qres) :=
  match vals with
  | [] => ret [unresolved_at parent (skipn qi q)]
  | _ =>
      concatMapM (fun kv => with_frame (FValue (snd kv)) (func (S qi) q (fst kv) (snd kv) cv))
                 (combine keys (map snd vals))
  end.

Definition eval_filter_cnf (cnf : list (list guard_clause)) : M status :=
  cnf_body (ev_clause r) cnf.

Definition check_and_delegate (cnf : list (list guard_clause)) (name : option string)
           (index : nat) (q : query) (key value : pv) (cv : option N) : M (list qres) :=
  st <- node (eval_filter_cnf cnf) KFilter ;;
  _ <- match name, st with
       | Some n, PASS => add_capture n key
       | _, _ => ret tt
       end ;;
  match st with
  | PASS => rq index q value cv
  | _ => ret []
  end.

Definition lookup_key (vals : list (string * pv)) (cur : pv) (k : string) (qi : nat) (q : query)
           (cv : option N) : M (list qres) :=
  match map_get k vals with
  | Some v => rq (S qi) q v cv
  | None =>
      match cv with
      | Some c =>
          match conv c k with
          | None => unknownM
          | Some converted =>
              match map_get converted vals with
              | Some v => rq (S qi) q v cv
              | None => ret [unresolved_at cur (skipn qi q)]
              end
          end
      | None =>
          (fix try (cs : list N) : M (list qres) :=
             match cs with
             | [] => ret [unresolved_at cur (skipn qi q)]
             | c :: rest =>
                 match conv c k with
                 | None => unknownM
                 | Some converted =>
                     match map_get converted vals with
                     | Some v => rq (S qi) q v (Some c)
                     | None => try rest
                     end
                 end
             end) [0; 1; 2; 3; 4; 5; 6]%N
      end
  end.

(* variable interpolation: Key("%v") in the middle of a query, current value a map *)
Definition interpolate (var : string) (vals : list (string * pv)) (cur : pv) (qi : nat) (q : query)
           (cv : option N) : M (list qres) :=
  keys <- ev_resolve r var ;;
  let continue_with (keys : list qres) : M (list qres) :=
    concatMapM (fun each_key =>
      match each_key with
      | QUnResolved _ => ret [unresolved_at cur (skipn qi q)]
      | QResolved key | QLiteral key =>
          match key with
          | PString _ k =>
              match map_get k vals with
              | Some next => rq (S qi) q next cv
              | None => ret [unresolved_at cur (skipn qi q)]
              end
          | PList _ inner =>
              concatMapM (fun ek =>
                match ek with
                | PString _ k =>
                    match map_get k vals with
                    | Some next => rq (S qi) q next cv
                    | None => ret [unresolved_at cur (skipn qi q)]
                    end
                | _ => failM ENotComparable
                end) inner
          | _ => failM ENotComparable
          end
      end) keys in
  match nth_error q (S qi) with
  | None => continue_with keys
  | Some (QAllIndices _) | Some (QKey _) => continue_with keys
  | Some (QIndex i) =>
      check <- lift (abs_index i) ;;
      match nth_error keys check with
      | Some k => continue_with [k]
      | None => ret [unresolved_at cur (skipn qi q)]
      end
  | Some _ => failM EIncompatible
  end.

(* real_binary_operation (eval.rs 976-1075) as used by the `keys` filter:
   lhs values are the map's key strings, so every comparison result of one lhs
   has that same lhs and report_at_least_one forms exactly one group *)
Definition old_found (l : list old_cmp_result) : bool :=
  existsb (fun x => match x with OComparable true _ _ => true | _ => false end) l.
Definition old_rhs (x : old_cmp_result) : list qres :=
  match x with
  | OComparable _ _ rv | ONotComparable _ rv => [QResolved rv]
  | OUnResolvedRhs (QUnResolved u) _ => [QUnResolved u]
  | OUnResolvedRhs _ _ => []
  end.
Definition old_report_value (c : cmp) (x : old_cmp_result) : M (qres * status) :=
  match x with
  | OComparable true l _ => _ <- leaf (KClauseValueCheck CSuccess) ;; ret (QResolved l, PASS)
  | OComparable false l rv | ONotComparable l rv =>
      _ <- leaf (KClauseValueCheck (CComparison c (QResolved l) (Some (QResolved rv)) false None FAIL)) ;;
      ret (QResolved l, FAIL)
  | OUnResolvedRhs rq_ l =>
      _ <- leaf (KClauseValueCheck (CComparison c (QResolved l) (Some rq_) false None FAIL)) ;;
      ret (QResolved l, FAIL)
  end.

Definition real_binary_operation (lhs rhs : list qres) (c0 : cmp) : M (list (qres * status)) :=
  let c := if cmp_op_eqb (fst c0) OEq && Nat.ltb 1 (List.length rhs) then (OIn, snd c0) else c0 in
  concatMapM (fun each =>
    match each with
    | QUnResolved _ =>
        _ <- leaf (KClauseValueCheck (CComparison c each None false None FAIL)) ;;
        ret [(each, FAIL)]
    | QLiteral l | QResolved l =>
        match l with
        | PList _ _ => unknownM   (* grouping by a hash map: not reachable from `keys` *)
        | _ =>
          rs <- lift (match fst c with
                      | OEq => each_lhs_compare (not_compare (compare_eq re) (snd c)) l rhs
                      | OGe => each_lhs_compare (not_compare compare_ge (snd c)) l rhs
                      | OGt => each_lhs_compare (not_compare compare_gt (snd c)) l rhs
                      | OLt => each_lhs_compare (not_compare compare_lt (snd c)) l rhs
                      | OLe => each_lhs_compare (not_compare compare_le (snd c)) l rhs
                      | OIn => each_lhs_compare (in_cmp re (snd c)) l rhs
                      | _ => Panic P_unary_on_binary_op
                      end) ;;
          match fst c with
          | OIn =>
              match rs with
              | [] => ret []
              | _ =>
                  if old_found rs then
                    _ <- leaf (KClauseValueCheck CSuccess) ;; ret [(QResolved l, PASS)]
                  else
                    _ <- leaf (KClauseValueCheck
                                 (CInComparison c (QResolved l) (flat_map old_rhs rs) false None FAIL)) ;;
                    ret [(QResolved l, FAIL)]
              end
          | _ => mapM (old_report_value c) rs
          end
        end
    end) lhs.

Definition map_key_filter (c : cmp) (w : let_value) (keys : list pv) (vals : list (string * pv))
           (cur : pv) (qi : nat) (q : query) (cv : option N) : M (list qres) :=
  rhs <- match w with
         | LAccess a => rq 0 (aq_query a) cur cv
         | LValue v => ret [QLiteral v]
         | LFunction ps n => ev_fn r n ps
         end ;;
  let lhs := map QResolved keys in
  results <- real_binary_operation lhs rhs c ;;
  selected <- concatMapM (fun x =>
                match x with
                | (QResolved key, PASS) =>
                    match key with
                    | PString _ kn =>
                        match map_get kn vals with
                        | Some v => ret [QResolved v]
                        | None => panicM P_map_key_missing
                        end
                    | _ => ret []
                    end
                | (QUnResolved u, _) => ret [QUnResolved u]
                | _ => ret []
                end) results ;;
  concatMapM (fun each =>
    match each with
    | QLiteral v | QResolved v => rq (S qi) q v cv
    | QUnResolved u => ret [QUnResolved u]
    end) selected.

Definition query_body (qi : nat) (q : query) (cur : pv) (cv : option N) : M (list qres) :=
  match nth_error q qi with
  | None => ret [QResolved cur]
  | Some part =>
    match (if Nat.eqb qi 0 then part_variable part else None) with
    | Some var =>
        retrieved <- ev_resolve r var ;;
        concatMapM (fun each =>
          match each with
          | QUnResolved u => ret [QUnResolved u]
          | QLiteral v | QResolved v =>
              let index := match nth_error q (S qi) with
                           | Some (QAllIndices _) => S (S qi)
                           | _ => S qi
                           end in
              if Nat.ltb index (List.length q)
              then with_frame (FValue v) (rq index q v cv)
              else ret [each]
          end) retrieved
    | None =>
      match part with
      | QThis => rq (S qi) q cur cv
      | QKey k =>
          match parse_i32 k with
          | Some idx =>
              match cur with
              | PList _ l =>
                  qr <- lift (retrieve_index cur idx l q) ;;
                  map_resolved qr (fun v => rq (S qi) q v cv)
              | _ => ret [unresolved_at cur q]
              end
          | None =>
              match cur with
              | PMap _ _ vals =>
                  match key_variable k with
                  | Some var => interpolate var vals cur qi q cv
                  | None => lookup_key vals cur k qi q cv
                  end
              | _ => ret [unresolved_at cur (skipn qi q)]
              end
          end
      | QIndex i =>
          match cur with
          | PList _ l =>
              qr <- lift (retrieve_index cur i l q) ;;
              map_resolved qr (fun v => rq (S qi) q v cv)
          | _ => ret [unresolved_at cur (skipn qi q)]
          end
      | QAllIndices name =>
          match cur with
          | PList _ elements => accumulate cur qi q elements cv
          | PMap _ keys vals =>
              match name with
              | None => rq (S qi) q cur cv
              | Some n =>
                  accumulate_map cur keys vals qi q cv
                    (fun index q key value cv => _ <- add_capture n key ;; rq index q value cv)
              end
          | rest => rq (S qi) q rest cv
          end
      | QAllValues name =>
          match cur with
          | PList _ elements => accumulate cur qi q elements cv
          | PMap _ keys vals =>
              accumulate_map cur keys vals qi q cv
                (fun index q key value cv =>
                   _ <- match name with Some n => add_capture n key | None => ret tt end ;;
                   rq index q value cv)
          | rest => rq (S qi) q rest cv
          end
      | QFilter name cnf =>
          match cur with
          | PMap _ keys vals =>
              match qi with
              | O => panicM P_filter_index_underflow
              | S pi =>
                  match nth_error q pi with
                  | Some (QAllValues _) | Some (QAllIndices _) =>
                      (* fix in /repo: ValueScope{root: current}; before it `list[*][ filter ]` tested the enclosing scope's value *)
                      with_frame (FValue cur) (check_and_delegate cnf None (S qi) q cur cur cv)
                  | Some (QKey _) =>
                      match vals with
                      | [] => ret []
                      | _ => accumulate_map cur keys vals qi q cv (check_and_delegate cnf name)
                      end
                  | _ => failM EIncompatibleRetrieval   (* fix c60bcbf; was unreachable!() at eval_context.rs:752 *)
                  end
              end
          | PList _ l =>
              concatMapM (fun each =>
                st <- node (with_frame (FValue each) (eval_filter_cnf cnf)) KFilter ;;
                match st with
                | PASS => rq (S qi) q each cv
                | _ => ret []
                end) l
          | _ =>
              match qi with
              | O => panicM P_filter_index_underflow
              | S pi =>
                  match nth_error q pi with
                  | Some (QAllIndices _) =>
                      (* fix ec31769 in /repo: the clauses are recorded under a Filter record, as for lists and structs *)
                      st <- node (with_frame (FValue cur) (eval_filter_cnf cnf)) KFilter ;;
                      match st with
                      | PASS => rq (S qi) q cur cv
                      | _ => ret []
                      end
                  | _ => ret [unresolved_at cur (skipn qi q)]
                  end
              end
          end
      | QMapKeyFilter _ c w =>
          match cur with
          | PMap _ keys vals => map_key_filter c w keys vals cur qi q cv
          | _ => ret [unresolved_at cur (skipn qi q)]
          end
      end
    end
  end.

(* ------------------------------------------------------------------ *)
(* clauses *)

Inductive evaluation_result :=
| EmptyQueryResult (st : status)
| QueryValueResult (l : list (qres * status)).

Definition exists_operation (v : qres) : outcome bool :=
  Done (match v with QUnResolved _ => false | _ => true end).

Definition element_empty_operation (v : qres) : outcome bool :=
  match v with
  | QLiteral x | QResolved x =>
      match x with
      | PList _ l => Done (match l with [] => true | _ => false end)
      | PMap _ _ vals => Done (match vals with [] => true | _ => false end)
      | PString _ s => Done (str_is_empty s)
      | PBool _ _ => Done false
      | _ => Err EIncompatible
      end
  | QUnResolved _ => Done true
  end.

Definition is_type_operation (t : vtype) (v : qres) : outcome bool :=
  Done (match v with
        | QLiteral x | QResolved x =>
            match t, type_of x with
            | TString, TString | TList, TList | TMap, TMap | TInt, TInt | TFloat, TFloat
            | TBool, TBool | TNull, TNull => true
            | _, _ => false
            end
        | QUnResolved _ => false
        end).

Definition unary_base (o : cmp_op) : option (qres -> outcome bool) :=
  match o with
  | OExists => Some exists_operation
  | OEmpty => Some element_empty_operation
  | OIsString => Some (is_type_operation TString)
  | OIsMap => Some (is_type_operation TMap)
  | OIsList => Some (is_type_operation TList)
  | OIsBool => Some (is_type_operation TBool)
  | OIsInt => Some (is_type_operation TInt)
  | OIsNull => Some (is_type_operation TNull)
  | OIsFloat => Some (is_type_operation TFloat)
  | _ => None
  end.

(* box_create_func!: inverse_operation(not? operation, inverse) *)
Definition unary_op (c : cmp) (inverse : bool) (base : qres -> outcome bool) (v : qres) : outcome bool :=
  b <-- base v ;;
  let b1 := if snd c then negb b else b in
  Done (if inverse then negb b1 else b1).

Definition unary_operation (lhs_query : query) (c : cmp) (inverse : bool) (custom : option string)
  : M evaluation_result :=
  lhs <- ctx_query lhs_query ;;
  match last lhs_query QThis, lhs_query with
  | _, [] => panicM P_lhs_query_empty
  | last_part, _ =>
    let empty_on_expr :=
      match last_part with
      | QFilter _ _ | QMapKeyFilter _ _ _ => true
      | rest => part_is_variable rest && Nat.eqb (List.length lhs_query) 1
      end in
    if empty_on_expr && cmp_op_eqb (fst c) OEmpty then
      match lhs with
      | _ :: _ =>
          res <- mapM (fun each =>
                   let '(result, st) :=
                     match each with
                     | QLiteral x | QResolved x =>
                         (QResolved x, if (if snd c then negb (is_null x) else is_null x) then PASS else FAIL)
                     | QUnResolved u => (QUnResolved u, if snd c then FAIL else PASS)
                     end in
                   let st := if inverse then invert_status st else st in
                   _ <- leaf (KClauseValueCheck
                                (match st with
                                 | PASS => CSuccess
                                 | _ => CUnary c result false custom FAIL
                                 end)) ;;
                   ret (result, st)) lhs ;;
          ret (QueryValueResult res)
      | [] =>
          let result := negb (snd c) in
          let result := if inverse then negb result else result in
          if result then
            _ <- leaf (KClauseValueCheck CSuccess) ;; ret (EmptyQueryResult PASS)
          else
            _ <- leaf (KClauseValueCheck (CNoValueForEmptyCheck custom)) ;; ret (EmptyQueryResult FAIL)
      end
    else
      match lhs with
      | [] => ret (EmptyQueryResult SKIP)
      | _ =>
          match unary_base (fst c) with
          | None => panicM P_unary_on_binary_op
          | Some base =>
              res <- mapM (fun each =>
                       b <- lift (unary_op c inverse base each) ;;
                       _ <- leaf (KClauseValueCheck
                                    (if b then CSuccess else CUnary c each false custom FAIL)) ;;
                       ret (each, if b then PASS else FAIL)) lhs ;;
              ret (QueryValueResult res)
          end
      end
  end.

Definition binary_operation (lhs_query : query) (rhs : list qres) (c : cmp) (custom : option string)
  : M evaluation_result :=
  lhs <- ctx_query lhs_query ;;
  results <- lift (cmp_compare re c lhs rhs) ;;
  match results with
  | ESkip => ret (EmptyQueryResult SKIP)
  | EResult l =>
      res <- concatMapM (fun e =>
               mapM (fun t => let '(cc, v, st) := t in
                              _ <- leaf (KClauseValueCheck cc) ;; ret (v, st))
                    (report_binary c custom e)) l ;;
      ret (QueryValueResult res)
  end.

Definition has_status (s : status) (l : list (qres * status)) : bool :=
  existsb (fun x => status_eqb s (snd x)) l.

(* eval_guard_access_clause *)
Definition access_clause_body (g : access_clause) : M status :=
  match g with
  | GuardAccessClause aq c w custom negation =>
      let all := aq_all aq in
      fst_ <- node (
        res <- (if is_unary (fst c) then unary_operation (aq_query aq) c negation custom
                else
                  match w with
                  | None => failM ENotComparable
                  | Some wv =>
                      rhs <- match wv with
                             | LValue v => ret [QLiteral v]
                             | LAccess a => ctx_query (aq_query a)
                             | LFunction ps n => ev_fn r n ps
                             end ;;
                      (* prefix `not` on a binary clause flips the operator-level negation (fix 2nd /repo commit) *)
                      binary_operation (aq_query aq) rhs (if negation then (fst c, negb (snd c)) else c) custom
                  end) ;;
        match res with
        | EmptyQueryResult st => ret (st, all)
        | QueryValueResult l =>
            if has_status SKIP l then panicM P_skip_in_values
            else
              let outcome_ :=
                if all then (if has_status FAIL l then FAIL else PASS)
                else (if has_status PASS l then PASS else FAIL) in
              ret (outcome_, negb all)
        end) (fun p => KGuardClauseBlockCheck (snd p) (fst p) false) ;;
      ret (fst fst_)
  end.

(* RootScope::rule_status *)
Definition rules_named (name : string) : list rule :=
  filter (fun x => String.eqb (rule_name x) name) (rf_rules prog).

Fixpoint first_non_skip (rules : list rule) : M status :=
  match rules with
  | [] => ret SKIP
  | x :: rest =>
      st <- ev_rule r x ;;
      match st with
      | SKIP => first_non_skip rest
      | _ => ret st
      end
  end.

Definition rule_status_body (name : string) : M status :=
  at_root (fun s =>
    match assoc name (statuses s) with
    | Some st => ret st s
    | None =>
        match rules_named name with
        | [] => Err EMissingValue
        | rules =>
            (st <- first_non_skip rules ;;
             fun s' => Done (st, [], mkState (frames s') (assoc_set name st (statuses s')))) s
        end
    end).

(* eval_guard_named_clause *)
Definition named_clause_body (n : named_clause) : M status :=
  match n with
  | GuardNamedRuleClause dep negation custom =>
      node (st <- rule_status_body dep ;;
            ret (match st with
                 | PASS => if negation then FAIL else PASS
                 | _ => if negation then PASS else FAIL
                 end))
           (fun st => match st with
                      | PASS => KClauseValueCheck CSuccess
                      | _ => KClauseValueCheck (CDependentRule dep false custom FAIL)
                      end)
  end.

(* eval_general_block_clause with eval_guard_clause *)
Definition gblock_body (b : gblock) : M status :=
  match b with
  | Block lets cnf =>
      root <- ctx_root ;;
      with_frame (FBlock root lets []) (cnf_body (ev_clause r) cnf)
  end.

(* eval_guard_block_clause *)
Definition block_clause_body (aq : access_query) (b : gblock) (not_empty : bool) : M status :=
  let match_all := aq_all aq in
  node (
    values <- ctx_query (aq_query aq) ;;
    match values with
    | [] => ret (if not_empty then FAIL else SKIP)
    | _ =>
        sts <- mapM (fun each =>
                 match each with
                 | QUnResolved u =>
                     _ <- leaf (KClauseValueCheck (CMissingBlockValue (QUnResolved u) true None FAIL)) ;;
                     ret FAIL
                 | QLiteral rv | QResolved rv => with_frame (FValue rv) (gblock_body b)
                 end) values ;;
        ret (if match_all then fold_fail_pass_skip sts else fold_pass_fail_skip sts)
    end) (fun st => KBlockGuardCheck (negb match_all) st false).

(* eval_parameterized_rule_call *)
Definition find_param_rule (name : string) : option param_rule :=
  (* HashMap insert: the last definition with that name wins *)
  fold_left (fun acc p => if String.eqb (rule_name (pr_rule p)) name then Some p else acc)
            (rf_param_rules prog) None.

Definition param_call_body (params : list let_value) (n : named_clause) : M status :=
  match n with
  | GuardNamedRuleClause dep _ custom =>
      match find_param_rule dep with
      | None => failM EMissingValue
      | Some p =>
          if negb (Nat.eqb (List.length (pr_params p)) (List.length params)) then failM EIncompatible
          else
            resolved <- mapM (fun each =>
                          match each with
                          | LValue v => ret [QLiteral v]   (* fix 472c229 in /repo: a literal argument is a Literal, as a literal `let` *)
                          | LAccess a => ctx_query (aq_query a)
                          | LFunction ps fname => ev_fn r fname ps
                          end) params ;;
            let bindings := fold_left (fun acc kv => assoc_set (fst kv) (snd kv) acc)
                                      (combine (pr_params p) resolved) [] in
            with_frame (FParams bindings dep custom) (ev_rule r (pr_rule p))
      end
  end.

Definition when_clause_body (w : when_clause) : M status :=
  match w with
  | WClause g => access_clause_body g
  | WNamedRule n => named_clause_body n
  | WParameterizedNamedRule ps n => param_call_body ps n
  end.

(* eval_when_condition_block *)
Definition when_block_body (conds : when_conditions) (b : gblock) : M status :=
  node (
    cst <- node (cnf_body when_clause_body conds) KWhenCondition ;;
    match cst with
    | PASS => gblock_body b
    | _ => ret SKIP
    end) (fun st => KWhenCheck false st false).

Definition clause_body (g : guard_clause) : M status :=
  match g with
  | GClause c => access_clause_body c
  | GNamedRule n => named_clause_body n
  | GParameterizedNamedRule ps n => param_call_body ps n
  | GBlockClause aq b ne => block_clause_body aq b ne
  | GWhenBlock conds b => when_block_body conds b
  end.

(* eval_type_block_clause *)
Definition type_block_body (type_name : string) (conds : option when_conditions) (b : gblock)
           (q : query) : M status :=
  node (
    go <- match conds with
          | Some c =>
              cst <- node (cnf_body when_clause_body c) KTypeCondition ;;
              ret (status_eqb cst PASS)
          | None => ret true
          end ;;
    if negb go then ret SKIP
    else
      values <- ctx_query q ;;
      match values with
      | [] => ret SKIP
      | _ =>
          sts <- mapM (fun each =>
                   match each with
                   | QLiteral rv | QResolved rv =>
                       node (with_frame (FValue rv) (gblock_body b)) KTypeBlock
                   | QUnResolved _ => failM EMissingValue
                   end) values ;;
          ret (fold_fail_pass_skip sts)
      end) (fun st => KTypeCheck type_name false st false).

Definition rule_clause_body (c : rule_clause) : M status :=
  match c with
  | RClause g => ev_clause r g
  | RWhenBlock conds b => when_block_body conds b
  | RTypeBlock tn conds b q => type_block_body tn conds b q
  end.

(* eval_rule *)
Definition rule_body (x : rule) : M status :=
  node (
    go <- match rule_conditions x with
          | Some c =>
              cst <- node (cnf_body when_clause_body c) KRuleCondition ;;
              ret (status_eqb cst PASS)
          | None => ret true
          end ;;
    if negb go then ret SKIP
    else
      root <- ctx_root ;;
      with_frame (FBlock root (rule_lets x) []) (cnf_body rule_clause_body (rule_cnf x)))
    (fun st => KRuleCheck (rule_name x) st None).

End Bodies.

Definition ev_bottom : ev :=
  mkEv (fun _ _ _ _ => oofM) (fun _ => oofM) (fun _ => oofM) (fun _ => oofM) (fun _ _ => oofM).

Fixpoint evalN (fuel : nat) : ev :=
  match fuel with
  | O => ev_bottom
  | S n =>
      let r := evalN n in
      mkEv (query_body r) (clause_body r) (rule_body r) (resolve_body r) (fn_body r)
  end.

(* eval_rules_file *)
Definition file_body (r : ev) : M status :=
  node (sts <- mapM (ev_rule r) (rf_rules prog) ;; ret (fold_fail_pass_skip sts)) KFileCheck.

Definition init_state (doc : pv) : state :=
  mkState [FRoot doc (rf_lets prog) []] [].

Definition eval_file (fuel : nat) (doc : pv) : outcome (status * list record * state) :=
  file_body (evalN fuel) (init_state doc).

End Eval.
