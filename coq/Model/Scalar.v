(* Scalar.v — how the libyaml loader of `validate` types a scalar (libyaml/loader.rs 67-102, 208-227):
   an explicit core tag decides; a quoted/literal/folded scalar is a string; a plain scalar goes through the cascade
   i64::from_str, f64::from_str, bool::from_str, ~/null (any case), else string.
   The grammars of Rust's from_str functions are written out as recognisers; the numeric VALUE of a float is not
   modelled (only that it is a float). No proofs here. *)
From GV.Model Require Export Base.

Inductive sclass := KInt (z : Z) | KFloat | KBool (b : bool) | KNull | KStr (s : string) | KBad.
Inductive sstyle := Plain | Quoted.       (* Quoted: single, double, literal, folded *)

Fixpoint all_digits (s : string) : bool :=
  match s with EmptyString => true | String a r => is_digit a && all_digits r end.
Fixpoint take_digits (s : string) : nat * string :=      (* number of leading digits, rest *)
  match s with
  | String a r => if is_digit a then let '(n, t) := take_digits r in (S n, t) else (O, s)
  | EmptyString => (O, s)
  end.

Definition ascii_lower (a : ascii) : ascii :=
  let n := N_of_ascii a in if N.leb 65 n && N.leb n 90 then ascii_of_N (n + 32) else a.
Fixpoint lower (s : string) : string :=
  match s with EmptyString => EmptyString | String a r => String (ascii_lower a) (lower r) end.

(* <f64 as FromStr>: [+-]? ( inf | infinity | nan  (ASCII case-insensitive)
                            | digits [. digits?] [e[+-]?digits] | . digits [e[+-]?digits] ) *)
Definition exponent_ok (s : string) : bool :=
  match s with
  | EmptyString => true
  | String e r =>
      if Ascii.eqb e "e" || Ascii.eqb e "E" then
        let r' := match r with String sg t => if Ascii.eqb sg "+" || Ascii.eqb sg "-" then t else r | _ => r end in
        negb (str_is_empty r') && all_digits r'
      else false
  end.
Definition rust_f64_unsigned (s : string) : bool :=
  let l := lower s in
  if String.eqb l "inf" || String.eqb l "infinity" || String.eqb l "nan" then true
  else
    let '(n1, r1) := take_digits s in
    match r1 with
    | String d r2 =>
        if Ascii.eqb d "." then
          let '(n2, r3) := take_digits r2 in
          Nat.ltb 0 (n1 + n2) && exponent_ok r3
        else Nat.ltb 0 n1 && exponent_ok r1
    | EmptyString => Nat.ltb 0 n1
    end.
Definition rust_f64_syntax (s : string) : bool :=
  match s with
  | String a r => if Ascii.eqb a "+" || Ascii.eqb a "-" then negb (str_is_empty r) && rust_f64_unsigned r
                  else rust_f64_unsigned s
  | EmptyString => false
  end.

Definition plain_scalar (s : string) : sclass :=
  match parse_i64 s with
  | Some z => KInt z
  | None =>
      if rust_f64_syntax s then KFloat
      else if String.eqb s "true" then KBool true
      else if String.eqb s "false" then KBool false
      else if String.eqb (lower s) "~" || String.eqb (lower s) "null" then KNull
      else KStr s
  end.

Inductive stag := TNone | TBool | TInt | TFloat | TNullTag | TStrTag | TOther.

(* handle_type_ref for the core tags; other tags on a scalar (no `!` handle) keep the string *)
Definition load_scalar (tag : stag) (style : sstyle) (s : string) : sclass :=
  match tag with
  | TBool => if String.eqb s "true" then KBool true else if String.eqb s "false" then KBool false else KStr s
  | TInt => match parse_i64 s with Some z => KInt z | None => KBad end
  | TFloat => if rust_f64_syntax s then KFloat else KBad
  | TNullTag => KNull
  | TStrTag | TOther => KStr s
  | TNone => match style with Quoted => KStr s | Plain => plain_scalar s end
  end.

(* observation of the loader, for the correspondence *)
Definition sclass_eqb (a b : sclass) : bool :=
  match a, b with
  | KInt x, KInt y => Z.eqb x y
  | KFloat, KFloat | KNull, KNull | KBad, KBad => true
  | KBool x, KBool y => Bool.eqb x y
  | KStr x, KStr y => String.eqb x y
  | _, _ => false
  end.
