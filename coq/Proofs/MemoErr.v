(* MemoErr.v — memoisation is invisible also for failures: when SEval (with its variable memo and rule-status cache)
   answers an evaluation error, a panic site or an oracle miss from a state whose caches are valid, the memo-free
   evaluator PEval answers the same failure from the erased state with eventually-enough fuel.
   With MemoProps (the Done direction) this closes the error direction of the C01 refinement for SEval itself:
   an evaluation error is raised only where the documented semantics is undefined.
   sim2 = MemoProps.sim (values) /\ simF (failures); the combinators are proved for simF, the bodies of the
   interpreter are then walked exactly as in MemoProps. *)
From GV.Model Require Import SEval PEval.
From GV.Proofs Require Import StatusProps EvalLaws FrameProps MemoProps.
From Coq Require Import Lia PeanoNat.
Local Open Scope nat_scope.

Inductive fault := FErr (e : err_kind) | FPanic (p : panic_site) | FUnknown.

Definition fault_of {X} (o : outcome X) : option fault :=
  match o with
  | Err e => Some (FErr e)
  | Panic p => Some (FPanic p)
  | Unknown => Some FUnknown
  | _ => None
  end.

Section SimF.
Variable re : re_oracle.
Variable conv : conv_oracle.
Variable prog : rules_file.
Variable r' : nat -> ev.

Notation Valid := (Valid prog r').
Notation sim := (sim prog r').
Notation computes := (@computes _).

Definition faults {A} (m' : nat -> M A) (E : state) (ft : fault) : Prop :=
  Ev (fun k => fault_of (m' k E) = Some ft).

Definition simF {A} (m : M A) (m' : nat -> M A) : Prop :=
  forall s ft, Valid s -> fault_of (m s) = Some ft -> faults m' (erase s) ft.

Definition sim2 {A} (m : M A) (m' : nat -> M A) : Prop := sim m m' /\ simF m m'.

Lemma simF_const {A} (m : M A) : (forall s s0, fault_of (m s) = fault_of (m s0)) -> simF m (fun _ => m).
Proof. intros H s ft _ E. exists 0. intros k _. rewrite <- (H s). exact E. Qed.

Lemma sim2_ret {A} (a : A) : sim2 (ret a) (fun _ => ret a).
Proof. split; [apply sim_ret|]. intros s ft _ E. discriminate. Qed.
Lemma sim2_failM {A} e : sim2 (@failM A e) (fun _ => failM e).
Proof. split; [apply sim_failM|]. apply simF_const. reflexivity. Qed.
Lemma sim2_panicM {A} p : sim2 (@panicM A p) (fun _ => panicM p).
Proof. split; [apply sim_panicM|]. apply simF_const. reflexivity. Qed.
Lemma sim2_unknownM {A} : sim2 (@unknownM A) (fun _ => unknownM).
Proof. split; [apply sim_unknownM|]. apply simF_const. reflexivity. Qed.
Lemma sim2_oofM {A} m' : sim2 (@oofM A) m'.
Proof. split; [apply sim_oofM|]. intros s ft _ E. discriminate. Qed.
Lemma sim2_lift {A} (o : outcome A) : sim2 (lift o) (fun _ => lift o).
Proof. split; [apply sim_lift|]. apply simF_const. intros s s0. destruct o; reflexivity. Qed.

Lemma fault_bind_l {A B} (m : M A) (f : A -> M B) s ft : fault_of (m s) = Some ft -> fault_of (bind m f s) = Some ft.
Proof. unfold bind. destruct (m s) as [[[a r1] s1]| | | |]; cbn; congruence. Qed.

Lemma sim2_bind {A B} (m : M A) m' (f : A -> M B) f' :
  sim2 m m' -> (forall a, sim2 (f a) (fun k => f' k a)) -> sim2 (bind m f) (fun k => bind (m' k) (f' k)).
Proof.
  intros [Hm Fm] Hf. split; [apply sim_bind; [exact Hm|intros a; apply Hf]|].
  intros s ft Hv E. unfold bind in E. destruct (m s) as [[[a r1] s1]| | | |] eqn:Em.
  - destruct (Hm _ _ _ _ Hv Em) as (V1 & E1 & C1).
    assert (Ef : fault_of (f a s1) = Some ft) by (destruct (f a s1) as [[[b r2] s2]| | | |]; cbn in *; congruence).
    pose proof (proj2 (Hf a) s1 ft V1 Ef) as F2. rewrite E1 in F2.
    eapply Ev_impl; [|exact (Ev_and _ _ C1 F2)]. intros k [[rc Hc] Hk]. unfold bind. rewrite Hc.
    destruct (f' k a (erase s)) as [[[b r2] s2]| | | |]; cbn in *; congruence.
  - eapply Ev_impl; [|exact (Fm s ft Hv ltac:(rewrite Em; exact E))]. intros k Hk. apply fault_bind_l. exact Hk.
  - eapply Ev_impl; [|exact (Fm s ft Hv ltac:(rewrite Em; exact E))]. intros k Hk. apply fault_bind_l. exact Hk.
  - discriminate.
  - eapply Ev_impl; [|exact (Fm s ft Hv ltac:(rewrite Em; exact E))]. intros k Hk. apply fault_bind_l. exact Hk.
Qed.

Lemma sim2_mapM_in {A B} (f : A -> M B) f' l :
  (forall x, In x l -> sim2 (f x) (fun k => f' k x)) -> sim2 (mapM f l) (fun k => mapM (f' k) l).
Proof.
  induction l as [|x l IH]; intros Hf; cbn [mapM]; [apply sim2_ret|].
  apply (sim2_bind (f x) (fun k => f' k x) _ (fun k y => ys <- mapM (f' k) l ;; ret (y :: ys))); [apply Hf; left; reflexivity|].
  intros y. apply (sim2_bind (mapM f l) (fun k => mapM (f' k) l) _ (fun k ys => ret (y :: ys)));
    [apply IH; intros z Hz; apply Hf; right; exact Hz|].
  intros ys. apply sim2_ret.
Qed.
Lemma sim2_mapM {A B} (f : A -> M B) f' l :
  (forall x, sim2 (f x) (fun k => f' k x)) -> sim2 (mapM f l) (fun k => mapM (f' k) l).
Proof. intros Hf. apply sim2_mapM_in. intros x _. apply Hf. Qed.
Lemma sim2_concatMapM {A B} (f : A -> M (list B)) f' l :
  (forall x, sim2 (f x) (fun k => f' k x)) -> sim2 (concatMapM f l) (fun k => concatMapM (f' k) l).
Proof.
  intros Hf. unfold concatMapM.
  apply (sim2_bind (mapM f l) (fun k => mapM (f' k) l) _ (fun k r => ret (List.concat r))); [apply sim2_mapM; exact Hf|].
  intros x. apply sim2_ret.
Qed.

Lemma fault_node {A} (m : M A) mk s : fault_of (node m mk s) = fault_of (m s).
Proof. unfold node. destruct (m s) as [[[a r1] s1]| | | |]; reflexivity. Qed.

Lemma sim2_node {A} (m : M A) m' mk : sim2 m m' -> sim2 (node m mk) (fun k => node (m' k) mk).
Proof.
  intros [Hm Fm]. split; [apply sim_node; exact Hm|]. intros s ft Hv E. rewrite fault_node in E.
  eapply Ev_impl; [|exact (Fm s ft Hv E)]. intros k Hk. rewrite fault_node. exact Hk.
Qed.
Lemma sim2_leaf c : sim2 (leaf c) (fun _ => leaf c).
Proof. unfold leaf. apply (sim2_node (ret tt) (fun _ => ret tt)). apply sim2_ret. Qed.

Lemma sim2_disj_body_in {T} (f : T -> M status) f' l failed :
  (forall x, In x l -> sim2 (f x) (fun k => f' k x)) -> sim2 (disj_body f l failed) (fun k => disj_body (f' k) l failed).
Proof.
  revert failed. induction l as [|x l IH]; intros failed Hf; cbn [disj_body]; [apply sim2_ret|].
  assert (Hl : forall z, In z l -> sim2 (f z) (fun k => f' k z)) by (intros z Hz; apply Hf; right; exact Hz).
  apply (sim2_bind (f x) (fun k => f' k x) _
           (fun k st => match st with PASS => ret PASS | SKIP => disj_body (f' k) l failed | FAIL => disj_body (f' k) l true end));
    [apply Hf; left; reflexivity|].
  intros st. destruct st; [apply sim2_ret|apply IH; exact Hl|apply IH; exact Hl].
Qed.
Lemma sim2_line_body_in {T} (f : T -> M status) f' line :
  (forall x, In x line -> sim2 (f x) (fun k => f' k x)) -> sim2 (line_body f line) (fun k => line_body (f' k) line).
Proof.
  intros Hf. unfold line_body. destruct line as [|x [|y l]]; try (apply sim2_disj_body_in; exact Hf).
  apply (sim2_node (disj_body f (x :: y :: l) false) (fun k => disj_body (f' k) (x :: y :: l) false)).
  apply sim2_disj_body_in; exact Hf.
Qed.
Lemma sim2_cnf_body_in {T} (f : T -> M status) f' cnf :
  (forall line x, In line cnf -> In x line -> sim2 (f x) (fun k => f' k x)) ->
  sim2 (cnf_body f cnf) (fun k => cnf_body (f' k) cnf).
Proof.
  intros Hf. unfold cnf_body.
  apply (sim2_bind (mapM (line_body f) cnf) (fun k => mapM (line_body (f' k)) cnf) _ (fun k sts => ret (fold_fail_pass_skip sts))).
  - apply (sim2_mapM_in (line_body f) (fun k => line_body (f' k))). intros l Hl. apply sim2_line_body_in. intros x Hx. eapply Hf; eassumption.
  - intros sts. apply sim2_ret.
Qed.

(* ---- the scope stack ---- *)

Lemma valid_push f s : frame_fresh f -> Valid s -> Valid (mkState (f :: frames s) (statuses s)).
Proof.
  intros Hfr (Hwf & Hvf & Hvs). pose proof (wf_shape_nonempty _ Hwf) as Hne. split; [|split].
  - cbn. apply wf_shape_cons. exact Hwf.
  - cbn [frames valid_frames]. split; [apply frame_fresh_valid; exact Hfr|exact Hvf].
  - intros name st Hn. cbn [frames statuses map] in *. rewrite root_shape_cons by exact Hne. apply Hvs. exact Hn.
Qed.

Lemma fault_with_frame {A} f (m : M A) s : fault_of (with_frame f m s) = fault_of (m (mkState (f :: frames s) (statuses s))).
Proof. unfold with_frame. destruct (m _) as [[[a r1] s1]| | | |]; reflexivity. Qed.

Lemma sim2_with_frame {A} f (m : M A) m' :
  frame_fresh f -> sim2 m m' -> sim2 (with_frame f m) (fun k => with_frame f (m' k)).
Proof.
  intros Hfr [Hm Fm]. split; [apply sim_with_frame; assumption|].
  intros s ft Hv E. rewrite fault_with_frame in E.
  pose proof (Fm _ ft (valid_push f s Hfr Hv) E) as F.
  eapply Ev_impl; [|exact F]. intros k Hk. rewrite fault_with_frame.
  unfold erase in Hk. cbn [frames statuses map] in Hk. rewrite (frame_fresh_shape f Hfr) in Hk. exact Hk.
Qed.

Lemma valid_pop f rest st : Valid (mkState (f :: rest) st) -> map fshape rest <> [] -> Valid (mkState rest st).
Proof.
  intros (Hwf & Hvf & Hvs) Hne. cbn [frames map] in Hwf. split; [|split]; cbn [frames statuses].
  - eapply wf_shape_tail; eassumption.
  - exact (proj2 Hvf).
  - intros name st0 Hn. specialize (Hvs name st0 Hn). cbn [frames map] in Hvs. rewrite root_shape_cons in Hvs by exact Hne. exact Hvs.
Qed.

Definition simF_at {A} (s : state) (m : M A) (m' : nat -> M A) : Prop :=
  forall ft, Valid s -> fault_of (m s) = Some ft -> faults m' (erase s) ft.

Lemma with_parent_simF {A} (m : M A) m' s f rest ft :
  simF_at (mkState rest (statuses s)) m m' -> Valid s -> frames s = f :: rest -> map fshape rest <> [] ->
  fault_of (with_parent m s) = Some ft -> faults (fun k => with_parent (m' k)) (erase s) ft.
Proof.
  intros Hm Hv Ef Hne E. unfold with_parent in E. rewrite Ef in E.
  assert (Hv0 : Valid (mkState rest (statuses s))).
  { apply (valid_pop f). destruct s as [fs st]. cbn in Ef. subst fs. exact Hv. exact Hne. }
  assert (E0 : fault_of (m (mkState rest (statuses s))) = Some ft).
  { destruct (m (mkState rest (statuses s))) as [[[a r1] s1]| | | |]; cbn in *; congruence. }
  eapply Ev_impl; [|exact (Hm ft Hv0 E0)]. intros k Hk. unfold with_parent, erase at 1. rewrite Ef. cbn [frames statuses map].
  unfold erase in Hk. cbn [frames statuses] in Hk.
  change (statuses (erase s)) with (@nil (string * status)).
  destruct (m' k (mkState (map fshape rest) [])) as [[[a r1] s1]| | | |]; cbn in *; congruence.
Qed.

Lemma fault_at_root {A} (m : M A) s k0 : List.length (frames s) = S k0 ->
  fault_of (at_root m s) = fault_of (m (mkState (skipn k0 (frames s)) (statuses s))).
Proof. intros E. unfold at_root. rewrite E. destruct (m _) as [[[a r1] s1]| | | |]; reflexivity. Qed.

Lemma sim2_at_root {A} (m : M A) m' :
  (forall s0, List.length (frames s0) = 1 -> forall a recs s', Valid s0 -> m s0 = Done (a, recs, s') ->
     Valid s' /\ erase s' = erase s0 /\ computes m' (erase s0) a) ->
  (forall s0, List.length (frames s0) = 1 -> forall ft, Valid s0 -> fault_of (m s0) = Some ft -> faults m' (erase s0) ft) ->
  sim2 (at_root m) (fun k => at_root (m' k)).
Proof.
  intros Hd Hf. split; [apply sim_at_root; exact Hd|].
  intros s ft (Hwf & Hvf & Hvs) E.
  destruct Hwf as (u & r0 & l0 & Esh).
  assert (Hlen : List.length (frames s) = S (List.length u)).
  { rewrite <- (map_length fshape), Esh, app_length. cbn. lia. }
  rewrite (fault_at_root m s _ Hlen) in E.
  assert (Esk : map fshape (skipn (List.length u) (frames s)) = [FRoot r0 l0 []]).
  { rewrite <- skipn_map, Esh. pose proof (skipn_last u (FRoot r0 l0 [])) as K.
    rewrite app_length in K. cbn in K. replace (List.length u + 1 - 1) with (List.length u) in K by lia. exact K. }
  assert (Erootshape : root_shape (map fshape (frames s)) = mkState [FRoot r0 l0 []] []).
  { unfold root_shape. rewrite Esh. rewrite skipn_last. reflexivity. }
  set (sr := mkState (skipn (List.length u) (frames s)) (statuses s)) in *.
  assert (Hv0 : Valid sr).
  { split; [|split]; unfold sr; cbn [frames statuses].
    - rewrite Esk. exists [], r0, l0. reflexivity.
    - apply valid_frames_skipn. exact Hvf.
    - intros name st Hn. cbn [frames statuses] in *. rewrite Esk. unfold root_shape. cbn. specialize (Hvs name st Hn). rewrite Erootshape in Hvs. exact Hvs. }
  assert (Hlen1 : List.length (frames sr) = 1).
  { unfold sr. cbn [frames]. rewrite <- (map_length fshape), Esk. reflexivity. }
  eapply Ev_impl; [|exact (Hf sr Hlen1 ft Hv0 E)]. intros k Hk.
  assert (Hle : List.length (frames (erase s)) = S (List.length u)) by (unfold erase; cbn [frames]; rewrite map_length; exact Hlen).
  rewrite (fault_at_root (m' k) (erase s) _ Hle).
  assert (Esr : mkState (skipn (List.length u) (frames (erase s))) (statuses (erase s)) = erase sr).
  { unfold erase, sr. cbn [frames statuses]. rewrite skipn_map. reflexivity. }
  rewrite Esr. exact Hk.
Qed.

Lemma sim2_ctx_root : sim2 ctx_root (fun _ => ctx_root).
Proof.
  split; [apply sim_ctx_root|]. intros s ft Hv E. exists 0. intros k _. unfold ctx_root in *. unfold erase. cbn [frames].
  assert (K : forall fs, root_of (map fshape fs) = root_of fs).
  { induction fs as [|f fs IH]; [reflexivity|]. destruct f; cbn; try reflexivity. exact IH. }
  rewrite K. destruct (root_of (frames s)); [discriminate|exact E].
Qed.

(* ------------------------------------------------------------------ *)
(* the bodies of the interpreter (walked as in MemoProps) *)

Hypothesis Hprog : nc_prog prog = true.

Definition ev_sim2 (r : ev) : Prop :=
  (forall qi q cur cv, nc_query q = true -> sim2 (ev_query r qi q cur cv) (fun k => ev_query (r' k) qi q cur cv)) /\
  (forall g, nc_clause g = true -> sim2 (ev_clause r g) (fun k => ev_clause (r' k) g)) /\
  (forall x, nc_rule x = true -> sim2 (ev_rule r x) (fun k => ev_rule (r' k) x)) /\
  (forall n, sim2 (ev_resolve r n) (fun k => ev_resolve (r' k) n)) /\
  (forall f ps, forallb nc_lv ps = true -> sim2 (ev_fn r f ps) (fun k => ev_fn (r' k) f ps)).

Variable r : ev.
Hypothesis Hr : ev_sim2 r.

Let Hq := proj1 Hr.
Let Hc := proj1 (proj2 Hr).
Let Hrule := proj1 (proj2 (proj2 Hr)).
Let Hres := proj1 (proj2 (proj2 (proj2 Hr))).
Let Hfn := proj2 (proj2 (proj2 (proj2 Hr))).

Ltac sm_step :=
  first
  [ assumption
  | apply sim2_ret | apply sim2_failM | apply sim2_panicM | apply sim2_unknownM | apply sim2_oofM
  | apply sim2_lift | apply sim2_leaf | apply sim2_ctx_root
  | apply sim2_bind; [|intros ?]
  | apply sim2_mapM; intros ?
  | apply sim2_concatMapM; intros ?
  | apply sim2_node
  | apply sim2_with_frame; [first [exact I | split; [assumption|reflexivity]]|]
  | match goal with |- sim2 (match ?x with _ => _ end) _ => destruct x; cbv beta iota end
  | match goal with |- sim2 (if ?x then _ else _) _ => destruct x; cbv beta iota end
  | match goal with |- sim2 (let (_, _) := ?x in _) _ => destruct x; cbv beta iota end ].

Ltac ncsplit := repeat match goal with H : _ && _ = true |- _ => apply andb_prop in H; destruct H end.

Ltac sh := first [apply Hq; assumption | apply Hc; assumption | apply Hrule; assumption | apply Hres | apply Hfn; assumption].
Ltac sl := fail.
Ltac sms := repeat first [sl | sh | sm_step].


(* the Done half of the hypothesis is MemoProps' *)
Lemma Hr1 : ev_sim prog r' r.
Proof.
  destruct Hr as (H1 & H2 & H3 & H4 & H5). split; [|split; [|split; [|split]]].
  - intros qi q cur cv Hn. exact (proj1 (H1 qi q cur cv Hn)).
  - intros g Hn. exact (proj1 (H2 g Hn)).
  - intros x Hn. exact (proj1 (H3 x Hn)).
  - intros n. exact (proj1 (H4 n)).
  - intros f ps Hn. exact (proj1 (H5 f ps Hn)).
Qed.

Lemma nc_rules_named name x : In x (rules_named prog name) -> nc_rule x = true.
Proof. apply (MemoProps.nc_rules_named prog Hprog). Qed.
Lemma find_param_rule_nc dep p : find_param_rule prog dep = Some p -> nc_rule (pr_rule p) = true.
Proof. apply (MemoProps.find_param_rule_nc prog Hprog). Qed.

Lemma simF_simF_at {A} (m : M A) m' s : simF m m' -> simF_at s m m'.
Proof. intros H ft Hv E. eapply H; eassumption. Qed.

Lemma ctx_query_fs_simF q : nc_query q = true ->
  forall fs s, frames s = fs -> simF_at s (ctx_query_fs r fs q) (fun k => ctx_query_fs (r' k) (map fshape fs) q).
Proof.
  intros Hnq fs. induction fs as [|f rest IH]; intros s Efs ft Hv E; cbn [ctx_query_fs] in E.
  - exists 0. intros k _. exact E.
  - destruct f as [root l memo|root l memo|root|b c0 m0]; cbn [map fshape ctx_query_fs].
    + exact (proj2 (Hq 0 q root None Hnq) s ft Hv E).
    + exact (proj2 (Hq 0 q root None Hnq) s ft Hv E).
    + assert (Hne : map fshape rest <> []).
      { destruct Hv as (Hwf & _). rewrite Efs in Hwf. cbn [map] in Hwf. eapply wf_nonroot_rest; [exact Hwf|discriminate]. }
      exact (with_parent_simF _ _ _ _ _ _ (simF_simF_at _ _ _ (proj2 (Hq 0 q root None Hnq))) Hv Efs Hne E).
    + assert (Hne : map fshape rest <> []).
      { destruct Hv as (Hwf & _). rewrite Efs in Hwf. cbn [map] in Hwf. eapply wf_nonroot_rest; [exact Hwf|discriminate]. }
      exact (with_parent_simF _ _ _ _ _ _ (IH (mkState rest (statuses s)) eq_refl) Hv Efs Hne E).
Qed.

Lemma sim2_ctx_query q : nc_query q = true -> sim2 (ctx_query r q) (fun k => ctx_query (r' k) q).
Proof.
  intros Hnq. split; [apply (sim_ctx_query prog r' r Hr1 q Hnq)|].
  intros s ft Hv E. unfold ctx_query in E.
  eapply Ev_impl; [|exact (ctx_query_fs_simF q Hnq (frames s) s eq_refl ft Hv E)].
  intros k Hk. unfold ctx_query, erase at 1. exact Hk.
Qed.

Lemma sim2_param_values (params : list let_value) :
  forallb nc_lv params = true ->
  sim2 (mapM (fun p => match p with
                      | LValue v => ret [QLiteral v]
                      | LAccess a => ctx_query r (aq_query a)
                      | LFunction ps n => ev_fn r n ps
                      end) params)
      (fun k => mapM (fun p => match p with
                      | LValue v => ret [QLiteral v]
                      | LAccess a => ctx_query (r' k) (aq_query a)
                      | LFunction ps n => ev_fn (r' k) n ps
                      end) params).
Proof.
  intros Hp. apply (sim2_mapM_in _ (fun k p => match p with
                      | LValue v => ret [QLiteral v]
                      | LAccess a => ctx_query (r' k) (aq_query a)
                      | LFunction ps n => ev_fn (r' k) n ps
                      end)).
  intros p Hin. pose proof (forallb_in _ _ _ Hp Hin) as Hnp. destruct p as [v|a|ps n]; cbn in Hnp.
  - apply sim2_ret.
  - apply sim2_ctx_query. apply nc_aq_query. exact Hnp.
  - apply Hfn. exact Hnp.
Qed.

Lemma sim2_fn_body name params : forallb nc_lv params = true -> sim2 (fn_body r name params) (fun k => fn_body (r' k) name params).
Proof.
  intros Hp. unfold fn_body. apply sim2_bind; [apply sim2_param_values; exact Hp|]. intros args. sms.
Qed.


Lemma fault_done_bind {A B} (m : M A) (f : A -> M B) s a r1 s1 : m s = Done (a, r1, s1) -> fault_of (bind m f s) = fault_of (f a s1).
Proof. intros E. unfold bind. rewrite E. destruct (f a s1) as [[[b r2] s2]| | | |]; reflexivity. Qed.

Lemma set_top_memo_done is_root root lets memo rest s name vals :
  frames s = top_frame is_root root lets memo :: rest -> exists s2, set_top_memo name vals s = Done (tt, [], s2).
Proof. intros Ef. unfold set_top_memo. rewrite Ef. destruct is_root; cbn; eexists; reflexivity. Qed.

Lemma resolve_scope_simF is_root root lets memo rest name s :
  frames s = top_frame is_root root lets memo :: rest ->
  simF_at s (resolve_scope r is_root root lets memo name) (fun k => resolve_scope' (r' k) is_root root lets name).
Proof.
  intros Ef ft Hv E. destruct (top_frame_valid prog r' _ _ _ _ _ _ Ef Hv) as [Hl Hmemo].
  unfold resolve_scope in E.
  destruct (find_literal name lets) as [v|] eqn:Elit; [discriminate|].
  destruct (assoc name memo) as [vals|] eqn:Ememo; [discriminate|].
  destruct (find_function name lets) as [[ps fn]|] eqn:Efn.
  { pose proof (Hfn fn ps (find_function_nc _ _ _ _ Hl Efn)) as [Hd Hf].
    destruct (ev_fn r fn ps s) as [[[result r1] s1]| | | |] eqn:E1.
    - exfalso. rewrite (fault_done_bind _ _ _ _ _ _ E1) in E.
      destruct (Hd _ _ _ _ Hv E1) as (V1 & Ee1 & _).
      destruct (same_top_frame _ _ _ _ _ _ _ Ef Ee1) as (memo1 & rest1 & Ef1).
      destruct (set_top_memo_done _ _ _ _ _ _ name result Ef1) as (s2 & E2).
      rewrite (fault_done_bind _ _ _ _ _ _ E2) in E. discriminate.
    - assert (E0 : fault_of (ev_fn r fn ps s) = Some ft) by (rewrite E1; unfold bind in E; rewrite E1 in E; exact E).
      eapply Ev_impl; [|exact (Hf s ft Hv E0)]. intros k Hk. unfold resolve_scope'. rewrite Elit, Efn. exact Hk.
    - assert (E0 : fault_of (ev_fn r fn ps s) = Some ft) by (rewrite E1; unfold bind in E; rewrite E1 in E; exact E).
      eapply Ev_impl; [|exact (Hf s ft Hv E0)]. intros k Hk. unfold resolve_scope'. rewrite Elit, Efn. exact Hk.
    - unfold bind in E. rewrite E1 in E. discriminate.
    - assert (E0 : fault_of (ev_fn r fn ps s) = Some ft) by (rewrite E1; unfold bind in E; rewrite E1 in E; exact E).
      eapply Ev_impl; [|exact (Hf s ft Hv E0)]. intros k Hk. unfold resolve_scope'. rewrite Elit, Efn. exact Hk. }
  destruct (find_query name lets) as [aq|] eqn:Eq.
  { pose proof (nc_aq_query _ (find_query_nc _ _ _ Hl Eq)) as Hnq.
    pose proof (Hq 0 (aq_query aq) root None Hnq) as [Hd Hf].
    destruct (ev_query r 0 (aq_query aq) root None s) as [[[result r1] s1]| | | |] eqn:E1.
    - exfalso. rewrite (fault_done_bind _ _ _ _ _ _ E1) in E.
      destruct (Hd _ _ _ _ Hv E1) as (V1 & Ee1 & _).
      destruct (same_top_frame _ _ _ _ _ _ _ Ef Ee1) as (memo1 & rest1 & Ef1).
      destruct (set_top_memo_done _ _ _ _ _ _ name (if aq_all aq then result else filter is_resolved result) Ef1) as (s2 & E2).
      rewrite (fault_done_bind _ _ _ _ _ _ E2) in E. discriminate.
    - assert (E0 : fault_of (ev_query r 0 (aq_query aq) root None s) = Some ft) by (rewrite E1; unfold bind in E; rewrite E1 in E; exact E).
      eapply Ev_impl; [|exact (Hf s ft Hv E0)]. intros k Hk. unfold resolve_scope'. rewrite Elit, Efn, Eq. apply fault_bind_l. exact Hk.
    - assert (E0 : fault_of (ev_query r 0 (aq_query aq) root None s) = Some ft) by (rewrite E1; unfold bind in E; rewrite E1 in E; exact E).
      eapply Ev_impl; [|exact (Hf s ft Hv E0)]. intros k Hk. unfold resolve_scope'. rewrite Elit, Efn, Eq. apply fault_bind_l. exact Hk.
    - unfold bind in E. rewrite E1 in E. discriminate.
    - assert (E0 : fault_of (ev_query r 0 (aq_query aq) root None s) = Some ft) by (rewrite E1; unfold bind in E; rewrite E1 in E; exact E).
      eapply Ev_impl; [|exact (Hf s ft Hv E0)]. intros k Hk. unfold resolve_scope'. rewrite Elit, Efn, Eq. apply fault_bind_l. exact Hk. }
  destruct is_root.
  { exists 0. intros k _. unfold resolve_scope'. rewrite Elit, Efn, Eq. exact E. }
  assert (Hne : map fshape rest <> []).
  { destruct Hv as (Hwf & _). rewrite Ef in Hwf. cbn [map] in Hwf. eapply wf_nonroot_rest; [exact Hwf|discriminate]. }
  eapply Ev_impl; [|exact (with_parent_simF _ _ _ _ _ _ (simF_simF_at _ _ _ (proj2 (Hres name))) Hv Ef Hne E)].
  intros k Hk. unfold resolve_scope'. rewrite Elit, Efn, Eq. exact Hk.
Qed.

Lemma sim2_resolve_body name : sim2 (resolve_body r name) (fun k => resolve_body' (r' k) name).
Proof.
  split; [apply (sim_resolve_body prog r' r Hr1)|].
  intros s ft Hv E. unfold resolve_body in E. destruct (frames s) as [|f rest] eqn:Ef.
  { exists 0. intros k _. unfold resolve_body', erase. cbn [frames]. rewrite Ef. exact E. }
  assert (Hshape : frames (erase s) = fshape f :: map fshape rest) by (unfold erase; rewrite Ef; reflexivity).
  assert (Hp : map fshape rest <> [] -> fault_of (with_parent (ev_resolve r name) s) = Some ft ->
               faults (fun k => with_parent (ev_resolve (r' k) name)) (erase s) ft).
  { intros Hne E0. exact (with_parent_simF _ _ _ _ _ _ (simF_simF_at _ _ _ (proj2 (Hres name))) Hv Ef Hne E0). }
  destruct f as [root l memo|root l memo|root|b c0 m0].
  - eapply Ev_impl; [|exact (resolve_scope_simF true root l memo rest name s Ef ft Hv E)].
    intros k Hk. unfold resolve_body'. rewrite Hshape. exact Hk.
  - eapply Ev_impl; [|exact (resolve_scope_simF false root l memo rest name s Ef ft Hv E)].
    intros k Hk. unfold resolve_body'. rewrite Hshape. exact Hk.
  - assert (Hne : map fshape rest <> []).
    { destruct Hv as (Hwf & _). rewrite Ef in Hwf. cbn [map] in Hwf. eapply wf_nonroot_rest; [exact Hwf|discriminate]. }
    eapply Ev_impl; [|exact (Hp Hne E)]. intros k Hk. unfold resolve_body'. rewrite Hshape. exact Hk.
  - destruct (assoc name b) as [res|] eqn:Eb; [discriminate|].
    assert (Hne : map fshape rest <> []).
    { destruct Hv as (Hwf & _). rewrite Ef in Hwf. cbn [map] in Hwf. eapply wf_nonroot_rest; [exact Hwf|discriminate]. }
    eapply Ev_impl; [|exact (Hp Hne E)]. intros k Hk. unfold resolve_body'. rewrite Hshape. cbn [fshape]. rewrite Eb. exact Hk.
Qed.

Lemma sim2_rq qi q cur cv : nc_query q = true -> sim2 (rq r qi q cur cv) (fun k => rq (r' k) qi q cur cv).
Proof. apply Hq. Qed.
Ltac sl ::= first [apply sim2_ctx_query; assumption | apply sim2_rq; assumption].

Lemma sim2_map_resolved qr f f' : (forall v, sim2 (f v) (fun k => f' k v)) -> sim2 (map_resolved qr f) (fun k => map_resolved qr (f' k)).
Proof. intros Hf. unfold map_resolved. destruct qr; cbv beta iota; try apply sim2_ret. apply Hf. Qed.

Lemma sim2_accumulate parent qi q elements cv : nc_query q = true ->
  sim2 (accumulate r parent qi q elements cv) (fun k => accumulate (r' k) parent qi q elements cv).
Proof. intros Hn. unfold accumulate. sms. Qed.

Lemma sim2_accumulate_map parent keys vals qi q cv func func' :
  (forall a c d, sim2 (func a q c d cv) (fun k => func' k a q c d cv)) ->
  sim2 (accumulate_map parent keys vals qi q cv func) (fun k => accumulate_map parent keys vals qi q cv (func' k)).
Proof. intros Hf. unfold accumulate_map. sms. apply Hf. Qed.

Lemma sim2_eval_filter_cnf cnf : nc_cnf cnf = true -> sim2 (eval_filter_cnf r cnf) (fun k => eval_filter_cnf (r' k) cnf).
Proof.
  intros Hn. unfold eval_filter_cnf. apply (sim2_cnf_body_in (ev_clause r) (fun k => ev_clause (r' k))).
  intros line x Hl Hx. apply Hc. eapply nc_cnf_in; eassumption.
Qed.
Ltac sl ::= first [apply sim2_ctx_query; assumption | apply sim2_rq; assumption | apply sim2_eval_filter_cnf; assumption
                  | apply sim2_accumulate; assumption].

Lemma sim2_check_and_delegate cnf index q key value cv : nc_cnf cnf = true -> nc_query q = true ->
  sim2 (check_and_delegate r cnf None index q key value cv) (fun k => check_and_delegate (r' k) cnf None index q key value cv).
Proof. intros Hn Hnq. unfold check_and_delegate. sms. Qed.

Lemma sim2_lookup_key vals cur k0 qi q cv : nc_query q = true ->
  sim2 (lookup_key conv r vals cur k0 qi q cv) (fun k => lookup_key conv (r' k) vals cur k0 qi q cv).
Proof. intros Hn. unfold lookup_key. destruct (map_get k0 vals); [apply sim2_rq; assumption|]. destruct cv as [c|]; sms. Qed.

Lemma sim2_interpolate var vals cur qi q cv : nc_query q = true ->
  sim2 (interpolate r var vals cur qi q cv) (fun k => interpolate (r' k) var vals cur qi q cv).
Proof. intros Hn. unfold interpolate. sms. Qed.

Lemma sim2_old_report_value c x : sim2 (old_report_value c x) (fun _ => old_report_value c x).
Proof. unfold old_report_value. sms. Qed.
Ltac sl ::= first [apply sim2_ctx_query; assumption | apply sim2_rq; assumption | apply sim2_eval_filter_cnf; assumption
                  | apply sim2_accumulate; assumption | apply sim2_old_report_value].

Lemma sim2_real_binary_operation lhs rhs c0 : sim2 (real_binary_operation re lhs rhs c0) (fun _ => real_binary_operation re lhs rhs c0).
Proof. unfold real_binary_operation. sms. Qed.
Ltac sl ::= first [apply sim2_ctx_query; assumption | apply sim2_rq; assumption | apply sim2_eval_filter_cnf; assumption
                  | apply sim2_accumulate; assumption | apply sim2_old_report_value | apply sim2_real_binary_operation
                  | apply sim2_lookup_key; assumption | apply sim2_interpolate; assumption
                  | apply sim2_check_and_delegate; assumption | apply sim2_map_resolved; intros ?].

Lemma sim2_map_key_filter c w keys vals cur qi q cv : nc_lv w = true -> nc_query q = true ->
  sim2 (map_key_filter re r c w keys vals cur qi q cv) (fun k => map_key_filter re (r' k) c w keys vals cur qi q cv).
Proof.
  intros Hw Hn. unfold map_key_filter. destruct w as [v|a|ps n]; cbn in Hw.
  - sms.
  - pose proof (nc_aq_query _ Hw) as Ha. sms.
  - sms.
Qed.

Lemma sim2_query_body qi q cur cv : nc_query q = true ->
  sim2 (query_body re conv r qi q cur cv) (fun k => query_body re conv (r' k) qi q cur cv).
Proof.
  intros Hn. unfold query_body. destruct (nth_error q qi) as [part|] eqn:En; [|sms].
  pose proof (nth_error_nc _ _ _ Hn En) as Hpart.
  destruct (if Nat.eqb qi 0 then part_variable part else None) as [var|].
  { sms. }
  destruct part as [|k0|mname c w|name|name|i|name cnf]; cbn in Hpart.
  - sms.
  - sms.
  - destruct cur; try (apply sim2_map_key_filter; assumption); sms.
  - destruct name; [discriminate|]. destruct cur; sms. apply sim2_accumulate_map. intros. sms.
  - destruct name; [discriminate|]. destruct cur; sms.
  - sms.
  - destruct name; [discriminate|]. fold (nc_cnf cnf) in Hpart. destruct cur; sms.
Qed.


Ltac sl2 := fail.
Ltac sms2 := repeat first [sl2 | sl | sh | sm_step].

Lemma sim2_unary_operation lq c inverse custom : nc_query lq = true ->
  sim2 (unary_operation r lq c inverse custom) (fun k => unary_operation (r' k) lq c inverse custom).
Proof. intros Hn. unfold unary_operation. sms2. Qed.

Lemma sim2_binary_operation lq rhs c custom : nc_query lq = true ->
  sim2 (binary_operation re r lq rhs c custom) (fun k => binary_operation re (r' k) lq rhs c custom).
Proof. intros Hn. unfold binary_operation. sms2. Qed.

Lemma sim2_access_clause_body g : nc_ac g = true -> sim2 (access_clause_body re r g) (fun k => access_clause_body re (r' k) g).
Proof.
  intros Hn. destruct g as [aq c w custom negation]. cbn in Hn. ncsplit. pose proof (nc_aq_query _ H) as Hq1.
  unfold access_clause_body. apply sim2_bind; [|intros ?; sms2]. apply sim2_node. apply sim2_bind; [|intros ?; sms2].
  destruct (is_unary (fst c)); [apply sim2_unary_operation; assumption|].
  destruct w as [wv|]; [|sms2].
  apply sim2_bind; [|intros ?; apply sim2_binary_operation; assumption].
  destruct wv as [v|a|ps n]; cbn in H0; [sms2| |apply Hfn; assumption].
  apply sim2_ctx_query. apply nc_aq_query. assumption.
Qed.

Lemma sim2_first_non_skip rules : (forall x, In x rules -> nc_rule x = true) ->
  sim2 (first_non_skip r rules) (fun k => first_non_skip (r' k) rules).
Proof.
  induction rules as [|x rest IH]; intros Hn; cbn [first_non_skip]; [apply sim2_ret|].
  apply (sim2_bind (ev_rule r x) (fun k => ev_rule (r' k) x) _
           (fun k st => match st with SKIP => first_non_skip (r' k) rest | _ => ret st end)).
  - apply Hrule. apply Hn. left. reflexivity.
  - intros st. destruct st; try apply sim2_ret. apply IH. intros y Hy. apply Hn. right. exact Hy.
Qed.


Lemma sim2_rule_status_body name : sim2 (rule_status_body prog r name) (fun k => rule_status_body' prog (r' k) name).
Proof.
  split; [apply (sim_rule_status_body prog r' Hprog r Hr1)|].
  unfold rule_status_body, rule_status_body'.
  refine (proj2 (sim2_at_root _ _ _ _)).
  - (* the Done half, as in MemoProps: obtained from its lemma by unfolding at_root is not possible; re-derive from sim *)
    intros s0 Hlen a recs s' Hv H.
    assert (Eroot : root_shape (map fshape (frames s0)) = erase s0).
    { unfold root_shape, erase. rewrite map_length, Hlen. reflexivity. }
    destruct (assoc name (statuses s0)) as [st|] eqn:Ec.
    + apply ret_inv in H as (-> & _ & ->). split; [exact Hv|split; [reflexivity|]].
      destruct Hv as (_ & _ & Hvs). specialize (Hvs name st Ec). rewrite Eroot in Hvs. exact Hvs.
    + destruct (rules_named prog name) as [|x rest] eqn:Er; [discriminate|].
      apply bind_inv in H as (st & r1 & s1 & r2 & H1 & H2 & _). inversion H2; subst. clear H2.
      assert (Hn : forall y, In y (x :: rest) -> nc_rule y = true) by (intros y Hy; apply (nc_rules_named name); rewrite Er; exact Hy).
      destruct (sim_first_non_skip prog r' r Hr1 (x :: rest) Hn _ _ _ _ Hv H1) as ((Hwf1 & Hvf1 & Hvs1) & E1 & C1).
      assert (Cin : computes (fun k => rule_status_inner' prog (r' k) name) (erase s0) a).
      { eapply Ev_impl; [|exact C1]. intros k Hk. unfold rule_status_inner'. rewrite Er. exact Hk. }
      split; [|split; [|exact Cin]].
      * split; [|split]; cbn [frames statuses]; [exact Hwf1|exact Hvf1|].
        intros n st Hn2. cbn [frames statuses] in *. rewrite assoc_assoc_set in Hn2.
        destruct (String.eqb n name) eqn:En.
        -- apply String.eqb_eq in En. subst n. inversion Hn2; subst.
           apply erase_shape in E1. rewrite E1, Eroot. exact Cin.
        -- apply Hvs1. exact Hn2.
      * unfold erase. cbn [frames]. apply erase_shape in E1. rewrite E1. reflexivity.
  - intros s0 Hlen ft Hv E.
    destruct (assoc name (statuses s0)) as [st|] eqn:Ec; [discriminate|].
    destruct (rules_named prog name) as [|x rest] eqn:Er.
    { exists 0. intros k _. unfold rule_status_inner'. rewrite Er. exact E. }
    assert (Hn : forall y, In y (x :: rest) -> nc_rule y = true) by (intros y Hy; apply (nc_rules_named name); rewrite Er; exact Hy).
    destruct (first_non_skip r (x :: rest) s0) as [[[st r1] s1]| | | |] eqn:E1.
    + unfold bind in E. rewrite E1 in E. discriminate.
    + assert (E0 : fault_of (first_non_skip r (x :: rest) s0) = Some ft) by (rewrite E1; unfold bind in E; rewrite E1 in E; exact E).
      eapply Ev_impl; [|exact (proj2 (sim2_first_non_skip (x :: rest) Hn) s0 ft Hv E0)]. intros k Hk. unfold rule_status_inner'. rewrite Er. exact Hk.
    + assert (E0 : fault_of (first_non_skip r (x :: rest) s0) = Some ft) by (rewrite E1; unfold bind in E; rewrite E1 in E; exact E).
      eapply Ev_impl; [|exact (proj2 (sim2_first_non_skip (x :: rest) Hn) s0 ft Hv E0)]. intros k Hk. unfold rule_status_inner'. rewrite Er. exact Hk.
    + unfold bind in E. rewrite E1 in E. discriminate.
    + assert (E0 : fault_of (first_non_skip r (x :: rest) s0) = Some ft) by (rewrite E1; unfold bind in E; rewrite E1 in E; exact E).
      eapply Ev_impl; [|exact (proj2 (sim2_first_non_skip (x :: rest) Hn) s0 ft Hv E0)]. intros k Hk. unfold rule_status_inner'. rewrite Er. exact Hk.
Qed.
Ltac sl2 ::= first [apply sim2_unary_operation; assumption | apply sim2_binary_operation; assumption
                   | apply sim2_access_clause_body; assumption | apply sim2_rule_status_body].

Lemma sim2_named_clause_body n : sim2 (named_clause_body prog r n) (fun k => named_clause_body' prog (r' k) n).
Proof. unfold named_clause_body, named_clause_body'. destruct n. sms2. Qed.

Lemma sim2_gblock_body b : nc_block b = true -> sim2 (gblock_body r b) (fun k => gblock_body (r' k) b).
Proof.
  intros Hn. destruct b as [lets cnf]. cbn in Hn. ncsplit. fold (nc_lets lets) in H. fold (nc_cnf cnf) in H0.
  unfold gblock_body. apply sim2_bind; [apply sim2_ctx_root|intros root].
  apply sim2_with_frame; [split; [assumption|reflexivity]|].
  apply (sim2_cnf_body_in (ev_clause r) (fun k => ev_clause (r' k))).
  intros line x Hl Hx. apply Hc. eapply nc_cnf_in; eassumption.
Qed.

Lemma sim2_block_clause_body aq b ne : nc_aq aq = true -> nc_block b = true ->
  sim2 (block_clause_body r aq b ne) (fun k => block_clause_body (r' k) aq b ne).
Proof.
  intros Ha Hb. pose proof (nc_aq_query _ Ha) as Hq1. unfold block_clause_body.
  apply sim2_node. apply sim2_bind; [sms2|intros values]. destruct values; cbv beta iota; [sms2|].
  apply sim2_bind; [|intros ?; sms2]. apply sim2_mapM. intros each.
  destruct each; cbv beta iota; try (apply sim2_with_frame; [exact I|apply sim2_gblock_body; assumption]). sms2.
Qed.

Lemma sim2_param_call_body params n : forallb nc_lv params = true ->
  sim2 (param_call_body prog r params n) (fun k => param_call_body prog (r' k) params n).
Proof.
  intros Hp. unfold param_call_body. destruct n as [dep neg custom].
  destruct (find_param_rule prog dep) as [p|] eqn:Ef; [|sms2].
  pose proof (find_param_rule_nc _ _ Ef) as Hnr.
  destruct (negb (Nat.eqb (List.length (pr_params p)) (List.length params))); [sms2|].
  apply sim2_bind.
  - apply (sim2_mapM_in _ (fun k each => match each with
                          | LValue v => ret [QLiteral v]
                          | LAccess a => ctx_query (r' k) (aq_query a)
                          | LFunction ps fname => ev_fn (r' k) fname ps
                          end)).
    intros e Hin. pose proof (forallb_in _ _ _ Hp Hin) as Hne. destruct e as [v|a|ps fname]; cbn in Hne.
    + apply sim2_ret.
    + apply sim2_ctx_query. apply nc_aq_query. exact Hne.
    + apply Hfn. exact Hne.
  - intros resolved. apply sim2_with_frame; [exact I|]. apply Hrule. exact Hnr.
Qed.

Lemma sim2_when_clause_body w : nc_wc w = true -> sim2 (when_clause_body re prog r w) (fun k => when_clause_body' re prog (r' k) w).
Proof.
  intros Hn. destruct w as [g|n|ps n]; cbn in Hn; unfold when_clause_body, when_clause_body'.
  - apply sim2_access_clause_body; assumption.
  - apply sim2_named_clause_body.
  - apply sim2_param_call_body; assumption.
Qed.

Lemma sim2_conds conds : nc_conds conds = true ->
  sim2 (cnf_body (when_clause_body re prog r) conds) (fun k => cnf_body (when_clause_body' re prog (r' k)) conds).
Proof.
  intros Hn. apply (sim2_cnf_body_in (when_clause_body re prog r) (fun k => when_clause_body' re prog (r' k))).
  intros line x Hl Hx. apply sim2_when_clause_body. eapply nc_conds_in; eassumption.
Qed.

Lemma sim2_when_block_body conds b : nc_conds conds = true -> nc_block b = true ->
  sim2 (when_block_body re prog r conds b) (fun k => when_block_body' re prog (r' k) conds b).
Proof.
  intros Hcn Hb. unfold when_block_body, when_block_body'. apply sim2_node. apply sim2_bind.
  - apply sim2_node. apply sim2_conds; assumption.
  - intros cst. destruct cst; cbv beta iota; try apply sim2_ret. apply sim2_gblock_body; assumption.
Qed.

Lemma sim2_clause_body g : nc_clause g = true -> sim2 (clause_body re prog r g) (fun k => clause_body' re prog (r' k) g).
Proof.
  intros Hn. destruct g as [c|n|ps n|aq b ne|conds b]; cbn in Hn; unfold clause_body, clause_body'.
  - apply sim2_access_clause_body; assumption.
  - apply sim2_named_clause_body.
  - apply sim2_param_call_body; assumption.
  - ncsplit. apply sim2_block_clause_body; assumption.
  - ncsplit. apply sim2_when_block_body; assumption.
Qed.

Lemma sim2_type_block_body tn conds b q : nc_oconds conds = true -> nc_block b = true -> nc_query q = true ->
  sim2 (type_block_body re prog r tn conds b q) (fun k => type_block_body' re prog (r' k) tn conds b q).
Proof.
  intros Hcn Hb Hnq. unfold type_block_body, type_block_body'. apply sim2_node. apply sim2_bind.
  - destruct conds as [c|]; cbv beta iota; [|apply sim2_ret]. apply sim2_bind; [|intros ?; apply sim2_ret].
    apply sim2_node. apply sim2_conds; assumption.
  - intros go. destruct (negb go); cbv beta iota; [apply sim2_ret|].
    apply sim2_bind; [apply sim2_ctx_query; assumption|intros values]. destruct values; cbv beta iota; [apply sim2_ret|].
    apply sim2_bind; [|intros ?; apply sim2_ret]. apply sim2_mapM. intros each.
    destruct each; cbv beta iota; try (apply sim2_node; apply sim2_with_frame; [exact I|apply sim2_gblock_body; assumption]).
    apply sim2_failM.
Qed.

Lemma sim2_rule_clause_body c : nc_rule_clause c = true ->
  sim2 (rule_clause_body re prog r c) (fun k => rule_clause_body' re prog (r' k) c).
Proof.
  intros Hn. destruct c as [g|conds b|tn conds b q]; cbn in Hn; unfold rule_clause_body, rule_clause_body'.
  - apply Hc; assumption.
  - ncsplit. apply sim2_when_block_body; assumption.
  - ncsplit. apply sim2_type_block_body; assumption.
Qed.

Lemma sim2_rule_body x : nc_rule x = true -> sim2 (rule_body re prog r x) (fun k => rule_body' re prog (r' k) x).
Proof.
  intros Hn. unfold nc_rule in Hn. ncsplit. unfold rule_body, rule_body'. apply sim2_node. apply sim2_bind.
  - destruct (rule_conditions x) as [c|]; cbv beta iota; [|apply sim2_ret]. apply sim2_bind; [|intros ?; apply sim2_ret].
    apply sim2_node. apply sim2_conds; assumption.
  - intros go. destruct (negb go); cbv beta iota; [apply sim2_ret|].
    apply sim2_bind; [apply sim2_ctx_root|intros root]. apply sim2_with_frame; [split; [assumption|reflexivity]|].
    apply (sim2_cnf_body_in (rule_clause_body re prog r) (fun k => rule_clause_body' re prog (r' k))).
    intros line c Hl Hx. apply sim2_rule_clause_body. eapply forallb_in; [|exact Hx]. eapply forallb_in; [|exact Hl]. assumption.
Qed.


End SimF.

(* ------------------------------------------------------------------ *)
(* SEval is simulated by PEval also when it fails, at every fuel *)

Lemma sim2_shift prog r' {A} (m : M A) (m' : nat -> M A) : sim2 prog r' m (fun k => m' (S k)) -> sim2 prog r' m m'.
Proof.
  intros [Hd Hf]. split; [apply sim_shift; exact Hd|]. intros s ft Hv E. apply Ev_shift. exact (Hf s ft Hv E).
Qed.

Theorem evalN_sim2 re conv prog : nc_prog prog = true ->
  forall n, ev_sim2 prog (evalP re conv prog) (evalN re conv prog n).
Proof.
  intros Hprog n. induction n as [|n IH].
  - split; [|split; [|split; [|split]]].
    + intros qi q cur cv _. apply sim2_oofM.
    + intros g _. apply sim2_oofM.
    + intros x _. apply sim2_oofM.
    + intros nm. apply sim2_oofM.
    + intros f ps _. apply sim2_oofM.
  - cbn [evalN]. split; [|split; [|split; [|split]]]; cbn [ev_query ev_clause ev_rule ev_resolve ev_fn].
    + intros qi q cur cv Hn. apply sim2_shift. cbn [evalP ev_query]. apply sim2_query_body; assumption.
    + intros g Hn. apply sim2_shift. cbn [evalP ev_clause]. apply sim2_clause_body; assumption.
    + intros x Hn. apply sim2_shift. cbn [evalP ev_rule]. apply sim2_rule_body; assumption.
    + intros nm. apply sim2_shift. cbn [evalP ev_resolve]. apply sim2_resolve_body; assumption.
    + intros f ps Hn. apply sim2_shift. cbn [evalP ev_fn]. apply sim2_fn_body; assumption.
Qed.

(* a failure of a file is the failure of the memo-free evaluation *)
Theorem eval_file_fault_memo_free re conv prog n doc ft :
  nc_prog prog = true ->
  fault_of (eval_file re conv prog n doc) = Some ft ->
  Ev (fun k => fault_of (eval_file' re conv prog k doc) = Some ft).
Proof.
  intros Hprog H. unfold eval_file, file_body in H.
  pose proof (evalN_sim2 re conv prog Hprog n) as Hs. destruct Hs as (_ & _ & Hrule & _).
  assert (K : sim2 prog (evalP re conv prog)
                (node (sts <- mapM (ev_rule (evalN re conv prog n)) (rf_rules prog) ;; ret (fold_fail_pass_skip sts)) KFileCheck)
                (fun k => node (sts <- mapM (ev_rule (evalP re conv prog k)) (rf_rules prog) ;; ret (fold_fail_pass_skip sts)) KFileCheck)).
  { apply sim2_node.
    apply (sim2_bind prog _ (mapM (ev_rule (evalN re conv prog n)) (rf_rules prog))
             (fun k => mapM (ev_rule (evalP re conv prog k)) (rf_rules prog)) _ (fun k sts => ret (fold_fail_pass_skip sts))).
    - apply (sim2_mapM_in prog _ (ev_rule (evalN re conv prog n)) (fun k => ev_rule (evalP re conv prog k))).
      intros x Hx. apply Hrule. unfold nc_prog in Hprog. ncsplit. eapply forallb_in; eassumption.
    - intros sts. apply sim2_ret. }
  pose proof (proj2 K _ ft (init_state_valid re conv prog doc Hprog) H) as F.
  rewrite init_state_erase in F. exact F.
Qed.

Corollary eval_file_error_memo_free re conv prog n doc e :
  nc_prog prog = true -> eval_file re conv prog n doc = Err e ->
  Ev (fun k => eval_file' re conv prog k doc = Err e).
Proof.
  intros Hprog H. eapply Ev_impl; [|apply (eval_file_fault_memo_free re conv prog n doc (FErr e) Hprog); rewrite H; reflexivity].
  intros k. cbv beta. generalize (eval_file' re conv prog k doc). intros o Hk. destruct o as [x|e'| | |]; cbn in Hk; try discriminate. inversion Hk. reflexivity.
Qed.
