(* Tags.v — CloudFormation short-form tags in the two loading paths:
   libyaml loader (loader.rs 104-146, 177-206): a scalar or a sequence tagged !T becomes {long(T): payload} when T is
   in one of the two tables (at the pinned commit: scalars only for the single-value table, sequences only for the
   sequence table; a tag used with the other payload kind was silently dropped); otherwise the tag is dropped. serde path (values.rs 324-335, 463-473): a tagged value becomes {long(T): value} when T is in either table.
   The three tables are regenerated from rules/mod.rs (Generated/TagTables.v). No proofs here. *)
From GV.Model Require Export Base.
From GV.Generated Require Export TagTables.

Definition mem (t : string) (l : list string) : bool := existsb (String.eqb t) l.
Definition long_of (t : string) : option string := assoc t short_to_long.

(* the shape a tagged node is loaded to; P is the payload (a scalar text or a sequence) *)
Inductive loaded (P : Type) :=
| AsMap (long : string) (payload : P)      (* {long: payload} *)
| AsPayload (payload : P)                  (* the tag is dropped *)
| Crash.                                   (* short_form_to_long: unreachable!() *)
Arguments AsMap {P} long payload.
Arguments AsPayload {P} payload.
Arguments Crash {P}.

Definition with_long {P} (t : string) (p : P) : loaded P :=
  match long_of t with Some l => AsMap l p | None => Crash end.

(* since the fix in /repo both handlers of the libyaml loader consult both tables, like the serde path *)
Definition cli_scalar {P} (t : string) (p : P) : loaded P :=
  if mem t single_value_tags || mem t sequence_value_tags then with_long t p else AsPayload p.
Definition cli_sequence {P} (t : string) (p : P) : loaded P :=
  if mem t sequence_value_tags || mem t single_value_tags then with_long t p else AsPayload p.
Definition serde_tagged {P} (t : string) (p : P) : loaded P :=
  if mem t single_value_tags || mem t sequence_value_tags then with_long t p else AsPayload p.
