(* C01 — rule verdicts equal the documented semantics of clauses, queries and blocks. Pinned statements only.

   The full statement, kept visible (NOT proved here): on the core fragment the model of the implementation refines
   the documented semantics Spec.v. What is proved are the sentences the statement singles out (the `_partial`
   theorems); the refinement itself is checked on every run by evaluating Spec inside Coq on the implementation's
   parsed AST and loaded value and comparing with the implementation's verdicts (tools/gv/props/c01.py). *)
From GV.Model Require Import SEval Spec CheckSpec.
From GV.Proofs Require Import StatusProps ClauseProps.

Definition C01_full_statement : Prop :=
  forall re conv prog doc fuel sfuel,
    match eval_file re conv prog fuel doc, spec_file re (fun _ => true) prog doc sfuel with
    | Done (st, [rec], _), SOk (st', rules) => st = st' /\ compare_rules rules (rule_statuses rec) = None
    | Err _, SOk _ => False
    | Done _, SUndef => False
    | _, _ => True       (* outside the fragment, out of fuel, crashes (C08) *)
    end.

(* "Unresolved paths count as FAIL for comparisons": every comparison operator, both polarities, any right-hand side *)
Theorem C01_unresolved_cmp_fails_partial : forall re c lhs rhs l u,
  cmp_compare re c lhs rhs = Done (EResult l) -> In (QUnResolved u) lhs ->
  In (VLhsUnresolved u) l /\
  forall custom, In (CComparison c (QUnResolved u) None false custom FAIL, QUnResolved u, FAIL)
                    (flat_map (report_binary c custom) l).
Proof. exact unresolved_cmp_fails. Qed.
Print Assumptions C01_unresolved_cmp_fails_partial.

(* "... as `empty` / `not exists`" *)
Theorem C01_unresolved_is_empty_not_exists_partial : forall u,
  unary_op (OExists, false) false exists_operation (QUnResolved u) = Done false /\
  unary_op (OExists, true) false exists_operation (QUnResolved u) = Done true /\
  unary_op (OExists, false) true exists_operation (QUnResolved u) = Done true /\
  unary_op (OEmpty, false) false element_empty_operation (QUnResolved u) = Done true /\
  unary_op (OEmpty, true) false element_empty_operation (QUnResolved u) = Done false /\
  forall t n, unary_op (t, n) false (is_type_operation TString) (QUnResolved u) = Done n.
Proof. exact unresolved_is_empty_not_exists. Qed.
Print Assumptions C01_unresolved_is_empty_not_exists_partial.

(* "... and empty filtered selections make the dependent clause or block SKIP" *)
Theorem C01_empty_selection_compare_skips_partial : forall re c rhs, cmp_compare re c [] rhs = Done ESkip.
Proof. exact empty_selection_compare_skips. Qed.
Print Assumptions C01_empty_selection_compare_skips_partial.

Theorem C01_empty_selection_block_skips_partial : forall r aq b s recs s',
  ctx_query r (aq_query aq) s = Done ([], recs, s') ->
  exists recs', block_clause_body r aq b false s = Done (SKIP, recs', s') /\
  exists recs'', block_clause_body r aq b true s = Done (FAIL, recs'', s').
Proof. exact empty_selection_block_skips. Qed.
Print Assumptions C01_empty_selection_block_skips_partial.

(* "an evaluation error is raised exactly when that semantics is undefined (e.g. `empty` on a number)" *)
Theorem C01_empty_on_number_is_an_error_partial : forall p z f,
  element_empty_operation (QResolved (PInt p z)) = Err EIncompatible /\
  element_empty_operation (QResolved (PFloat p f)) = Err EIncompatible /\
  element_empty_operation (QResolved (PNull p)) = Err EIncompatible.
Proof. exact empty_on_number_is_an_error. Qed.
Print Assumptions C01_empty_on_number_is_an_error_partial.

(* the documented semantics says the same *)
Theorem C01_spec_sentences : forall re o neg r lit p z,
  check_value re o neg SMiss r = SOk [FAIL] /\
  unary_value OExists SMiss = SOk false /\ unary_value OEmpty SMiss = SOk true /\
  unary_value OEmpty (SV lit (PInt p z)) = SUndef.
Proof. exact spec_sentences. Qed.
Print Assumptions C01_spec_sentences.

(* all / some quantification over the per-value outcomes *)
Theorem C01_clause_all_spec : forall l, clause_all l = FAIL <-> In FAIL l.
Proof. exact clause_all_spec. Qed.
Print Assumptions C01_clause_all_spec.
Theorem C01_clause_some_spec : forall l, clause_some l = PASS <-> In PASS l.
Proof. exact clause_some_spec. Qed.
Print Assumptions C01_clause_some_spec.
