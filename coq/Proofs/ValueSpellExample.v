(* ValueSpellExample.v — the premises of spelling_parses are met by a spelling with every construct in it; an executable
   decision procedure for `layout`. *)
From Coq Require Import Lia.
From GV.Model Require Import ValueParse.
From GV.Proofs Require Import LexProps ValueParseProps ValueSpellProps.
Local Open Scope string_scope.
Local Open Scope nat_scope.

(* ---------------------------------------------------------------- the premises are met: a spelling with everything in it *)
Definition nl : string := String (ascii_of_N 10) EmptyString.
Definition ex_cst : cst :=
  CMap (MCons EmptyString (" # the key" +++ nl +++ " ") (CKBare "ports") " " "  "
          (CList (ECons EmptyString " " (CInt false "0080")
                 (ECons " " (nl +++ "  ") (CInt true "1")
                 (ECons EmptyString EmptyString (CRangeInt true false false "1" false "5" " " EmptyString "  " EmptyString) ENil))) (" #end" +++ nl))
       (MCons (nl) " " (CKQuoted true "a ""b") EmptyString " "
          (CList (ECons EmptyString EmptyString (CStr false "it's")
                 (ECons EmptyString " " (CNull true)
                 (ECons EmptyString " " (CBool true true)
                 (ECons EmptyString " " (CRegex "^a.*$")
                 (ECons EmptyString " " (CRangeChar false true "a" "z" EmptyString " " " " EmptyString)
                 (ECons EmptyString EmptyString (CMap MNil " ") ENil)))))) EmptyString)
       MNil)) nl.

Lemma layout_dec_sound : forall w, (fix go (s : string) (c : bool) : bool :=
    match s with
    | EmptyString => negb c
    | String a r => if c then go r (negb (is_nl a)) else if is_ws a then go r false else if is_hash a then go r true else false
    end) w false = true -> layout w.
Proof.
  set (go := fix go (s : string) (c : bool) : bool :=
    match s with
    | EmptyString => negb c
    | String a r => if c then go r (negb (is_nl a)) else if is_ws a then go r false else if is_hash a then go r true else false
    end).
  assert (Hc : forall s, go s true = true -> exists body w, s = body +++ String (ascii_of_N 10) w /\
             (forall c, In c (list_ascii_of_string body) -> is_nl c = false) /\ go w false = true /\ String.length w < String.length s).
  { induction s as [|a r IH]; cbn; [discriminate|]. destruct (is_nl a) eqn:E; cbn.
    - intros H. exists EmptyString, r. repeat split; auto.
      + cbn. f_equal. destruct a as [[] [] [] [] [] [] [] []]; cbv in E; try discriminate. reflexivity.
      + intros c [].
    - intros H. destruct (IH H) as (body & w & -> & Hb & Hw & Hl). exists (String a body), w. repeat split; auto; try (rewrite len_app in *; cbn in *; lia).
      intros c [<-|Hin]; [exact E|apply Hb; exact Hin]. }
  intros w. remember (String.length w) as k eqn:Ek. revert w Ek. induction k as [k IHk] using lt_wf_ind. intros w Ek H.
  destruct w as [|a r]; [constructor|]. cbn in H. destruct (is_ws a) eqn:Ew.
  - constructor; [exact Ew|]. eapply IHk; [|reflexivity|exact H]. subst k. cbn. lia.
  - destruct (is_hash a) eqn:Eh; [|discriminate]. destruct (Hc r H) as (body & w & -> & Hb & Hw & Hl).
    assert (a = "#"%char) as -> by (destruct a as [[] [] [] [] [] [] [] []]; cbv in Eh; try discriminate; reflexivity).
    apply L_comment; [exact Hb|]. eapply IHk; [|reflexivity|exact Hw]. subst k. cbn. rewrite len_app in *. cbn in *. lia.
Qed.

Example ex_cst_wf : wf (fun _ => true) ex_cst.
Proof.
  cbn [wf wf_elems wf_entries wf_key ex_cst]. unfold wf_digits, blanks, plain_char.
  repeat split; try discriminate; try reflexivity; try (apply layout_dec_sound; reflexivity); try (vm_compute; discriminate).
Qed.

Example ex_cst_parses :
  parse_value_top (fun _ => true) (render ex_cst) = POk (denote ex_cst) EmptyString /\
  denote ex_cst = VMap [("ports", VList [VInt 80; VInt (-1); VRangeInt 1 5 1]);
                        ("a ""b", VList [VStr "it's"; VNull; VBool true; VRegex "^a.*$"; VRangeChar "a" "z" 2; VMap []])].
Proof. split; vm_compute; reflexivity. Qed.
