(* ValueSpellProps.v — every spelling of a value parses to that value (C14 for value literals).
   A `cst` is a value as it can be WRITTEN: which keyword spelling, which quote character, an optional sign and leading
   zeros, and a stretch of layout (blanks, line breaks, complete comments) at every position where the grammar allows one:
   before each element, before each comma, before the closing bracket, before a key, before the colon, before the value
   of an entry; blanks (spaces, tabs) around the bounds of a range.  `render` writes it out, `denote` is the value meant.
   Theorem spelling_parses: for every well-formed cst, whatever follows it, parse_value answers `denote` and leaves what
   follows.  Hence any two spellings of the same value are interchangeable (spellings_agree). *)
From Coq Require Import Lia.
From GV.Model Require Import ValueParse.
From GV.Proofs Require Import LexProps ValueParseProps.
Local Open Scope string_scope.
Local Open Scope nat_scope.

Inductive ckey := CKBare (k : string) | CKQuoted (dq : bool) (k : string).

Inductive cst : Type :=
| CNull (upper : bool)
| CBool (b capital : bool)
| CInt (neg : bool) (digits : string)
| CStr (dq : bool) (s : string)
| CRegex (s : string)
| CRangeInt (oi ci : bool) (n1 : bool) (d1 : string) (n2 : bool) (d2 : string) (b1 b2 b3 b4 : string)
| CRangeChar (oi ci : bool) (lo hi : ascii) (b1 b2 b3 b4 : string)
| CList (es : celems) (w : string)
| CMap (es : centries) (w : string)
with celems : Type :=
| ENil
| ECons (w0 w1 : string) (t : cst) (rest : celems)        (* w0 "," w1 value; w0 and the comma are not written for the first *)
with centries : Type :=
| MNil
| MCons (w0 wk : string) (k : ckey) (wc wv : string) (t : cst) (rest : centries).   (* w0 "," wk key wc ":" wv value *)

Scheme cst_mut := Induction for cst Sort Prop
  with celems_mut := Induction for celems Sort Prop
  with centries_mut := Induction for centries Sort Prop.
Combined Scheme cst_mutind from cst_mut, celems_mut, centries_mut.

Definition qchar (dq : bool) : ascii := if dq then """"%char else "'"%char.
Definition render_int (neg : bool) (d : string) : string := (if neg then "-" else "") +++ d.
Definition render_key (k : ckey) : string :=
  match k with CKBare k => k | CKQuoted dq k => quote (qchar dq) k end.

Fixpoint render (t : cst) : string :=
  match t with
  | CNull u => if u then "NULL" else "null"
  | CBool b c => if b then (if c then "True" else "true") else (if c then "False" else "false")
  | CInt neg d => render_int neg d
  | CStr dq s => quote (qchar dq) s
  | CRegex s => "/" +++ s +++ "/"
  | CRangeInt oi ci n1 d1 n2 d2 b1 b2 b3 b4 =>
      "r" +++ (if oi then "[" else "(") +++ b1 +++ render_int n1 d1 +++ b2 +++ "," +++ b3 +++ render_int n2 d2 +++ b4 +++
      (if ci then "]" else ")")
  | CRangeChar oi ci lo hi b1 b2 b3 b4 =>
      "r" +++ (if oi then "[" else "(") +++ b1 +++ String lo (b2 +++ "," +++ b3 +++ String hi (b4 +++ (if ci then "]" else ")")))
  | CList es w => "[" +++ render_elems true es +++ w +++ "]"
  | CMap es w => "{" +++ render_entries true es +++ w +++ "}"
  end
with render_elems (first : bool) (es : celems) : string :=
  match es with
  | ENil => EmptyString
  | ECons w0 w1 t rest => (if first then EmptyString else w0 +++ ",") +++ w1 +++ render t +++ render_elems false rest
  end
with render_entries (first : bool) (es : centries) : string :=
  match es with
  | MNil => EmptyString
  | MCons w0 wk k wc wv t rest =>
      (if first then EmptyString else w0 +++ ",") +++ wk +++ render_key k +++ wc +++ ":" +++ wv +++ render t +++ render_entries false rest
  end.

Definition int_val (neg : bool) (d : string) : Z := if neg then (- digits_val d)%Z else digits_val d.
Definition incl_of (oi ci : bool) : N := ((if oi then 1 else 0) + (if ci then 2 else 0))%N.
Definition key_of (k : ckey) : string := match k with CKBare k => k | CKQuoted _ k => k end.

Fixpoint denote (t : cst) : lit :=
  match t with
  | CNull _ => VNull
  | CBool b _ => VBool b
  | CInt neg d => VInt (int_val neg d)
  | CStr _ s => VStr s
  | CRegex s => VRegex s
  | CRangeInt oi ci n1 d1 n2 d2 _ _ _ _ => VRangeInt (int_val n1 d1) (int_val n2 d2) (incl_of oi ci)
  | CRangeChar oi ci lo hi _ _ _ _ => VRangeChar lo hi (incl_of oi ci)
  | CList es _ => VList (denote_elems es)
  | CMap es _ => VMap (fold_left (fun m kv => imap_insert (fst kv) (snd kv) m) (denote_entries es) [])
  end
with denote_elems (es : celems) : list lit :=
  match es with ENil => [] | ECons _ _ t rest => denote t :: denote_elems rest end
with denote_entries (es : centries) : list (string * lit) :=
  match es with MNil => [] | MCons _ _ k _ _ t rest => (key_of k, denote t) :: denote_entries rest end.

(* ---------------------------------------------------------------- well-formed spellings *)
Fixpoint all_chars (p : ascii -> bool) (s : string) : bool :=
  match s with EmptyString => true | String c r => p c && all_chars p r end.

Definition wf_digits (d : string) : Prop := d <> EmptyString /\ all_chars is_digit d = true /\ (digits_val d <= i64_max)%Z.
Definition blanks (b : string) : Prop := all_chars is_blank b = true.
Definition plain_char (c : ascii) : Prop := is_ascii c = true /\ is_digit c = false /\ is_blank c = false.
Definition wf_key (k : ckey) : Prop :=
  match k with
  | CKBare k => k <> EmptyString /\ all_chars key_char k = true
  | CKQuoted _ k => ends_with_backslash k = false
  end.

Section WithRegex.
Variable rv : string -> bool.

Fixpoint wf (t : cst) : Prop :=
  match t with
  | CNull _ | CBool _ _ => True
  | CInt _ d => wf_digits d
  | CStr _ s => ends_with_backslash s = false
  | CRegex s => s <> EmptyString /\ all_chars (fun c => negb (Ascii.eqb c "/")) s = true /\ last_is_backslash s = false /\ rv s = true
  | CRangeInt _ _ _ d1 _ d2 b1 b2 b3 b4 => wf_digits d1 /\ wf_digits d2 /\ blanks b1 /\ blanks b2 /\ blanks b3 /\ blanks b4
  | CRangeChar _ _ lo hi b1 b2 b3 b4 => plain_char lo /\ plain_char hi /\ blanks b1 /\ blanks b2 /\ blanks b3 /\ blanks b4
  | CList es w => wf_elems es /\ layout w
  | CMap es w => wf_entries es /\ layout w
  end
with wf_elems (es : celems) : Prop :=
  match es with ENil => True | ECons w0 w1 t rest => layout w0 /\ layout w1 /\ wf t /\ wf_elems rest end
with wf_entries (es : centries) : Prop :=
  match es with
  | MNil => True
  | MCons w0 wk k wc wv t rest => layout w0 /\ layout wk /\ wf_key k /\ layout wc /\ layout wv /\ wf t /\ wf_entries rest
  end.

(* what may follow: an integer must not run into a digit, a fraction or an exponent; nothing else needs a condition *)
Definition int_follow (rest : string) : Prop :=
  match rest with
  | EmptyString => True
  | String c _ => is_digit c = false /\ c <> "."%char /\ c <> "e"%char /\ c <> "E"%char
  end.
Definition follow (t : cst) (rest : string) : Prop := match t with CInt _ _ => int_follow rest | _ => True end.

(* ---------------------------------------------------------------- character-level facts *)
Lemma span_while_all p : forall d rest, all_chars p d = true ->
  (match rest with String c _ => p c = false | EmptyString => True end) -> span_while p (d +++ rest) = (d, rest).
Proof.
  induction d as [|c d IH]; intros rest Hd Hr; cbn.
  - destruct rest as [|c r]; [reflexivity|]. cbn. now rewrite Hr.
  - cbn in Hd. apply andb_prop in Hd as [Hc Hd]. rewrite Hc, (IH rest Hd Hr). reflexivity.
Qed.

Lemma sapp_cons c a b : String c a +++ b = String c (a +++ b).
Proof. reflexivity. Qed.

Definition starts (p : ascii -> bool) (s : string) : Prop := match s with String c _ => p c = true | EmptyString => False end.

(* the first character of a well-formed integer spelling *)
Definition int_start (c : ascii) : bool := is_digit c || Ascii.eqb c "-".

Lemma parse_null_not c r : (Ascii.eqb c "n" || Ascii.eqb c "N") = false -> parse_null (String c r) = PErr.
Proof. destruct c as [[] [] [] [] [] [] [] []]; intros H; try reflexivity; discriminate. Qed.

Lemma parse_string_not c r : (Ascii.eqb c "'" || Ascii.eqb c """") = false -> parse_string_r (String c r) = PErr.
Proof.
  intros H. apply orb_false_elim in H as [H1 H2]. unfold parse_string_r, parse_quoted_r. cbn. rewrite H1, H2. reflexivity.
Qed.

Lemma parse_bool_not c r : (Ascii.eqb c "t" || Ascii.eqb c "T" || Ascii.eqb c "f" || Ascii.eqb c "F") = false -> parse_bool (String c r) = PErr.
Proof. destruct c as [[] [] [] [] [] [] [] []]; intros H; try reflexivity; discriminate. Qed.

Lemma float_like_not_digit c r : is_digit c = false -> float_like (String c r) = false.
Proof. intros H. unfold float_like. cbn. rewrite H. reflexivity. Qed.

Lemma parse_int_not c r : int_start c = false -> parse_int (String c r) = PErr.
Proof.
  intros H. apply orb_false_elim in H as [H1 H2]. unfold parse_int. cbn. rewrite H1. cbn. rewrite H2. reflexivity.
Qed.

Lemma parse_regex_not c r : Ascii.eqb c "/" = false -> parse_regex rv (String c r) = PErr.
Proof. intros H. unfold parse_regex. cbn. rewrite H. reflexivity. Qed.

Lemma parse_range_not c r : Ascii.eqb c "r" = false -> parse_range (String c r) = PErr.
Proof.
  intros H. unfold parse_range. destruct c as [[] [] [] [] [] [] [] []]; try reflexivity. discriminate.
Qed.

(* a character that opens no scalar, no range, no list and no map: the value parser answers a recoverable error *)
Definition opens_nothing (c : ascii) : bool :=
  negb (Ascii.eqb c "n" || Ascii.eqb c "N" || Ascii.eqb c "'" || Ascii.eqb c """" || int_start c ||
        Ascii.eqb c "t" || Ascii.eqb c "T" || Ascii.eqb c "f" || Ascii.eqb c "F" || Ascii.eqb c "/" || Ascii.eqb c "r" ||
        Ascii.eqb c "[" || Ascii.eqb c "{" || is_ws c || is_hash c).

Lemma parse_value_closer n c r : opens_nothing c = true -> parse_value rv (S n) (String c r) = PErr.
Proof.
  intros H. unfold opens_nothing in H. apply negb_true_iff in H.
  repeat (apply orb_false_elim in H as [H ?]).
  rewrite parse_value_S. cbv zeta. rewrite skip_solid by assumption.
  rewrite parse_null_not by (apply orb_false_intro; assumption). cbn [palt].
  unfold parse_scalar. rewrite parse_string_not by (apply orb_false_intro; assumption). cbn [pmap palt].
  unfold parse_float. rewrite float_like_not_digit by (unfold int_start in *; match goal with H : is_digit c || _ = false |- _ => apply orb_false_elim in H as [? _]; assumption end).
  cbn [palt]. rewrite parse_int_not by assumption. cbn [palt].
  rewrite parse_bool_not by (repeat (apply orb_false_intro; try assumption)). cbn [palt].
  rewrite parse_regex_not by assumption. cbn [palt].
  rewrite parse_range_not by assumption. cbn [palt].
  unfold ws_char. rewrite skip_solid by assumption. cbn [expect].
  match goal with H : Ascii.eqb c "[" = false |- _ => rewrite H end.
  match goal with H : Ascii.eqb c "{" = false |- _ => rewrite H end. reflexivity.
Qed.

End WithRegex.

(* ---------------------------------------------------------------- scalars *)
Lemma int_follow_first (d : string) rest : int_follow rest -> match rest with String c _ => is_digit c = false | EmptyString => True end.
Proof. destruct rest; cbn; tauto. Qed.

Lemma float_like_int d rest : wf_digits d -> int_follow rest -> float_like (d +++ rest) = false.
Proof.
  intros (Hne & Hall & _) Hf. unfold float_like. rewrite (span_while_all is_digit d rest Hall (int_follow_first d rest Hf)).
  destruct d as [|c0 d0]; [contradiction|].
  destruct rest as [|c rest']; [reflexivity|]. destruct Hf as (H1 & H2 & H3 & H4).
  destruct c as [[] [] [] [] [] [] [] []]; try (exfalso; congruence); try (now (cbv in H1)); destruct rest'; reflexivity.
Qed.

Lemma parse_int_pos d rest : wf_digits d -> int_follow rest -> parse_int (d +++ rest) = POk (VInt (digits_val d)) rest.
Proof.
  intros (Hne & Hall & Hmax) Hf. unfold parse_int. rewrite (span_while_all is_digit d rest Hall (int_follow_first d rest Hf)).
  destruct d as [|c0 d0]; [contradiction|]. apply Z.leb_le in Hmax. now rewrite Hmax.
Qed.

Lemma parse_int_neg d rest : wf_digits d -> int_follow rest -> parse_int (String "-" (d +++ rest)) = POk (VInt (- digits_val d)) rest.
Proof.
  intros (Hne & Hall & Hmax) Hf. unfold parse_int. cbn [span_while]. assert (is_digit "-" = false) as -> by reflexivity.
  cbn [expect]. rewrite Ascii.eqb_refl. rewrite (span_while_all is_digit d rest Hall (int_follow_first d rest Hf)).
  destruct d as [|c0 d0]; [contradiction|]. apply Z.leb_le in Hmax. now rewrite Hmax.
Qed.

Lemma digits_first d : wf_digits d -> exists c r, d = String c r /\ is_digit c = true.
Proof. intros (Hne & Hall & _). destruct d as [|c r]; [contradiction|]. cbn in Hall. apply andb_prop in Hall as [Hc _]. eauto. Qed.

Lemma is_digit_facts c : is_digit c = true ->
  (Ascii.eqb c "n" || Ascii.eqb c "N") = false /\ (Ascii.eqb c "'" || Ascii.eqb c """") = false /\ is_ws c = false /\ is_hash c = false /\
  is_blank c = false.
Proof. destruct c as [[] [] [] [] [] [] [] []]; cbv; intros H; try discriminate; repeat split. Qed.

Section Spell.
Variable rv : string -> bool.

Lemma scalar_int n neg d rest : wf_digits d -> int_follow rest ->
  parse_value rv (S n) (render_int neg d +++ rest) = POk (VInt (int_val neg d)) rest.
Proof.
  intros Hd Hf. rewrite parse_value_S. cbv zeta. unfold render_int, int_val.
  destruct (digits_first d Hd) as (c & r & -> & Hc). destruct (is_digit_facts c Hc) as (F1 & F2 & F3 & F4 & _).
  destruct neg.
  - cbn [append]. rewrite skip_solid by reflexivity. rewrite parse_null_not by reflexivity. cbn [palt].
    unfold parse_scalar. rewrite parse_string_not by reflexivity. cbn [pmap palt].
    unfold parse_float. rewrite float_like_not_digit by reflexivity. cbn [palt].
    rewrite <- sapp_cons. rewrite (parse_int_neg (String c r) rest Hd Hf). reflexivity.
  - cbn [append]. rewrite skip_solid by assumption. rewrite parse_null_not by assumption. cbn [palt].
    unfold parse_scalar. rewrite parse_string_not by assumption. cbn [pmap palt].
    rewrite <- sapp_cons. unfold parse_float. rewrite (float_like_int _ rest Hd Hf). cbn [palt].
    rewrite (parse_int_pos _ rest Hd Hf). reflexivity.
Qed.

Lemma scalar_null n u rest : parse_value rv (S n) (render (CNull u) +++ rest) = POk VNull rest.
Proof. rewrite parse_value_S. cbv zeta. destruct u; cbn [render append]; rewrite skip_solid by reflexivity; reflexivity. Qed.

Lemma scalar_bool n b c rest : parse_value rv (S n) (render (CBool b c) +++ rest) = POk (VBool b) rest.
Proof.
  rewrite parse_value_S. cbv zeta.
  destruct b, c; cbn [render append]; rewrite skip_solid by reflexivity; rewrite parse_null_not by reflexivity; cbn [palt];
    unfold parse_scalar; rewrite parse_string_not by reflexivity; cbn [pmap palt];
    unfold parse_float; rewrite float_like_not_digit by reflexivity; cbn [palt];
    rewrite parse_int_not by reflexivity; cbn [palt]; reflexivity.
Qed.

Lemma read_quoted_r_ok q : forall s p acc a r, read_quoted q s p acc = Some (a, r) -> read_quoted_r q s p acc = POk a r.
Proof.
  induction s as [|c s IH]; intros p acc a r H; cbn in *; [discriminate|].
  destruct (Ascii.eqb c q).
  - destruct p; [apply IH; exact H|]. inversion H; subst. reflexivity.
  - destruct (Ascii.eqb c "\"); apply IH; exact H.
Qed.

Lemma parse_quoted_r_roundtrip q s rest : q <> "\"%char -> ends_with_backslash s = false ->
  parse_quoted_r q (quote q s +++ rest) = POk s rest.
Proof.
  intros Hq Hs. pose proof (string_quote_roundtrip q s rest Hq Hs) as H. unfold parse_quoted, parse_quoted_r in *.
  unfold quote in *. cbn [append expect] in *. rewrite Ascii.eqb_refl in *. apply read_quoted_r_ok. exact H.
Qed.

Lemma parse_string_r_roundtrip dq s rest : ends_with_backslash s = false ->
  parse_string_r (quote (qchar dq) s +++ rest) = POk s rest.
Proof.
  intros Hs. unfold parse_string_r. destruct dq; cbn [qchar].
  - assert (E : parse_quoted_r "'" (quote """" s +++ rest) = PErr) by reflexivity. rewrite E. cbn [palt].
    apply parse_quoted_r_roundtrip; [discriminate|exact Hs].
  - rewrite parse_quoted_r_roundtrip; [reflexivity|discriminate|exact Hs].
Qed.

Lemma scalar_str n dq s rest : ends_with_backslash s = false ->
  parse_value rv (S n) (quote (qchar dq) s +++ rest) = POk (VStr s) rest.
Proof.
  intros Hs. rewrite parse_value_S. cbv zeta.
  assert (E : exists r, quote (qchar dq) s +++ rest = String (qchar dq) r) by (unfold quote; cbn [append]; eauto).
  destruct E as (r & E). rewrite E at 1 2. rewrite skip_solid by (destruct dq; reflexivity).
  rewrite parse_null_not by (destruct dq; reflexivity). cbn [palt].
  unfold parse_scalar. rewrite <- E. rewrite parse_string_r_roundtrip by exact Hs. reflexivity.
Qed.

(* regular expressions without an escaped slash *)
Lemma last_is_backslash_snoc_false s c : Ascii.eqb c "\" = false -> last_is_backslash (s +++ String c EmptyString) = false.
Proof. intros H. induction s as [|a s IH]; cbn; [exact H|]. destruct (s +++ String c EmptyString) eqn:E; [destruct s; discriminate|exact IH]. Qed.

Lemma read_regex_plain : forall s acc seg rest,
  all_chars (fun c => negb (Ascii.eqb c "/")) s = true -> seg +++ s <> EmptyString -> last_is_backslash (seg +++ s) = false ->
  read_regex (s +++ String "/" rest) acc seg = POk (acc +++ seg +++ s) (String "/" rest).
Proof.
  induction s as [|c s IH]; intros acc seg rest Hall Hne Hlast.
  - rewrite sapp_nil_r in *. cbn. destruct seg as [|x seg]; [contradiction|]. rewrite Hlast. reflexivity.
  - cbn in Hall. apply andb_prop in Hall as [Hc Hall]. apply negb_true_iff in Hc. cbn [append read_regex]. rewrite Hc.
    assert (E : (seg +++ String c EmptyString) +++ s = seg +++ String c s) by (rewrite sapp_assoc; reflexivity).
    rewrite IH; [rewrite E; reflexivity|exact Hall|rewrite E; exact Hne|rewrite E; exact Hlast].
Qed.

Lemma scalar_regex n s rest :
  s <> EmptyString -> all_chars (fun c => negb (Ascii.eqb c "/")) s = true -> last_is_backslash s = false -> rv s = true ->
  parse_value rv (S n) (String "/" (s +++ String "/" rest)) = POk (VRegex s) rest.
Proof.
  intros Hne Hall Hlast Hv. rewrite parse_value_S. cbv zeta. rewrite skip_solid by reflexivity.
  rewrite parse_null_not by reflexivity. cbn [palt].
  unfold parse_scalar. rewrite parse_string_not by reflexivity. cbn [pmap palt].
  unfold parse_float. rewrite float_like_not_digit by reflexivity. cbn [palt].
  rewrite parse_int_not by reflexivity. cbn [palt]. rewrite parse_bool_not by reflexivity. cbn [palt].
  unfold parse_regex. cbn [expect]. rewrite Ascii.eqb_refl.
  rewrite (read_regex_plain s EmptyString EmptyString rest Hall Hne Hlast). cbn [append]. rewrite Hv. cbn [expect]. rewrite Ascii.eqb_refl. reflexivity.
Qed.

End Spell.

(* ---------------------------------------------------------------- ranges *)
Definition sep_start (X : string) : Prop :=
  match X with
  | String c _ => is_blank c = false /\ is_digit c = false /\ c <> "."%char /\ c <> "e"%char /\ c <> "E"%char
  | EmptyString => True
  end.

Lemma is_blank_facts c : is_blank c = true -> is_digit c = false /\ c <> "."%char /\ c <> "e"%char /\ c <> "E"%char.
Proof. destruct c as [[] [] [] [] [] [] [] []]; cbv; intros H; try discriminate; repeat split; discriminate. Qed.

Lemma int_follow_blanks b X : blanks b -> sep_start X -> int_follow (b +++ X).
Proof.
  intros Hb HX. destruct b as [|c b]; cbn.
  - destruct X; cbn in *; tauto.
  - unfold blanks in Hb. cbn in Hb. apply andb_prop in Hb as [Hc _]. apply is_blank_facts. exact Hc.
Qed.

Lemma span_blanks b X : blanks b -> (match X with String c _ => is_blank c = false | EmptyString => True end) ->
  span_while is_blank (b +++ X) = (b, X).
Proof. intros Hb HX. apply span_while_all; assumption. Qed.

Lemma sep_start_nonblank X : sep_start X -> match X with String c _ => is_blank c = false | EmptyString => True end.
Proof. destruct X; cbn; tauto. Qed.

Lemma range_value_int b1 neg d b2 X : blanks b1 -> blanks b2 -> wf_digits d -> sep_start X ->
  range_value (b1 +++ render_int neg d +++ b2 +++ X) = POk (VInt (int_val neg d)) X.
Proof.
  intros H1 H2 Hd HX. unfold range_value.
  destruct (digits_first d Hd) as (c & r & E & Hc). destruct (is_digit_facts c Hc) as (_ & _ & _ & _ & Fb).
  assert (Hf : int_follow (b2 +++ X)) by (apply int_follow_blanks; assumption).
  unfold render_int, int_val. destruct neg.
  - rewrite span_blanks; [|exact H1|reflexivity]. cbn [snd append].
    unfold parse_float. rewrite float_like_not_digit by reflexivity. cbn [palt].
    rewrite (parse_int_neg d (b2 +++ X) Hd Hf). cbn [palt]. rewrite (span_blanks b2 X H2 (sep_start_nonblank X HX)). reflexivity.
  - cbn [append]. rewrite span_blanks; [|exact H1|subst d; cbn; exact Fb]. cbn [snd].
    unfold parse_float. rewrite (float_like_int d (b2 +++ X) Hd Hf). cbn [palt].
    rewrite (parse_int_pos d (b2 +++ X) Hd Hf). cbn [palt]. rewrite (span_blanks b2 X H2 (sep_start_nonblank X HX)). reflexivity.
Qed.

Lemma parse_int_char c r : is_digit c = false -> (match r with String c' _ => is_digit c' = false | EmptyString => True end) ->
  parse_int (String c r) = PErr.
Proof.
  intros Hc Hr. unfold parse_int. cbn [span_while]. rewrite Hc. cbn [expect].
  destruct (Ascii.eqb c "-"); [|reflexivity]. destruct r as [|c' r']; cbn; [reflexivity|]. rewrite Hr. reflexivity.
Qed.

Lemma range_value_char b1 c b2 X : blanks b1 -> blanks b2 -> plain_char c -> sep_start X ->
  range_value (b1 +++ String c (b2 +++ X)) = POk (VChar c) X.
Proof.
  intros H1 H2 (Ha & Hd & Hb) HX. unfold range_value.
  rewrite span_blanks; [|exact H1|exact Hb]. cbn [snd].
  unfold parse_float. rewrite float_like_not_digit by exact Hd. cbn [palt].
  rewrite parse_int_char; [|exact Hd|]. 2:{ pose proof (int_follow_blanks b2 X H2 HX) as Hf. destruct (b2 +++ X); cbn in *; tauto. }
  cbn [palt parse_char]. rewrite Ha. rewrite (span_blanks b2 X H2 (sep_start_nonblank X HX)). reflexivity.
Qed.

Section Spell2.
Variable rv : string -> bool.

Lemma value_range_head n s : parse_value rv (S n) (String "r" s) = palt (parse_range (String "r" s)) (parse_value rv (S n) (String "r" s)).
Proof.
  rewrite parse_value_S. cbv zeta. rewrite skip_solid by reflexivity.
  rewrite parse_null_not by reflexivity. cbn [palt].
  unfold parse_scalar. rewrite parse_string_not by reflexivity. cbn [pmap palt].
  unfold parse_float. rewrite float_like_not_digit by reflexivity. cbn [palt].
  rewrite parse_int_not by reflexivity. cbn [palt]. rewrite parse_bool_not by reflexivity. cbn [palt].
  rewrite parse_regex_not by reflexivity. cbn [palt].
  destruct (parse_range (String "r" s)); reflexivity.
Qed.

Lemma sep_start_comma X : sep_start (String "," X).
Proof. cbn. repeat split; discriminate. Qed.
Lemma sep_start_close (ci : bool) X : sep_start ((if ci then "]" else ")") +++ X).
Proof. destruct ci; cbn; repeat split; discriminate. Qed.

Lemma scalar_range_int n oi ci n1 d1 n2 d2 b1 b2 b3 b4 rest :
  wf_digits d1 -> wf_digits d2 -> blanks b1 -> blanks b2 -> blanks b3 -> blanks b4 ->
  parse_value rv (S n) (render (CRangeInt oi ci n1 d1 n2 d2 b1 b2 b3 b4) +++ rest)
  = POk (VRangeInt (int_val n1 d1) (int_val n2 d2) (incl_of oi ci)) rest.
Proof.
  intros W1 W2 B1 B2 B3 B4. cbn [render]. rewrite !sapp_assoc. cbn [append]. rewrite value_range_head.
  assert (E : parse_range (String "r" ((if oi then "[" else "(") +++ b1 +++ render_int n1 d1 +++ b2 +++ String "," (b3 +++ render_int n2 d2 +++ b4 +++ (if ci then "]" else ")") +++ rest)))
              = POk (VRangeInt (int_val n1 d1) (int_val n2 d2) (incl_of oi ci)) rest).
  { unfold parse_range.
    assert (Eo : exists o : ascii, (if oi then "[" else "(") +++ b1 +++ render_int n1 d1 +++ b2 +++ String "," (b3 +++ render_int n2 d2 +++ b4 +++ (if ci then "]" else ")") +++ rest)
                           = String o (b1 +++ render_int n1 d1 +++ b2 +++ String "," (b3 +++ render_int n2 d2 +++ b4 +++ (if ci then "]" else ")") +++ rest))
                           /\ (Ascii.eqb o "(" || Ascii.eqb o "[") = true /\ (if Ascii.eqb o "[" then 1%N else 0%N) = (if oi then 1%N else 0%N)).
    { destruct oi; eexists; split; try reflexivity; split; reflexivity. }
    destruct Eo as (o & -> & Ho & Hi). rewrite Ho.
    rewrite (range_value_int b1 n1 d1 b2 _ B1 B2 W1 (sep_start_comma _)). cbn [expect]. rewrite Ascii.eqb_refl.
    rewrite (range_value_int b3 n2 d2 b4 _ B3 B4 W2 (sep_start_close ci rest)).
    unfold incl_of. rewrite <- Hi. destruct ci; cbn [append]; cbn; reflexivity. }
  rewrite E. reflexivity.
Qed.

Lemma scalar_range_char n oi ci lo hi b1 b2 b3 b4 rest :
  plain_char lo -> plain_char hi -> blanks b1 -> blanks b2 -> blanks b3 -> blanks b4 ->
  parse_value rv (S n) (render (CRangeChar oi ci lo hi b1 b2 b3 b4) +++ rest) = POk (VRangeChar lo hi (incl_of oi ci)) rest.
Proof.
  intros W1 W2 B1 B2 B3 B4. cbn [render]. rewrite !sapp_assoc. cbn [append]. rewrite value_range_head.
  assert (E : parse_range (String "r" ((if oi then "[" else "(") +++ b1 +++ String lo ((b2 +++ String "," (b3 +++ String hi (b4 +++ (if ci then "]" else ")")))) +++ rest)))
              = POk (VRangeChar lo hi (incl_of oi ci)) rest).
  { unfold parse_range. rewrite !sapp_assoc. cbn [append]. rewrite !sapp_assoc. cbn [append]. rewrite !sapp_assoc.
    assert (Eo : exists o : ascii, (if oi then "[" else "(") +++ b1 +++ String lo (b2 +++ String "," (b3 +++ String hi (b4 +++ (if ci then "]" else ")") +++ rest)))
                           = String o (b1 +++ String lo (b2 +++ String "," (b3 +++ String hi (b4 +++ (if ci then "]" else ")") +++ rest))))
                           /\ (Ascii.eqb o "(" || Ascii.eqb o "[") = true /\ (if Ascii.eqb o "[" then 1%N else 0%N) = (if oi then 1%N else 0%N)).
    { destruct oi; eexists; split; try reflexivity; split; reflexivity. }
    destruct Eo as (o & -> & Ho & Hi). rewrite Ho.
    rewrite (range_value_char b1 lo b2 _ B1 B2 W1 (sep_start_comma _)). cbn [expect]. rewrite Ascii.eqb_refl.
    rewrite (range_value_char b3 hi b4 _ B3 B4 W2 (sep_start_close ci rest)).
    unfold incl_of. rewrite <- Hi. destruct ci; cbn [append]; cbn; reflexivity. }
  rewrite E. reflexivity.
Qed.

End Spell2.

(* ---------------------------------------------------------------- lists and maps *)
Definition tail_ok (s : string) : Prop :=
  match s with
  | String c _ => is_ws c = true \/ is_hash c = true \/ c = ","%char \/ c = "]"%char \/ c = "}"%char \/ c = ":"%char
  | EmptyString => False
  end.

Lemma layout_tail w c r : layout w -> (c = ","%char \/ c = "]"%char \/ c = "}"%char \/ c = ":"%char) -> tail_ok (w +++ String c r).
Proof.
  intros Hw Hc. destruct Hw as [|a w Ha Hw|body w Hb Hw]; cbn.
  - tauto.
  - tauto.
  - right. left. reflexivity.
Qed.

Lemma tail_ok_facts c : (is_ws c = true \/ is_hash c = true \/ c = ","%char \/ c = "]"%char \/ c = "}"%char \/ c = ":"%char) ->
  is_digit c = false /\ c <> "."%char /\ c <> "e"%char /\ c <> "E"%char /\ key_char c = false /\ is_ascii c = true.
Proof.
  destruct c as [[] [] [] [] [] [] [] []]; cbv; intros H; repeat split; try discriminate; try reflexivity;
    exfalso; repeat (destruct H as [H|H]; try discriminate).
Qed.

Lemma tail_ok_int_follow s : tail_ok s -> int_follow s.
Proof. destruct s as [|c r]; cbn; [tauto|]. intros H. apply tail_ok_facts in H. tauto. Qed.

Lemma tail_ok_follow t s : tail_ok s -> follow t s.
Proof. intros H. destruct t; cbn; auto. apply tail_ok_int_follow. exact H. Qed.

Section Spell3.
Variable rv : string -> bool.

Lemma value_list_head n s :
  parse_value rv (S n) (String "[" s) =
  match sep_list0 (ws_char ",") (parse_value rv n) n s with
  | POk l s2 => match ws_char "]" s2 with Some s3 => POk (VList l) s3 | None => PErr end
  | other => pmap VList other
  end.
Proof.
  rewrite parse_value_S. cbv zeta. rewrite skip_solid by reflexivity.
  rewrite parse_null_not by reflexivity. cbn [palt].
  unfold parse_scalar. rewrite parse_string_not by reflexivity. cbn [pmap palt].
  unfold parse_float. rewrite float_like_not_digit by reflexivity. cbn [palt].
  rewrite parse_int_not by reflexivity. cbn [palt]. rewrite parse_bool_not by reflexivity. cbn [palt].
  rewrite parse_regex_not by reflexivity. cbn [palt]. rewrite parse_range_not by reflexivity. cbn [palt].
  unfold ws_char at 1. rewrite skip_solid by reflexivity. cbn [expect]. rewrite Ascii.eqb_refl.
  assert (E : Ascii.eqb "[" "{" = false) by reflexivity. rewrite E.
  destruct (sep_list0 (ws_char ",") (parse_value rv n) n s) as [l s2| | | |]; try reflexivity.
  destruct (ws_char "]" s2); reflexivity.
Qed.

Lemma value_map_head n s :
  parse_value rv (S n) (String "{" s) =
  match sep_list0 (ws_char ",") (key_value rv n) n s with
  | POk l s2 =>
      match ws_char "}" s2 with
      | Some s3 => POk (VMap (fold_left (fun m kv => imap_insert (fst kv) (snd kv) m) l [])) s3
      | None => PErr
      end
  | other => pmap (fun _ => VNull) other
  end.
Proof.
  rewrite parse_value_S. cbv zeta. rewrite skip_solid by reflexivity.
  rewrite parse_null_not by reflexivity. cbn [palt].
  unfold parse_scalar. rewrite parse_string_not by reflexivity. cbn [pmap palt].
  unfold parse_float. rewrite float_like_not_digit by reflexivity. cbn [palt].
  rewrite parse_int_not by reflexivity. cbn [palt]. rewrite parse_bool_not by reflexivity. cbn [palt].
  rewrite parse_regex_not by reflexivity. cbn [palt]. rewrite parse_range_not by reflexivity. cbn [palt].
  unfold ws_char at 1. rewrite skip_solid by reflexivity. cbn [expect].
  assert (E : Ascii.eqb "{" "[" = false) by reflexivity. rewrite E. cbn [palt]. rewrite Ascii.eqb_refl.
  fold (key_value rv n). reflexivity.
Qed.

Lemma value_closer_layout n w c r : layout w -> opens_nothing c = true -> parse_value rv (S n) (w +++ String c r) = PErr.
Proof. intros Hw Hc. rewrite parse_value_layout by exact Hw. apply parse_value_closer. exact Hc. Qed.

Lemma ws_char_hit c w r : layout w -> is_ws c = false -> is_hash c = false -> ws_char c (w +++ String c r) = Some r.
Proof. intros Hw H1 H2. rewrite ws_char_layout by exact Hw. unfold ws_char. rewrite skip_solid by assumption. cbn. now rewrite Ascii.eqb_refl. Qed.

Lemma ws_char_miss c d w r : layout w -> is_ws d = false -> is_hash d = false -> Ascii.eqb d c = false -> ws_char c (w +++ String d r) = None.
Proof. intros Hw H1 H2 H3. rewrite ws_char_layout by exact Hw. unfold ws_char. rewrite skip_solid by assumption. cbn. now rewrite H3. Qed.

(* keys *)
Lemma key_char_facts c : key_char c = true -> is_ascii c = true /\ is_ws c = false /\ is_hash c = false.
Proof. destruct c as [[] [] [] [] [] [] [] []]; cbv; intros H; try discriminate; repeat split. Qed.

Lemma key_part_spelled k X : wf_key k -> tail_ok X -> key_part (render_key k +++ X) = POk (key_of k) X.
Proof.
  intros Hk HX. destruct X as [|x X']; [contradiction|]. cbn in HX. apply tail_ok_facts in HX as (_ & _ & _ & _ & Hkc & Hasc).
  destruct k as [k|dq k]; cbn [render_key key_of wf_key] in *.
  - destruct Hk as (Hne & Hall). destruct k as [|c k]; [contradiction|].
    assert (Hc : key_char c = true) by (cbn in Hall; apply andb_prop in Hall; tauto).
    destruct (key_char_facts c Hc) as (Ha & _). unfold key_part. cbn [append]. rewrite Ha. cbn [negb].
    rewrite <- sapp_cons. rewrite (span_while_all key_char (String c k) (String x X') Hall Hkc). rewrite Hasc. reflexivity.
  - unfold key_part, quote. cbn [append]. assert (Hq : is_ascii (qchar dq) = true) by (destruct dq; reflexivity). rewrite Hq. cbn [negb].
    assert (Hs : span_while key_char (String (qchar dq) ((escape (qchar dq) k +++ String (qchar dq) EmptyString) +++ String x X'))
                 = (EmptyString, String (qchar dq) ((escape (qchar dq) k +++ String (qchar dq) EmptyString) +++ String x X')))
      by (destruct dq; reflexivity).
    rewrite Hs. change (String (qchar dq) ((escape (qchar dq) k +++ String (qchar dq) EmptyString) +++ String x X'))
      with (quote (qchar dq) k +++ String x X'). apply parse_string_r_roundtrip. exact Hk.
Qed.

Lemma render_key_solid k : wf_key k -> exists c r, render_key k = String c r /\ is_ws c = false /\ is_hash c = false.
Proof.
  destruct k as [k|dq k]; cbn.
  - intros (Hne & Hall). destruct k as [|c k]; [contradiction|]. cbn in Hall. apply andb_prop in Hall as [Hc _].
    destruct (key_char_facts c Hc) as (_ & H1 & H2). eauto.
  - intros _. unfold quote. destruct dq; eexists; eexists; repeat split.
Qed.

Definition P_cst (t : cst) : Prop :=
  wf rv t -> forall n rest, follow t rest -> len (render t +++ rest) < n -> parse_value rv n (render t +++ rest) = POk (denote t) rest.

Definition P_elems (es : celems) : Prop :=
  wf_elems rv es -> forall n w rest, layout w ->
    (forall fuel acc, len (render_elems false es +++ w +++ String "]" rest) < n ->
       len (render_elems false es +++ w +++ String "]" rest) < fuel ->
       sep_loop (ws_char ",") (parse_value rv n) fuel acc (render_elems false es +++ w +++ String "]" rest)
       = POk (acc ++ denote_elems es)%list (w +++ String "]" rest)) /\
    (forall fuel, len (render_elems true es +++ w +++ String "]" rest) < n ->
       len (render_elems true es +++ w +++ String "]" rest) < fuel ->
       sep_list0 (ws_char ",") (parse_value rv n) fuel (render_elems true es +++ w +++ String "]" rest)
       = POk (denote_elems es) (w +++ String "]" rest)).

Definition P_entries (es : centries) : Prop :=
  wf_entries rv es -> forall n w rest, layout w ->
    (forall fuel acc, len (render_entries false es +++ w +++ String "}" rest) < n ->
       len (render_entries false es +++ w +++ String "}" rest) < fuel ->
       sep_loop (ws_char ",") (key_value rv n) fuel acc (render_entries false es +++ w +++ String "}" rest)
       = POk (acc ++ denote_entries es)%list (w +++ String "}" rest)) /\
    (forall fuel, len (render_entries true es +++ w +++ String "}" rest) < n ->
       len (render_entries true es +++ w +++ String "}" rest) < fuel ->
       sep_list0 (ws_char ",") (key_value rv n) fuel (render_entries true es +++ w +++ String "}" rest)
       = POk (denote_entries es) (w +++ String "}" rest)).

Lemma elems_tail_ok first es w rest : wf_elems rv es -> layout w -> first = false -> tail_ok (render_elems first es +++ w +++ String "]" rest).
Proof.
  intros He Hw ->. destruct es as [|w0 w1 t more]; cbn [render_elems append].
  - apply layout_tail; [exact Hw|tauto].
  - destruct He as (H0 & _). rewrite !sapp_assoc. cbn [append]. apply layout_tail; [exact H0|tauto].
Qed.

Lemma entries_tail_ok es w rest : wf_entries rv es -> layout w -> tail_ok (render_entries false es +++ w +++ String "}" rest).
Proof.
  intros He Hw. destruct es as [|w0 wk k wc wv t more]; cbn [render_entries append].
  - apply layout_tail; [exact Hw|tauto].
  - destruct He as (H0 & _). rewrite !sapp_assoc. cbn [append]. apply layout_tail; [exact H0|tauto].
Qed.

Lemma key_value_spelled n wk k wc wv t X :
  layout wk -> wf_key k -> layout wc -> layout wv -> tail_ok X ->
  parse_value rv n (render t +++ X) = POk (denote t) X ->
  key_value rv n (wk +++ render_key k +++ wc +++ String ":" (wv +++ render t +++ X)) = POk (key_of k, denote t) X.
Proof.
  intros Hwk Hk Hwc Hwv HX Hp. unfold key_value. rewrite skip_layout by exact Hwk.
  destruct (render_key_solid k Hk) as (c & r & Er & H1 & H2).
  assert (Es : skip_ws_comments (render_key k +++ wc +++ String ":" (wv +++ render t +++ X)) = render_key k +++ wc +++ String ":" (wv +++ render t +++ X)).
  { rewrite Er. cbn [append]. apply skip_solid; assumption. }
  rewrite Es. rewrite (key_part_spelled k _ Hk (layout_tail wc ":" _ Hwc ltac:(tauto))).
  rewrite (ws_char_hit ":" wc _ Hwc eq_refl eq_refl). rewrite parse_value_layout by exact Hwv. rewrite Hp. reflexivity.
Qed.

Ltac norm := repeat first [ rewrite sapp_assoc in * | progress cbn [append] in * ].
Ltac lens := repeat first [ rewrite len_app in * | progress cbn [String.length] in * ].

Theorem spelling_parses_mut : (forall t, P_cst t) /\ (forall es, P_elems es) /\ (forall es, P_entries es).
Proof.
  apply cst_mutind; unfold P_cst, P_elems, P_entries.
  - (* null *) intros u _ n rest _ Hn. destruct n; [lia|]. apply scalar_null.
  - intros b c _ n rest _ Hn. destruct n; [lia|]. apply scalar_bool.
  - intros neg d Hd n rest Hf Hn. destruct n; [lia|]. cbn [render denote]. apply scalar_int; assumption.
  - intros dq s Hs n rest _ Hn. destruct n; [lia|]. cbn [render denote]. apply scalar_str. exact Hs.
  - intros s (H1 & H2 & H3 & H4) n rest _ Hn. destruct n; [lia|]. cbn [render denote]. rewrite !sapp_assoc. cbn [append].
    apply scalar_regex; assumption.
  - intros oi ci n1 d1 n2 d2 b1 b2 b3 b4 (W1 & W2 & B1 & B2 & B3 & B4) n rest _ Hn. destruct n; [lia|]. cbn [denote].
    apply scalar_range_int; assumption.
  - intros oi ci lo hi b1 b2 b3 b4 (W1 & W2 & B1 & B2 & B3 & B4) n rest _ Hn. destruct n; [lia|]. cbn [denote].
    apply scalar_range_char; assumption.
  - (* list *)
    intros es IH w (He & Hw) n rest _ Hn. destruct n; [lia|]. cbn [render denote]. rewrite !sapp_assoc. cbn [append].
    rewrite value_list_head.
    cbn [render] in Hn. rewrite !sapp_assoc in Hn. cbn [append String.length] in Hn.
    destruct (IH He n w rest Hw) as [_ IH1].
    rewrite ?sapp_assoc. cbn [append]. rewrite IH1 by lia. rewrite (ws_char_hit "]" w rest Hw eq_refl eq_refl). reflexivity.
  - (* map *)
    intros es IH w (He & Hw) n rest _ Hn. destruct n; [lia|]. cbn [render denote]. rewrite !sapp_assoc. cbn [append].
    rewrite value_map_head.
    cbn [render] in Hn. rewrite !sapp_assoc in Hn. cbn [append String.length] in Hn.
    destruct (IH He n w rest Hw) as [_ IH1].
    rewrite ?sapp_assoc. cbn [append]. rewrite IH1 by lia. rewrite (ws_char_hit "}" w rest Hw eq_refl eq_refl). reflexivity.
  - (* no element *)
    intros _ n w rest Hw. split.
    + intros fuel acc Hn Hf. cbn [render_elems append] in *. destruct fuel; [lia|]. cbn [sep_loop].
      rewrite (ws_char_miss "," "]" w rest Hw eq_refl eq_refl eq_refl). rewrite app_nil_r. reflexivity.
    + intros fuel Hn Hf. cbn [render_elems append] in *. unfold sep_list0. destruct n; [lia|].
      rewrite (value_closer_layout n w "]" rest Hw eq_refl). reflexivity.
  - (* an element and the rest *)
    intros w0 w1 t IHt more IHm (H0 & H1 & Ht & Hm) n w rest Hw.
    assert (Htail : tail_ok (render_elems false more +++ w +++ String "]" rest)) by (apply elems_tail_ok; auto).
    destruct (IHm Hm n w rest Hw) as [IHloop _].
    split.
    + intros fuel acc Hn Hf. cbn [render_elems] in Hn, Hf |- *. norm. lens.
      destruct fuel; [lia|]. cbn [sep_loop].
      rewrite (ws_char_hit "," w0 _ H0 eq_refl eq_refl). rewrite parse_value_layout by exact H1.
      rewrite (IHt Ht n _ (tail_ok_follow t _ Htail)) by (lens; lia).
      rewrite IHloop by (lens; lia). rewrite <- app_assoc. reflexivity.
    + intros fuel Hn Hf. cbn [render_elems] in Hn, Hf |- *. norm. lens.
      unfold sep_list0. rewrite parse_value_layout by exact H1.
      rewrite (IHt Ht n _ (tail_ok_follow t _ Htail)) by (lens; lia).
      rewrite IHloop by (lens; lia). reflexivity.
  - (* no entry *)
    intros _ n w rest Hw. split.
    + intros fuel acc Hn Hf. cbn [render_entries append] in *. destruct fuel; [lia|]. cbn [sep_loop].
      rewrite (ws_char_miss "," "}" w rest Hw eq_refl eq_refl eq_refl). rewrite app_nil_r. reflexivity.
    + intros fuel Hn Hf. cbn [render_entries append] in *. unfold sep_list0, key_value. rewrite skip_layout by exact Hw.
      rewrite skip_solid by reflexivity. reflexivity.
  - (* an entry and the rest *)
    intros w0 wk k wc wv t IHt more IHm (H0 & Hk0 & Hk & Hc & Hv & Ht & Hm) n w rest Hw.
    assert (Htail : tail_ok (render_entries false more +++ w +++ String "}" rest)) by (apply entries_tail_ok; auto).
    destruct (IHm Hm n w rest Hw) as [IHloop _].
    split.
    + intros fuel acc Hn Hf. cbn [render_entries] in Hn, Hf |- *. norm. lens.
      destruct fuel; [lia|]. cbn [sep_loop].
      rewrite (ws_char_hit "," w0 _ H0 eq_refl eq_refl).
      rewrite (key_value_spelled n wk k wc wv t _ Hk0 Hk Hc Hv Htail).
      * rewrite IHloop by (lens; lia). rewrite <- app_assoc. reflexivity.
      * apply (IHt Ht n _ (tail_ok_follow t _ Htail)). lens. lia.
    + intros fuel Hn Hf. cbn [render_entries] in Hn, Hf |- *. norm. lens.
      unfold sep_list0.
      rewrite (key_value_spelled n wk k wc wv t _ Hk0 Hk Hc Hv Htail).
      * rewrite IHloop by (lens; lia). reflexivity.
      * apply (IHt Ht n _ (tail_ok_follow t _ Htail)). lens. lia.
Qed.

(* every well-formed spelling of a value is read as that value, whatever follows, at the standard fuel and any larger one *)
Theorem spelling_parses t rest : wf rv t -> follow t rest -> parse_value_top rv (render t +++ rest) = POk (denote t) rest.
Proof. intros Hw Hf. unfold parse_value_top, value_fuel. apply (proj1 spelling_parses_mut t Hw _ rest Hf). lia. Qed.

(* two spellings of the same value - other layout, comments, quote characters, keyword case, leading zeros - are interchangeable *)
Corollary spellings_agree t1 t2 rest : wf rv t1 -> wf rv t2 -> follow t1 rest -> follow t2 rest -> denote t1 = denote t2 ->
  parse_value_top rv (render t1 +++ rest) = parse_value_top rv (render t2 +++ rest).
Proof. intros W1 W2 F1 F2 E. rewrite !spelling_parses by assumption. now rewrite E. Qed.

End Spell3.

