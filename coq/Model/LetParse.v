(* LetParse.v — an assignment as rules/parser.rs reads it (`let_assignment_expr` and `assignment`, 1414-1478): the word `let`, at
   least one blank / line break / comment, a name, layout, `=` or `:=` (cut), then a value literal; or a function call (outside the
   model: PUnk - and because any error of the call, a Failure included, falls back to a query, what follows a name and `(` is not
   decided here); or a query (cut), read by the parser with filters.  No proofs here. *)
From GV.Model Require Import Ast.
From GV.Model Require Import ValueParse QueryParse OpParse ClauseParse CnfParse FilterParse ClauseFParse.
Local Open Scope string_scope.

Inductive plet_value := LVLit (l : lit) | LVQuery (q : fquery).
Record plet := mkPL { pl_var : string; pl_value : plet_value }.

Section WithRegex.
Variable regex_valid : string -> bool.

Definition assignment (fuel : nat) (s : string) : pres plet :=
  match alt_tags kw_let_keyword s with
  | None => PErr
  | Some s1 =>
      if starts_layout s1 then
        match var_name (skip_ws_comments s1) with
        | POk name s2 =>
            match alt_tags kw_assign (skip_ws_comments s2) with
            | None => PFail
            | Some s3 =>
                match parse_value regex_valid fuel s3 with
                | POk l r => POk (mkPL name (LVLit l)) r
                | PErr =>
                    let t := skip_ws_comments s3 in
                    match function_like t with
                    | PErr =>
                        match access_f regex_valid fuel t with
                        | POk q r => POk (mkPL name (LVQuery q)) r
                        | PErr => PFail
                        | PFail => PFail
                        | PUnk => PUnk
                        | POof => POof
                        end
                    | PFail => PFail
                    | _ => PUnk
                    end
                | PFail => PFail
                | PUnk => PUnk
                | POof => POof
                end
            end
        | PErr => PErr
        | PFail => PFail
        | PUnk => PUnk
        | POof => POof
        end
      else PErr
  end.

Definition assignment_top (s : string) : pres plet := assignment (S (S (S (S (String.length s))))) s.
End WithRegex.

(* ---------------------------------------------------------------- the tie *)
Inductive impl_let := ILOk (name : string) (w : impl_frhs) (offset : N) | ILError | ILFailure | ILOther.

Definition let_obs (regex_valid : string -> bool) (text : string) (i : impl_let) : pcl_verdict :=
  match assignment_top regex_valid text, i with
  | PUnk, _ => PLNotModelled
  | POk a r, ILOk name w off =>
      if String.eqb (pl_var a) name
         && match pl_value a, w with
            | LVLit l, IFRLit l' => lit_eqb l l'
            | LVQuery q, IFRQuery parts all => fquery_agree q parts all
            | _, _ => false
            end
         && N.eqb (N.of_nat (String.length text - String.length r)) off
      then PLAgree else PLDisagree
  | PErr, ILError => PLAgreeReject
  | PFail, ILFailure => PLAgreeReject
  | _, _ => PLDisagree
  end.
