(* Wf.v — the executable reading of C02: every composite node of an evaluation
   record is explained by its children. Used as a monitor on the implementation's
   record trees and as the statement of the theorems about the model. *)
From GV.Model Require Export Ast.

Definition rec_status (r : record) : status :=
  match container_status (rec_container r) with Some s => s | None => SKIP end.

Definition is_filter_rec (r : record) : bool :=
  match rec_container r with KFilter _ => true | _ => false end.
Definition is_cond_rec (r : record) : bool :=
  match rec_container r with KRuleCondition _ | KTypeCondition _ | KWhenCondition _ => true | _ => false end.
(* comparison leaves directly under a body come only from `keys` filters
   (value checks of a clause always sit inside a GuardClauseBlockCheck) *)
Definition is_aux_leaf (r : record) : bool :=
  match rec_container r with
  | KClauseValueCheck (CComparison _ _ _ _ _ _) | KClauseValueCheck (CInComparison _ _ _ _ _ _)
  | KClauseValueCheck (CUnary _ _ _ _ _) | KClauseValueCheck (CNoValueForEmptyCheck _) => true
  | _ => false
  end.
(* a childless Success leaf under a body is either a named-rule clause answered from
   the status cache (a line) or a `keys` filter hit (not a line) *)
Definition is_ambiguous (r : record) : bool :=
  match r with Rec (KClauseValueCheck CSuccess) [] => true | _ => false end.

Definition is_line (r : record) : bool :=
  negb (is_filter_rec r) && negb (is_cond_rec r) && negb (is_aux_leaf r).

Definition line_statuses (l : list record) : list status := map rec_status (filter is_line l).
Definition strict_line_statuses (l : list record) : list status :=
  map rec_status (filter (fun r => is_line r && negb (is_ambiguous r)) l).

Definition body_ok (st : status) (children : list record) : bool :=
  status_eqb st (fold_fail_pass_skip (line_statuses children))
  || status_eqb st (fold_fail_pass_skip (strict_line_statuses children)).

Definition disj_ok (st : status) (children : list record) : bool :=
  status_eqb st (disjunction_status (line_statuses children))
  || status_eqb st (disjunction_status (strict_line_statuses children)).

(* nothing is evaluated after the first alternative that passed *)
Fixpoint stops_at_pass (l : list status) : bool :=
  match l with
  | [] => true
  | PASS :: r => match r with [] => true | _ => false end
  | _ :: r => stops_at_pass r
  end.

Definition split_cond (children : list record) : option record * list record :=
  match children with
  | c :: rest => if is_cond_rec c then (Some c, rest) else (None, children)
  | [] => (None, [])
  end.

Definition guarded_body_ok (st : status) (children : list record) (body : status -> list record -> bool) : bool :=
  match split_cond children with
  | (Some c, rest) =>
      if status_eqb (rec_status c) PASS then body st rest
      else status_eqb st SKIP && match rest with [] => true | _ => false end
  | (None, rest) => body st rest
  end.

Definition is_type_block_rec (r : record) : bool :=
  match rec_container r with KTypeBlock _ => true | _ => false end.
Definition is_rule_rec (r : record) : bool :=
  match rec_container r with KRuleCheck _ _ _ => true | _ => false end.

Definition wf_node (c : container) (children : list record) : bool :=
  match c with
  | KFileCheck st =>
      forallb is_rule_rec children && status_eqb st (fold_fail_pass_skip (map rec_status children))
  | KRuleCheck _ st _ => guarded_body_ok st children body_ok
  | KWhenCheck _ st _ => guarded_body_ok st children body_ok
  | KTypeCheck _ _ st _ =>
      guarded_body_ok st children
        (fun st rest => status_eqb st (fold_fail_pass_skip (map rec_status (filter is_type_block_rec rest))))
  | KRuleCondition st | KWhenCondition st | KTypeCondition st | KFilter st | KTypeBlock st =>
      body_ok st children
  | KDisjunction _ st _ => disj_ok st children && stops_at_pass (strict_line_statuses children)
  | KBlockGuardCheck alo st _ =>
      match filter is_line children with
      | [] => negb (status_eqb st PASS)          (* empty selection: SKIP, or FAIL under !empty *)
      | _ =>
          if alo then
            (* `some` block: grouping of lines by value is not recorded; necessary conditions only *)
            match st with
            | PASS => existsb (status_eqb PASS) (line_statuses children)
            | FAIL => existsb (status_eqb FAIL) (line_statuses children)
            | SKIP => negb (existsb (status_eqb FAIL) (strict_line_statuses children))
                      && negb (existsb (status_eqb PASS) (strict_line_statuses children))
            end
          else body_ok st children
      end
  | KGuardClauseBlockCheck _ _ _ => true
  | KClauseValueCheck _ => true
  end.

Fixpoint wf_tree (r : record) : bool :=
  match r with
  | Rec c children =>
      wf_node c children &&
      (fix all (l : list record) : bool :=
         match l with
         | [] => true
         | x :: l' => wf_tree x && all l'
         end) children
  end.

(* first node that is not explained by its children, for diagnosis: path of child indices *)
Fixpoint first_bad (fuel : nat) (r : record) : option (list nat) :=
  match fuel with
  | O => None
  | S n =>
      match r with
      | Rec c children =>
          if negb (wf_node c children) then Some []
          else
            (fix go (i : nat) (l : list record) : option (list nat) :=
               match l with
               | [] => None
               | x :: l' => match first_bad n x with
                            | Some p => Some (i :: p)
                            | None => go (S i) l'
                            end
               end) 0%nat children
      end
  end.
