(* ClauseSpellExample.v — the premises of clause_spelling_parses are met: two different spellings of one binary clause with a
   negation, a negated keyword operator, a literal right-hand side and a message; a unary clause; a clause against a %variable. *)
From Coq Require Import Lia.
From GV.Model Require Import Ast.
From GV.Model Require Import ValueParse QueryParse OpParse ClauseParse.
From GV.Proofs Require Import LexProps ValueParseProps ValueSpellProps ValueSpellExample QueryParseProps QuerySpellProps QuerySpellExample OpParseProps ClauseParseProps ClauseSpellProps.
Local Open Scope string_scope.

Definition rv0 : string -> bool := fun _ => true.

Definition ex_q1 : cquery :=
  mkCQ None (CVar "buckets") [CBrStar EmptyString " " EmptyString; CDotKey (nl +++ "    ") KBare "Properties"; CDotKey EmptyString (KQuoted false) "a b"; CBrIndex EmptyString false "0" " "].
Definition ex_q2 : cquery :=
  mkCQ None (CVar "buckets") [CBrStar EmptyString EmptyString EmptyString; CDotKey EmptyString (KQuoted true) "Properties"; CBrKey EmptyString true "a b" EmptyString; CDotIndex EmptyString false "00"].

Definition ex_c1 : cclause :=
  mkCC ("  # the rule" +++ nl +++ "  ") (NWord true "  ") ex_q1 " " (OpKw (NWord false " ") "IN") (RhsValue (" # allowed" +++ nl +++ " ") (CInt false "10")) (Some (" ", " must be ten ")).
Definition ex_c2 : cclause :=
  mkCC EmptyString NBang ex_q2 EmptyString (OpKw NBang "in") (RhsValue EmptyString (CInt false "010")) (Some (EmptyString, " must be ten ")).

Definition ex_unary : cclause :=
  mkCC " " NNone (mkCQ (Some (EmptyString, false, " ")) (CThis EmptyString true) [CDotKey EmptyString KBare "Tags"]) " " (OpKw (NWord true " ") "EMPTY") RhsNone None.
Definition ex_var : cclause :=
  mkCC EmptyString NNone (mkCQ None (CKey KBare "size") []) " " (OpSym "<=") (RhsQuery " " (mkCQ None (CVar "limit") [CDotKey EmptyString KBare "max"])) None.

Ltac cwf_tac := unfold cwf, qwf, wf_name, wf_digits, no_keyword_prefix, no_not_prefix, starts_solid; cbn;
  repeat first [ split | apply Forall_cons | apply Forall_nil | apply layout_dec_sound; reflexivity | discriminate | reflexivity | exact I
               | (eexists; eexists; split; [reflexivity|split; reflexivity]) | (vm_compute; discriminate) | (intros; discriminate) ].

Lemma kw_IN : is_keyword_spelling OIn "IN".
Proof. exists kw_in_keyword. split; [left; reflexivity|]. unfold kw_in_keyword. cbn. auto. Qed.
Lemma kw_in : is_keyword_spelling OIn "in".
Proof. exists kw_in_keyword. split; [left; reflexivity|]. unfold kw_in_keyword. cbn. auto. Qed.
Lemma kw_EMPTY : is_keyword_spelling OEmpty "EMPTY".
Proof. exists kw_empty. split; [right; right; left; reflexivity|]. unfold kw_empty. cbn. auto. Qed.

Example ex_c1_wf : cwf rv0 ex_c1 (OIn, true).
Proof. unfold ex_c1. cwf_tac. apply (od_kw (NWord false " ") "IN" OIn kw_IN). Qed.
Example ex_c2_wf : cwf rv0 ex_c2 (OIn, true).
Proof. unfold ex_c2. cwf_tac. apply (od_kw NBang "in" OIn kw_in). Qed.
Example ex_unary_wf : cwf rv0 ex_unary (OEmpty, true).
Proof. unfold ex_unary. cwf_tac. apply (od_kw (NWord true " ") "EMPTY" OEmpty kw_EMPTY). Qed.
Example ex_var_wf : cwf rv0 ex_var (OLe, false).
Proof. unfold ex_var. cwf_tac; try (apply od_sym; cbn; auto 10). all: try (eexists; reflexivity). Qed.

Ltac follow_tac := unfold cfollow, sym_follow, query_end, name_end, first_not; cbn; repeat first [ split | exact I | discriminate | reflexivity | (intros; discriminate) | (left; reflexivity) | (right; reflexivity) ].

Example ex_c1_follow : cfollow rv0 ex_c1 nl.
Proof. follow_tac. Qed.
Example ex_c2_follow : cfollow rv0 ex_c2 nl.
Proof. follow_tac. Qed.
Example ex_unary_follow : cfollow rv0 ex_unary (nl +++ "}").
Proof. follow_tac. Qed.
Example ex_var_follow : cfollow rv0 ex_var (nl +++ "}").
Proof. follow_tac. Qed.

Example ex_clauses_parse :
  clause_top rv0 (crender rv0 ex_c1 +++ nl) = POk (cdenote ex_c1 (OIn, true)) nl /\
  cdenote ex_c1 (OIn, true) =
    mkPC true (AccessQuery [QKey "%buckets"; QAllIndices None; QKey "Properties"; QKey "a b"; QIndex 0] true) (OIn, true) (Some (RLit (VInt 10))) (Some " must be ten ") /\
  cdenote ex_c2 (OIn, true) = cdenote ex_c1 (OIn, true) /\ crender rv0 ex_c2 <> crender rv0 ex_c1 /\
  clause_top rv0 (crender rv0 ex_c2 +++ nl) = clause_top rv0 (crender rv0 ex_c1 +++ nl) /\
  clause_top rv0 (crender rv0 ex_unary +++ (nl +++ "}")) =
    POk (mkPC false (AccessQuery [QThis; QKey "Tags"] false) (OEmpty, true) None None) "}" /\
  clause_top rv0 (crender rv0 ex_var +++ (nl +++ "}")) =
    POk (mkPC false (AccessQuery [QKey "size"] true) (OLe, false) (Some (RQuery (AccessQuery [QKey "%limit"; QAllIndices None; QKey "max"] true))) None) "}".
Proof.
  split; [exact (clause_spelling_parses rv0 ex_c1 (OIn, true) nl ex_c1_wf ex_c1_follow)|].
  split; [reflexivity|]. split; [reflexivity|]. split; [vm_compute; discriminate|].
  split; [apply (clause_spellings_agree rv0 ex_c2 ex_c1 (OIn, true) nl ex_c2_wf ex_c1_wf ex_c2_follow ex_c1_follow); [reflexivity|split; discriminate]|].
  split.
  - rewrite (clause_spelling_parses rv0 ex_unary (OEmpty, true) _ ex_unary_wf ex_unary_follow). reflexivity.
  - rewrite (clause_spelling_parses rv0 ex_var (OLe, false) _ ex_var_wf ex_var_follow). reflexivity.
Qed.
