(* C03 — prefix negation is honoured and means the operator-level negation.
   Pinned statements only. *)
From GV.Model Require Import SEval.
From GV.Proofs Require Import StatusProps EvalLaws CompareProps NegationProps TableProps.
From GV.Generated Require Import EvalTables.
From GV.Model Require Import ValueParse QueryParse OpParse ClauseParse CnfParse FilterParse ClauseFParse FullParse.
From GV.Proofs Require Import ValueSpellProps QuerySpellProps OpParseProps ClauseParseProps ClauseSpellProps CnfParseProps FilterParseProps ClauseFProps FullLinkProps.

(* `not X exists` == `X !exists`, likewise empty and the is_* tests: same status, same
   final state, for every query, all/some, every callee evaluator, every state *)
Theorem C03_prefix_not_unary : forall re r aq o n custom,
  is_unary o = true ->
  sim (access_clause_body re r (GuardAccessClause aq (o, n) None custom true))
      (access_clause_body re r (GuardAccessClause aq (o, negb n) None custom false)).
Proof. exact prefix_not_unary. Qed.
Print Assumptions C03_prefix_not_unary.

Theorem C03_double_negation_unary : forall re r aq o custom,
  is_unary o = true ->
  sim (access_clause_body re r (GuardAccessClause aq (o, true) None custom true))
      (access_clause_body re r (GuardAccessClause aq (o, false) None custom false)).
Proof. exact double_negation_unary. Qed.
Print Assumptions C03_double_negation_unary.

(* `not X == v` IS `X != v`, `not X in L` IS `X not in L` (identical computation) *)
Theorem C03_prefix_not_binary : forall re r aq o n w custom,
  is_unary o = false ->
  access_clause_body re r (GuardAccessClause aq (o, n) w custom true)
  = access_clause_body re r (GuardAccessClause aq (o, negb n) w custom false).
Proof. exact prefix_not_binary. Qed.
Print Assumptions C03_prefix_not_binary.

Theorem C03_double_negation_binary : forall re r aq o w custom,
  is_unary o = false ->
  access_clause_body re r (GuardAccessClause aq (o, true) w custom true)
  = access_clause_body re r (GuardAccessClause aq (o, false) w custom false).
Proof. exact double_negation_binary. Qed.
Print Assumptions C03_double_negation_binary.

(* a single comparable value: the negated comparison succeeds exactly when the plain one fails *)
Theorem C03_single_comparable_flips : forall re o cmpf l rv b,
  ordering_op o = Some cmpf -> is_list l = false -> is_list rv = false ->
  cmpf l rv = Done b ->
  cmp_compare re (o, false) [QResolved l] [QLiteral rv]
    = Done (EResult [VComparison (if b then CRSuccess (CValue l rv) else CRFail (CValue l rv))]) /\
  cmp_compare re (o, true) [QResolved l] [QLiteral rv]
    = Done (EResult [VComparison (if b then CRFail (CValue l rv) else CRSuccess (CValue l rv))]).
Proof. exact single_comparable_flips. Qed.
Print Assumptions C03_single_comparable_flips.

Theorem C03_not_gt_is_le : forall a b,
  ordered_pair a b ->
  exists g le, compare_gt a b = Done g /\ compare_le a b = Done le /\ le = negb g.
Proof. exact not_gt_is_le. Qed.
Print Assumptions C03_not_gt_is_le.

Theorem C03_not_comparable_stays_fail : forall re o cmpf l rv,
  ordering_op o = Some cmpf -> is_list l = false -> is_list rv = false ->
  cmpf l rv = Err ENotComparable ->
  forall n, cmp_compare re (o, n) [QResolved l] [QLiteral rv]
            = Done (EResult [VComparison (CRNotComparable l rv)]).
Proof. exact not_comparable_stays_fail. Qed.
Print Assumptions C03_not_comparable_stays_fail.

(* `not R` for a rule name R is PASS exactly when R is not PASS *)
Theorem C03_not_rule : forall prog r dep negation custom s st recs s',
  named_clause_body prog r (GuardNamedRuleClause dep negation custom) s = Done (st, recs, s') ->
  exists rst ch, rule_status_body prog r dep s = Done (rst, ch, s') /\
                 st = (if Bool.eqb (status_eqb rst PASS) negation then FAIL else PASS) /\
                 exists c, recs = [Rec c ch] /\ container_status c = Some st.
Proof. exact named_clause_law. Qed.
Print Assumptions C03_not_rule.

(* which operators take the unary path (where the prefix negation is applied through inverse_operation) and which per-value
   operation each of them dispatches to: the tables of the Rust source (values.rs is_unary, eval.rs unary_operation with its
   is_type_fn! declarations), regenerated on every run, are the ones the model uses *)
Theorem C03_unary_operators_are_the_source_tables : forall o,
  is_unary o = existsb (String.eqb (op_name o)) src_unary_operators /\
  unary_base o = option_map denote_unary (unary_kind_of o) /\
  option_map kind_name (unary_kind_of o) = src_kind o /\
  existsb (String.eqb (op_name o)) src_unary_unreachable = negb (is_unary o).
Proof. exact (fun o => conj (is_unary_is_the_source_table o) (conj (unary_base_is_the_model_dispatch o)
                        (conj (unary_dispatch_is_the_source_table o) (unary_unreachable_arm_is_the_binary_operators o)))). Qed.
Print Assumptions C03_unary_operators_are_the_source_tables.

(* ---- the operator grammar (Model/OpParse.v = parser.rs value_cmp) ---- *)

(* a text that starts with a negation (`not ` / `NOT ` / `!`) never parses to an un-negated operator *)
Theorem C03_parsed_negation_is_never_dropped : forall s o neg r r',
  not_kw s = Some r' -> value_cmp s = POk (o, neg) r -> neg = true.
Proof. exact negation_is_never_dropped. Qed.
Print Assumptions C03_parsed_negation_is_never_dropped.

(* every negation spelling in front of every keyword operator gives that operator, negated *)
Theorem C03_negated_operator_is_read_as_negated : forall o t, is_keyword_spelling o t -> forall w b rest,
  In w kw_not_words -> blanks b -> b <> EmptyString ->
  value_cmp (w +++ (b +++ (t +++ rest))) = POk (o, true) rest /\ value_cmp (String "!" (t +++ rest)) = POk (o, true) rest.
Proof. exact negated_keyword_operator. Qed.
Print Assumptions C03_negated_operator_is_read_as_negated.

(* ---- one access clause (Model/ClauseParse.v = parser.rs clause_with_map) ---- *)

(* a clause whose text starts (after layout) with `not ` / `NOT ` / `!` is parsed with its negation flag set, whatever the
   query, the operator, the right-hand side and the message are *)
Theorem C03_leading_negation_is_recorded : forall rv n s r c rest,
  not_kw (skip_ws_comments s) = Some r -> clause rv n s = POk c rest -> pc_neg c = true.
Proof. exact leading_negation_is_recorded. Qed.
Print Assumptions C03_leading_negation_is_recorded.

Theorem C03_no_negation_is_invented : forall rv n s c rest,
  not_kw (skip_ws_comments s) = None -> clause rv n s = POk c rest -> pc_neg c = false.
Proof. exact no_negation_is_invented. Qed.
Print Assumptions C03_no_negation_is_invented.

(* whichever way the negation in front of a clause is spelled (not / NOT with any blanks, !), and whatever the spelling of the rest,
   the parsed clause carries exactly that negation and exactly the operator (with the operator's own negation) that was written *)
Theorem C03_spelled_negation_sets_the_flag : forall rv c o rest, cwf rv c o -> cfollow rv c rest ->
  exists pc r, clause_top rv (crender rv c +++ rest) = POk pc r /\ pc_neg pc = neg_flag (cl_neg c) /\ pc_cmp pc = o.
Proof. exact spelled_negation_sets_the_flag. Qed.
Print Assumptions C03_spelled_negation_sets_the_flag.

(* a reference to a named rule: the negation in front of it is recorded exactly *)
Theorem C03_rule_reference_negation_is_recorded : forall s v r,
  rule_clause s = POk v r -> pn_neg v = match not_kw s with Some _ => true | None => false end.
Proof. exact rule_reference_negation. Qed.
Print Assumptions C03_rule_reference_negation_is_recorded.

(* the same clause read by the parser over queries with filters carries the same negation flag and operator *)
Theorem C03_negation_is_recorded_with_filters : forall rv s c r, clause_top rv s = POk c r ->
  exists c', clause_f_top rv s = POk c' r /\ gc_neg c' = pc_neg c /\ gc_cmp c' = pc_cmp c.
Proof. exact clause_f_negation. Qed.
Print Assumptions C03_negation_is_recorded_with_filters.

(* the whole-grammar parser (Model/FullParse.v, tied on whole files) records the negation of every clause spelling first *)
Theorem C03_whole_grammar_records_the_negation : forall rv c o rest, cwf rv c o -> cfollow rv c rest ->
  exists kids r, xaccess_clause rv (S (S (S (S (S (String.length (crender rv c +++ rest))))))) (crender rv c +++ rest) =
                 POk (T "Clause" (tbool (neg_flag (cl_neg c)) :: kids)) r.
Proof. exact whole_grammar_records_the_negation. Qed.
Print Assumptions C03_whole_grammar_records_the_negation.
