(* EraseProps.v — evaluation commutes with forgetting where values were written.
   For every program, document, oracles and fuel: evaluating the program with its literals erased on the erased
   document, from the erased state, gives the erasure of what the original evaluation gives - the same status or the
   same error / panic site / out-of-fuel, values equal up to paths, the same scope stack and caches up to paths (the
   record tree, which is output only, is left out of the comparison).  Hence a verdict depends on a document only
   through its content: two documents that differ only in paths and source positions (the same data loaded from JSON or
   YAML, with any layout, merged from parameter files in any grouping) get the same verdict from every rules file.
   Proof: induction on the fuel; each body of the interpreter commutes with erasure given that its callees do. *)
From GV.Model Require Import Erase.
From GV.Proofs Require Import ErasePure.
Local Open Scope nat_scope.

Definition cm {A} (ea : A -> A) (m m' : M A) : Prop := forall s, dropR (m' (erS s)) = erO ea (m s).

Notation idf := (fun x => x).

Lemma cm_ret {A} (ea : A -> A) a : cm ea (ret a) (ret (ea a)).
Proof. intros s. reflexivity. Qed.
Lemma cm_ret' {A} (ea : A -> A) a a' : a' = ea a -> cm ea (ret a) (ret a').
Proof. intros ->. apply cm_ret. Qed.
Lemma cm_failM {A} (ea : A -> A) e : cm ea (failM e) (failM e).
Proof. intros s. reflexivity. Qed.
Lemma cm_panicM {A} (ea : A -> A) p : cm ea (panicM p) (panicM p).
Proof. intros s. reflexivity. Qed.
Lemma cm_unknownM {A} (ea : A -> A) : cm ea unknownM unknownM.
Proof. intros s. reflexivity. Qed.
Lemma cm_oofM {A} (ea : A -> A) : cm ea oofM oofM.
Proof. intros s. reflexivity. Qed.

Lemma cm_lift {A} (ea : A -> A) (o o' : outcome A) : o' = omap ea o -> cm ea (lift o) (lift o').
Proof. intros -> s. destruct o; reflexivity. Qed.

Lemma cm_bind {A B} (ea : A -> A) (eb : B -> B) (m m' : M A) (f f' : A -> M B) :
  cm ea m m' -> (forall a, cm eb (f a) (f' (ea a))) -> cm eb (bind m f) (bind m' f').
Proof.
  intros Hm Hf s. unfold bind. specialize (Hm s).
  destruct (m s) as [[[a r1] s1]| | | |]; destruct (m' (erS s)) as [[[a' r1'] s1']| | | |]; cbn in Hm; try discriminate; try reflexivity.
  - inversion Hm; subst. specialize (Hf a s1).
    destruct (f a s1) as [[[b r2] s2]| | | |]; destruct (f' (ea a) (erS s1)) as [[[b' r2'] s2']| | | |]; cbn in *; try discriminate; try reflexivity.
    + inversion Hf; subst. reflexivity.
    + inversion Hf; subst. reflexivity.
    + inversion Hf; subst. reflexivity.
  - inversion Hm; subst. reflexivity.
  - inversion Hm; subst. reflexivity.
Qed.

Lemma cm_mapM {A B} (ex : A -> A) (eb : B -> B) (f f' : A -> M B) l :
  (forall x, In x l -> cm eb (f x) (f' (ex x))) -> cm (map eb) (mapM f l) (mapM f' (map ex l)).
Proof.
  induction l as [|x l IH]; intros Hf; cbn [mapM map]; [exact (cm_ret (map eb) [])|].
  eapply cm_bind; [apply Hf; left; reflexivity|]. intros y.
  eapply cm_bind; [apply IH; intros z Hz; apply Hf; right; exact Hz|]. intros ys. exact (cm_ret (map eb) (y :: ys)).
Qed.

Lemma concat_map_map' {A} (f : A -> A) (l : list (list A)) : List.concat (map (map f) l) = map f (List.concat l).
Proof. apply concat_map_map. Qed.

Lemma cm_concatMapM {A B} (ex : A -> A) (eb : B -> B) (f f' : A -> M (list B)) l :
  (forall x, In x l -> cm (map eb) (f x) (f' (ex x))) -> cm (map eb) (concatMapM f l) (concatMapM f' (map ex l)).
Proof.
  intros Hf. unfold concatMapM. eapply cm_bind; [apply cm_mapM; exact Hf|].
  intros r. apply cm_ret'. apply concat_map_map.
Qed.

Lemma cm_node {A} (ea : A -> A) (m m' : M A) mk mk' : cm ea m m' -> cm ea (node m mk) (node m' mk').
Proof.
  intros H s. unfold node. specialize (H s).
  destruct (m s) as [[[a r1] s1]| | | |]; destruct (m' (erS s)) as [[[a' r1'] s1']| | | |]; cbn in *; try discriminate; try reflexivity;
    inversion H; subst; reflexivity.
Qed.

Lemma cm_leaf c c' : cm idf (leaf c) (leaf c').
Proof. unfold leaf. apply cm_node. apply (cm_ret idf tt). Qed.

Lemma tl_map {A B} (f : A -> B) l : tl (map f l) = map f (tl l).
Proof. destruct l; reflexivity. Qed.

Lemma cm_with_frame {A} (ea : A -> A) f (m m' : M A) : cm ea m m' -> cm ea (with_frame f m) (with_frame (er_frame f) m').
Proof.
  intros H s. unfold with_frame. specialize (H (mkState (f :: frames s) (statuses s))).
  change (erS (mkState (f :: frames s) (statuses s))) with (mkState (er_frame f :: frames (erS s)) (statuses (erS s))) in H.
  destruct (m (mkState (f :: frames s) (statuses s))) as [[[a r1] s1]| | | |];
    destruct (m' (mkState (er_frame f :: frames (erS s)) (statuses (erS s)))) as [[[a' r1'] s1']| | | |]; cbn in *; try discriminate; try reflexivity; inversion H; subst; try reflexivity. unfold erS. cbn. rewrite tl_map. reflexivity.
Qed.

Lemma cm_with_parent {A} (ea : A -> A) (m m' : M A) : cm ea m m' -> cm ea (with_parent m) (with_parent m').
Proof.
  intros H s. unfold with_parent. destruct s as [[|f rest] sts]; [reflexivity|]. cbn [frames statuses erS map].
  specialize (H (mkState rest sts)). unfold erS in H. cbn [frames statuses] in H.
  destruct (m (mkState rest sts)) as [[[a r1] s1]| | | |];
    destruct (m' (mkState (map er_frame rest) sts)) as [[[a' r1'] s1']| | | |]; cbn in *; try discriminate; try reflexivity; inversion H; subst; reflexivity.
Qed.

Lemma cm_at_root {A} (ea : A -> A) (m m' : M A) : cm ea m m' -> cm ea (at_root m) (at_root m').
Proof.
  intros H s. unfold at_root. cbn [erS frames statuses]. rewrite map_length.
  destruct (List.length (frames s)) as [|k] eqn:El; [reflexivity|].
  rewrite ?firstn_map, ?skipn_map.
  specialize (H (mkState (skipn k (frames s)) (statuses s))). unfold erS in H. cbn [frames statuses] in H.
  destruct (m (mkState (skipn k (frames s)) (statuses s))) as [[[a r1] s1]| | | |];
    destruct (m' (mkState (map er_frame (skipn k (frames s))) (statuses s))) as [[[a' r1'] s1']| | | |]; cbn in *; try discriminate; try reflexivity; inversion H; subst; try reflexivity. unfold erS. cbn. rewrite map_app. reflexivity.
Qed.

Lemma root_of_er fs : root_of (map er_frame fs) = option_map er (root_of fs).
Proof. induction fs as [|[r l m|r l m|r|b n msg] fs IH]; cbn; auto. Qed.

Lemma cm_ctx_root : cm er ctx_root ctx_root.
Proof. intros s. unfold ctx_root. cbn [erS frames]. rewrite root_of_er. destruct (root_of (frames s)); reflexivity. Qed.

Lemma cm_ext {A} (ea ea' : A -> A) (m m' : M A) : (forall a, ea a = ea' a) -> cm ea m m' -> cm ea' m m'.
Proof. intros He H s. rewrite (H s). destruct (m s) as [[[a r1] s1]| | | |]; cbn; try reflexivity. now rewrite He. Qed.

(* a computation given by cases on the state *)
Lemma cm_case {A} (ea : A -> A) (m m' : M A) : (forall s, dropR (m' (erS s)) = erO ea (m s)) -> cm ea m m'.
Proof. exact (fun H => H). Qed.

(* ---------------------------------------------------------------- the generic clause combinators *)
Section Cnf.
Context {T : Type}.
Variable ex : T -> T.
Variable f f' : T -> M status.

Lemma cm_disj_body l failed : (forall x, In x l -> cm idf (f x) (f' (ex x))) -> cm idf (disj_body f l failed) (disj_body f' (map ex l) failed).
Proof.
  revert failed. induction l as [|x l IH]; intros failed Hf; cbn [disj_body map]; [apply (cm_ret idf)|].
  eapply cm_bind; [apply Hf; left; reflexivity|]. intros st.
  destruct st; [apply (cm_ret idf)|apply IH; intros z Hz; apply Hf; right; exact Hz|apply IH; intros z Hz; apply Hf; right; exact Hz].
Qed.

Lemma cm_line_body line : (forall x, In x line -> cm idf (f x) (f' (ex x))) -> cm idf (line_body f line) (line_body f' (map ex line)).
Proof.
  intros Hf. unfold line_body. destruct line as [|a [|b l]]; cbn [map]; try (apply cm_disj_body; exact Hf).
  apply cm_node. apply (cm_disj_body (a :: b :: l)). exact Hf.
Qed.

Lemma map_id' {A} (l : list A) : map idf l = l.
Proof. apply map_id. Qed.

Lemma cm_cnf_body cnf : (forall line x, In line cnf -> In x line -> cm idf (f x) (f' (ex x))) ->
  cm idf (cnf_body f cnf) (cnf_body f' (map (map ex) cnf)).
Proof.
  intros Hf. unfold cnf_body. eapply cm_bind.
  - apply (cm_mapM (map ex) idf). intros line Hl. apply cm_line_body. intros x Hx. exact (Hf line x Hl Hx).
  - intros sts. rewrite map_id'. apply (cm_ret idf).
Qed.
End Cnf.

(* ---------------------------------------------------------------- facts about erased programs *)
Lemma find_literal_er name lets : find_literal name (er_lets lets) = option_map er (find_literal name lets).
Proof.
  induction lets as [|[n v] lets IH]; [reflexivity|]. cbn [er_lets map find_literal fst snd]. fold (er_lets lets). rewrite IH.
  destruct (find_literal name lets); [reflexivity|]. destruct v; cbn; try reflexivity. destruct (String.eqb n name); reflexivity.
Qed.
Lemma find_query_er name lets : find_query name (er_lets lets) = option_map er_aq (find_query name lets).
Proof.
  induction lets as [|[n v] lets IH]; [reflexivity|]. cbn [er_lets map find_query fst snd]. fold (er_lets lets). rewrite IH.
  destruct (find_query name lets); [reflexivity|]. destruct v; cbn; try reflexivity. destruct (String.eqb n name); reflexivity.
Qed.
Lemma find_function_er name lets :
  find_function name (er_lets lets) = option_map (fun pf => (map er_lv (fst pf), snd pf)) (find_function name lets).
Proof.
  induction lets as [|[n v] lets IH]; [reflexivity|]. cbn [er_lets map find_function fst snd]. fold (er_lets lets). rewrite IH.
  destruct (find_function name lets) as [[ps f]|]; [reflexivity|]. destruct v; cbn; try reflexivity. destruct (String.eqb n name); reflexivity.
Qed.

Lemma assoc_er_memo name memo : assoc name (er_memo memo) = option_map (map er_q) (assoc name memo).
Proof. induction memo as [|[k v] memo IH]; cbn; [reflexivity|]. destruct (String.eqb name k); [reflexivity|exact IH]. Qed.
Lemma assoc_set_er_memo name vals memo : assoc_set name (map er_q vals) (er_memo memo) = er_memo (assoc_set name vals memo).
Proof.
  unfold er_memo. induction memo as [|[k v] memo IH]; cbn [map assoc_set fst snd]; [reflexivity|].
  destruct (String.eqb name k); cbn [map fst snd]; [reflexivity|]. f_equal. exact IH.
Qed.

Lemma aq_query_er a : aq_query (er_aq a) = er_query (aq_query a).
Proof. destruct a; reflexivity. Qed.
Lemma aq_all_er a : aq_all (er_aq a) = aq_all a.
Proof. destruct a; reflexivity. Qed.

Lemma part_variable_er p : part_variable (er_part p) = part_variable p.
Proof. destruct p; reflexivity. Qed.
Lemma part_is_variable_er p : part_is_variable (er_part p) = part_is_variable p.
Proof. unfold part_is_variable. now rewrite part_variable_er. Qed.
Lemma part_display_er p : part_display (er_part p) = part_display p.
Proof. destruct p; reflexivity. Qed.
Lemma slice_display_er q : slice_display (er_query q) = slice_display q.
Proof. unfold slice_display, er_query. rewrite map_map. f_equal. f_equal. apply map_ext. apply part_display_er. Qed.
Lemma skipn_er n q : skipn n (er_query q) = er_query (skipn n q).
Proof. apply skipn_map. Qed.
Lemma nth_error_er q n : nth_error (er_query q) n = option_map er_part (nth_error q n).
Proof. apply nth_error_map'. Qed.
Lemma length_er q : List.length (er_query q) = List.length q.
Proof. apply map_length. Qed.

Lemma unresolved_at_er cur q : unresolved_at (er cur) (er_query q) = er_q (unresolved_at cur q).
Proof. unfold unresolved_at. rewrite slice_display_er. reflexivity. Qed.

Lemma retrieve_index_er cur i l q : retrieve_index (er cur) i (map er l) (er_query q) = omap er_q (retrieve_index cur i l q).
Proof.
  unfold retrieve_index, abs_index. cbn. rewrite nth_error_map'. destruct (nth_error l _); cbn; [reflexivity|]. now rewrite unresolved_at_er.
Qed.

Lemma filter_resolved_er l : filter is_resolved (map er_q l) = map er_q (filter is_resolved l).
Proof. induction l as [|[v|v|u] l IH]; cbn; congruence. Qed.

Lemma cm_set_top_memo name vals : cm idf (set_top_memo name vals) (set_top_memo name (map er_q vals)).
Proof.
  intros s. unfold set_top_memo. destruct s as [[|[r l memo|r l memo|r|b n m] rest] sts]; try reflexivity;
    cbn; unfold erS; cbn; rewrite assoc_set_er_memo; reflexivity.
Qed.

Lemma capture_in_cons name key f rest : rest <> [] -> capture_in name key (f :: rest) = option_map (cons f) (capture_in name key rest).
Proof. intros H. destruct rest as [|g rest]; [contradiction|]. destruct f; reflexivity. Qed.

Lemma capture_in_er name key fs : capture_in name (er key) (map er_frame fs) = option_map (map er_frame) (capture_in name key fs).
Proof.
  induction fs as [|f fs IH]; [reflexivity|].
  destruct fs as [|g fs'].
  - destruct f as [r l memo|r l memo|r|b n m]; cbn; try reflexivity.
    rewrite assoc_er_memo. destruct (assoc name memo) as [old|]; cbn [option_map];
      [change [QResolved (er key)] with (map er_q [QResolved key]); rewrite <- map_app|change [QResolved (er key)] with (map er_q ([] ++ [QResolved key]))];
      cbn [app]; rewrite assoc_set_er_memo; reflexivity.
  - rewrite (capture_in_cons name key f (g :: fs')) by discriminate.
    change (map er_frame (f :: g :: fs')) with (er_frame f :: map er_frame (g :: fs')).
    rewrite (capture_in_cons name (er key) (er_frame f) (map er_frame (g :: fs'))) by discriminate.
    rewrite IH. destruct (capture_in name key (g :: fs')); reflexivity.
Qed.

Lemma cm_add_capture name key : cm idf (add_capture name key) (add_capture name (er key)).
Proof.
  intros s. unfold add_capture. cbn [erS frames]. rewrite capture_in_er. destruct (capture_in name key (frames s)); reflexivity.
Qed.

(* ---------------------------------------------------------------- the bodies *)
Definition ev_cm (r r' : ev) : Prop :=
  (forall qi q cur cv, cm (map er_q) (ev_query r qi q cur cv) (ev_query r' qi (er_query q) (er cur) cv)) /\
  (forall g, cm idf (ev_clause r g) (ev_clause r' (er_gc g))) /\
  (forall x, cm idf (ev_rule r x) (ev_rule r' (er_rule x))) /\
  (forall name, cm (map er_q) (ev_resolve r name) (ev_resolve r' name)) /\
  (forall n ps, cm (map er_q) (ev_fn r n ps) (ev_fn r' n (map er_lv ps))).

Section Bodies.
Variable re : re_oracle.
Variable conv : conv_oracle.
Variable prog : rules_file.
Variable r r' : ev.
Hypothesis Hev : ev_cm r r'.

Let Hq := proj1 Hev.
Let Hc := proj1 (proj2 Hev).
Let Hrule := proj1 (proj2 (proj2 Hev)).
Let Hres := proj1 (proj2 (proj2 (proj2 Hev))).
Let Hfn := proj2 (proj2 (proj2 (proj2 Hev))).

Lemma cm_ctx_query_fs fs q : cm (map er_q) (ctx_query_fs r fs q) (ctx_query_fs r' (map er_frame fs) (er_query q)).
Proof.
  induction fs as [|f fs IH]; cbn [map ctx_query_fs]; [apply cm_unknownM|].
  destruct f as [root l m|root l m|root|b n m]; cbn [er_frame].
  - apply Hq.
  - apply Hq.
  - apply cm_with_parent. apply Hq.
  - apply cm_with_parent. exact IH.
Qed.

Lemma cm_ctx_query q : cm (map er_q) (ctx_query r q) (ctx_query r' (er_query q)).
Proof. intros s. unfold ctx_query. cbn [erS frames]. apply cm_ctx_query_fs. Qed.

Lemma cm_arg (p : let_value) :
  cm (map er_q)
     (match p with LValue v => ret [QLiteral v] | LAccess a => ctx_query r (aq_query a) | LFunction ps n => ev_fn r n ps end)
     (match er_lv p with LValue v => ret [QLiteral v] | LAccess a => ctx_query r' (aq_query a) | LFunction ps n => ev_fn r' n ps end).
Proof.
  destruct p as [v|a|ps n]; cbn [er_lv].
  - exact (cm_ret (map er_q) [QLiteral v]).
  - rewrite aq_query_er. apply cm_ctx_query.
  - apply Hfn.
Qed.

Lemma flat_map_some_er res :
  flat_map (fun o => match o with Some v => [QResolved v] | None => [] end) (map (option_map er) res)
  = map er_q (flat_map (fun o => match o with Some v => [QResolved v] | None => [] end) res).
Proof. induction res as [|[v|] res IH]; cbn; congruence. Qed.

Lemma cm_fn_body name params : cm (map er_q) (fn_body r name params) (fn_body r' name (map er_lv params)).
Proof.
  unfold fn_body. eapply cm_bind.
  - apply (cm_mapM er_lv (map er_q)). intros p _. apply cm_arg.
  - intros args. eapply cm_bind; [apply cm_lift; apply call_fn_er|].
    intros res. apply cm_ret'. apply flat_map_some_er.
Qed.

Lemma cm_resolve_scope is_root root lets memo name :
  cm (map er_q) (resolve_scope r is_root root lets memo name) (resolve_scope r' is_root (er root) (er_lets lets) (er_memo memo) name).
Proof.
  unfold resolve_scope. rewrite find_literal_er, assoc_er_memo, find_function_er, find_query_er.
  destruct (find_literal name lets) as [v|]; cbn [option_map]; [exact (cm_ret (map er_q) [QLiteral v])|].
  destruct (assoc name memo) as [vals|]; cbn [option_map]; [apply cm_ret|].
  destruct (find_function name lets) as [[ps f]|]; cbn [option_map fst snd].
  - eapply cm_bind; [apply Hfn|]. intros result. eapply cm_bind; [apply cm_set_top_memo|]. intros _. apply cm_ret.
  - destruct (find_query name lets) as [aq|]; cbn [option_map].
    + rewrite aq_query_er, aq_all_er. eapply cm_bind; [apply Hq|]. intros result.
      assert (E : (if aq_all aq then map er_q result else filter is_resolved (map er_q result))
                  = map er_q (if aq_all aq then result else filter is_resolved result))
        by (destruct (aq_all aq); [reflexivity|apply filter_resolved_er]).
      rewrite E. eapply cm_bind; [apply cm_set_top_memo|]. intros _. apply cm_ret.
    + destruct is_root; [apply cm_failM|apply cm_with_parent, Hres].
Qed.

Lemma cm_resolve_body name : cm (map er_q) (resolve_body r name) (resolve_body r' name).
Proof.
  intros s. unfold resolve_body. destruct s as [[|f rest] sts]; [reflexivity|]. cbn [erS frames map].
  change (mkState (er_frame f :: map er_frame rest) sts) with (erS (mkState (f :: rest) sts)).
  destruct f as [root lets memo|root lets memo|root|b n m]; cbn [er_frame].
  - apply cm_resolve_scope.
  - apply cm_resolve_scope.
  - apply cm_with_parent, Hres.
  - rewrite assoc_er_memo. destruct (assoc name b) as [res|]; cbn [option_map]; [apply (cm_ret (map er_q))|apply cm_with_parent, Hres].
Qed.

End Bodies.

(* ---------------------------------------------------------------- queries *)
Lemma combine_er keys (vals : list (string * pv)) :
  combine (map er keys) (map snd (er_vals vals)) = map (fun kv => (er (fst kv), er (snd kv))) (combine keys (map snd vals)).
Proof.
  unfold er_vals. rewrite map_map. cbn [snd]. revert vals. induction keys as [|k keys IH]; intros [|[s v] vals]; cbn; try reflexivity.
  f_equal. apply IH.
Qed.

Section Query.
Variable re : re_oracle.
Variable conv : conv_oracle.
Variable r r' : ev.
Hypothesis Hev : ev_cm r r'.

Let Hq := proj1 Hev.
Let Hc := proj1 (proj2 Hev).
Let Hres := proj1 (proj2 (proj2 (proj2 Hev))).
Let Hfn := proj2 (proj2 (proj2 (proj2 Hev))).

Lemma cm_rq qi q cur cv : cm (map er_q) (rq r qi q cur cv) (rq r' qi (er_query q) (er cur) cv).
Proof. apply Hq. Qed.

Lemma cm_unres cur q n : cm (map er_q) (ret [unresolved_at cur (skipn n q)]) (ret [unresolved_at (er cur) (skipn n (er_query q))]).
Proof. apply cm_ret'. rewrite skipn_er, unresolved_at_er. reflexivity. Qed.
Lemma cm_unres0 cur q : cm (map er_q) (ret [unresolved_at cur q]) (ret [unresolved_at (er cur) (er_query q)]).
Proof. apply cm_ret'. rewrite unresolved_at_er. reflexivity. Qed.

Lemma cm_map_resolved qr f f' : (forall v, cm (map er_q) (f v) (f' (er v))) ->
  cm (map er_q) (map_resolved qr f) (map_resolved (er_q qr) f').
Proof. intros H. destruct qr as [v|v|u]; cbn; [exact (cm_ret (map er_q) [QLiteral v])|apply H|exact (cm_ret (map er_q) [QUnResolved u])]. Qed.

Lemma cm_accumulate parent qi q elements cv :
  cm (map er_q) (accumulate r parent qi q elements cv) (accumulate r' (er parent) qi (er_query q) (map er elements) cv).
Proof.
  unfold accumulate. destruct elements as [|e es]; [apply cm_unres|].
  change (map er (e :: es)) with (er e :: map er es). cbv iota.
  change (er e :: map er es) with (map er (e :: es)).
  apply (cm_concatMapM er er_q). intros each _. apply cm_rq.
Qed.

Lemma cm_accumulate_map parent keys vals qi q cv func func' :
  (forall index q0 key value cv0, cm (map er_q) (func index q0 key value cv0) (func' index (er_query q0) (er key) (er value) cv0)) ->
  cm (map er_q) (accumulate_map parent keys vals qi q cv func)
     (accumulate_map (er parent) (map er keys) (er_vals vals) qi (er_query q) cv func').
Proof.
  intros H. unfold accumulate_map. destruct vals as [|kv vals]; [apply cm_unres|].
  change (er_vals (kv :: vals)) with ((fst kv, er (snd kv)) :: er_vals vals). cbv iota.
  change ((fst kv, er (snd kv)) :: er_vals vals) with (er_vals (kv :: vals)). rewrite combine_er.
  apply (cm_concatMapM (fun kv0 : pv * pv => (er (fst kv0), er (snd kv0))) er_q). intros x _. cbn [fst snd].
  apply (cm_with_frame (map er_q) (FValue (snd x))). apply H.
Qed.

Lemma cm_eval_filter_cnf cnf : cm idf (eval_filter_cnf r cnf) (eval_filter_cnf r' (er_cnf cnf)).
Proof. unfold eval_filter_cnf, er_cnf. apply (cm_cnf_body er_gc). intros line x _ _. apply Hc. Qed.

Lemma cm_check_and_delegate cnf name index q key value cv :
  cm (map er_q) (check_and_delegate r cnf name index q key value cv)
     (check_and_delegate r' (er_cnf cnf) name index (er_query q) (er key) (er value) cv).
Proof.
  unfold check_and_delegate. eapply cm_bind; [apply cm_node, cm_eval_filter_cnf|]. intros st. cbv beta.
  eapply (cm_bind idf).
  - destruct name as [n|]; [destruct st; try apply (cm_ret idf tt); apply cm_add_capture|apply (cm_ret idf tt)].
  - intros _. destruct st; [apply cm_rq|exact (cm_ret (map er_q) [])|exact (cm_ret (map er_q) [])].
Qed.

Lemma cm_lookup_key vals cur k qi q cv :
  cm (map er_q) (lookup_key conv r vals cur k qi q cv) (lookup_key conv r' (er_vals vals) (er cur) k qi (er_query q) cv).
Proof.
  unfold lookup_key.
  rewrite map_get_er. destruct (map_get k vals) as [v|]; cbn [option_map]; [apply cm_rq|].
  destruct cv as [c|].
  - destruct (conv c k) as [converted|]; [|apply cm_unknownM].
    rewrite map_get_er. destruct (map_get converted vals) as [v|]; cbn [option_map]; [apply cm_rq|apply cm_unres].
  - repeat (match goal with
            | |- cm _ (match conv ?c k with _ => _ end) _ =>
                destruct (conv c k) as [?|]; [|apply cm_unknownM]; rewrite map_get_er;
                match goal with |- cm _ (match map_get ?x vals with _ => _ end) _ => destruct (map_get x vals); cbn [option_map]; [apply cm_rq|] end
            end).
    apply cm_unres.
Qed.

Ltac key_step vals :=
  match goal with
  | |- cm _ (match map_get ?k vals with _ => _ end) _ =>
      rewrite map_get_er; destruct (map_get k vals); cbn [option_map]; [apply cm_rq|apply cm_unres]
  end.

Lemma cm_interpolate var vals cur qi q cv :
  cm (map er_q) (interpolate r var vals cur qi q cv) (interpolate r' var (er_vals vals) (er cur) qi (er_query q) cv).
Proof.
  unfold interpolate. eapply cm_bind; [apply Hres|]. intros keys. cbv zeta.
  assert (Hinner : forall ek, cm (map er_q)
            (match ek with
             | PString _ k => match map_get k vals with Some next => rq r (S qi) q next cv | None => ret [unresolved_at cur (skipn qi q)] end
             | _ => failM ENotComparable
             end)
            (match er ek with
             | PString _ k => match map_get k (er_vals vals) with Some next => rq r' (S qi) (er_query q) next cv | None => ret [unresolved_at (er cur) (skipn qi (er_query q))] end
             | _ => failM ENotComparable
             end)).
  { intros ek. destruct ek; cbn [er]; try apply cm_failM. key_step vals. }
  assert (Hcont : forall ks, cm (map er_q)
            (concatMapM (fun each_key =>
               match each_key with
               | QUnResolved _ => ret [unresolved_at cur (skipn qi q)]
               | QResolved key | QLiteral key =>
                   match key with
                   | PString _ k => match map_get k vals with Some next => rq r (S qi) q next cv | None => ret [unresolved_at cur (skipn qi q)] end
                   | PList _ inner =>
                       concatMapM (fun ek =>
                         match ek with
                         | PString _ k => match map_get k vals with Some next => rq r (S qi) q next cv | None => ret [unresolved_at cur (skipn qi q)] end
                         | _ => failM ENotComparable
                         end) inner
                   | _ => failM ENotComparable
                   end
               end) ks)
            (concatMapM (fun each_key =>
               match each_key with
               | QUnResolved _ => ret [unresolved_at (er cur) (skipn qi (er_query q))]
               | QResolved key | QLiteral key =>
                   match key with
                   | PString _ k => match map_get k (er_vals vals) with Some next => rq r' (S qi) (er_query q) next cv | None => ret [unresolved_at (er cur) (skipn qi (er_query q))] end
                   | PList _ inner =>
                       concatMapM (fun ek =>
                         match ek with
                         | PString _ k => match map_get k (er_vals vals) with Some next => rq r' (S qi) (er_query q) next cv | None => ret [unresolved_at (er cur) (skipn qi (er_query q))] end
                         | _ => failM ENotComparable
                         end) inner
                   | _ => failM ENotComparable
                   end
               end) (map er_q ks))).
  { intros ks. apply (cm_concatMapM er_q er_q). intros each _. destruct each as [key|key|u]; cbn [er_q]; [| |apply cm_unres].
    - destruct key; cbn [er]; try apply cm_failM; [key_step vals|]. apply (cm_concatMapM er er_q). intros ek _. apply Hinner.
    - destruct key; cbn [er]; try apply cm_failM; [key_step vals|]. apply (cm_concatMapM er er_q). intros ek _. apply Hinner. }
  rewrite nth_error_er. destruct (nth_error q (S qi)) as [part|]; cbn [option_map]; [|apply Hcont].
  destruct part; cbn [er_part]; try apply cm_failM; try apply Hcont.
  eapply (cm_bind idf); [apply cm_lift; reflexivity|]. intros check.
  rewrite nth_error_map'. destruct (nth_error keys check) as [k0|]; cbn [option_map]; [exact (Hcont [k0])|apply cm_unres].
Qed.

End Query.

(* ---------------------------------------------------------------- `keys` filters and the query walker *)
Definition er_qs (p : qres * status) : qres * status := (er_q (fst p), snd p).

Lemma match_nonlist {A} (l : pv) (a b : A) : is_list l = false -> (match l with PList _ _ => a | _ => b end) = b.
Proof. destruct l; try discriminate; reflexivity. Qed.

Lemma old_found_er rs : old_found (map er_old rs) = old_found rs.
Proof. unfold old_found. induction rs as [|x rs IH]; cbn; [reflexivity|]. rewrite IH. destruct x as [[|] ? ?|? ?|? ?]; reflexivity. Qed.

Lemma cm_old_report_value c x : cm er_qs (old_report_value c x) (old_report_value c (er_old x)).
Proof.
  destruct x as [[|] l rv|l rv|q l]; cbn [er_old old_report_value];
    (eapply (cm_bind idf); [apply cm_leaf|]; intros _; apply cm_ret'; reflexivity).
Qed.

Section Query2.
Variable re : re_oracle.
Variable conv : conv_oracle.
Variable r r' : ev.
Hypothesis Hev : ev_cm r r'.

Let Hq := proj1 Hev.
Let Hc := proj1 (proj2 Hev).
Let Hres := proj1 (proj2 (proj2 (proj2 Hev))).
Let Hfn := proj2 (proj2 (proj2 (proj2 Hev))).

Lemma cm_real_binary_operation lhs rhs c0 :
  cm (map er_qs) (real_binary_operation re lhs rhs c0) (real_binary_operation re (map er_q lhs) (map er_q rhs) c0).
Proof.
  unfold real_binary_operation. rewrite map_length.
  set (c := if cmp_op_eqb (fst c0) OEq && Nat.ltb 1 (List.length rhs) then (OIn, snd c0) else c0).
  apply (cm_concatMapM er_q er_qs). intros each _.
  assert (Hl : forall l,
    cm (map er_qs)
      (match l with
       | PList _ _ => unknownM
       | _ =>
         rs <- lift (match fst c with
                     | OEq => each_lhs_compare (not_compare (compare_eq re) (snd c)) l rhs
                     | OGe => each_lhs_compare (not_compare compare_ge (snd c)) l rhs
                     | OGt => each_lhs_compare (not_compare compare_gt (snd c)) l rhs
                     | OLt => each_lhs_compare (not_compare compare_lt (snd c)) l rhs
                     | OLe => each_lhs_compare (not_compare compare_le (snd c)) l rhs
                     | OIn => each_lhs_compare (in_cmp re (snd c)) l rhs
                     | _ => Panic P_unary_on_binary_op
                     end) ;;
         match fst c with
         | OIn =>
             match rs with
             | [] => ret []
             | _ =>
                 if old_found rs then
                   _ <- leaf (KClauseValueCheck CSuccess) ;; ret [(QResolved l, PASS)]
                 else
                   _ <- leaf (KClauseValueCheck (CInComparison c (QResolved l) (flat_map old_rhs rs) false None FAIL)) ;;
                   ret [(QResolved l, FAIL)]
             end
         | _ => mapM (old_report_value c) rs
         end
       end)
      (match er l with
       | PList _ _ => unknownM
       | _ =>
         rs <- lift (match fst c with
                     | OEq => each_lhs_compare (not_compare (compare_eq re) (snd c)) (er l) (map er_q rhs)
                     | OGe => each_lhs_compare (not_compare compare_ge (snd c)) (er l) (map er_q rhs)
                     | OGt => each_lhs_compare (not_compare compare_gt (snd c)) (er l) (map er_q rhs)
                     | OLt => each_lhs_compare (not_compare compare_lt (snd c)) (er l) (map er_q rhs)
                     | OLe => each_lhs_compare (not_compare compare_le (snd c)) (er l) (map er_q rhs)
                     | OIn => each_lhs_compare (in_cmp re (snd c)) (er l) (map er_q rhs)
                     | _ => Panic P_unary_on_binary_op
                     end) ;;
         match fst c with
         | OIn =>
             match rs with
             | [] => ret []
             | _ =>
                 if old_found rs then
                   _ <- leaf (KClauseValueCheck CSuccess) ;; ret [(QResolved (er l), PASS)]
                 else
                   _ <- leaf (KClauseValueCheck (CInComparison c (QResolved (er l)) (flat_map old_rhs rs) false None FAIL)) ;;
                   ret [(QResolved (er l), FAIL)]
             end
         | _ => mapM (old_report_value c) rs
         end
       end)).
  { intros l. destruct (is_list l) eqn:El; [destruct l; try discriminate; apply cm_unknownM|].
    rewrite (match_nonlist l) by exact El. rewrite (match_nonlist (er l)) by (rewrite is_list_er; exact El).
    eapply (cm_bind (map er_old)).
    - apply cm_lift. destruct (fst c); try reflexivity; apply each_lhs_compare_er; intros;
        first [apply not_compare_er; intros; first [apply compare_eq_er|apply cmp_with_er]|apply in_cmp_er].
    - intros rs. destruct (fst c); try (apply (cm_mapM er_old er_qs); intros x _; apply cm_old_report_value).
      destruct rs as [|x rs]; [exact (cm_ret (map er_qs) [])|].
      change (map er_old (x :: rs)) with (er_old x :: map er_old rs). cbv iota.
      change (er_old x :: map er_old rs) with (map er_old (x :: rs)). rewrite old_found_er.
      destruct (old_found (x :: rs)); (eapply (cm_bind idf); [apply cm_leaf|]; intros _; apply cm_ret'; reflexivity). }
  destruct each as [l|l|u]; cbn [er_q].
  - apply Hl.
  - apply Hl.
  - eapply (cm_bind idf); [apply cm_leaf|]. intros _. apply cm_ret'. reflexivity.
Qed.

Lemma cm_map_key_filter c w keys vals cur qi q cv :
  cm (map er_q) (map_key_filter re r c w keys vals cur qi q cv)
     (map_key_filter re r' c (er_lv w) (map er keys) (er_vals vals) (er cur) qi (er_query q) cv).
Proof.
  unfold map_key_filter. eapply (cm_bind (map er_q)).
  - destruct w as [v|a|ps n]; cbn [er_lv].
    + exact (cm_ret (map er_q) [QLiteral v]).
    + rewrite aq_query_er. apply (cm_rq r r' Hev).
    + apply Hfn.
  - intros rhs. cbv zeta. rewrite map_map.
    assert (E : map (fun x => QResolved (er x)) keys = map er_q (map QResolved keys)) by (rewrite map_map; reflexivity).
    rewrite E. eapply (cm_bind (map er_qs)); [apply cm_real_binary_operation|]. intros results.
    eapply (cm_bind (map er_q)).
    + apply (cm_concatMapM er_qs er_q). intros [x st] _. unfold er_qs. cbn [fst snd].
      destruct x as [v|key|u]; cbn [er_q]; try exact (cm_ret (map er_q) []).
      * destruct st; try exact (cm_ret (map er_q) []).
        destruct key; cbn [er]; try exact (cm_ret (map er_q) []).
        rewrite map_get_er. destruct (map_get s vals) as [v|]; cbn [option_map]; [exact (cm_ret (map er_q) [QResolved v])|apply cm_panicM].
      * exact (cm_ret (map er_q) [QUnResolved u]).
    + intros selected. apply (cm_concatMapM er_q er_q). intros each _.
      destruct each as [v|v|u]; cbn [er_q]; [apply (cm_rq r r' Hev)|apply (cm_rq r r' Hev)|exact (cm_ret (map er_q) [QUnResolved u])].
Qed.

End Query2.

Lemma idx_er {A} (x : option query_part) (a b : A) :
  (match option_map er_part x with Some (QAllIndices _) => a | _ => b end) = (match x with Some (QAllIndices _) => a | _ => b end).
Proof. destruct x as [[]|]; reflexivity. Qed.

Section Query3.
Variable re : re_oracle.
Variable conv : conv_oracle.
Variable r r' : ev.
Hypothesis Hev : ev_cm r r'.

Let Hres := proj1 (proj2 (proj2 (proj2 Hev))).

Ltac rqs := first [apply (cm_rq r r' Hev) | apply cm_unres | apply cm_unres0 | apply cm_failM | apply cm_panicM | exact (cm_ret (map er_q) [])].

Lemma cm_filter_each cnf qi q cv each :
  cm (map er_q)
     (st <- node (with_frame (FValue each) (eval_filter_cnf r cnf)) KFilter ;; match st with PASS => rq r (S qi) q each cv | _ => ret [] end)
     (st <- node (with_frame (FValue (er each)) (eval_filter_cnf r' (er_cnf cnf))) KFilter ;; match st with PASS => rq r' (S qi) (er_query q) (er each) cv | _ => ret [] end).
Proof.
  eapply (cm_bind idf); [apply cm_node; apply (cm_with_frame idf (FValue each)); apply (cm_eval_filter_cnf r r' Hev)|].
  intros st. destruct st; rqs.
Qed.

Lemma cm_query_body qi q cur cv :
  cm (map er_q) (query_body re conv r qi q cur cv) (query_body re conv r' qi (er_query q) (er cur) cv).
Proof.
  unfold query_body. rewrite nth_error_er. destruct (nth_error q qi) as [part|]; cbn [option_map]; [|exact (cm_ret (map er_q) [QResolved cur])].
  rewrite part_variable_er.
  destruct (if Nat.eqb qi 0 then part_variable part else None) as [var|].
  - eapply cm_bind; [apply Hres|]. intros retrieved. apply (cm_concatMapM er_q er_q). intros each _.
    rewrite nth_error_er, idx_er, length_er.
    destruct each as [v|v|u]; cbn [er_q]; [| |exact (cm_ret (map er_q) [QUnResolved u])].
    + destruct (Nat.ltb _ _); [apply (cm_with_frame (map er_q) (FValue v)); rqs|exact (cm_ret (map er_q) [QLiteral v])].
    + destruct (Nat.ltb _ _); [apply (cm_with_frame (map er_q) (FValue v)); rqs|exact (cm_ret (map er_q) [QResolved v])].
  - destruct part as [|k|n c w|name|name|i|name cnf]; cbn [er_part].
    + rqs.
    + (* key *)
      destruct (parse_i32 k) as [idx|].
      * destruct cur; cbn [er]; try rqs.
        eapply cm_bind; [apply cm_lift; apply (retrieve_index_er (PList p l))|]. intros qr. apply cm_map_resolved. intros v. rqs.
      * destruct cur; cbn [er]; try rqs.
        destruct (key_variable k) as [var|]; [apply (cm_interpolate r r' Hev)|apply (cm_lookup_key conv r r' Hev)].
    + destruct cur; cbn [er]; try rqs. apply (cm_map_key_filter re r r' Hev).
    + (* all values *)
      destruct cur; cbn [er]; try rqs.
      * apply (cm_accumulate r r' Hev (PList p l)).
      * apply (cm_accumulate_map (PMap p keys vals)). intros index q0 key value cv0.
        eapply (cm_bind idf); [destruct name; [apply cm_add_capture|apply (cm_ret idf tt)]|]. intros _. rqs.
    + (* all indices *)
      destruct cur; cbn [er]; try rqs.
      * apply (cm_accumulate r r' Hev (PList p l)).
      * destruct name as [n|]; [|change (PMap root_path (map er keys) (map (fun kv => (fst kv, er (snd kv))) vals)) with (er (PMap p keys vals)); rqs].
        apply (cm_accumulate_map (PMap p keys vals)). intros index q0 key value cv0.
        eapply (cm_bind idf); [apply cm_add_capture|]. intros _. rqs.
    + destruct cur; cbn [er]; try rqs.
      eapply cm_bind; [apply cm_lift; apply (retrieve_index_er (PList p l))|]. intros qr. apply cm_map_resolved. intros v. rqs.
    + (* filter *)
      destruct cur; cbn [er].
      all: try (destruct qi as [|pi]; [rqs|]; rewrite nth_error_er; destruct (nth_error q pi) as [[]|]; cbn [option_map er_part]; try rqs;
                match goal with |- cm _ (bind (node (with_frame (FValue ?X) _) _) _) _ => apply (cm_filter_each cnf (S pi) q cv X) end).
      * (* list *)
        apply (cm_concatMapM er er_q). intros each _. apply cm_filter_each.
      * (* struct *)
        destruct qi as [|pi]; [rqs|]. rewrite nth_error_er. destruct (nth_error q pi) as [[]|]; cbn [option_map er_part]; try rqs.
        -- destruct vals as [|kv vals]; [exact (cm_ret (map er_q) [])|].
           change (map (fun kv0 => (fst kv0, er (snd kv0))) (kv :: vals)) with ((fst kv, er (snd kv)) :: er_vals vals). cbv iota.
           change ((fst kv, er (snd kv)) :: er_vals vals) with (er_vals (kv :: vals)).
           apply (cm_accumulate_map (PMap p keys (kv :: vals))). intros index q0 key value cv0. apply (cm_check_and_delegate r r' Hev).
        -- apply (cm_with_frame (map er_q) (FValue (PMap p keys vals))). apply (cm_check_and_delegate r r' Hev cnf None (S (S pi)) q (PMap p keys vals) (PMap p keys vals)).
        -- apply (cm_with_frame (map er_q) (FValue (PMap p keys vals))). apply (cm_check_and_delegate r r' Hev cnf None (S (S pi)) q (PMap p keys vals) (PMap p keys vals)).
Qed.

End Query3.

(* ---------------------------------------------------------------- clauses *)
Definition er_evr (e : evaluation_result) : evaluation_result :=
  match e with EmptyQueryResult st => EmptyQueryResult st | QueryValueResult l => QueryValueResult (map er_qs l) end.

Lemma last_er q : last (er_query q) QThis = er_part (last q QThis).
Proof. induction q as [|p [|p' q] IH]; cbn in *; try reflexivity. exact IH. Qed.

Lemma unary_base_er o base v : unary_base o = Some base -> base (er_q v) = base v.
Proof.
  destruct o; cbn; intros E; inversion E; subst; destruct v as [x|x|u]; try reflexivity;
    unfold element_empty_operation, is_type_operation; cbn [er_q]; rewrite ?type_of_er; try reflexivity;
    destruct x; cbn [er]; try reflexivity.
  all: match goal with |- context [map ?f ?l] => destruct l; reflexivity end.
Qed.

Lemma has_status_er s l : has_status s (map er_qs l) = has_status s l.
Proof. unfold has_status. induction l as [|x l IH]; cbn; [reflexivity|]. now rewrite IH. Qed.

(* reporting a list of (check, value, status) triples: the check goes to the record tree *)
Lemma cm_report_triples (L L' : list (clause_check * qres * status)) :
  map (fun t => (snd (fst t), snd t)) L' = map (fun t => (er_q (snd (fst t)), snd t)) L ->
  cm (map er_qs)
     (mapM (fun t => let '(cc, v, st) := t in _ <- leaf (KClauseValueCheck cc) ;; ret (v, st)) L)
     (mapM (fun t => let '(cc, v, st) := t in _ <- leaf (KClauseValueCheck cc) ;; ret (v, st)) L').
Proof.
  revert L'. induction L as [|[[cc v] st] L IH]; intros [|[[cc' v'] st'] L'] H; cbn in H; try discriminate.
  - exact (cm_ret (map er_qs) []).
  - inversion H; subst. cbn [mapM]. eapply (cm_bind er_qs).
    + eapply (cm_bind idf); [apply cm_leaf|]. intros _. apply cm_ret'. reflexivity.
    + intros y. eapply cm_bind; [apply IH; assumption|]. intros ys. exact (cm_ret (map er_qs) (y :: ys)).
Qed.

Lemma find_param_rule_er prog dep : find_param_rule (er_prog prog) dep = option_map er_pr (find_param_rule prog dep).
Proof.
  unfold find_param_rule. cbn [er_prog rf_param_rules].
  change (@None param_rule) with (option_map er_pr None) at 1. generalize (@None param_rule).
  induction (rf_param_rules prog) as [|p ps IH]; intros acc; [reflexivity|]. cbn [map fold_left].
  assert (E : (if String.eqb (rule_name (pr_rule (er_pr p))) dep then Some (er_pr p) else option_map er_pr acc)
              = option_map er_pr (if String.eqb (rule_name (pr_rule p)) dep then Some p else acc))
    by (cbn; destruct (String.eqb (rule_name (pr_rule p)) dep); reflexivity).
  rewrite E. apply IH.
Qed.

Lemma rules_named_er prog name : rules_named (er_prog prog) name = map er_rule (rules_named prog name).
Proof.
  unfold rules_named. cbn [er_prog rf_rules]. induction (rf_rules prog) as [|x xs IH]; [reflexivity|].
  cbn [map filter]. cbn [er_rule rule_name]. destruct (String.eqb (rule_name x) name); cbn [map]; now rewrite IH.
Qed.

Lemma bindings_er (names : list string) (resolved : list (list qres)) :
  forall acc, fold_left (fun acc kv => assoc_set (fst kv) (snd kv) acc) (combine names (map (map er_q) resolved)) (er_memo acc)
              = er_memo (fold_left (fun acc kv => assoc_set (fst kv) (snd kv) acc) (combine names resolved) acc).
Proof.
  revert resolved. induction names as [|n names IH]; intros [|x resolved] acc; cbn; try reflexivity.
  rewrite assoc_set_er_memo. apply IH.
Qed.

Section Clauses.
Variable re : re_oracle.
Variable conv : conv_oracle.
Variable prog : rules_file.
Variable r r' : ev.
Hypothesis Hev : ev_cm r r'.

Let Hq := proj1 Hev.
Let Hc := proj1 (proj2 Hev).
Let Hrule := proj1 (proj2 (proj2 Hev)).
Let Hres := proj1 (proj2 (proj2 (proj2 Hev))).
Let Hfn := proj2 (proj2 (proj2 (proj2 Hev))).

Lemma cm_unary_operation lq c inverse custom :
  cm er_evr (unary_operation r lq c inverse custom) (unary_operation r' (er_query lq) c inverse custom).
Proof.
  unfold unary_operation. eapply (cm_bind (map er_q)); [apply (cm_ctx_query r r' Hev)|]. intros lhs.
  rewrite last_er, length_er. destruct lq as [|p0 lq0]; [apply cm_panicM|].
  cbn [er_query map]. set (lq := p0 :: lq0).
  generalize (last lq QThis) as lp. intros lp.
  match goal with |- cm _ (if ?B1 && _ then _ else _) (if ?B2 && _ then _ else _) =>
    assert (E : B2 = B1) by (destruct lp; reflexivity); rewrite E; clear E;
    destruct (B1 && cmp_op_eqb (fst c) OEmpty) end.
  - destruct lhs as [|x lhs].
    + destruct (if inverse then negb (negb (snd c)) else negb (snd c));
        (eapply (cm_bind idf); [apply cm_leaf|]; intros _; apply cm_ret'; reflexivity).
    + change (map er_q (x :: lhs)) with (er_q x :: map er_q lhs). cbv iota. change (er_q x :: map er_q lhs) with (map er_q (x :: lhs)).
      eapply (cm_bind (map er_qs)); [|intros res; apply cm_ret'; reflexivity].
      apply (cm_mapM er_q er_qs). intros each _.
      destruct each as [v|v|u]; cbn [er_q]; rewrite ?is_null_er;
        (eapply (cm_bind idf); [apply cm_leaf|]; intros _; apply cm_ret'; reflexivity).
  - destruct lhs as [|x lhs]; [apply cm_ret'; reflexivity|].
    change (map er_q (x :: lhs)) with (er_q x :: map er_q lhs). cbv iota. change (er_q x :: map er_q lhs) with (map er_q (x :: lhs)).
    destruct (unary_base (fst c)) as [base|] eqn:Eb; [|apply cm_panicM].
    eapply (cm_bind (map er_qs)); [|intros res; apply cm_ret'; reflexivity].
    apply (cm_mapM er_q er_qs). intros each _.
    eapply (cm_bind idf).
    + apply cm_lift. unfold unary_op. rewrite (unary_base_er _ _ each Eb). destruct (base each); reflexivity.
    + intros b. eapply (cm_bind idf); [apply cm_leaf|]. intros _. apply cm_ret'. reflexivity.
Qed.

Lemma cm_binary_operation lq rhs c custom :
  cm er_evr (binary_operation re r lq rhs c custom) (binary_operation re r' (er_query lq) (map er_q rhs) c custom).
Proof.
  unfold binary_operation. eapply (cm_bind (map er_q)); [apply (cm_ctx_query r r' Hev)|]. intros lhs.
  eapply (cm_bind er_eres); [apply cm_lift; apply cmp_compare_er|]. intros results.
  destruct results as [|l]; cbn [er_eres]; [apply cm_ret'; reflexivity|].
  eapply (cm_bind (map er_qs)); [|intros res; apply cm_ret'; reflexivity].
  apply (cm_concatMapM er_ver er_qs). intros e _. apply cm_report_triples. apply report_binary_er.
Qed.

Lemma cm_access_clause_body g : cm idf (access_clause_body re r g) (access_clause_body re r' (er_ac g)).
Proof.
  destruct g as [aq c w custom negation]. cbn [er_ac access_clause_body]. rewrite aq_all_er, aq_query_er.
  eapply (cm_bind idf); [|intros p; apply (cm_ret idf)].
  apply cm_node. eapply (cm_bind er_evr).
  - destruct (is_unary (fst c)); [apply cm_unary_operation|].
    destruct w as [wv|]; cbn [option_map]; [|apply cm_failM].
    eapply (cm_bind (map er_q)); [apply (cm_arg r r' Hev)|]. intros rhs. apply cm_binary_operation.
  - intros res. destruct res as [st|l]; cbn [er_evr]; [apply (cm_ret idf)|].
    rewrite !has_status_er. destruct (has_status SKIP l); [apply cm_panicM|apply (cm_ret idf)].
Qed.

Lemma cm_first_non_skip rules : cm idf (first_non_skip r rules) (first_non_skip r' (map er_rule rules)).
Proof.
  induction rules as [|x rules IH]; cbn [map first_non_skip]; [apply (cm_ret idf)|].
  eapply (cm_bind idf); [apply Hrule|]. intros st. destruct st; [apply (cm_ret idf)|apply (cm_ret idf)|exact IH].
Qed.

Lemma cm_rule_status_body name : cm idf (rule_status_body prog r name) (rule_status_body (er_prog prog) r' name).
Proof.
  unfold rule_status_body. apply cm_at_root. intros s. cbn [erS statuses].
  destruct (assoc name (statuses s)) as [st|]; [reflexivity|].
  rewrite rules_named_er. destruct (rules_named prog name) as [|x rules]; [reflexivity|].
  change (map er_rule (x :: rules)) with (er_rule x :: map er_rule rules). cbv iota. change (er_rule x :: map er_rule rules) with (map er_rule (x :: rules)).
  change (mkState (map er_frame (frames s)) (statuses s)) with (erS s).
  apply (cm_bind idf idf (first_non_skip r (x :: rules)) (first_non_skip r' (map er_rule (x :: rules)))); [apply cm_first_non_skip|].
  intros st s'. reflexivity.
Qed.

Lemma cm_named_clause_body n : cm idf (named_clause_body prog r n) (named_clause_body (er_prog prog) r' n).
Proof.
  destruct n as [dep negation custom]. unfold named_clause_body. apply cm_node.
  eapply (cm_bind idf); [apply cm_rule_status_body|]. intros st. apply (cm_ret idf).
Qed.

Lemma cm_gblock_body b : cm idf (gblock_body r b) (gblock_body r' (er_blk b)).
Proof.
  destruct b as [lets cnf]. cbn [er_blk gblock_body]. eapply (cm_bind er); [apply cm_ctx_root|]. intros root.
  apply (cm_with_frame idf (FBlock root lets [])). apply (cm_cnf_body er_gc). intros line x _ _. apply Hc.
Qed.

Lemma cm_block_clause_body aq b ne : cm idf (block_clause_body r aq b ne) (block_clause_body r' (er_aq aq) (er_blk b) ne).
Proof.
  unfold block_clause_body. rewrite aq_all_er, aq_query_er. apply cm_node.
  eapply (cm_bind (map er_q)); [apply (cm_ctx_query r r' Hev)|]. intros values.
  destruct values as [|v values]; [apply (cm_ret idf)|].
  change (map er_q (v :: values)) with (er_q v :: map er_q values). cbv iota. change (er_q v :: map er_q values) with (map er_q (v :: values)).
  eapply (cm_bind idf).
  - apply (cm_ext (map idf)); [apply map_id'|]. apply (cm_mapM er_q idf). intros each _. destruct each as [rv|rv|u]; cbn [er_q].
    + apply (cm_with_frame idf (FValue rv)). apply cm_gblock_body.
    + apply (cm_with_frame idf (FValue rv)). apply cm_gblock_body.
    + eapply (cm_bind idf); [apply cm_leaf|]. intros _. apply (cm_ret idf).
  - intros sts. apply (cm_ret idf).
Qed.

Lemma cm_param_call_body params n : cm idf (param_call_body prog r params n) (param_call_body (er_prog prog) r' (map er_lv params) n).
Proof.
  destruct n as [dep negation custom]. unfold param_call_body. rewrite find_param_rule_er.
  destruct (find_param_rule prog dep) as [p|]; cbn [option_map]; [|apply cm_failM].
  cbn [er_pr pr_params pr_rule]. rewrite map_length.
  destruct (negb (Nat.eqb (List.length (pr_params p)) (List.length params))); [apply cm_failM|].
  eapply (cm_bind (map (map er_q))).
  - apply (cm_mapM er_lv (map er_q)). intros each _. apply (cm_arg r r' Hev).
  - intros resolved. cbv zeta.
    change (@nil (string * list qres)) with (er_memo []) at 2. rewrite bindings_er.
    apply (cm_with_frame idf (FParams _ dep custom)). apply Hrule.
Qed.

Lemma cm_when_clause_body w : cm idf (when_clause_body re prog r w) (when_clause_body re (er_prog prog) r' (er_wc w)).
Proof.
  destruct w as [g|n|ps n]; cbn [er_wc when_clause_body]; [apply cm_access_clause_body|apply cm_named_clause_body|apply cm_param_call_body].
Qed.

Lemma cm_conds conds : cm idf (cnf_body (when_clause_body re prog r) conds) (cnf_body (when_clause_body re (er_prog prog) r') (er_conds conds)).
Proof. apply (cm_cnf_body er_wc). intros line x _ _. apply cm_when_clause_body. Qed.

Lemma cm_when_block_body conds b :
  cm idf (when_block_body re prog r conds b) (when_block_body re (er_prog prog) r' (er_conds conds) (er_blk b)).
Proof.
  unfold when_block_body. apply cm_node. eapply (cm_bind idf); [apply cm_node, cm_conds|].
  intros cst. destruct cst; [apply cm_gblock_body|apply (cm_ret idf)|apply (cm_ret idf)].
Qed.

Lemma cm_clause_body g : cm idf (clause_body re prog r g) (clause_body re (er_prog prog) r' (er_gc g)).
Proof.
  destruct g as [c|n|ps n|aq b ne|conds b]; cbn [er_gc clause_body].
  - apply cm_access_clause_body.
  - apply cm_named_clause_body.
  - apply cm_param_call_body.
  - apply cm_block_clause_body.
  - apply cm_when_block_body.
Qed.

Lemma cm_go_conds (conds : option when_conditions) k :
  cm idf
     (match conds with Some c => cst <- node (cnf_body (when_clause_body re prog r) c) k ;; ret (status_eqb cst PASS) | None => ret true end)
     (match option_map er_conds conds with Some c => cst <- node (cnf_body (when_clause_body re (er_prog prog) r') c) k ;; ret (status_eqb cst PASS) | None => ret true end).
Proof.
  destruct conds as [c|]; cbn [option_map]; [|apply (cm_ret idf)].
  eapply (cm_bind idf); [apply cm_node, cm_conds|]. intros cst. apply (cm_ret idf).
Qed.

Lemma cm_type_block_body tn conds b q :
  cm idf (type_block_body re prog r tn conds b q) (type_block_body re (er_prog prog) r' tn (option_map er_conds conds) (er_blk b) (er_query q)).
Proof.
  unfold type_block_body. apply cm_node. eapply (cm_bind idf); [apply cm_go_conds|]. intros go.
  destruct (negb go); [apply (cm_ret idf)|].
  eapply (cm_bind (map er_q)); [apply (cm_ctx_query r r' Hev)|]. intros values.
  destruct values as [|v values]; [apply (cm_ret idf)|].
  change (map er_q (v :: values)) with (er_q v :: map er_q values). cbv iota. change (er_q v :: map er_q values) with (map er_q (v :: values)).
  eapply (cm_bind idf).
  - apply (cm_ext (map idf)); [apply map_id'|]. apply (cm_mapM er_q idf). intros each _. destruct each as [rv|rv|u]; cbn [er_q].
    + apply cm_node. apply (cm_with_frame idf (FValue rv)). apply cm_gblock_body.
    + apply cm_node. apply (cm_with_frame idf (FValue rv)). apply cm_gblock_body.
    + apply cm_failM.
  - intros sts. apply (cm_ret idf).
Qed.

Lemma cm_rule_clause_body c : cm idf (rule_clause_body re prog r c) (rule_clause_body re (er_prog prog) r' (er_rc c)).
Proof.
  destruct c as [g|conds b|tn conds b q]; cbn [er_rc rule_clause_body]; [apply Hc|apply cm_when_block_body|apply cm_type_block_body].
Qed.

Lemma cm_rule_body x : cm idf (rule_body re prog r x) (rule_body re (er_prog prog) r' (er_rule x)).
Proof.
  unfold rule_body. cbn [er_rule rule_conditions rule_lets rule_cnf rule_name]. apply cm_node.
  eapply (cm_bind idf); [apply cm_go_conds|]. intros go. destruct (negb go); [apply (cm_ret idf)|].
  eapply (cm_bind er); [apply cm_ctx_root|]. intros root.
  apply (cm_with_frame idf (FBlock root (rule_lets x) [])). apply (cm_cnf_body er_rc). intros line c _ _. apply cm_rule_clause_body.
Qed.

End Clauses.

(* ---------------------------------------------------------------- the induction on the fuel, and what follows *)
Theorem evalN_commutes_with_erasure re conv prog n : ev_cm (evalN re conv prog n) (evalN re conv (er_prog prog) n).
Proof.
  induction n as [|n IH]; cbn [evalN].
  - repeat split; intros; apply cm_oofM.
  - repeat split; cbn [ev_query ev_clause ev_rule ev_resolve ev_fn]; intros.
    + apply (cm_query_body re conv _ _ IH).
    + apply (cm_clause_body re prog _ _ IH).
    + apply (cm_rule_body re prog _ _ IH).
    + apply (cm_resolve_body _ _ IH).
    + apply (cm_fn_body _ _ IH).
Qed.

Theorem eval_file_commutes_with_erasure re conv prog fuel doc :
  dropR (eval_file re conv (er_prog prog) fuel (er doc)) = erO idf (eval_file re conv prog fuel doc).
Proof.
  unfold eval_file. change (init_state (er_prog prog) (er doc)) with (erS (init_state prog doc)).
  pose proof (evalN_commutes_with_erasure re conv prog fuel) as Hev.
  assert (H : cm idf (file_body prog (evalN re conv prog fuel)) (file_body (er_prog prog) (evalN re conv (er_prog prog) fuel))).
  { unfold file_body. apply cm_node. cbn [er_prog rf_rules]. eapply (cm_bind idf).
    - apply (cm_ext (map idf)); [apply map_id'|]. apply (cm_mapM er_rule idf). intros x _. apply (proj1 (proj2 (proj2 Hev))).
    - intros sts. apply (cm_ret idf). }
  apply H.
Qed.

Lemma verdict_dropR (o : outcome (status * list record * state)) : verdict (dropR o) = verdict o.
Proof. destruct o as [[[st recs] s]| | | |]; reflexivity. Qed.
Lemma verdict_erO (o : outcome (status * list record * state)) : verdict (erO idf o) = verdict o.
Proof. destruct o as [[[st recs] s]| | | |]; reflexivity. Qed.

(* the verdict (status, or which error / panic site) of a rules file on a document is that of the erased file on the erased document *)
Theorem verdict_of_erased re conv prog fuel doc :
  verdict (eval_file re conv (er_prog prog) fuel (er doc)) = verdict (eval_file re conv prog fuel doc).
Proof. rewrite <- verdict_dropR, eval_file_commutes_with_erasure, verdict_erO. reflexivity. Qed.

(* a document is looked at only through its content: two documents that are equal up to paths and source positions get the
   same verdict from every rules file, with any oracles, at any fuel *)
Theorem verdict_depends_on_content_only re conv prog fuel d1 d2 :
  er d1 = er d2 -> verdict (eval_file re conv prog fuel d1) = verdict (eval_file re conv prog fuel d2).
Proof. intros E. rewrite <- (verdict_of_erased re conv prog fuel d1), <- (verdict_of_erased re conv prog fuel d2), E. reflexivity. Qed.

(* likewise for the literals of the rules file: where a literal was written does not matter *)
Theorem verdict_depends_on_literal_content_only re conv p1 p2 fuel doc :
  er_prog p1 = er_prog p2 -> verdict (eval_file re conv p1 fuel doc) = verdict (eval_file re conv p2 fuel doc).
Proof. intros E. rewrite <- (verdict_of_erased re conv p1 fuel doc), <- (verdict_of_erased re conv p2 fuel doc), E. reflexivity. Qed.

(* every rule's status as well: the statuses cached in the final state are equal *)
Theorem rule_statuses_depend_on_content_only re conv prog fuel d1 d2 st1 recs1 s1 st2 recs2 s2 :
  er d1 = er d2 ->
  eval_file re conv prog fuel d1 = Done (st1, recs1, s1) -> eval_file re conv prog fuel d2 = Done (st2, recs2, s2) ->
  st1 = st2 /\ statuses s1 = statuses s2.
Proof.
  intros E H1 H2.
  pose proof (eval_file_commutes_with_erasure re conv prog fuel d1) as C1.
  pose proof (eval_file_commutes_with_erasure re conv prog fuel d2) as C2.
  rewrite H1 in C1. rewrite H2 in C2. rewrite E in C1. rewrite C1 in C2. cbn in C2. inversion C2. split; reflexivity.
Qed.

(* loading: the path and the positions a loader attaches do not matter, only the plain value does *)
Lemma er_annotate : forall v p q, er (annotate p v) = er (annotate q v).
Proof.
  fix IH 1. intros v p q. destruct v as [| | | | | | |l|m| | |]; try reflexivity.
  - cbn [annotate er]. f_equal. generalize 0%N as i. induction l as [|x l IHl]; intros i; cbn [map]; [reflexivity|].
    f_equal; [apply IH|apply IHl].
  - cbn [annotate er]. f_equal.
    + rewrite !map_map. apply map_ext. intros kv. reflexivity.
    + induction m as [|[k x] m IHm]; cbn [map fst snd]; [reflexivity|]. f_equal; [f_equal; apply IH|exact IHm].
Qed.

Corollary verdict_of_a_loaded_value re conv prog fuel v p q :
  verdict (eval_file re conv prog fuel (annotate p v)) = verdict (eval_file re conv prog fuel (annotate q v)).
Proof. apply verdict_depends_on_content_only. apply er_annotate. Qed.

(* the premise is met by documents that really differ: the same content at different paths and positions *)
Example erasure_instance :
  let d1 := PMap (mkPath "" 1 1) [PString (mkPath "/a" 1 2) "a"] [("a", PList (mkPath "/a" 1 7) [PInt (mkPath "/a/0" 1 8) 1; PString (mkPath "/a/1" 1 11) "x"])] in
  let d2 := PMap (mkPath "/doc" 7 3) [PString (mkPath "/doc/a" 7 3) "a"] [("a", PList (mkPath "/doc/a" 8 5) [PInt (mkPath "/doc/a/0" 8 7) 1; PString (mkPath "/doc/a/1" 9 7) "x"])] in
  d1 <> d2 /\ er d1 = er d2.
Proof. cbv zeta. split; [discriminate|reflexivity]. Qed.
