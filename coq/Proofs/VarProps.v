(* VarProps.v — the variable-resolution mechanism of SEval (C15): literals, memo, shadowing, unused definitions,
   parameter bindings. *)
From GV.Model Require Import SEval.
From GV.Proofs Require Import EvalLaws.

Section V.
Variable re : re_oracle.
Variable conv : conv_oracle.
Variable prog : rules_file.
Variable r : ev.

(* a variable bound to a literal resolves to exactly that literal, in every state, without touching the state *)
Theorem literal_variable_resolves : forall is_root root lets memo name v s,
  find_literal name lets = Some v ->
  resolve_scope r is_root root lets memo name s = Done ([QLiteral v], [], s).
Proof. intros. unfold resolve_scope. now rewrite H. Qed.

(* ... which is exactly what the literal itself evaluates to as a right-hand side *)
Theorem literal_rhs_value : forall (v : pv) (s : state),
  (ret [QLiteral v] : M (list qres)) s = Done ([QLiteral v], [], s).
Proof. reflexivity. Qed.

(* a bare `%name` query returns what the variable resolves to, unchanged and in order *)
Lemma concat_singletons : forall A (l : list A), List.concat (map (fun x => [x]) l) = l.
Proof. induction l as [|x l IH]; cbn; [reflexivity|]. now rewrite IH. Qed.

Lemma mapM_singletons : forall (F : qres -> M (list qres)) l st,
  (forall x st, F x st = Done ([x], [], st)) ->
  mapM F l st = Done (map (fun x => [x]) l, [], st).
Proof.
  intros F l st HF. induction l as [|x l IH]; cbn [mapM map]; [reflexivity|].
  unfold bind. rewrite HF, IH. reflexivity.
Qed.

Theorem bare_variable_query : forall name cur cv s vals recs s',
  ev_resolve r name s = Done (vals, recs, s') ->
  query_body re conv r 0 [QKey (String "%" name)] cur cv s = Done (vals, recs ++ [], s').
Proof.
  intros name cur cv s vals recs s' H. unfold query_body. cbn [nth_error Nat.eqb part_variable key_variable].
  rewrite Ascii.eqb_refl. unfold bind. rewrite H. unfold concatMapM, bind.
  rewrite mapM_singletons.
  - cbn. now rewrite concat_singletons.
  - intros x st. destruct x; reflexivity.
Qed.

(* every reference sees the same value: once memoised, the stored values are returned and nothing is re-evaluated *)
Theorem memoised_variable_is_returned : forall is_root root lets memo name vals s,
  find_literal name lets = None -> assoc name memo = Some vals ->
  resolve_scope r is_root root lets memo name s = Done (vals, [], s).
Proof. intros. unfold resolve_scope. now rewrite H, H0. Qed.

(* an unused definition changes no lookup of any other name *)
Lemma find_literal_other : forall n v lets name, n <> name -> find_literal name ((n, v) :: lets) = find_literal name lets.
Proof.
  intros. cbn. destruct (find_literal name lets); [reflexivity|]. destruct v; try reflexivity.
  destruct (String.eqb n name) eqn:E; [apply String.eqb_eq in E; congruence|reflexivity].
Qed.
Lemma find_query_other : forall n v lets name, n <> name -> find_query name ((n, v) :: lets) = find_query name lets.
Proof.
  intros. cbn. destruct (find_query name lets); [reflexivity|]. destruct v; try reflexivity.
  destruct (String.eqb n name) eqn:E; [apply String.eqb_eq in E; congruence|reflexivity].
Qed.
Lemma find_function_other : forall n v lets name, n <> name -> find_function name ((n, v) :: lets) = find_function name lets.
Proof.
  intros. cbn. destruct (find_function name lets); [reflexivity|]. destruct v; try reflexivity.
  destruct (String.eqb n name) eqn:E; [apply String.eqb_eq in E; congruence|reflexivity].
Qed.

Theorem unused_definition_irrelevant : forall is_root root n v lets memo name,
  n <> name ->
  resolve_scope r is_root root ((n, v) :: lets) memo name = resolve_scope r is_root root lets memo name.
Proof.
  intros. unfold resolve_scope.
  now rewrite find_literal_other, find_query_other, find_function_other by assumption.
Qed.

(* laziness: a definition that is never referenced is never evaluated - resolution of another name does not
   even mention it (the statement above is an equality of computations, errors included) *)

(* inner definitions shadow outer ones: a block that defines the name never consults its parent *)
Theorem inner_definition_shadows : forall root lets memo rest sts name v,
  find_literal name lets = Some v ->
  resolve_body r name (mkState (FBlock root lets memo :: rest) sts)
  = Done ([QLiteral v], [], mkState (FBlock root lets memo :: rest) sts).
Proof. intros. unfold resolve_body. cbn. unfold resolve_scope. now rewrite H. Qed.

(* an outer variable is evaluated in the scope where it is defined: the lookup moves to the parent frames *)
Theorem outer_variable_goes_to_parent : forall root lets memo rest sts name,
  find_literal name lets = None -> assoc name memo = None ->
  find_function name lets = None -> find_query name lets = None ->
  resolve_body r name (mkState (FBlock root lets memo :: rest) sts)
  = with_parent (ev_resolve r name) (mkState (FBlock root lets memo :: rest) sts).
Proof.
  intros. unfold resolve_body. cbn [frames]. unfold resolve_scope. now rewrite H, H0, H1, H2.
Qed.

(* a value scope (the current value of a block or filter) defines nothing: lookups pass through it *)
Theorem value_scope_is_transparent : forall v rest sts name,
  resolve_body r name (mkState (FValue v :: rest) sts)
  = with_parent (ev_resolve r name) (mkState (FValue v :: rest) sts).
Proof. reflexivity. Qed.

(* parameterised rules: inside the call a parameter resolves to exactly the values its argument evaluated to *)
Theorem parameter_resolves_to_argument : forall bindings call msg rest sts name vals,
  assoc name bindings = Some vals ->
  resolve_body r name (mkState (FParams bindings call msg :: rest) sts)
  = Done (vals, [], mkState (FParams bindings call msg :: rest) sts).
Proof. intros. unfold resolve_body. cbn. now rewrite H. Qed.

End V.
