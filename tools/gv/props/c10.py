"""C10 — reported paths, values and source positions point into the input document (partial).

proof   : Props/C10.v (path annotation of loaded values: every reachable value carries the pointer of its segments and the
          pointer resolves to it; the traversal steps of a query stay inside the document)
tie     : the loader through the hook doc_dump: for generated documents written by a layout-aware emitter (JSON, flow YAML,
          block YAML; random indentation, line breaks, comments) every value's path is compared with the pointer of its
          position in the document and every scalar's line/column with the position at which the emitter wrote it
monitor : the real binary on generated function-free rules with a high miss rate: every from / to / traversed_to path in the
          structured report resolves in the input document to exactly the reported value; for an unresolved check the point
          reached exists and the next queried segment does not; every [L:l,C:c] printed for a path equals the loader's
          location for that path
not modelled: libyaml's scanner (marks) - positions are checked by the correspondence only.
"""
import json, random, os, re
from .. import coqterm as ct
from .. import impl, gen, e2e
from ..common import *


# ---------------------------------------------------------------- layout-aware emitters

class Emitter:
    def __init__(self, rng):
        self.rng = rng
        self.out = []
        self.line = 0
        self.col = 0
        self.pos = {}        # pointer -> (line, col) of scalar values
        self.kpos = {}

    def w(self, s):
        for ch in s:
            self.out.append(ch)
            if ch == '\n':
                self.line += 1
                self.col = 0
            elif ch == '\r':
                pass                      # part of a CRLF break
            else:
                self.col += 1

    def text(self):
        return ''.join(self.out)


def scalar_json(v):
    return json.dumps(v, ensure_ascii=False)


def lead_in(e, rng):
    # empty lines (LF or CRLF) at the very start of the text: positions are those of the whole file
    k = rng.choice([0, 0, 0, 1, 2, 3])
    e.w(rng.choice(['\n', '\n', '\r\n']) * k if k else '')


def emit_json(rng, doc):
    e = Emitter(rng)
    lead_in(e, rng)
    ind = rng.choice([None, 1, 2, 4])
    def sp():
        if rng.random() < 0.2:
            e.w(' ' * rng.choice([1, 2]))
    def nl(depth):
        if ind is None:
            if rng.random() < 0.1:
                e.w('\n')
            return
        e.w('\n' + ' ' * (ind * depth))
    def go(v, ptr, depth):
        if isinstance(v, dict):
            e.w('{')
            first = True
            for k, x in v.items():
                if not first:
                    e.w(',')
                first = False
                nl(depth + 1)
                e.w(json.dumps(k, ensure_ascii=False))
                sp()
                e.w(':')
                e.w(' ' if ind is not None or rng.random() < 0.5 else '')
                go(x, ptr + '/' + k, depth + 1)
            if v:
                nl(depth)
            e.w('}')
        elif isinstance(v, list):
            e.w('[')
            for i, x in enumerate(v):
                if i:
                    e.w(',')
                nl(depth + 1)
                go(x, ptr + '/%d' % i, depth + 1)
            if v:
                nl(depth)
            e.w(']')
        else:
            e.pos[ptr] = (e.line, e.col)
            e.w(scalar_json(v))
    go(doc, '', 0)
    e.w('\n')
    return e.text(), e.pos


PLAIN_OK = re.compile(r'^[A-Za-z_][A-Za-z0-9_\-]*$')


def yaml_scalar(rng, v, flow):
    if isinstance(v, bool):
        return 'true' if v else 'false'
    if v is None:
        return rng.choice(['null', '~'])
    if isinstance(v, (int, float)):
        return scalar_json(v)
    s = v
    if PLAIN_OK.match(s) and s.lower() not in ('true', 'false', 'null', 'yes', 'no', 'on', 'off', 'y', 'n', 'nan', 'inf', 'infinity') and rng.random() < 0.5:
        return s
    if "'" not in s and '\\' not in s and rng.random() < 0.5:
        return "'" + s + "'"
    return json.dumps(s, ensure_ascii=False)


def yaml_key(rng, k):
    if PLAIN_OK.match(k) and k.lower() not in ('true', 'false', 'null', 'yes', 'no', 'on', 'off', 'y', 'n') and rng.random() < 0.8:
        return k
    return json.dumps(k, ensure_ascii=False)


def emit_flow_yaml(rng, doc):
    e = Emitter(rng)
    lead_in(e, rng)
    if rng.random() < 0.3:
        e.w('# generated document\n')
    def brk(depth):
        if rng.random() < 0.25:
            e.w('\n' + ' ' * (2 * depth + 1))
        else:
            e.w(' ')
    def go(v, ptr, depth):
        if isinstance(v, dict):
            e.w('{')
            first = True
            for k, x in v.items():
                if not first:
                    e.w(',')
                    brk(depth)
                first = False
                e.w(yaml_key(rng, k))
                e.w(': ')
                go(x, ptr + '/' + k, depth + 1)
            e.w('}')
        elif isinstance(v, list):
            e.w('[')
            for i, x in enumerate(v):
                if i:
                    e.w(',')
                    brk(depth)
                go(x, ptr + '/%d' % i, depth + 1)
            e.w(']')
        else:
            e.pos[ptr] = (e.line, e.col)
            e.w(yaml_scalar(rng, v, True))
    go(doc, '', 0)
    e.w('\n')
    return e.text(), e.pos


def emit_block_yaml(rng, doc):
    e = Emitter(rng)
    lead_in(e, rng)
    step = rng.choice([2, 3, 4])
    base = rng.choice([0, 0, 0, 2, 3])          # the top-level node may be uniformly indented
    if rng.random() < 0.3:
        e.w('# generated document\n')
    if rng.random() < 0.3:
        e.w('---\n')
    def comment():
        if rng.random() < 0.15:
            e.w(' # note')
    def go(v, ptr, indent, inline_first):
        """writes v starting at the current position; inline_first: we are right after `key: ` or `- `"""
        if isinstance(v, dict) and v:
            first = True
            for k, x in v.items():
                if not (first and inline_first == 'dash'):
                    if not (first and inline_first is None):
                        e.w('\n')
                    e.w(' ' * indent)
                first = False
                e.w(yaml_key(rng, k) + ':')
                if (isinstance(x, dict) and x) or (isinstance(x, list) and x):
                    comment()
                    if isinstance(x, list) and rng.random() < 0.5:
                        go(x, ptr + '/' + k, indent, 'key-nl')        # sequence at the same indentation as the key
                    else:
                        go(x, ptr + '/' + k, indent + step, 'key-nl')
                else:
                    e.w(' ')
                    go(x, ptr + '/' + k, indent + step, 'key')
        elif isinstance(v, list) and v:
            for i, x in enumerate(v):
                if not (i == 0 and inline_first is None):
                    e.w('\n')
                e.w(' ' * indent + '- ')
                if isinstance(x, dict) and x:
                    go(x, ptr + '/%d' % i, indent + 2, 'dash')
                elif isinstance(x, list) and x:
                    # nested sequence: flow form keeps the emitter simple
                    t, pos = emit_flow_inline(rng, x, ptr + '/%d' % i, e)
                else:
                    go(x, ptr + '/%d' % i, indent + 2, 'key')
        else:
            if isinstance(v, dict):
                e.w('{}')
            elif isinstance(v, list):
                e.w('[]')
            else:
                e.pos[ptr] = (e.line, e.col)
                e.w(yaml_scalar(rng, v, False))
                comment()
    def emit_flow_inline(rng, x, ptr, e):
        def g(v, ptr):
            if isinstance(v, dict):
                e.w('{')
                for j, (k, y) in enumerate(v.items()):
                    if j:
                        e.w(', ')
                    e.w(yaml_key(rng, k) + ': ')
                    g(y, ptr + '/' + k)
                e.w('}')
            elif isinstance(v, list):
                e.w('[')
                for j, y in enumerate(v):
                    if j:
                        e.w(', ')
                    g(y, ptr + '/%d' % j)
                e.w(']')
            else:
                e.pos[ptr] = (e.line, e.col)
                e.w(yaml_scalar(rng, v, True))
        g(x, ptr)
        return None, None
    if isinstance(doc, (dict, list)) and doc:
        go(doc, '', base, None)
    else:
        go(doc, '', 0, 'key')
    e.w('\n')
    return e.text(), e.pos


EMITTERS = [('json', emit_json), ('flow-yaml', emit_flow_yaml), ('block-yaml', emit_block_yaml)]


# ---------------------------------------------------------------- loader correspondence

def dump_values(j, out):
    """hook pv dump -> {pointer: (line, col, kind, python value)}"""
    t = j[0]
    path = j[1]
    ptr, line, col = ct.S(path[1]), path[2], path[3]
    if t == 'PList':
        out[ptr] = (line, col, 'list', None)
        for x in ct.L(j[2]):
            dump_values(x, out)
    elif t == 'PMap':
        out[ptr] = (line, col, 'map', None)
        for kv in ct.L(j[2][2]):
            dump_values(kv[2], out)
    else:
        out[ptr] = (line, col, t, j[2] if len(j) > 2 else None)


def py_leaves(doc, ptr, out):
    if isinstance(doc, dict):
        out[ptr] = ('map', None)
        for k, v in doc.items():
            py_leaves(v, ptr + '/' + k, out)
    elif isinstance(doc, list):
        out[ptr] = ('list', None)
        for i, v in enumerate(doc):
            py_leaves(v, ptr + '/%d' % i, out)
    else:
        out[ptr] = ('scalar', doc)


def loader_positions(ctx, n):
    rng = random.Random(ctx.seed * 401 + 10)
    ops, meta = [], []
    for k in range(n):
        doc = gen.gen_doc(rng) if rng.random() < 0.7 else gen.gen_cfn(rng)
        if not isinstance(doc, (dict, list)):
            doc = {'v': doc}
        name, em = EMITTERS[k % len(EMITTERS)]
        text, pos = em(rng, doc)
        ops.append({'op': 'doc', 'data': text, 'loader': 'cli'})
        meta.append((name, doc, text, pos))
    # a document that is a single scalar, not at the start of the text
    for sc in (7, 'abc', True, None, 1.5, 'x y'):
        for prefix in ('', '\n', '\n\n  ', '# c\n\n   ', '---\n', '--- ', '  ', '# a\n# b\n', '---\n# c\n    '):
            text = prefix + scalar_json(sc) + '\n'
            line = prefix.count('\n')
            col = len(prefix) - (prefix.rfind('\n') + 1)
            ops.append({'op': 'doc', 'data': text, 'loader': 'cli'})
            meta.append(('root-scalar', sc, text, {'': (line, col)}))
    res = impl.run_ops_parallel(ops, ctx.wd, 'c10docs')
    checked = 0
    per = {}
    for (name, doc, text, pos), r in zip(meta, res):
        info = {'class': 'loader-position', 'format': name, 'text': text, 'doc': doc}
        rr = r.get('res')
        if not rr or rr[0] != 'Ok':
            ctx.failing('the %s serialisation of a generated document is rejected by the loader: %s' % (name, str(rr)[:200]), info, found=True)
            continue
        got = {}
        dump_values(rr[1], got)
        want = {}
        py_leaves(doc, '', want)
        if set(got) != set(want):
            ctx.failing('loaded document has paths %s, the document has %s' % (sorted(set(got) ^ set(want))[:6], '...'), info, found=True)
            continue
        for ptr, (kind, val) in want.items():
            if kind != 'scalar':
                continue
            checked += 1
            per[name] = per.get(name, 0) + 1
            line, col, t, _ = got[ptr]
            if (line, col) != pos[ptr]:
                ctx.failing('scalar at %s: loader location L:%d,C:%d, it starts at L:%d,C:%d in the %s text' % (ptr or '/', line, col, pos[ptr][0], pos[ptr][1], name),
                            dict(info, pointer=ptr), found=True)
                break
    ctx.coverage['documents_emitted'] = n
    ctx.coverage['scalar_positions_checked'] = checked
    ctx.coverage['scalar_positions_by_format'] = per
    ctx.coverage['evaluations'] += n
    return checked


# ---------------------------------------------------------------- reported paths

def resolve(doc, ptr):
    cur = doc
    if ptr == '':
        return True, cur
    for seg in ptr.split('/')[1:]:
        if isinstance(cur, dict):
            if seg not in cur:
                return False, None
            cur = cur[seg]
        elif isinstance(cur, list):
            if not re.fullmatch(r'\d+', seg) or int(seg) >= len(cur):
                return False, None
            cur = cur[int(seg)]
        else:
            return False, None
    return True, cur


def same(a, b):
    if isinstance(a, float) or isinstance(b, float):
        # an integer of the document must be reported as that integer (not as a float-widened copy), a float as a float
        return isinstance(a, float) and isinstance(b, float) and a == b
    if isinstance(a, dict) and isinstance(b, dict):
        return set(a) == set(b) and all(same(a[k], b[k]) for k in a)
    if isinstance(a, list) and isinstance(b, list):
        return len(a) == len(b) and all(same(x, y) for x, y in zip(a, b))
    return type(a) == type(b) and a == b


def walk_checks(cr, out):
    if 'Rule' in cr:
        for x in cr['Rule']['checks']:
            walk_checks(x, out)
    elif 'Disjunctions' in cr:
        for x in cr['Disjunctions']['checks']:
            walk_checks(x, out)
    else:
        out.append(cr)


def first_segment(remaining):
    m = re.match(r'^\[?([^.\[\]]+)\]?', remaining)
    return m.group(1) if m else None


def alias_spellings(k):
    """other spellings of a PascalCase key that the case converters of the query engine map back to it"""
    if not re.fullmatch(r'[A-Z][A-Za-z]+', k):
        return []
    snake = re.sub(r'(?<!^)([A-Z])', r'_\1', k).lower()
    out = [k[0].lower() + k[1:], snake]
    if '_' in snake:
        out.append('"' + snake.replace('_', '-') + '"')
    return [a for a in out if a.strip('"') != k]


def alias_rules(rng, doc, count):
    """queries that spell ONE key of an existing path in another casing and then ask for a key that does not exist: the
    unresolved value must be reported at the end of the existing path (returns rules text and {rule name: pointer})"""
    paths = [p for p, v in gen.doc_paths(doc) if p and all(isinstance(x, int) or re.fullmatch(r'[A-Za-z][A-Za-z0-9]*', x) for x in p)]
    rng.shuffle(paths)
    text, want = '', {}
    for p in paths:
        if len(want) >= count:
            break
        cand = []
        cur = doc
        for i, seg in enumerate(p):
            if isinstance(cur, dict) and isinstance(seg, str):
                for a in alias_spellings(seg):
                    if a.strip('"') not in cur:
                        cand.append((i, a))
            cur = cur[seg]
        if not cand or (isinstance(cur, dict) and any(k.lower().startswith('zzq') for k in cur)):
            continue
        i, a = rng.choice(cand)
        q = ''
        for j, seg in enumerate(p):
            if isinstance(seg, int):
                q += '[%d]' % seg
            else:
                q += ('.' if q else '') + (a if j == i else seg)
        tail = rng.choice(['zzq', 'zzq.deeper', 'zzq[0]'])
        name = 'alias%d' % len(want)
        text += 'rule %s {\n  %s.%s exists\n}\n' % (name, q, tail)
        want[name] = '/' + '/'.join(str(x) for x in p)
    return text, want


def interp_rules(rng, doc):
    """a struct indexed by the VALUES of a variable (`Struct.%names...`) where one of the names is not a key: the unresolved point
    is the struct that was reached, not the place the name came from. Names taken from the data (a list added to the document),
    from a single data string, and from a literal. Returns (rules text, {rule name: pointer of the struct}, document)"""
    structs = [(p, v) for p, v in gen.doc_paths(doc) if p and isinstance(v, dict) and v and all(isinstance(x, str) and re.fullmatch(r'[A-Za-z][A-Za-z0-9]*', x) for x in p)
               and all(re.fullmatch(r'[A-Za-z][A-Za-z0-9_]*', k) for k in v)]
    if not structs or 'ZzSelected' in doc:
        return '', {}, doc
    p, v = rng.choice(structs)
    q = '.'.join(p)
    have = rng.choice(sorted(v))
    doc = dict(doc)
    doc['ZzSelected'] = [have, 'zz_not_a_key', 'zz_neither']
    doc['ZzOne'] = 'zz_single_missing'
    ptr = '/' + '/'.join(p)
    text = ('rule interp0 {\n  let names = ZzSelected\n  %s.%%names exists\n}\n'
            'rule interp1 {\n  let one = ZzOne\n  %s.%%one.deeper == 987654\n}\n'
            'rule interp2 {\n  let lit = "zz_literal_missing"\n  %s.%%lit exists\n}\n' % (q, q, q))
    return text, {'interp0': ptr, 'interp1': ptr, 'interp2': ptr}, doc


def embedded_rules(doc):
    """strings whose text is itself a document (a policy kept as JSON text, a list, YAML, a number): they are scalars of the input;
    a query that continues below one stops there, and everything reported is the string at its own path.
    Returns (rules text, {rule name: pointer of the string}, document)"""
    if 'ZzEmb' in doc:
        return '', {}, doc
    doc = dict(doc)
    doc['ZzEmb'] = {'obj': json.dumps({'Version': '2012-10-17', 'Statement': [{'Effect': 'Allow', 'Action': '*'}], 'a': 1}),
                    'compact': '{"a":{"b":[1,2]}}', 'lst': '[1, {"a": 2}]', 'yml': 'a: 1', 'num': '12', 'empty': '{}',
                    'holder': [{'Policy': '{"Id": "x", "Statement": []}'}]}
    text = ('rule emb0 {\n  ZzEmb.obj.Statement[*].Action == 987654\n}\n'
            'rule emb1 {\n  ZzEmb.obj.a == 987654\n}\n'
            'rule emb2 {\n  ZzEmb.obj.Missing exists\n}\n'
            'rule emb3 {\n  ZzEmb.compact.a.b[0] == 987654\n}\n'
            'rule emb4 {\n  ZzEmb.lst[0] == 987654\n}\n'
            'rule emb5 {\n  ZzEmb.yml.a == 987654\n}\n'
            'rule emb6 {\n  ZzEmb.empty.k exists\n}\n'
            'rule emb7 {\n  ZzEmb.holder[*].Policy.Id == 987654\n}\n'
            'rule emb8 {\n  ZzEmb.obj {\n    a == 987654\n  }\n}\n')
    want = {'emb0': '/ZzEmb/obj', 'emb1': '/ZzEmb/obj', 'emb2': '/ZzEmb/obj', 'emb3': '/ZzEmb/compact', 'emb4': '/ZzEmb/lst', 'emb5': '/ZzEmb/yml',
            'emb6': '/ZzEmb/empty', 'emb7': '/ZzEmb/holder/0/Policy', 'emb8': '/ZzEmb/obj'}
    return text, want, doc


def reported_paths(ctx, n):
    rng = random.Random(ctx.seed * 401 + 11)
    jobs, scen = [], []
    for k in range(n):
        doc = gen.gen_doc(rng) if rng.random() < 0.6 else gen.gen_cfn(rng)
        if not isinstance(doc, dict):
            doc = {'v': doc}
        prog = gen.ProgGen(rng, doc, {'cycles': 0.0, 'functions': False, 'miss': 0.4, 'captures': False, 'literal_lets': False, 'params': False}).gen_file()
        rules = gen.render_file(prog)
        atext, awant = alias_rules(rng, doc, 3)
        rules += atext
        if k % 3 == 0 and '' not in doc:
            # a map entry whose key is the empty string: the pointer has an empty segment (`//Size`)
            doc = dict(doc)
            doc[''] = {'Size': 5, 'inner': [1, {'a': 2}], '': {'deep': 7}}
            rules += 'rule emptykey {\n  this.*.Size == 987654\n  this.*.inner[*] == 987654\n  this.*.*.deep == 987654\n}\n'
        itext, iwant = '', {}
        if k % 2 == 1:
            itext, iwant, doc = interp_rules(random.Random(ctx.seed * 7919 + k), doc)
            rules += itext
        if k % 2 == 0:
            etext, ewant, doc = embedded_rules(doc)
            rules += etext
            iwant = dict(iwant, **ewant)           # same oracle: every unresolved point of the rule is the named pointer
        if 'ZzIdx' not in doc:
            # explicit indices that are out of bounds (bracket and dotted form, a list of structs, of scalars, of lists, behind [*]): the
            # point reached is the list that is too short
            doc = dict(doc)
            doc['ZzIdx'] = {'l': [{'c': 1}, {'c': 2}], 's': [5], 'n': [[1, 2], [3]]}
            rules += ('rule oob0 {\n  ZzIdx.l[5].c == 987654\n}\nrule oob1 {\n  ZzIdx.l.7 exists\n}\nrule oob2 {\n  ZzIdx.s[1] == 987654\n}\n'
                      'rule oob3 {\n  ZzIdx.n[0][2] == 987654\n}\nrule oob4 {\n  ZzIdx.n[*][5] == 987654\n}\n')
            iwant = dict(iwant, oob0='/ZzIdx/l', oob1='/ZzIdx/l', oob2='/ZzIdx/s', oob3='/ZzIdx/n/0')
        name, em = EMITTERS[k % len(EMITTERS)]
        text, pos = em(rng, doc)
        d = os.path.join(ctx.wd, 'q%d' % k)
        fn = 'd.json' if name == 'json' else 'd.yaml'
        e2e.write_files(d, {'r.guard': rules, fn: text})
        scen.append({'rules': rules, 'doc': doc, 'text': text, 'pos': pos, 'format': name, 'alias': awant, 'interp': iwant})
        jobs.append({'args': ['validate', '-r', 'r.guard', '-d', fn, '--structured', '-o', 'json', '-S', 'none'], 'cwd': d})
    res = e2e.run_many(jobs)
    npaths, nun, nloc, nalias, noob = 0, 0, 0, 0, 0
    ninterp = 0
    nskipped = 0
    for sc, (code, so, se) in zip(scen, res):
        if code not in (0, 19):
            nskipped += 1
            if code == 5:
                raise ToolingError('a generated rules file of the C10 monitor does not parse: %s\n%s' % (se.decode('utf-8', 'replace')[:300], sc['rules'][-400:]))
            continue
        info = {'class': 'reported-path', 'rules': sc['rules'], 'doc': sc['doc'], 'format': sc['format'], 'text': sc['text']}
        try:
            rep = json.loads(so.decode())[0]
        except Exception:
            continue
        leaves = []
        for cr in rep['not_compliant']:
            walk_checks(cr, leaves)
        # the directed alias rules: the unresolved point is the end of the existing path
        seen_alias = set()
        for cr in rep['not_compliant']:
            nm = cr.get('Rule', {}).get('name')
            if nm in sc['alias']:
                seen_alias.add(nm)
                al = []
                walk_checks(cr, al)
                urs = []
                def coll(x):
                    if isinstance(x, dict):
                        if 'traversed_to' in x and 'remaining_query' in x:
                            urs.append(x)
                        for v in x.values():
                            coll(v)
                    elif isinstance(x, list):
                        for v in x:
                            coll(v)
                coll(al)
                nalias += 1
                if len(urs) != 1 or urs[0]['traversed_to']['path'] != sc['alias'][nm] or not (urs[0].get('remaining_query') or '').startswith('zzq'):
                    ctx.failing('a query that reaches %s through a differently cased key and then asks for a missing key reports the unresolved point %s' %
                                (sc['alias'][nm], [(u['traversed_to']['path'], u.get('remaining_query')) for u in urs]), dict(info, rule=nm), found=True)
        for cr in rep['not_compliant']:
            nm = cr.get('Rule', {}).get('name')
            if nm in sc['interp']:
                urs = []
                def coll2(x):
                    if isinstance(x, dict):
                        if 'traversed_to' in x and 'remaining_query' in x:
                            urs.append(x)
                        for v in x.values():
                            coll2(v)
                    elif isinstance(x, list):
                        for v in x:
                            coll2(v)
                coll2(cr)
                ninterp += 1
                bad = [u['traversed_to']['path'] for u in urs if u['traversed_to']['path'] != sc['interp'][nm]]
                if not urs or bad:
                    ctx.failing('a query that cannot continue below %s (a struct indexed by a name that is not a key / a string whose text is a document): the unresolved point is reported at %s' %
                                (sc['interp'][nm], bad or 'no unresolved value at all'), dict(info, rule=nm), found=True)
        for nm in sc['interp']:
            if nm not in [cr.get('Rule', {}).get('name') for cr in rep['not_compliant']]:
                ctx.failing('rule %s indexes a struct by a name that is not a key and is not reported as failing' % nm, dict(info, rule=nm), found=True)
        for nm in sc['alias']:
            if nm not in seen_alias:
                ctx.failing('rule %s asks for a missing key and is not reported as failing' % nm, dict(info, rule=nm), found=True)
        for lf in leaves:
            items = []      # (role, {path, value})
            unresolved = []
            def collect(x, role):
                if isinstance(x, dict):
                    if 'path' in x and 'value' in x and set(x) <= {'path', 'value'}:
                        items.append((role, x))
                    if 'traversed_to' in x and 'remaining_query' in x:
                        unresolved.append(x)
                    for k2, v in x.items():
                        collect(v, k2 if k2 in ('from', 'to') else role)
                elif isinstance(x, list):
                    for v in x:
                        collect(v, role)
            collect(lf, None)
            for role, it in items:
                p = it['path']
                ok, val = resolve(sc['doc'], p)
                if role == 'to' and not (ok and same(val, it['value'])):
                    continue          # the right-hand side is a literal of the rules file (its own paths), not data
                npaths += 1
                if not ok:
                    ctx.failing('reported path %r does not exist in the input document' % p, dict(info, reported=it), found=True)
                elif not same(val, it['value']):
                    ctx.failing('reported path %r resolves to %s, the report shows %s' % (p, json.dumps(val)[:80], json.dumps(it['value'])[:80]), dict(info, reported=it), found=True)
            for u in unresolved:
                nun += 1
                p = u['traversed_to']['path']
                ok, val = resolve(sc['doc'], p)
                if not ok or not same(val, u['traversed_to']['value']):
                    ctx.failing('the point reported as reached (%r) does not resolve to the reported value' % p, dict(info, unresolved=u), found=True)
                    continue
                # an explicit index that is out of bounds: the point reached is the list itself (the path the reason names), and the list
                # is too short for the index
                mo = re.match(r'Array Index out of bounds for path = (/[^\[\s]*|)(?:\[L:\d+,C:\d+\])? on index = (\d+) ', u.get('reason') or '')
                if mo:
                    noob += 1
                    if p != mo.group(1) or not isinstance(val, list) or len(val) > int(mo.group(2)):
                        ctx.failing('index %s out of bounds at %r: the point reported as reached is %r (%s)' % (mo.group(2), mo.group(1), p, 'a list of %d' % len(val) if isinstance(val, list) else type(val).__name__),
                                    dict(info, unresolved={k3: (str(v3)[:300]) for k3, v3 in u.items()}), found=True)
                seg = first_segment(u.get('remaining_query') or '')
                if seg and seg not in ('*', '_') and not seg.startswith('%') and 'filter' not in (u.get('remaining_query') or ''):
                    exists = (isinstance(val, dict) and seg in val) or (isinstance(val, list) and re.fullmatch(r'-?\d+', seg) and abs(int(seg)) < len(val))
                    if exists and isinstance(val, dict):
                        ctx.failing('unresolved check: the next queried segment %r exists at %r' % (seg, p), dict(info, unresolved=u), found=True)
            # locations printed in messages
            for m in re.finditer(r'Path=(/[^\[\s]*)\[L:(\d+),C:(\d+)\]', json.dumps(lf)):
                p, l, c = m.group(1), int(m.group(2)), int(m.group(3))
                if p in sc['pos']:
                    nloc += 1
                    if (l, c) != sc['pos'][p]:
                        ctx.failing('message location of %s is L:%d,C:%d, the scalar starts at L:%d,C:%d' % (p, l, c, sc['pos'][p][0], sc['pos'][p][1]), dict(info, pointer=p), found=True)
    ctx.coverage['reported_paths_checked'] = npaths
    ctx.coverage['unresolved_checks_checked'] = nun
    ctx.coverage['index_out_of_bounds_checked'] = noob
    ctx.coverage['message_locations_checked'] = nloc
    ctx.coverage['case_alias_queries_checked'] = nalias
    ctx.coverage['variable_indexed_structs_checked'] = ninterp
    ctx.coverage['scenarios_with_an_evaluation_error'] = nskipped
    ctx.coverage['evaluations'] += n
    ctx.sample({'rules': scen[0]['rules'], 'format': scen[0]['format'], 'text': scen[0]['text'][:600]})
    return npaths + nun


def run(ctx):
    ctx.build(cli=True)
    pr = ctx.proofs('C10')
    thorough = ctx.tier == 'thorough'
    n1 = loader_positions(ctx, 900 if thorough else 150)
    n2 = reported_paths(ctx, 900 if thorough else 120)
    ctx.coverage['distinct_nontrivial'] = n1 + n2
    ctx.coverage['rule'] = ('documents from tools/gv/gen.py written as JSON (random indentation / compact with random breaks), flow YAML (random breaks, quoting styles, comments) and '
                            'block YAML (indentation 2-4, sequences at key level or indented, comments, document marker); counted: scalar positions compared and reported paths resolved')
    ctx.coverage['trusted_base'] = [
        'Coq 8.16.1 kernel (coqc); no axioms',
        'Value.annotate (modelled, not verified) - tied by comparing every path the loader attaches with the pointer of the value in the generated document',
        'the layout-aware emitters and the pointer resolver of tools/gv/props/c10.py',
    ]
    ctx.assumptions = ['keys contain no "/" (the printed pointer is then unambiguous)', 'line/column come from libyaml marks: not modelled, compared with the emitter only']
    if not pr['ok']:
        ctx.failing('proof obligations of Props/C10.v no longer check: %s' % (pr.get('problems') or pr.get('log', '')[-500:]),
                    {'class': 'proof', 'theorems': pr['theorems']}, found=False)


def replay(ctx, path):
    j = json.load(open(path))
    for v in j.get('violations', []):
        print(json.dumps(v, indent=1)[:3000])
    return 0
