(* PanicPure.v — the value layer never reaches a panic site: comparisons, the operator layer of operators.rs (with the
   invariant that a ListIn result carries a list, which guards the unreachable!() of the negation) and the built-in
   functions called with the arity the parser enforces. Same scripts as TermPure.v with `Panic` in place of `OutOfFuel`.
   Used by PanicProps.v. *)
From GV.Model Require Import SEval Strat.
From GV.Proofs Require Import RefineOps NoPanicProps.

Definition np {A} (o : outcome A) : Prop := forall p, o <> Panic p.

Lemma np_done {A} (a : A) : np (Done a).
Proof. intros p. discriminate. Qed.
Lemma np_err {A} e : np (@Err A e).
Proof. intros p. discriminate. Qed.
Lemma np_oof {A} : np (@OutOfFuel A).
Proof. intros p. discriminate. Qed.
Lemma np_unknown {A} : np (@Unknown A).
Proof. intros p. discriminate. Qed.

Lemma np_obind {A B} (m : outcome A) (f : A -> outcome B) : np m -> (forall a, np (f a)) -> np (obind m f).
Proof. intros Hm Hf. destruct m as [a|e|s| |]; cbn; try (intros p; discriminate); [apply Hf|]. intros p E. apply (Hm s). reflexivity. Qed.

Lemma np_omapM {A B} (f : A -> outcome B) l : (forall x, np (f x)) -> np (omapM f l).
Proof.
  intros Hf. induction l as [|x l IH]; cbn [omapM]; [apply np_done|].
  apply np_obind; [apply Hf|]. intros y. apply np_obind; [exact IH|]. intros ys. apply np_done.
Qed.

Ltac np_step :=
  first
  [ assumption
  | apply np_done | apply np_err | apply np_oof | apply np_unknown
  | apply np_obind; [|intros ?]
  | apply np_omapM; intros ?
  | match goal with |- np (match ?x with _ => _ end) => destruct x end
  | match goal with |- np (if ?x then _ else _) => destruct x end ].
Ltac nps := repeat np_step.

Section WithRegex.
Variable re : re_oracle.

Lemma np_regex_cmp_eq r s : np (regex_cmp_eq re r s).
Proof. unfold regex_cmp_eq. nps. Qed.
Lemma np_regex_partial_eq r s : np (regex_partial_eq re r s).
Proof. unfold regex_partial_eq. nps. Qed.

Lemma np_cmp_with f a b : np (cmp_with f a b).
Proof. unfold cmp_with. nps. Qed.

Lemma np_compare_eq a : forall b, np (compare_eq re a b).
Proof.
  induction a as [p|p s|p s|p b0|p z|p f|p c|p l IH|p ks vals IH|p lo hi i|p lo hi i|p lo hi i] using pv_ind'; intros b;
    destruct b; cbn [compare_eq]; try (nps; fail); try apply np_regex_cmp_eq.
  - (* lists *)
    destruct (Nat.eqb (List.length l) (List.length l0)); [|apply np_done].
    revert l0. induction IH as [|x l Hx _ IHl]; intros l0; [destruct l0; apply np_done|].
    destruct l0 as [|y l0]; [apply np_done|]. apply np_obind; [apply Hx|]. intros e. destruct e; [apply IHl|apply np_done].
  - (* maps *)
    destruct (Nat.eqb (List.length vals) (List.length vals0)); [|apply np_done].
    induction vals as [|[k v] vals IHv]; [apply np_done|]. cbn [map] in IH. inversion IH as [|? ? Hv Hrest]; subst.
    destruct (map_get k vals0); [|apply np_done]. apply np_obind; [apply Hv|]. intros e. destruct e; [apply IHv; exact Hrest|apply np_done].
Qed.

Lemma np_partial_eq a : forall b, np (partial_eq re a b).
Proof.
  induction a as [p|p s|p s|p b0|p z|p f|p c|p l IH|p ks vals IH|p lo hi i|p lo hi i|p lo hi i] using pv_ind'; intros b;
    destruct b; cbn [partial_eq]; try (nps; fail); try apply np_regex_partial_eq.
  - destruct (Nat.eqb (List.length l) (List.length l0)); [|apply np_done].
    revert l0. induction IH as [|x l Hx _ IHl]; intros l0; [destruct l0; apply np_done|].
    destruct l0 as [|y l0]; [apply np_done|]. apply np_obind; [apply Hx|]. intros e. destruct e; [apply IHl|apply np_done].
  - destruct (Nat.eqb (List.length vals) (List.length vals0)); [|apply np_done].
    induction vals as [|[k v] vals IHv]; [apply np_done|]. cbn [map] in IH. inversion IH as [|? ? Hv Hrest]; subst.
    destruct (map_get k vals0); [|apply np_done]. apply np_obind; [apply Hv|]. intros e. destruct e; [apply IHv; exact Hrest|apply np_done].
Qed.

Lemma np_contains_pv l x : np (contains_pv re l x).
Proof. induction l as [|y l IH]; cbn [contains_pv]; [apply np_done|]. apply np_obind; [apply np_partial_eq|]. intros e. destruct e; [apply np_done|exact IH]. Qed.

Lemma np_not_contained l other : np (not_contained re l other).
Proof. induction l as [|x l IH]; cbn [not_contained]; [apply np_done|]. apply np_obind; [apply np_contains_pv|]. intros c. apply np_obind; [exact IH|]. intros r. apply np_done. Qed.

Lemma np_match_value cmpf l r : np (cmpf l r) -> np (match_value cmpf l r).
Proof. intros H. unfold match_value. destruct (cmpf l r) as [[]|[]|s| |] eqn:E; try (intros p; discriminate). exfalso. apply (H s). reflexivity. Qed.

Lemma np_try_cmp cmpf l r : np (cmpf l r) -> np (try_cmp cmpf l r).
Proof. intros H. unfold try_cmp. destruct (cmpf l r) as [b|[]|s| |] eqn:E; try (intros p; discriminate). exfalso. apply (H s). reflexivity. Qed.

Lemma np_contained_in l r : np (contained_in re l r).
Proof.
  unfold contained_in.
  repeat first [ apply np_contains_pv | apply np_not_contained | apply np_match_value, np_compare_eq | np_step ].
Qed.

Lemma np_common_compare cmpf lhs rhs : (forall a b, np (cmpf a b)) -> np (common_compare cmpf lhs rhs).
Proof. intros H. unfold common_compare. repeat first [apply np_match_value, H | np_step]. Qed.

Lemma np_in_compare lhs rhs : np (in_compare re lhs rhs).
Proof.
  unfold in_compare.
  destruct (is_literal lhs) as [l|], (is_literal rhs) as [r|];
    try (repeat first [ apply np_contained_in | apply np_not_contained | np_step ]; fail).
  apply np_obind; [|intros ?; apply np_done].
  generalize (selected_values lhs) as lv. generalize (selected_values rhs) as rv. intros rv lv.
  induction lv as [|x lv IH]; [apply np_done|].
  cbn -[contained_in].
  apply np_obind.
  - clear IH. induction rv as [|y rv IHr]; [apply np_done|].
    cbn -[contained_in].
    apply np_obind; [apply np_contained_in|]. intros c. destruct (is_success c); [apply np_done|exact IHr].
  - intros found. apply np_obind; [exact IH|]. intros d. apply np_done.
Qed.

Lemma np_eq_compare lhs rhs : np (eq_compare re lhs rhs).
Proof.
  unfold eq_compare.
  repeat first [ apply np_match_value, np_compare_eq | apply np_not_contained | np_step ].
Qed.

Lemma np_op_compare op lhs rhs : np (op_compare re op lhs rhs).
Proof.
  unfold op_compare.
  repeat first [ apply np_eq_compare | apply np_in_compare | apply np_common_compare; intros ? ?; apply np_cmp_with | np_step ].
Qed.

Lemma np_not_compare cmpf inv l r : np (cmpf l r) -> np (not_compare cmpf inv l r).
Proof. intros H. unfold not_compare. nps. Qed.

Lemma np_in_cmp ni l r : np (in_cmp re ni l r).
Proof. unfold in_cmp. repeat first [apply np_compare_eq | np_step]. Qed.

Theorem np_each_lhs_compare cmpf l rhs : (forall a b, np (cmpf a b)) -> np (each_lhs_compare cmpf l rhs).
Proof. intros H. unfold each_lhs_compare. repeat first [apply np_try_cmp, H | np_step]. Qed.

End WithRegex.

(* functions *)
Lemma np_unary_op c inverse base v : np (base v) -> np (unary_op c inverse base v).
Proof. intros H. unfold unary_op. nps. Qed.

Lemma np_unary_base o base v : unary_base o = Some base -> np (base v).
Proof.
  destruct o; cbn; intros E; inversion E; subst; unfold exists_operation, element_empty_operation, is_type_operation; nps.
Qed.

Lemma np_retrieve_index parent i elements q : np (retrieve_index parent i elements q).
Proof. unfold retrieve_index, abs_index. cbn. apply np_done. Qed.

Lemma np_call_fn name args : List.length args = fn_arity name -> np (call_fn name args).
Proof. intros H p. apply modelled_functions_never_panic. exact H. Qed.

(* ------------------------------------------------------------------ *)
(* the invariant that guards the unreachable!() of the negation: a ListIn result carries a list *)

Definition post {A} (P : A -> Prop) (o : outcome A) : Prop := forall a, o = Done a -> P a.

Lemma post_done {A} (P : A -> Prop) a : P a -> post P (Done a).
Proof. intros H b E. inversion E; subst. exact H. Qed.
Lemma post_obind {A B} (Q : A -> Prop) (P : B -> Prop) (m : outcome A) (f : A -> outcome B) :
  post Q m -> (forall a, Q a -> post P (f a)) -> post P (obind m f).
Proof. intros Hm Hf b E. destruct m as [a| | | |]; cbn in E; try discriminate. exact (Hf a (Hm a eq_refl) b E). Qed.
Lemma post_omapM {A B} (Q : B -> Prop) (f : A -> outcome B) l : (forall x, post Q (f x)) -> post (Forall Q) (omapM f l).
Proof.
  intros Hf. induction l as [|x l IH]; cbn [omapM]; [apply post_done; constructor|].
  eapply post_obind; [apply Hf|]. intros y Hy. eapply post_obind; [exact IH|]. intros ys Hys. apply post_done. constructor; assumption.
Qed.
Lemma post_true {A} (o : outcome A) : post (fun _ => True) o.
Proof. intros a _. exact I. Qed.
Lemma post_weaken {A} (P Q : A -> Prop) o : (forall a, P a -> Q a) -> post P o -> post Q o.
Proof. intros H Hp a E. apply H, Hp, E. Qed.

Notation wfl := (Forall wf_result).

Lemma wfl_app a b : wfl a -> wfl b -> wfl (a ++ b).
Proof. intros. apply Forall_app. split; assumption. Qed.
Lemma wfl_concat ll : Forall wfl ll -> wfl (List.concat ll).
Proof. induction 1; cbn; [constructor|apply wfl_app; assumption]. Qed.
Lemma wfl_map_true {A} (f : A -> value_eval_result) l : (forall x, wf_result (f x)) -> wfl (map f l).
Proof. intros H. induction l; cbn; constructor; auto. Qed.
Lemma wfl_flat_map_true {A} (f : A -> list value_eval_result) l : (forall x, wfl (f x)) -> wfl (flat_map f l).
Proof. intros H. induction l; cbn; [constructor|apply wfl_app; auto]. Qed.

Section Wf.
Variable re : re_oracle.

Lemma post_match_value cmpf l r : post wf_result (match_value cmpf l r).
Proof. intros e E. eapply match_value_wf; exact E. Qed.
Lemma post_contained_in l r : post wf_result (contained_in re l r).
Proof. intros e E. eapply contained_in_wf; exact E. Qed.
Lemma wf_string_in l r : wf_result (string_in l r).
Proof. unfold string_in. destruct l, r; try exact I. destruct (str_contains _ _); exact I. Qed.
Lemma wf_query_in_result d a b : wf_result (query_in_result d a b).
Proof. unfold query_in_result. destruct d; exact I. Qed.

Lemma post_common_compare cmpf lhs rhs : post wfl (common_compare cmpf lhs rhs).
Proof.
  unfold common_compare. eapply post_obind.
  - apply (post_omapM wfl). intros l. apply (post_omapM wf_result). intros r. apply post_match_value.
  - intros r3 H3. apply post_done. apply wfl_app; [apply wfl_map_true; intros; exact I|].
    apply wfl_app; [apply wfl_flat_map_true; intros; apply wfl_map_true; intros; exact I|]. apply wfl_concat. exact H3.
Qed.

Lemma wfl_rhs_unresolved l rhs : wfl (rhs_unresolved_for l rhs).
Proof. unfold rhs_unresolved_for. apply wfl_map_true. intros; exact I. Qed.

Lemma post_in_compare lhs rhs : post wfl (in_compare re lhs rhs).
Proof.
  unfold in_compare. destruct (is_literal lhs) as [l|], (is_literal rhs) as [r|].
  - destruct (is_success (string_in l r)); [apply post_done; constructor; [apply wf_string_in|constructor]|].
    eapply post_obind; [apply post_contained_in|]. intros c Hc. apply post_done. constructor; [exact Hc|constructor].
  - destruct (existsb is_list (selected_values rhs)).
    + eapply post_obind; [apply (post_omapM wf_result); intros x; apply post_contained_in|].
      intros r2 H2. apply post_done. apply wfl_app; [apply wfl_rhs_unresolved|exact H2].
    + destruct l; try (eapply post_obind; [apply (post_omapM wf_result); intros x; apply post_contained_in|];
                       intros r2 H2; apply post_done; apply wfl_app; [apply wfl_rhs_unresolved|exact H2]).
      eapply post_obind; [apply post_true|]. intros diff _. apply post_done. apply wfl_app; [apply wfl_rhs_unresolved|].
      constructor; [apply wf_query_in_result|constructor].
  - eapply post_obind.
    + apply (post_omapM wfl). intros l.
      repeat first [ apply post_done | eapply post_obind; [apply post_contained_in|intros ? ?] | apply wf_string_in
                   | apply wfl_map_true; intros ? | assumption | exact I | constructor
                   | match goal with |- post _ (match ?x with _ => _ end) => destruct x end ].
    + intros r2 H2. apply post_done. apply wfl_app; [apply wfl_map_true; intros; exact I|apply wfl_concat; exact H2].
  - eapply post_obind; [apply post_true|]. intros diff _. apply post_done.
    apply wfl_app; [apply wfl_map_true; intros; exact I|].
    apply wfl_app; [apply wfl_flat_map_true; intros; apply wfl_map_true; intros; exact I|].
    constructor; [apply wf_query_in_result|constructor].
Qed.

Lemma post_eq_compare lhs rhs : post wfl (eq_compare re lhs rhs).
Proof.
  unfold eq_compare.
  assert (Hone : forall a b, post wfl (c <-- match_value (compare_eq re) a b ;; Done [c])).
  { intros a b. eapply post_obind; [apply post_match_value|]. intros c Hc. apply post_done. constructor; [exact Hc|constructor]. }
  assert (Hg : forall single eachr, post wfl (match eachr with
                                              | PList _ rhsl => omapM (fun e => match_value (compare_eq re) single e) rhsl
                                              | rest => c <-- match_value (compare_eq re) single rest ;; Done [c]
                                              end)).
  { intros single eachr. destruct eachr; try apply Hone. apply (post_omapM wf_result). intros e. apply post_match_value. }
  assert (Hh : forall r each, post wfl (match each with
                                        | PList _ lhs_list => omapM (fun e => match_value (compare_eq re) e r) lhs_list
                                        | _ => c <-- match_value (compare_eq re) each r ;; Done [c]
                                        end)).
  { intros r each. destruct each; try apply Hone. apply (post_omapM wf_result). intros e. apply post_match_value. }
  destruct (is_literal lhs) as [l|], (is_literal rhs) as [r|].
  - apply Hone.
  - destruct l;
      try (eapply post_obind; [apply (post_omapM wfl); intros eachr; apply Hg|];
           intros r2 H2; apply post_done; apply wfl_app; [apply wfl_rhs_unresolved|apply wfl_concat; exact H2]).
    eapply post_obind; [apply (post_omapM wf_result); intros e; apply post_match_value|].
    intros r2 H2. apply post_done. apply wfl_app; [apply wfl_rhs_unresolved|exact H2].
  - destruct r;
      try (eapply post_obind; [apply (post_omapM wfl); intros each; apply Hh|];
           intros r2 H2; apply post_done; apply wfl_app; [apply wfl_map_true; intros; exact I|apply wfl_concat; exact H2]).
    eapply post_obind.
    + apply (post_omapM wf_result). intros each. destruct l as [|single [|? ?]]; try apply post_match_value.
      destruct (is_scalar each); apply post_match_value.
    + intros r2 H2. apply post_done. apply wfl_app; [apply wfl_map_true; intros; exact I|exact H2].
  - eapply post_obind; [apply post_true|]. intros diff _. apply post_done.
    apply wfl_app; [apply wfl_map_true; intros; exact I|].
    apply wfl_app; [apply wfl_flat_map_true; intros; apply wfl_map_true; intros; exact I|].
    constructor; [apply wf_query_in_result|constructor].
Qed.

Lemma post_op_compare op lhs rhs : post (fun r => match r with EResult l => wfl l | ESkip => True end) (op_compare re op lhs rhs).
Proof.
  unfold op_compare. destruct lhs as [|x lhs']; [apply post_done; exact I|]. destruct rhs as [|y rhs']; [apply post_done; exact I|].
  destruct op; try (intros a E; discriminate);
    (eapply post_obind; [first [apply post_eq_compare|apply post_in_compare|apply post_common_compare]|]; intros r Hr; apply post_done; exact Hr).
Qed.

Lemma np_negate_result op n m e : wf_result e -> np (negate_result re op n m e).
Proof. intros H p. apply negate_result_no_panic; [exact H|]. intros l1 l2 s. apply np_not_contained. Qed.

Theorem np_cmp_compare c lhs rhs : np (cmp_compare re c lhs rhs).
Proof.
  unfold cmp_compare. pose proof (post_op_compare (fst c) lhs rhs) as Hp.
  destruct (op_compare re (fst c) lhs rhs) as [r| | | |] eqn:E; cbn [obind]; try (intros p; discriminate).
  - specialize (Hp r eq_refl). destruct r as [|l]; [apply np_done|]. destruct (snd c); [|apply np_done].
    apply np_obind; [|intros ?; apply np_done].
    clear E. induction Hp as [|e l He _ IH]; cbn [omapM]; [apply np_done|].
    apply np_obind; [apply np_negate_result; exact He|]. intros y. apply np_obind; [exact IH|]. intros ys. apply np_done.
  - exfalso. exact (np_op_compare re (fst c) lhs rhs s E).
Qed.

End Wf.
