(* ErasePure.v — the value layer is blind to paths: comparisons (Compare.v), the operator layer (Operators.v) and the
   built-in functions (Functions.v) commute with the erasure of paths and source positions:
       f (er x) = omap er_result (f x).
   Used by EraseProps.v (the evaluator commutes with erasure). *)
From GV.Model Require Import Erase.
From GV.Proofs Require Import RefineOps.
Local Open Scope nat_scope.

Lemma omap_obind {A B C} (m : outcome A) (f : A -> outcome B) (g : B -> C) :
  omap g (obind m f) = obind m (fun a => omap g (f a)).
Proof. destruct m; reflexivity. Qed.

Lemma obind_er {A B A' B'} (ea : A -> A') (eb : B -> B') m m' (f : A -> outcome B) (f' : A' -> outcome B') :
  m' = omap ea m -> (forall a, f' (ea a) = omap eb (f a)) -> obind m' f' = omap eb (obind m f).
Proof. intros -> Hf. destruct m; cbn; auto. Qed.

Lemma omapM_er {A B A' B'} (ex : A -> A') (eb : B -> B') (f : A -> outcome B) (f' : A' -> outcome B') l :
  (forall x, f' (ex x) = omap eb (f x)) -> omapM f' (map ex l) = omap (map eb) (omapM f l).
Proof.
  intros Hf. induction l as [|x l IH]; cbn [map omapM]; [reflexivity|].
  rewrite Hf. destruct (f x); cbn; try reflexivity. rewrite IH. destruct (omapM f l); reflexivity.
Qed.

Lemma omapM_er_in {A B A' B'} (ex : A -> A') (eb : B -> B') (f : A -> outcome B) (f' : A' -> outcome B') l :
  (forall x, In x l -> f' (ex x) = omap eb (f x)) -> omapM f' (map ex l) = omap (map eb) (omapM f l).
Proof.
  intros Hf. induction l as [|x l IH]; cbn [map omapM]; [reflexivity|].
  rewrite Hf by (left; reflexivity). destruct (f x); cbn; try reflexivity.
  rewrite IH by (intros y Hy; apply Hf; right; exact Hy). destruct (omapM f l); reflexivity.
Qed.

Lemma map_get_er k vals : map_get k (er_vals vals) = option_map er (map_get k vals).
Proof.
  unfold map_get, er_vals. induction vals as [|[k' v] vals IH]; cbn; [reflexivity|].
  destruct (String.eqb k k'); [reflexivity|exact IH].
Qed.

Lemma self_path_er v : self_path (er v) = root_path.
Proof. destruct v; reflexivity. Qed.

Lemma type_of_er v : type_of (er v) = type_of v.
Proof. destruct v; reflexivity. Qed.
Lemma is_list_er v : is_list (er v) = is_list v.
Proof. destruct v; reflexivity. Qed.
Lemma is_scalar_er v : is_scalar (er v) = is_scalar v.
Proof. destruct v; reflexivity. Qed.
Lemma is_null_er v : is_null (er v) = is_null v.
Proof. destruct v; reflexivity. Qed.

Lemma compare_values_er a b : compare_values (er a) (er b) = compare_values a b.
Proof. destruct a, b; reflexivity. Qed.

Lemma cmp_with_er f a b : cmp_with f (er a) (er b) = cmp_with f a b.
Proof. unfold cmp_with. now rewrite compare_values_er. Qed.

Section WithRegex.
Variable re : re_oracle.

Lemma compare_eq_er a : forall b, compare_eq re (er a) (er b) = compare_eq re a b.
Proof.
  induction a as [p|p s|p s|p b0|p z|p f|p c|p l IH|p ks vals IH|p lo hi i|p lo hi i|p lo hi i] using pv_ind'; intros b;
    destruct b; try reflexivity.
  - (* lists *)
    cbn [er compare_eq]. rewrite !map_length. destruct (Nat.eqb (List.length l) (List.length l0)); [|reflexivity].
    revert l0. induction IH as [|x l Hx _ IHl]; intros l0; [destruct l0; reflexivity|].
    destruct l0 as [|y l0]; [reflexivity|]. cbn [map]. rewrite Hx. destruct (compare_eq re x y) as [[|]| | | |]; cbn; try reflexivity. apply IHl.
  - (* structs *)
    cbn [er compare_eq]. rewrite !map_length. destruct (Nat.eqb (List.length vals) (List.length vals0)); [|reflexivity].
    induction vals as [|[k v] vals IHv]; [reflexivity|]. cbn [map] in IH. inversion IH as [|? ? Hv Hrest]; subst. cbn [map fst snd].
    fold (er_vals vals0). rewrite map_get_er. destruct (map_get k vals0) as [v2|]; cbn [option_map]; [|reflexivity].
    rewrite Hv. destruct (compare_eq re v v2) as [[|]| | | |]; cbn; try reflexivity. apply IHv. exact Hrest.
Qed.

Lemma partial_eq_er a : forall b, partial_eq re (er a) (er b) = partial_eq re a b.
Proof.
  induction a as [p|p s|p s|p b0|p z|p f|p c|p l IH|p ks vals IH|p lo hi i|p lo hi i|p lo hi i] using pv_ind'; intros b;
    destruct b; try reflexivity.
  - cbn [er partial_eq]. rewrite !map_length. destruct (Nat.eqb (List.length l) (List.length l0)); [|reflexivity].
    revert l0. induction IH as [|x l Hx _ IHl]; intros l0; [destruct l0; reflexivity|].
    destruct l0 as [|y l0]; [reflexivity|]. cbn [map]. rewrite Hx. destruct (partial_eq re x y) as [[|]| | | |]; cbn; try reflexivity. apply IHl.
  - cbn [er partial_eq]. rewrite !map_length. destruct (Nat.eqb (List.length vals) (List.length vals0)); [|reflexivity].
    induction vals as [|[k v] vals IHv]; [reflexivity|]. cbn [map] in IH. inversion IH as [|? ? Hv Hrest]; subst. cbn [map fst snd].
    fold (er_vals vals0). rewrite map_get_er. destruct (map_get k vals0) as [v2|]; cbn [option_map]; [|reflexivity].
    rewrite Hv. destruct (partial_eq re v v2) as [[|]| | | |]; cbn; try reflexivity. apply IHv. exact Hrest.
Qed.

Lemma contains_pv_er l x : contains_pv re (map er l) (er x) = contains_pv re l x.
Proof. induction l as [|y l IH]; cbn; [reflexivity|]. rewrite partial_eq_er. destruct (partial_eq re y x) as [[|]| | | |]; cbn; auto. Qed.

Lemma not_contained_er l other : not_contained re (map er l) (map er other) = omap (map er) (not_contained re l other).
Proof.
  induction l as [|x l IH]; cbn [map not_contained]; [reflexivity|].
  rewrite contains_pv_er. destruct (contains_pv re other x) as [c| | | |]; cbn; try reflexivity.
  rewrite IH. destruct (not_contained re l other); cbn; try reflexivity. destruct c; reflexivity.
Qed.

Lemma match_value_er cmpf l r : (forall a b, cmpf (er a) (er b) = cmpf a b) ->
  match_value cmpf (er l) (er r) = omap er_ver (match_value cmpf l r).
Proof. intros H. unfold match_value. rewrite H. destruct (cmpf l r) as [[|]|[]| | |]; reflexivity. Qed.

Lemma selected_values_er l : selected_values (map er_q l) = map er (selected_values l).
Proof. induction l as [|[v|v|u] l IH]; cbn; congruence. Qed.
Lemma selected_unres_er l : selected_unres (map er_q l) = map er_u (selected_unres l).
Proof. induction l as [|[v|v|u] l IH]; cbn; congruence. Qed.

Lemma flatten_values_er l : flatten_values (map er l) = map er (flatten_values l).
Proof.
  unfold flatten_values. induction l as [|v l IH]; cbn [map flat_map]; [reflexivity|].
  rewrite IH, map_app. f_equal. destruct v; reflexivity.
Qed.

Lemma is_literal_er l : is_literal (map er_q l) = option_map er (is_literal l).
Proof. destruct l as [|[v|v|u] [|y l]]; reflexivity. Qed.

Lemma string_in_er l r : string_in (er l) (er r) = er_ver (string_in l r).
Proof. destruct l, r; try reflexivity. cbn. destruct (str_contains s0 s); reflexivity. Qed.

Lemma is_success_er v : is_success (er_ver v) = is_success v.
Proof. destruct v as [u|[k|k|l r|u l]]; reflexivity. Qed.

Lemma contained_in_nonlist l r : is_list l = false ->
  contained_in re l r =
  match r with
  | PList _ rhsl =>
      obind (contains_pv re rhsl l) (fun c => Done (if c then VComparison (CRSuccess (CValueIn l r)) else VComparison (CRFail (CValueIn l r))))
  | _ => match_value (compare_eq re) l r
  end.
Proof. destruct l; try discriminate; reflexivity. Qed.

Lemma contained_in_er l r : contained_in re (er l) (er r) = omap er_ver (contained_in re l r).
Proof.
  assert (Hmv : forall a b, match_value (compare_eq re) (er a) (er b) = omap er_ver (match_value (compare_eq re) a b))
    by (intros; apply match_value_er; intros; apply compare_eq_er).
  destruct (is_list l) eqn:El.
  - destruct l; try discriminate. destruct r; try reflexivity. cbn [er contained_in].
    assert (E : (match map er l0 with x :: _ => is_list x | [] => false end) = (match l0 with x :: _ => is_list x | [] => false end))
      by (destruct l0; cbn; [reflexivity|apply is_list_er]).
    rewrite E. destruct (match l0 with x :: _ => is_list x | [] => false end).
    + change (PList root_path (map er l)) with (er (PList p l)). rewrite contains_pv_er.
      destruct (contains_pv re l0 (PList p l)) as [[|]| | | |]; reflexivity.
    + rewrite not_contained_er. destruct (not_contained re l l0) as [[|d ds]| | | |]; reflexivity.
  - rewrite !contained_in_nonlist by (rewrite ?is_list_er; exact El).
    destruct r; try (exact (Hmv l _)).
    cbn [er]. rewrite contains_pv_er. destruct (contains_pv re l0 l) as [[|]| | | |]; reflexivity.
Qed.

Lemma concat_map_map {A B} (f : A -> B) (l : list (list A)) : List.concat (map (map f) l) = map f (List.concat l).
Proof. induction l as [|x l IH]; cbn; [reflexivity|]. now rewrite IH, map_app. Qed.

Lemma flat_map_er {A B A' B'} (ea : A -> A') (eb : B -> B') (f : A -> list B) (f' : A' -> list B') l :
  (forall x, f' (ea x) = map eb (f x)) -> flat_map f' (map ea l) = map eb (flat_map f l).
Proof. intros H. induction l as [|x l IH]; cbn; [reflexivity|]. now rewrite H, IH, map_app. Qed.

Lemma common_compare_er cmpf lhs rhs : (forall a b, cmpf (er a) (er b) = cmpf a b) ->
  common_compare cmpf (map er_q lhs) (map er_q rhs) = omap (map er_ver) (common_compare cmpf lhs rhs).
Proof.
  intros H. unfold common_compare. rewrite !selected_values_er, !selected_unres_er, !flatten_values_er.
  erewrite (obind_er (map (map er_ver)) (map er_ver)); [reflexivity| |].
  - apply omapM_er. intros l. apply omapM_er. intros r. apply match_value_er. exact H.
  - intros r3. cbn [omap]. rewrite !map_app. f_equal. f_equal; [|f_equal].
    + rewrite !map_map. reflexivity.
    + rewrite (flat_map_er er_u er_ver (fun ur => map (fun l => VComparison (CRRhsUnresolved ur l)) (flatten_values (selected_values lhs)))); [reflexivity|].
      intros u. rewrite !map_map. reflexivity.
    + apply concat_map_map.
Qed.

Lemma rhs_unresolved_for_er l rhs : rhs_unresolved_for (er l) (map er_q rhs) = map er_ver (rhs_unresolved_for l rhs).
Proof. unfold rhs_unresolved_for. rewrite selected_unres_er, !map_map. reflexivity. Qed.

Lemma query_in_result_er d l r : query_in_result (map er d) (map er l) (map er r) = er_ver (query_in_result d l r).
Proof. destruct d; reflexivity. Qed.

Lemma existsb_map {A B} (f : A -> B) p l : existsb p (map f l) = existsb (fun x => p (f x)) l.
Proof. induction l; cbn; congruence. Qed.

Lemma in_compare_er lhs rhs : in_compare re (map er_q lhs) (map er_q rhs) = omap (map er_ver) (in_compare re lhs rhs).
Proof.
  unfold in_compare. rewrite !is_literal_er.
  destruct (is_literal lhs) as [l|], (is_literal rhs) as [r|]; cbn [option_map].
  - rewrite string_in_er, is_success_er. destruct (is_success (string_in l r)); [reflexivity|].
    rewrite contained_in_er. destruct (contained_in re l r); reflexivity.
  - rewrite rhs_unresolved_for_er, selected_values_er.
    assert (E : existsb is_list (map er (selected_values rhs)) = existsb is_list (selected_values rhs))
      by (rewrite existsb_map; induction (selected_values rhs) as [|x0 l0 IH0]; cbn; [reflexivity|now rewrite is_list_er, IH0]).
    rewrite E.
    assert (Hc : omapM (contained_in re (er l)) (map er (selected_values rhs)) = omap (map er_ver) (omapM (contained_in re l) (selected_values rhs)))
      by (apply omapM_er; intros; apply contained_in_er).
    destruct (existsb is_list (selected_values rhs)).
    + rewrite Hc. destruct (omapM (contained_in re l) (selected_values rhs)); cbn; try reflexivity. now rewrite map_app.
    + clear Hc. destruct l; cbn [er];
        try (match goal with |- obind (omapM (contained_in re ?EL) (map er ?RV)) _ = omap _ (obind (omapM (contained_in re ?L) ?RV) _) =>
               rewrite (omapM_er er er_ver (contained_in re L) (contained_in re EL) RV (fun x => contained_in_er L x)) end;
             destruct (omapM _ (selected_values rhs)); cbn; try reflexivity; now rewrite map_app).
      rewrite not_contained_er. destruct (not_contained re l (selected_values rhs)); cbn; try reflexivity.
      rewrite map_app. cbn. f_equal. f_equal. f_equal.
      change [PList root_path (map er l)] with (map er [PList p l]). apply query_in_result_er.
  - rewrite selected_unres_er, selected_values_er.
    erewrite (obind_er (map (map er_ver)) (map er_ver)); [reflexivity| |].
    + apply omapM_er. intros l. destruct r; cbn [er];
        try (match goal with |- obind (contained_in re (er l) ?R) _ = _ =>
               match goal with |- context [contained_in re l ?R0] => change R with (er R0) end end;
             rewrite contained_in_er; destruct (contained_in re l _); reflexivity).
      destruct l; cbn [er]; try reflexivity.
      * cbn. destruct (str_contains s s0); reflexivity.
      * cbn. rewrite !map_map. f_equal. apply map_ext. intros e. apply (string_in_er e (PString p s)).
    + intros r2. cbn. rewrite map_app, !map_map. f_equal. f_equal. apply concat_map_map.
  - rewrite !selected_unres_er, !selected_values_er.
    set (lv := selected_values lhs). set (rv := selected_values rhs).
    assert (Hany : forall x, (fix any (rs : list pv) : outcome bool :=
                      match rs with [] => Done false | y :: rs' => obind (contained_in re (er x) y) (fun c => if is_success c then Done true else any rs') end) (map er rv)
                   = (fix any (rs : list pv) : outcome bool :=
                      match rs with [] => Done false | y :: rs' => obind (contained_in re x y) (fun c => if is_success c then Done true else any rs') end) rv).
    { intros x. induction rv as [|y rv IHr]; [reflexivity|]. cbn [map]. rewrite contained_in_er.
      destruct (contained_in re x y) as [c| | | |]; cbn; try reflexivity. rewrite is_success_er. destruct (is_success c); [reflexivity|exact IHr]. }
    erewrite (obind_er (map er) (map er_ver)); [reflexivity| |].
    + induction lv as [|x lv IHl]; [reflexivity|]. cbn [map]. rewrite Hany.
      match goal with |- obind ?A _ = omap _ (obind ?A _) => destruct A as [found| | | |] end; cbn; try reflexivity.
      rewrite IHl. match goal with |- obind (omap _ ?B) _ = _ => destruct B end; cbn; try reflexivity. destruct found; reflexivity.
    + intros d. cbn [omap]. rewrite !map_app. f_equal. f_equal; [|f_equal].
      * rewrite !map_map. reflexivity.
      * rewrite (flat_map_er er_u er_ver (fun ur => map (fun l => VComparison (CRRhsUnresolved ur l)) lv)); [reflexivity|].
        intros u. rewrite !map_map. reflexivity.
      * cbn. f_equal. apply query_in_result_er.
Qed.

End WithRegex.

Section WithRegex2.
Variable re : re_oracle.

Lemma mv_eq_er l r : match_value (compare_eq re) (er l) (er r) = omap er_ver (match_value (compare_eq re) l r).
Proof. apply match_value_er. intros. apply compare_eq_er. Qed.

Lemma obind_single_er (l r : pv) :
  obind (match_value (compare_eq re) (er l) (er r)) (fun c => Done [c])
  = omap (map er_ver) (obind (match_value (compare_eq re) l r) (fun c => Done [c])).
Proof. rewrite mv_eq_er. destruct (match_value (compare_eq re) l r); reflexivity. Qed.

Lemma eq_lhs_single_er (r : pv) X :
  omapM (fun each => match each with
                     | PList _ lhs_list => omapM (fun e => match_value (compare_eq re) e (er r)) lhs_list
                     | _ => obind (match_value (compare_eq re) each (er r)) (fun c => Done [c])
                     end) (map er X)
  = omap (map (map er_ver)) (omapM (fun each => match each with
                     | PList _ lhs_list => omapM (fun e => match_value (compare_eq re) e r) lhs_list
                     | _ => obind (match_value (compare_eq re) each r) (fun c => Done [c])
                     end) X).
Proof.
  apply omapM_er. intros x. destruct x; try (exact (obind_single_er _ r)).
  cbn [er]. apply omapM_er. intros e. apply mv_eq_er.
Qed.

Lemma eq_none_some_single_er (r : pv) lhs :
  obind (omapM (fun each => match each with
                     | PList _ lhs_list => omapM (fun e => match_value (compare_eq re) e (er r)) lhs_list
                     | _ => obind (match_value (compare_eq re) each (er r)) (fun c => Done [c])
                     end) (map er (selected_values lhs)))
        (fun r2 => Done (map VLhsUnresolved (map er_u (selected_unres lhs)) ++ List.concat r2))
  = omap (map er_ver) (obind (omapM (fun each => match each with
                     | PList _ lhs_list => omapM (fun e => match_value (compare_eq re) e r) lhs_list
                     | _ => obind (match_value (compare_eq re) each r) (fun c => Done [c])
                     end) (selected_values lhs))
        (fun r2 => Done (map VLhsUnresolved (selected_unres lhs) ++ List.concat r2))).
Proof.
  erewrite (obind_er (map (map er_ver)) (map er_ver)); [reflexivity|apply eq_lhs_single_er|].
  intros r2. cbn. rewrite map_app, !map_map. f_equal. f_equal. apply concat_map_map.
Qed.

Lemma eq_compare_er lhs rhs : eq_compare re (map er_q lhs) (map er_q rhs) = omap (map er_ver) (eq_compare re lhs rhs).
Proof.
  unfold eq_compare. rewrite !is_literal_er.
  destruct (is_literal lhs) as [l|], (is_literal rhs) as [r|]; cbn [option_map].
  - apply obind_single_er.
  - rewrite rhs_unresolved_for_er, selected_values_er.
    assert (Hl : forall (X : list pv),
              obind (omapM (fun each => match_value (compare_eq re) (er l) each) (map er X)) (fun r2 => Done (map er_ver (rhs_unresolved_for l rhs) ++ r2))
              = omap (map er_ver) (obind (omapM (fun each => match_value (compare_eq re) l each) X) (fun r2 => Done (rhs_unresolved_for l rhs ++ r2)))).
    { intros X. erewrite (obind_er (map er_ver) (map er_ver)); [reflexivity| |].
      - apply omapM_er. intros x. apply mv_eq_er.
      - intros r2. cbn. now rewrite map_app. }
    assert (Hs : forall (X : list pv),
              obind (omapM (fun eachr => match eachr with
                                         | PList _ rhsl => omapM (fun e => match_value (compare_eq re) (er l) e) rhsl
                                         | rest => obind (match_value (compare_eq re) (er l) rest) (fun c => Done [c])
                                         end) (map er X)) (fun r2 => Done (map er_ver (rhs_unresolved_for l rhs) ++ List.concat r2))
              = omap (map er_ver) (obind (omapM (fun eachr => match eachr with
                                         | PList _ rhsl => omapM (fun e => match_value (compare_eq re) l e) rhsl
                                         | rest => obind (match_value (compare_eq re) l rest) (fun c => Done [c])
                                         end) X) (fun r2 => Done (rhs_unresolved_for l rhs ++ List.concat r2)))).
    { intros X. erewrite (obind_er (map (map er_ver)) (map er_ver)); [reflexivity| |].
      - apply omapM_er. intros x. destruct x; try (exact (obind_single_er l _)).
        cbn [er]. apply omapM_er. intros e. apply mv_eq_er.
      - intros r2. cbn. rewrite map_app. f_equal. f_equal. apply concat_map_map. }
    destruct l; try (exact (Hs _)). exact (Hl _).
  - rewrite selected_unres_er, selected_values_er.
    destruct r as [p|p s|p s|p b|p z|p f|p c|p l|p ks vals|p lo hi i|p lo hi i|p lo hi i]; cbn [er].
    all: try (exact (eq_none_some_single_er (PNull p) lhs)).
    all: try (exact (eq_none_some_single_er (PString p s) lhs)).
    all: try (exact (eq_none_some_single_er (PRegex p s) lhs)).
    all: try (exact (eq_none_some_single_er (PBool p b) lhs)).
    all: try (exact (eq_none_some_single_er (PInt p z) lhs)).
    all: try (exact (eq_none_some_single_er (PFloat p f) lhs)).
    all: try (exact (eq_none_some_single_er (PChar p c) lhs)).
    all: try (exact (eq_none_some_single_er (PMap p ks vals) lhs)).
    all: try (exact (eq_none_some_single_er (PRangeInt p lo hi i) lhs)).
    all: try (exact (eq_none_some_single_er (PRangeFloat p lo hi i) lhs)).
    all: try (exact (eq_none_some_single_er (PRangeChar p lo hi i) lhs)).
    (* rhs literal is a list *)
    erewrite (obind_er (map er_ver) (map er_ver)); [reflexivity| |].
    + apply omapM_er. intros x. destruct l as [|single [|y l']]; cbn [map].
      * exact (mv_eq_er x (PList p [])).
      * rewrite is_scalar_er. destruct (is_scalar x); [apply mv_eq_er|exact (mv_eq_er x (PList p [single]))].
      * exact (mv_eq_er x (PList p (single :: y :: l'))).
    + intros r2. cbn. rewrite map_app, !map_map. reflexivity.
  - rewrite !selected_unres_er, !selected_values_er, !map_length.
    erewrite (obind_er (map er) (map er_ver)); [reflexivity| |].
    + destruct (Nat.ltb _ _); apply not_contained_er.
    + intros d. cbn [omap]. rewrite !map_app. f_equal. f_equal; [|f_equal].
      * rewrite !map_map. reflexivity.
      * rewrite (flat_map_er er_u er_ver (fun ur => map (fun l => VComparison (CRRhsUnresolved ur l)) (selected_values lhs))); [reflexivity|].
        intros u. rewrite !map_map. reflexivity.
      * cbn. f_equal. apply query_in_result_er.
Qed.

Lemma op_compare_er op lhs rhs : op_compare re op (map er_q lhs) (map er_q rhs) = omap er_eres (op_compare re op lhs rhs).
Proof.
  unfold op_compare. destruct lhs as [|a lhs]; [reflexivity|]. destruct rhs as [|b rhs]; [reflexivity|].
  change (er_q a :: map er_q lhs) with (map er_q (a :: lhs)). change (er_q b :: map er_q rhs) with (map er_q (b :: rhs)).
  cbn [map]. change (er_q a :: map er_q lhs) with (map er_q (a :: lhs)). change (er_q b :: map er_q rhs) with (map er_q (b :: rhs)).
  destruct op; try reflexivity.
  - rewrite eq_compare_er. destruct (eq_compare re (a :: lhs) (b :: rhs)); reflexivity.
  - rewrite in_compare_er. destruct (in_compare re (a :: lhs) (b :: rhs)); reflexivity.
  - rewrite common_compare_er by (intros; apply cmp_with_er). destruct (common_compare compare_gt (a :: lhs) (b :: rhs)); reflexivity.
  - rewrite common_compare_er by (intros; apply cmp_with_er). destruct (common_compare compare_lt (a :: lhs) (b :: rhs)); reflexivity.
  - rewrite common_compare_er by (intros; apply cmp_with_er). destruct (common_compare compare_le (a :: lhs) (b :: rhs)); reflexivity.
  - rewrite common_compare_er by (intros; apply cmp_with_er). destruct (common_compare compare_ge (a :: lhs) (b :: rhs)); reflexivity.
Qed.

Lemma negate_result_er op n m e : negate_result re op n m (er_ver e) = omap er_ver (negate_result re op n m e).
Proof.
  unfold negate_result, reverse_diff.
  destruct e as [u|[k|k|l r|u l]]; try reflexivity; destruct k as [l r|d ql qr|d l r|l r]; cbn [er_ver er_cr er_ck]; try reflexivity.
  - destruct l; reflexivity.
  - destruct (Nat.leb n m && cmp_op_eqb op OEq); rewrite not_contained_er;
      match goal with |- obind (omap _ ?X) _ = _ => destruct X as [[|x xs]| | | |] end; reflexivity.
  - destruct l; try reflexivity. cbn [er]. rewrite not_contained_er. destruct (not_contained re l d) as [[|x xs]| | | |]; reflexivity.
Qed.

Lemma cmp_compare_er c lhs rhs : cmp_compare re c (map er_q lhs) (map er_q rhs) = omap er_eres (cmp_compare re c lhs rhs).
Proof.
  unfold cmp_compare. rewrite op_compare_er. destruct (op_compare re (fst c) lhs rhs) as [[|l]| | | |]; cbn; try reflexivity.
  destruct (snd c); [|reflexivity]. rewrite !map_length.
  rewrite (omapM_er er_ver er_ver (negate_result re (fst c) (List.length lhs) (List.length rhs)) (negate_result re (fst c) (List.length lhs) (List.length rhs)))
    by (intros; apply negate_result_er).
  destruct (omapM _ l); reflexivity.
Qed.

(* the reporting step: the (value, status) pairs handed on (the clause check goes to the record tree) *)
Lemma report_binary_er c custom e :
  map (fun t => (snd (fst t), snd t)) (report_binary c custom (er_ver e))
  = map (fun t => (er_q (snd (fst t)), snd t)) (report_binary c custom e).
Proof.
  destruct e as [u|[k|k|l r|u l]]; try reflexivity; destruct k; cbn; rewrite ?map_map; reflexivity.
Qed.

(* the older per-value kernel of `keys` filters *)
Lemma not_compare_er cmpf inv l r : (forall a b, cmpf (er a) (er b) = cmpf a b) -> not_compare cmpf inv (er l) (er r) = not_compare cmpf inv l r.
Proof. intros H. unfold not_compare. now rewrite H. Qed.

Lemma in_cmp_er ni l r : in_cmp re ni (er l) (er r) = in_cmp re ni l r.
Proof.
  assert (Hl : forall xs, omapM (fun each => compare_eq re (er l) each) (map er xs) = omapM (fun each => compare_eq re l each) xs).
  { intros xs. rewrite (omapM_er er (fun b : bool => b) (fun each => compare_eq re l each) (fun each => compare_eq re (er l) each)).
    - destruct (omapM _ xs); cbn; try reflexivity. now rewrite map_id.
    - intros x. rewrite compare_eq_er. destruct (compare_eq re l x); reflexivity. }
  unfold in_cmp. destruct r; cbn [er]; try (destruct l; cbn [er]; try reflexivity;
    match goal with |- obind (compare_eq re ?A ?B) _ = obind (compare_eq re ?C ?D) _ => change A with (er C); change B with (er D); rewrite compare_eq_er; reflexivity end).
  destruct l; cbn [er]; match goal with |- obind (omapM (fun each => compare_eq re ?A each) _) _ = obind (omapM (fun each => compare_eq re ?C each) _) _ =>
    change A with (er C); rewrite Hl; reflexivity end.
Qed.

Lemma try_cmp_er cmpf l r : (forall a b, cmpf (er a) (er b) = cmpf a b) -> try_cmp cmpf (er l) (er r) = try_cmp cmpf l r.
Proof. intros H. unfold try_cmp. now rewrite H. Qed.

Lemma each_lhs_compare_er cmpf l rhs : (forall a b, cmpf (er a) (er b) = cmpf a b) ->
  each_lhs_compare cmpf (er l) (map er_q rhs) = omap (map er_old) (each_lhs_compare cmpf l rhs).
Proof.
  intros H. unfold each_lhs_compare.
  erewrite (obind_er (map (map er_old)) (map er_old)); [reflexivity| |intros r; cbn; f_equal; apply concat_map_map].
  apply omapM_er. intros q.
  assert (Hin : forall rv inner, omapM (fun each => obind (try_cmp cmpf each (er rv)) (fun o' => Done (match o' with Some b => OComparable b each (er rv) | None => ONotComparable each (er rv) end))) (map er inner)
                = omap (map er_old) (omapM (fun each => obind (try_cmp cmpf each rv) (fun o' => Done (match o' with Some b => OComparable b each rv | None => ONotComparable each rv end))) inner)).
  { intros rv inner. apply omapM_er. intros e. rewrite try_cmp_er by exact H. destruct (try_cmp cmpf e rv) as [[b|]| | | |]; reflexivity. }
  destruct q as [rv|rv|u]; cbn [er_q]; [| |reflexivity].
  - rewrite try_cmp_er by exact H. destruct (try_cmp cmpf l rv) as [[b|]| | | |]; cbn; try reflexivity.
    destruct l; cbn [er]; try (rewrite ?is_scalar_er; cbn;
      try (destruct rv as [| | | | | | |? [|single [|? ?]]| | | |]; cbn [er map]; try reflexivity;
           match goal with |- obind (try_cmp cmpf ?A ?B) _ = _ => idtac end));
      try (match goal with |- obind (try_cmp cmpf ?A (er ?S)) _ = omap _ (obind (try_cmp cmpf ?C ?S) _) =>
                change A with (er C); rewrite try_cmp_er by exact H; destruct (try_cmp cmpf C S) as [[?|]| | | |]; reflexivity end);
      try apply Hin.
  - rewrite try_cmp_er by exact H. destruct (try_cmp cmpf l rv) as [[b|]| | | |]; cbn; try reflexivity.
    destruct l; cbn [er]; try (rewrite ?is_scalar_er; cbn; destruct rv; reflexivity).
    apply Hin.
Qed.

End WithRegex2.

(* ---------------------------------------------------------------- built-in functions *)
Lemma qres_path_er a : qres_path (er_q a) = root_path.
Proof. destruct a as [v|v|u]; cbn; apply self_path_er. Qed.

Lemma filter_rl_er args : List.length (filter is_resolved_or_literal (map er_q args)) = List.length (filter is_resolved_or_literal args).
Proof. induction args as [|[v|v|u] args IH]; cbn; congruence. Qed.

Lemma fn_count_er args : fn_count (map er_q args) = er (fn_count args).
Proof.
  destruct args as [|a args]; [reflexivity|]. unfold fn_count. cbn [map]. rewrite qres_path_er.
  change (er_q a :: map er_q args) with (map er_q (a :: args)). rewrite filter_rl_er. reflexivity.
Qed.

Lemma join_strings_er args : join_strings (map er_q args) = join_strings args.
Proof.
  induction args as [|a args IH]; [reflexivity|]. destruct a as [v|v|u]; cbn [map er_q join_strings]; try reflexivity;
    destruct v; cbn [er]; try reflexivity; rewrite IH; reflexivity.
Qed.

Lemma fn_join_er args d : fn_join (map er_q args) d = omap er (fn_join args d).
Proof.
  unfold fn_join. rewrite join_strings_er. destruct (join_strings args); cbn; try reflexivity.
  destruct args as [|a0 args]; [reflexivity|]. cbn [map]. rewrite qres_path_er. reflexivity.
Qed.

Lemma map_strings_er f args : (forall p s, f root_path s = omap (option_map er) (f p s)) ->
  map_strings f (map er_q args) = omap (map (option_map er)) (map_strings f args).
Proof.
  intros H. unfold map_strings. apply omapM_er. intros q. destruct q as [v|v|u]; try reflexivity; destruct v; try reflexivity; apply H.
Qed.

Lemma first_arg_value_er l : first_arg_value (map er_q l) = omap (option_map er) (first_arg_value l).
Proof. destruct l as [|[v|v|u] l]; reflexivity. Qed.

Lemma parse_int_one_er q : parse_int_one (er_q q) = omap (option_map er) (parse_int_one q).
Proof.
  destruct q as [v|v|u]; try reflexivity; destruct v; try reflexivity; cbn.
  all: try (destruct (parse_i64 s); reflexivity).
  all: destruct (N.leb 48 c && N.leb c 57); reflexivity.
Qed.
Lemma parse_bool_one_er q : parse_bool_one (er_q q) = omap (option_map er) (parse_bool_one q).
Proof.
  destruct q as [v|v|u]; try reflexivity; destruct v; try reflexivity; cbn.
  all: destruct (is_ascii_str s); [|reflexivity]; destruct (String.eqb _ "true"); [reflexivity|]; destruct (String.eqb _ "false"); reflexivity.
Qed.
Lemma parse_str_one_er q : parse_str_one (er_q q) = omap (option_map er) (parse_str_one q).
Proof.
  destruct q as [v|v|u]; try reflexivity; destruct v; try reflexivity; cbn.
  all: destruct (N.ltb c 128); reflexivity.
Qed.

Lemma nth_error_map' {A B} (f : A -> B) l n : nth_error (map f l) n = option_map f (nth_error l n).
Proof. revert l. induction n as [|n IH]; intros [|x l]; cbn; auto. Qed.

Theorem call_fn_er name args : call_fn name (map (map er_q) args) = omap (map (option_map er)) (call_fn name args).
Proof.
  unfold call_fn. rewrite !nth_error_map'.
  destruct name; try reflexivity.
  - destruct (nth_error args 0) as [a|]; cbn [option_map]; [|reflexivity]. now rewrite fn_count_er.
  - destruct (nth_error args 0) as [a0|], (nth_error args 1) as [a1|]; cbn [option_map]; try reflexivity.
    rewrite first_arg_value_er. destruct (first_arg_value a1) as [[d|]| | | |]; cbn; try reflexivity.
    destruct d; cbn [er]; try reflexivity.
    + rewrite fn_join_er. destruct (fn_join a0 s); reflexivity.
    + destruct (N.ltb c 128); [|reflexivity]. rewrite fn_join_er. destruct (fn_join a0 _); reflexivity.
  - destruct (nth_error args 0) as [a|]; cbn [option_map]; [|reflexivity].
    apply omapM_er. apply parse_bool_one_er.
  - destruct (nth_error args 0) as [a|]; cbn [option_map]; [|reflexivity].
    apply omapM_er. apply parse_int_one_er.
  - destruct (nth_error args 0) as [a|]; cbn [option_map]; [|reflexivity].
    apply omapM_er. apply parse_str_one_er.
  - destruct (nth_error args 0) as [a0|], (nth_error args 1) as [a1|], (nth_error args 2) as [a2|]; cbn [option_map]; try reflexivity.
    rewrite first_arg_value_er. destruct (first_arg_value a1) as [[f|]| | | |]; cbn; try reflexivity.
    destruct f; cbn [er]; try reflexivity.
    rewrite first_arg_value_er. destruct (first_arg_value a2) as [[t|]| | | |]; cbn; try reflexivity.
    destruct t; cbn [er]; try reflexivity.
    unfold fn_substring. apply map_strings_er. intros ? s.
    destruct (negb (str_is_empty s) && Nat.ltb _ _ && Nat.leb _ _ && Nat.leb _ _); [|reflexivity].
    destruct (is_char_boundary s _ && is_char_boundary s _); reflexivity.
  - destruct (nth_error args 0) as [a|]; cbn [option_map]; [|reflexivity].
    unfold fn_to_lower. apply map_strings_er. intros p s. destruct (is_ascii_str s); reflexivity.
  - destruct (nth_error args 0) as [a|]; cbn [option_map]; [|reflexivity].
    unfold fn_to_upper. apply map_strings_er. intros p s. destruct (is_ascii_str s); reflexivity.
Qed.

(* the comparisons the evaluator asks for do not see paths *)
Theorem comparisons_are_path_blind re c lhs rhs :
  cmp_compare re c (map er_q lhs) (map er_q rhs) = omap er_eres (cmp_compare re c lhs rhs).
Proof. apply cmp_compare_er. Qed.
