(* ThisProps.v — an explicit leading `this` in front of a query means the query itself, in the documented semantics
   (Model/Spec.v): for the selection of the query and for the clause built on it.  (The implementation model refines Spec:
   RefineProps / RefineFile.)  Where Spec says nothing about the query without `this` (SOut) nothing is claimed. *)
From GV.Model Require Import Spec.

Section This.
Variable re : re_oracle.
Variable lit_ok : pv -> bool.
Variable r : sev.

Definition head_not_variable (q : query) : Prop :=
  match q with [] => False | p :: _ => part_is_variable p = false end.

Lemma walk_after_this env q v : walk r env None q v <> SOut -> walk r env (Some QThis) q v = walk r env None q v.
Proof.
  destruct q as [|p rest]; [reflexivity|]. cbn [walk]. destruct p as [|k|n c w|n|n|i|n cnf]; try reflexivity.
  destruct n; [reflexivity|]. destruct v; try (intros H; exfalso; apply H; reflexivity); reflexivity.
Qed.

Theorem leading_this_selects_the_same env q : head_not_variable q -> query_s lit_ok r env q <> SOut ->
  query_s lit_ok r env (QThis :: q) = query_s lit_ok r env q.
Proof.
  intros Hh Hq. destruct q as [|p rest]; [destruct Hh|]. cbn [head_not_variable] in Hh.
  assert (E : query_s lit_ok r env (p :: rest) = sbind (cur_value env) (fun v => walk r env None (p :: rest) v)).
  { unfold query_s. destruct p; try reflexivity. unfold part_is_variable, part_variable in Hh. destruct (key_variable k); [discriminate|reflexivity]. }
  rewrite E in *. unfold query_s at 1. destruct (cur_value env) as [v| |]; cbn [sbind] in *; try reflexivity.
  change (walk r env None (QThis :: p :: rest) v) with (walk r env (Some QThis) (p :: rest) v). now apply walk_after_this.
Qed.

Theorem leading_this_same_clause env q all c w m neg : head_not_variable q -> query_s lit_ok r env q <> SOut ->
  access_s re lit_ok r env (GuardAccessClause (AccessQuery (QThis :: q) all) c w m neg) =
  access_s re lit_ok r env (GuardAccessClause (AccessQuery q all) c w m neg).
Proof.
  intros Hh Hq. unfold access_s. destruct c as [o ng]. cbn [aq_query aq_all]. rewrite (leading_this_selects_the_same env q Hh Hq).
  destruct q as [|p rest]; [destruct Hh|]. cbn [head_not_variable] in Hh.
  assert (E1 : match rev (QThis :: p :: rest) with p0 :: _ => is_filter_part p0 | [] => false end =
               match rev (p :: rest) with p0 :: _ => is_filter_part p0 | [] => false end).
  { change (QThis :: p :: rest) with ([QThis] ++ (p :: rest))%list. rewrite rev_app_distr. destruct (rev (p :: rest)) eqn:E; [|reflexivity].
    apply (f_equal (@List.length _)) in E. rewrite rev_length in E. discriminate. }
  rewrite E1.
  assert (E2 : match p :: rest with [p0] => part_is_variable p0 | _ => false end = false).
  { destruct rest; [exact Hh|reflexivity]. }
  rewrite E2. reflexivity.
Qed.

End This.
