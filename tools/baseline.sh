#!/bin/sh
# Runs the repository's pinned test suite (hook cfg OFF) with nextest, as BASELINE.json does,
# and compares the set of passing tests with BASELINE.json's stable_pass list.
# usage: tools/baseline.sh [repo_dir]
REPO=${1:-/repo}
cd "$REPO" || exit 2
OUT=$(mktemp)
CARGO_NET_OFFLINE=true cargo nextest run --workspace --no-fail-fast --offline --test-threads 8 > "$OUT" 2>&1
python3 - "$OUT" <<'PY'
import sys, re, json
out = open(sys.argv[1], errors='replace').read()
base = json.load(open('/root/.vp/BASELINE.json'))
stable = set(base['stable_pass'])
passed, failed = set(), set()
for m in re.finditer(r'^\s*(PASS|FAIL)\s+\[[^\]]*\]\s+(?:\(\s*\d+/\d+\)\s+)?(\S+)\s+(\S+)\s*$', out, re.M):
    name = m.group(2) + '::' + m.group(3)
    (passed if m.group(1) == 'PASS' else failed).add(name)
missing = sorted(stable - passed)
print('baseline stable tests: %d, passing now: %d, stable tests not passing: %d, failing: %d (baseline always_fail: %d)' % (
    len(stable), len(passed), len(missing), len(failed), len(base.get('always_fail', []))))
for m in missing[:30]:
    print('  NOT PASSING', m)
sys.exit(1 if missing or not passed else 0)
PY
rc=$?
rm -f "$OUT"
exit $rc
