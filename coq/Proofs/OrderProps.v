(* OrderProps.v — order and repetition of clauses, lines and rules (C04). *)
From GV.Model Require Import SEval.
From GV.Proofs Require Import StatusProps EvalLaws.
From Coq Require Import Permutation.

(* a clause evaluator is state-transparent on xs in the state s when each x evaluates in s to a status
   g x and gives s back unchanged (records may be emitted) *)
Definition transparent_at {T} (s : state) (f : T -> M status) (g : T -> status) (xs : list T) : Prop :=
  forall x, In x xs -> exists recs, f x s = Done (g x, recs, s).

(* ... in every state *)
Definition transparent {T} (f : T -> M status) (g : T -> status) (xs : list T) : Prop :=
  forall x, In x xs -> forall s, exists recs, f x s = Done (g x, recs, s).

Lemma transparent_everywhere {T} (f : T -> M status) g xs : transparent f g xs -> forall s, transparent_at s f g xs.
Proof. intros H s x Hx. apply H. exact Hx. Qed.

Lemma disjunction_status_cons_skip l : disjunction_status (SKIP :: l) = disjunction_status l.
Proof. reflexivity. Qed.

Lemma disj_body_transparent_at {T} (f : T -> M status) g l s :
  transparent_at s f g l ->
  forall failed, exists recs,
    disj_body f l failed s
    = Done (disjunction_status ((if failed then [FAIL] else []) ++ map g l), recs, s).
Proof.
  induction l as [|x l IH]; intros Ht failed; cbn [disj_body map].
  - exists []. rewrite app_nil_r. destruct failed; reflexivity.
  - destruct (Ht x (or_introl eq_refl)) as [r1 Hx].
    assert (Ht' : transparent_at s f g l) by (intros y Hy; apply Ht; right; exact Hy).
    unfold bind. rewrite Hx. destruct (g x) eqn:Eg.
    + exists (r1 ++ []). cbn. f_equal. f_equal. f_equal.
      unfold disjunction_status. rewrite existsb_app. cbn. rewrite Bool.orb_true_r. reflexivity.
    + destruct (IH Ht' true) as [r2 H2]. rewrite H2. exists (r1 ++ r2). f_equal. f_equal. f_equal.
      unfold disjunction_status. rewrite !existsb_app. cbn.
      destruct failed; cbn; rewrite ?Bool.orb_false_r; reflexivity.
    + destruct (IH Ht' failed) as [r2 H2]. rewrite H2. exists (r1 ++ r2). f_equal. f_equal. f_equal.
      unfold disjunction_status. rewrite !existsb_app. cbn. reflexivity.
Qed.

Lemma line_body_transparent_at {T} (f : T -> M status) g line s :
  transparent_at s f g line ->
  exists recs, line_body f line s = Done (disjunction_status (map g line), recs, s).
Proof.
  intros Ht. unfold line_body.
  destruct (disj_body_transparent_at f g line s Ht false) as [recs H]. cbn [app] in H.
  destruct line as [|x [|y l]]; try (exists recs; exact H).
  unfold node. rewrite H. eexists. reflexivity.
Qed.

Lemma mapM_transparent_at {A} (f : A -> M status) (g : A -> status) l s :
  (forall x, In x l -> exists recs, f x s = Done (g x, recs, s)) ->
  exists recs, mapM f l s = Done (map g l, recs, s).
Proof.
  induction l as [|x l IH]; intros H; cbn [mapM map].
  - exists []. reflexivity.
  - destruct (H x (or_introl eq_refl)) as [r1 Hx].
    destruct (IH (fun y Hy => H y (or_intror Hy))) as [r2 Hl].
    unfold bind. rewrite Hx, Hl. cbn. eexists. reflexivity.
Qed.

(* a body over clauses that are state-transparent in s computes the CNF of the clause statuses *)
Theorem cnf_body_transparent_at {T} (f : T -> M status) g cnf s :
  transparent_at s f g (List.concat cnf) ->
  exists recs, cnf_body f cnf s = Done (conj_status (map (map g) cnf), recs, s).
Proof.
  intros Ht. unfold cnf_body.
  assert (Hl : forall line, In line cnf -> exists recs,
             line_body f line s = Done (disjunction_status (map g line), recs, s)).
  { intros line Hin. apply line_body_transparent_at. intros x Hx. apply Ht.
    apply in_concat. exists line. split; assumption. }
  destruct (mapM_transparent_at (line_body f) (fun line => disjunction_status (map g line)) cnf s Hl) as [recs Hm].
  unfold bind. rewrite Hm. cbn. eexists. f_equal. f_equal. f_equal.
  unfold conj_status. rewrite map_map. reflexivity.
Qed.

Theorem cnf_body_transparent {T} (f : T -> M status) g cnf :
  transparent f g (List.concat cnf) ->
  forall s, exists recs, cnf_body f cnf s = Done (conj_status (map (map g) cnf), recs, s).
Proof. intros Ht s. apply cnf_body_transparent_at. apply transparent_everywhere. exact Ht. Qed.

Definition status_of {A} (o : outcome (A * list record * state)) : outcome A :=
  match o with
  | Done (a, _, _) => Done a
  | Err e => Err e | Panic p => Panic p | OutOfFuel => OutOfFuel | Unknown => Unknown
  end.

Lemma transparent_perm {T} (f : T -> M status) g l l' :
  Permutation l l' -> transparent f g l -> transparent f g l'.
Proof. intros Hp Ht x Hx. apply Ht. eapply Permutation_in; [apply Permutation_sym; exact Hp|exact Hx]. Qed.

(* permuting the lines of a body does not change its status *)
Theorem perm_lines_at {T} (f : T -> M status) g cnf cnf' s :
  Permutation cnf cnf' -> transparent_at s f g (List.concat cnf) ->
  status_of (cnf_body f cnf s) = status_of (cnf_body f cnf' s).
Proof.
  intros Hp Ht.
  assert (Ht' : transparent_at s f g (List.concat cnf')).
  { intros x Hx. apply Ht. apply in_concat in Hx. destruct Hx as (l & Hl & Hx).
    apply in_concat. exists l. split; [|exact Hx]. eapply Permutation_in; [apply Permutation_sym; exact Hp|exact Hl]. }
  destruct (cnf_body_transparent_at f g cnf s Ht) as [r1 H1].
  destruct (cnf_body_transparent_at f g cnf' s Ht') as [r2 H2].
  rewrite H1, H2. cbn. f_equal. apply conj_status_perm_lines. apply Permutation_map. exact Hp.
Qed.

Theorem perm_lines {T} (f : T -> M status) g cnf cnf' s :
  Permutation cnf cnf' -> transparent f g (List.concat cnf) ->
  status_of (cnf_body f cnf s) = status_of (cnf_body f cnf' s).
Proof. intros Hp Ht. eapply perm_lines_at; [exact Hp|apply transparent_everywhere; exact Ht]. Qed.

(* permuting the alternatives of an `or` line does not change the body's status *)
Theorem perm_alternatives_at {T} (f : T -> M status) g line line' rest s :
  Permutation line line' -> transparent_at s f g (List.concat (line :: rest)) ->
  status_of (cnf_body f (line :: rest) s) = status_of (cnf_body f (line' :: rest) s).
Proof.
  intros Hp Ht.
  assert (Ht' : transparent_at s f g (List.concat (line' :: rest))).
  { intros x Hx. apply Ht. cbn [List.concat] in *. apply in_app_or in Hx. apply in_or_app.
    destruct Hx as [Hx|Hx]; [left|right; exact Hx].
    eapply Permutation_in; [apply Permutation_sym; exact Hp|exact Hx]. }
  destruct (cnf_body_transparent_at f g _ s Ht) as [r1 H1].
  destruct (cnf_body_transparent_at f g _ s Ht') as [r2 H2].
  rewrite H1, H2. cbn [status_of map]. f_equal.
  apply conj_status_perm_alternatives. apply Permutation_map. exact Hp.
Qed.

Theorem perm_alternatives {T} (f : T -> M status) g line line' rest s :
  Permutation line line' -> transparent f g (List.concat (line :: rest)) ->
  status_of (cnf_body f (line :: rest) s) = status_of (cnf_body f (line' :: rest) s).
Proof. intros Hp Ht. eapply perm_alternatives_at; [exact Hp|apply transparent_everywhere; exact Ht]. Qed.

(* repeating a line does not change the body's status *)
Theorem dup_line_at {T} (f : T -> M status) g line rest s :
  In line rest -> transparent_at s f g (List.concat rest) ->
  status_of (cnf_body f (line :: rest) s) = status_of (cnf_body f rest s).
Proof.
  intros Hin Ht.
  assert (Ht' : transparent_at s f g (List.concat (line :: rest))).
  { intros x Hx. cbn [List.concat] in Hx. apply in_app_or in Hx. destruct Hx as [Hx|Hx]; [|apply Ht; exact Hx].
    apply Ht. apply in_concat. exists line. split; assumption. }
  destruct (cnf_body_transparent_at f g _ s Ht) as [r1 H1].
  destruct (cnf_body_transparent_at f g _ s Ht') as [r2 H2].
  rewrite H1, H2. cbn [status_of map]. f_equal.
  apply conj_status_dup_line. apply in_map. exact Hin.
Qed.

Theorem dup_line {T} (f : T -> M status) g line rest s :
  In line rest -> transparent f g (List.concat rest) ->
  status_of (cnf_body f (line :: rest) s) = status_of (cnf_body f rest s).
Proof. intros Hin Ht. eapply dup_line_at; [exact Hin|apply transparent_everywhere; exact Ht]. Qed.

(* ---------- rules referenced by name: definition order of other rules is irrelevant ---------- *)

Lemma filter_swap {A} (p : A -> bool) (a b : A) l1 l2 :
  (p a && p b = false)%bool ->
  filter p (l1 ++ a :: b :: l2) = filter p (l1 ++ b :: a :: l2).
Proof.
  intros H. rewrite !filter_app. f_equal. cbn [filter].
  destruct (p a), (p b); cbn in H; try discriminate; reflexivity.
Qed.

(* swapping two adjacent rules with different names leaves the definitions found for any
   name unchanged: a rule has the same definition list whether it is defined before or
   after its user *)
Theorem rules_named_swap lets prs l1 a b l2 name :
  rule_name a <> rule_name b ->
  rules_named (mkRulesFile lets (l1 ++ a :: b :: l2) prs) name
  = rules_named (mkRulesFile lets (l1 ++ b :: a :: l2) prs) name.
Proof.
  intros Hne. unfold rules_named. cbn [rf_rules]. apply filter_swap.
  destruct (String.eqb (rule_name a) name) eqn:Ea, (String.eqb (rule_name b) name) eqn:Eb; try reflexivity.
  apply String.eqb_eq in Ea. apply String.eqb_eq in Eb. congruence.
Qed.

(* the file status is the same fold whatever the order of the rule statuses *)
Theorem file_status_perm sts sts' :
  Permutation sts sts' -> fold_fail_pass_skip sts = fold_fail_pass_skip sts'.
Proof. exact (fold_fail_pass_skip_perm sts sts'). Qed.

(* a cached rule status is what is returned for every later reference *)
Theorem cached_status_is_returned prog r name st s :
  (exists f, frames s = [f]) ->
  assoc name (statuses s) = Some st ->
  rule_status_body prog r name s = Done (st, [], s).
Proof.
  intros [f Hf] Hc. destruct s as [fr stt]. cbn in Hf, Hc. subst fr.
  unfold rule_status_body, at_root. cbn. rewrite Hc. reflexivity.
Qed.
