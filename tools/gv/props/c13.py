"""C13 — comparison operators form a coherent algebra over values.

proof      : Props/C13.v (trichotomy, <=/>= decomposition, numeric/lexicographic/dyadic order,
             range bracket forms, regex-through-eq, cross-type never ordered, NotComparable is
             FAIL under both polarities, in-list iff some equal; null_ordering_refuted)
tie        : (1) exhaustive kernel matrix: compare_eq/lt/le/gt/ge and `==` (PartialEq) of
                 path_value.rs through the `cmp` hook on all ordered pairs of the universe,
                 equal as functions to the model's kernels;
             (2) single-clause rules `v OP lit` on documents {"v": a} through the hook evaluator
                 (status + record tree vs SEval) and through the public run_checks
monitor    : the algebraic relations recomputed on the implementation's own status matrix
"""
import json, itertools, random
from .. import coqterm as ct
from .. import impl, model, corr
from ..common import *

# (guard literal text, python/json value or NOJSON, class)
NOJSON = object()
UNIVERSE = [
    ('0', 0, 'int'), ('1', 1, 'int'), ('-1', -1, 'int'), ('2', 2, 'int'), ('10', 10, 'int'),
    ('9223372036854775807', 9223372036854775807, 'int'), ('-9223372036854775807', -9223372036854775807, 'int'),
    # neighbours that are one double: integers are ordered as integers, not through f64
    ('9223372036854775806', 9223372036854775806, 'int'), ('9007199254740993', 9007199254740993, 'int'), ('9007199254740992', 9007199254740992, 'int'),
    ('0.0', 0.0, 'float'), ('1.5', 1.5, 'float'), ('2.5', 2.5, 'float'), ('10.0', 10.0, 'float'),
    ('1e+308', 1e308, 'float'), ('5e-324', 5e-324, 'float'), ('0.1', 0.1, 'float'),
    ('""', '', 'str'), ('"a"', 'a', 'str'), ('"ab"', 'ab', 'str'), ('"b"', 'b', 'str'), ('"abc"', 'abc', 'str'),
    ('"héllo"', 'héllo', 'str'), ('"10"', '10', 'str'), ('"A"', 'A', 'str'),
    ('true', True, 'bool'), ('false', False, 'bool'), ('null', None, 'null'),
    ('[]', [], 'list'), ('[1]', [1], 'list'), ('[1, 2]', [1, 2], 'list'), ('[2, 1]', [2, 1], 'list'),
    ('["a"]', ['a'], 'list'), ('[[1, 2]]', [[1, 2]], 'list'),
    ('{}', {}, 'map'), ('{a: 1}', {'a': 1}, 'map'), ('{a: 1, b: 2}', {'a': 1, 'b': 2}, 'map'),
    ('{b: 2, a: 1}', {'b': 2, 'a': 1}, 'map'), ('{a: "x"}', {'a': 'x'}, 'map'),
    ('/a/', NOJSON, 'regex'), ('/^ab/', NOJSON, 'regex'), ('/b$/', NOJSON, 'regex'),
    ('r[1,2]', NOJSON, 'range'), ('r(1,2)', NOJSON, 'range'), ('r[1,2)', NOJSON, 'range'), ('r(1,2]', NOJSON, 'range'),
    ('r[0.5,2.5]', NOJSON, 'range'), ('r(0.0,1.5)', NOJSON, 'range'),
    # degenerate and reversed ranges: equal bounds under every bracket form, lower > upper
    ('r[1,1]', NOJSON, 'range'), ('r(1,1)', NOJSON, 'range'), ('r[1,1)', NOJSON, 'range'), ('r(1,1]', NOJSON, 'range'),
    ('r(2.5,2.5)', NOJSON, 'range'), ('r[2.5,2.5]', NOJSON, 'range'), ('r[2,1]', NOJSON, 'range'),
    # reversed ranges with values strictly between the bounds (1 between 2 and 0; 1.5 between 2.5 and 0.0): they hold nothing
    ('r[2,0]', NOJSON, 'range'), ('r(2,0]', NOJSON, 'range'), ('r[2.5,0.0]', NOJSON, 'range'), ('r(2.5,0.0)', NOJSON, 'range'),
]
QUICK = ['0', '1', '-1', '2', '1.5', '2.5', '0.0', '""', '"a"', '"ab"', '"b"', 'true', 'null', '[]', '[1]', '[1, 2]',
         '[2, 1]', '{}', '{a: 1}', '{a: 1, b: 2}', '{b: 2, a: 1}', '/^ab/', 'r[1,2)', 'r(1,2]', 'r[0.5,2.5]',
         'r(1,1)', 'r[1,1)', 'r[1,1]', 'r(2.5,2.5)', '9007199254740993', '9007199254740992', 'r[2,1]', 'r[2,0]', 'r(2,0]', 'r[2.5,0.0]']
# lhs-only document values that cannot be written as Guard literals
EXTRA_DOCS = [(-2.5, 'float'), (-9223372036854775808, 'int'), (-0.0, 'float')]

KOPS = ['Eq', 'Lt', 'Le', 'Gt', 'Ge', 'PartialEq']


def code_of(res):
    if res is None:
        return 9
    if 'panic' in res:
        return 4
    r = res.get('res')
    if not r:
        return 9
    if r[0] == 'Ok':
        return 1 if r[1] else 0
    return 2 if r[1] == 'NotComparable' else 3


def kernel_matrix(ctx, univ):
    texts = [u[0] for u in univ]
    ops = [{'op': 'lit', 'text': t} for t in texts]
    lits = impl.run_ops(ops, ctx.wd, 'c13.lit')
    pvs = []
    for t, r in zip(texts, lits):
        if 'res' not in r or r['res'][0] != 'Ok':
            raise ToolingError('universe literal does not parse: %s -> %r' % (t, r))
        pvs.append(r['res'][1])
    ops = []
    for a in texts:
        for b in texts:
            for k in KOPS:
                ops.append({'op': 'cmp', 'cmp': k, 'lhs': a, 'rhs': b})
    res = impl.run_ops_parallel(ops, ctx.wd, 'c13.cmp')
    codes = [code_of(r) for r in res]
    # regex oracle table
    regs = sorted(ct.collect_regexes(pvs))
    strs = sorted(ct.collect_strings(pvs))
    rops = [{'op': 'regex', 're': r, 'text': s} for r in regs for s in strs]
    rres = impl.run_ops(rops, ctx.wd, 'c13.re') if rops else []
    rt, _ = corr.tables(rops, rres)
    n = len(texts)
    per = len(KOPS)
    defs = []
    defs.append('Definition U : list pv := %s.' % ct.clist([ct.pv(p) for p in pvs]))
    defs.append('Definition rt : re_table := %s.' % rt)
    defs.append('Definition impl_codes : list N := %s.' % ct.clist(['%d%%N' % c for c in codes]))
    defs.append('''
Definition code (o : outcome bool) : N :=
  match o with Done true => 1 | Done false => 0 | Err ENotComparable => 2 | Err _ => 3
             | Panic _ => 4 | Unknown => 5 | OutOfFuel => 6 end%N.
Definition re := re_of_table rt.
Definition cell (a b : pv) : list N :=
  [code (compare_eq re a b); code (compare_lt a b); code (compare_le a b);
   code (compare_gt a b); code (compare_ge a b); code (partial_eq re a b)].
Definition model_codes : list N := flat_map (fun a => flat_map (fun b => cell a b) U) U.
Fixpoint diffs (i : N) (l m : list N) : list N :=
  match l, m with
  | x :: l', y :: m' => if N.eqb x y then diffs (N.succ i) l' m' else i :: diffs (N.succ i) l' m'
  | [], [] => []
  | _, _ => [i]
  end.''')
    cases = [(0, '\n'.join(defs), 'firstn 8 (diffs 0%N model_codes impl_codes)')]
    out, errs = model.eval_cases(cases, ctx.wd, 'c13_kernel')
    if errs or 0 not in out:
        raise ToolingError('kernel matrix did not evaluate: %r' % (errs,))
    txt = out[0]
    idx = [int(x) for x in __import__('re').findall(r'(\d+)%N', txt)]
    ctx.coverage['evaluations'] += len(codes)
    ctx.coverage['kernel_matrix_cells'] = len(codes)
    ctx.coverage['kernel_matrix_exhaustive'] = True
    for i in idx:
        a, rem = divmod(i, n * per)
        b, k = divmod(rem, per)
        ctx.failing('kernel %s(%s, %s): implementation code %d differs from the model' % (
            KOPS[k], texts[a], texts[b], codes[i]),
            {'class': 'kernel-disagreement', 'op': KOPS[k], 'lhs': texts[a], 'rhs': texts[b], 'impl_code': codes[i]},
            found=False)
    return texts, pvs, codes


FORMS = [('==', 'v == %s'), ('!=', 'v != %s'), ('>', 'v > %s'), ('>=', 'v >= %s'), ('<', 'v < %s'),
         ('<=', 'v <= %s'), ('in', 'v in %s'), ('not in', 'v not in %s'),
         ('not >', 'not v > %s'), ('not <=', 'not v <= %s')]


def clause_matrix(ctx, univ):
    """documents {"v": a} x rules `v OP b` for all b: statuses through the hook evaluator
    (compared with SEval incl. record tree) and through the public run_checks"""
    lhs = [(json.dumps(u[1]), u[0], u[2], u[1]) for u in univ if u[1] is not NOJSON]
    lhs += [(json.dumps(v), json.dumps(v), cls, v) for v, cls in EXTRA_DOCS]
    rules = []
    index = []
    for bi, b in enumerate(univ):
        for fi, (name, tmpl) in enumerate(FORMS):
            rules.append('rule r_%d_%d { %s }' % (bi, fi, tmpl % b[0]))
            index.append((bi, fi))
    text = '\n'.join(rules) + '\n'
    pairs = [{'rules': text, 'data': '{"v": %s}' % j} for j, _, _, _ in lhs]
    out, errs = corr.run(pairs, ctx.wd, 'c13clause', loader='json', public=True)
    if errs:
        raise ToolingError('model evaluation failed: %r' % (errs[:1],))
    status = {}   # (lhs index, bi, fi) -> status
    for ai, o in enumerate(out):
        if o['kind'] != 'compared':
            raise ToolingError('clause matrix case not evaluated: %r' % (o,))
        ctx.coverage['evaluations'] += len(index)
        if o['verdict'] not in ('VAgree',):
            ctx.failing('single-clause rules on {"v": %s}: model and implementation disagree (%s)' % (lhs[ai][0], o['verdict']),
                        {'class': 'clause-correspondence', 'data': pairs[ai]['data'], 'verdict': o['verdict']}, found=False)
        res = o['result']
        if res[0] != 'Ok':
            continue
        rec = res[2]
        sts = []
        for child in ct.L(rec[3]):
            cont = child[2]['O']
            if cont[0] == 'RuleCheck':
                sts.append(cont[2])
        if len(sts) != len(index):
            raise ToolingError('unexpected record shape')
        for (bi, fi), st in zip(index, sts):
            status[(ai, bi, fi)] = st
        # public API agrees with the hook
        pub = (o.get('public') or {}).get('rc_verbose')
        if not pub or 'ok' not in pub:
            ctx.failing('run_checks failed where the hook evaluator succeeded', {'class': 'public-api', 'data': pairs[ai]['data']}, found=True)
        else:
            psts = [c['container']['RuleCheck']['status'] for c in pub['ok']['children'] if 'RuleCheck' in (c.get('container') or {})]
            if psts != sts:
                ctx.failing('run_checks statuses differ from eval_rules_file statuses', {'class': 'public-api', 'data': pairs[ai]['data']}, found=True)
    return lhs, index, status


def py_cmp(a, b):
    """reference order on same-type ordered scalars: numeric / byte-lexicographic"""
    if isinstance(a, str):
        a, b = a.encode('utf-8'), b.encode('utf-8')
    return (a > b) - (a < b)


def monitor(ctx, univ, lhs, index, status):
    """the statement's relations, recomputed on the implementation's statuses"""
    def S(ai, bi, form):
        fi = [f[0] for f in FORMS].index(form)
        return status.get((ai, bi, fi))
    n_checked = 0
    for ai, (j, atext, acls, aval) in enumerate(lhs):
        for bi, b in enumerate(univ):
            btext, bval, bcls = b
            if S(ai, bi, '==') is None:
                continue
            info = {'data': '{"v": %s}' % j, 'rhs': btext, 'lhs_class': acls, 'rhs_class': bcls}
            def bad(what, **kw):
                i2 = dict(info, **kw)
                i2['rules'] = 'rule r { v <op> %s }' % btext
                ctx.failing('%s: v=%s rhs=%s' % (what, j, btext), i2, found=True)
            ordered = acls == bcls and acls in ('int', 'float', 'str')
            if ordered:
                n_checked += 1
                lt, eq, gt = S(ai, bi, '<') == 'PASS', S(ai, bi, '==') == 'PASS', S(ai, bi, '>') == 'PASS'
                if [lt, eq, gt].count(True) != 1:
                    bad('trichotomy violated', cls='trichotomy')
                if (S(ai, bi, '<=') == 'PASS') != (lt or eq):
                    bad('<= is not (< or ==)', cls='le')
                if (S(ai, bi, '>=') == 'PASS') != (gt or eq):
                    bad('>= is not (> or ==)', cls='ge')
                c = py_cmp(aval, bval)
                if (lt, eq, gt) != (c < 0, c == 0, c > 0):
                    bad('order is not the numeric/lexicographic one', cls='order')
                if (S(ai, bi, '!=') == 'PASS') == eq:
                    bad('!= is not the complement of == on comparable scalars', cls='neq')
            scalar = ('int', 'float', 'str', 'bool', 'null')
            if acls in scalar and bcls in scalar and acls != bcls:
                n_checked += 1
                for form in ('==', '!=', '<', '<=', '>', '>='):
                    if S(ai, bi, form) == 'PASS':
                        bad('values of different types satisfy %s' % form, cls='cross-type', form=form)
            if acls == bcls and acls in ('bool', 'null'):
                for form in ('<', '<=', '>', '>='):
                    if S(ai, bi, form) == 'PASS':
                        bad('values of an unordered type satisfy %s' % form, cls='unordered-type', form=form)
            if bcls == 'range' and acls in ('int', 'float'):
                import re as _re
                m = _re.fullmatch(r'r([\[(])([0-9.]+),([0-9.]+)([\])])', btext)
                lo, hi = float(m.group(2)), float(m.group(3))
                isint = '.' not in m.group(2)
                if isint == (acls == 'int'):
                    n_checked += 1
                    exp = (lo <= aval if m.group(1) == '[' else lo < aval) and (aval <= hi if m.group(4) == ']' else aval < hi)
                    if (S(ai, bi, 'in') == 'PASS') != exp:
                        bad('range membership is not the bound comparisons', cls='range')
            if bcls == 'regex' and acls == 'str':
                import re as _re
                n_checked += 1
                exp = _re.search(btext[1:-1], aval) is not None
                if (S(ai, bi, '==') == 'PASS') != exp:
                    bad('== /re/ is not "matches somewhere"', cls='regex')
            if bcls == 'list' and acls in scalar and isinstance(bval, list) and all(not isinstance(x, (list, dict)) for x in bval) and bval:
                n_checked += 1
                exp = any(type(x) == type(aval) and x == aval for x in bval)
                if (S(ai, bi, 'in') == 'PASS') != exp:
                    bad('in [..] is not "equals some element"', cls='in-list')
        # reflexivity and symmetry of == on loaded values
        for bi, b in enumerate(univ):
            if b[1] is NOJSON:
                continue
            same = json.dumps(b[1], sort_keys=True) == json.dumps(aval, sort_keys=True) and type(b[1]) == type(aval)
            if same and b[2] == acls and acls not in ('list',):
                n_checked += 1
                if S(ai, bi, '==') != 'PASS':
                    ctx.failing('== is not reflexive (or depends on key order): v=%s rhs=%s' % (j, b[0]),
                                {'class': 'eq-refl', 'data': '{"v": %s}' % j, 'rhs': b[0], 'rules': 'rule r { v == %s }' % b[0]})
            # symmetry: find b as lhs and a as rhs
            if b[2] in ('list',) or acls in ('list',):
                continue   # list lhs against a literal compares element-wise (documented), not symmetric by design
            for aj, (j2, at2, ac2, av2) in enumerate(lhs):
                if at2 == b[0]:
                    for bj, b2 in enumerate(univ):
                        if b2[0] == atext:
                            n_checked += 1
                            if S(ai, bi, '==') != S(aj, bj, '=='):
                                ctx.failing('== is not symmetric: %s vs %s' % (atext, b[0]),
                                            {'class': 'eq-sym', 'data': '{"v": %s}' % j, 'rhs': b[0], 'rules': 'rule r { v == %s }' % b[0]})
    ctx.coverage['monitor_relations_checked'] = n_checked
    return n_checked


def regex_history(ctx):
    """several regular-expression comparisons in ONE evaluation, in every order: what `X == /re/` answers depends on the
    pattern and the string alone, not on the comparisons made before (pairs whose pattern + text coincide when concatenated,
    one pattern against several strings, several patterns against one string, the same comparison repeated)"""
    import itertools, re as _re
    doc = {'x': 'bc', 'y': 'c', 'z': 'bbc', 'w': 'ab', 'v': 'a.b', 'e': ''}
    clauses = [('x', 'b'), ('y', 'bb'), ('z', 'bb'), ('z', '^bc'), ('w', 'a'), ('w', '^b'), ('v', 'a.b'), ('v', 'a\\.b'), ('x', 'b'), ('e', '^$'), ('y', 'c$'), ('x', 'c$')]
    exp = {i: (_re.search(p_.replace('\\\\', '\\'), doc[k]) is not None) for i, (k, p_) in enumerate(clauses)}
    ops, meta = [], []
    orders = list(itertools.permutations(range(4))) + [tuple(range(len(clauses))), tuple(reversed(range(len(clauses))))]
    rng = random.Random(ctx.seed * 613 + 13)
    for _ in range(12):
        o = list(range(len(clauses))); rng.shuffle(o); orders.append(tuple(o))
    for o in orders:
        rules = ''.join('rule c%d {\n  %s == /%s/\n}\n' % (i, clauses[i][0], clauses[i][1]) for i in o)
        ops.append({'op': 'eval', 'rules': rules, 'data': json.dumps(doc), 'loader': 'json', 'public': False}); meta.append((o, rules))
        one = 'rule all {\n' + ''.join('  %s == /%s/ or %s != /%s/\n' % (clauses[i][0], clauses[i][1], clauses[i][0], clauses[i][1]) for i in o) + '}\n'
        ops.append({'op': 'eval', 'rules': one, 'data': json.dumps(doc), 'loader': 'json', 'public': False}); meta.append((o, one))
    res = impl.run_ops(ops, ctx.wd, 'c13rehist')          # ONE process: a cache that outlives a comparison would show
    n = 0
    for (o, rules), r in zip(meta, res):
        d = r.get('res')
        st = {}
        if isinstance(d, dict) and isinstance(d.get('result'), list) and d['result'][0] == 'Ok':
            for nme, s_ in e2e_rule_statuses(d['result']):
                st[nme] = s_
        for i in o:
            if ('c%d' % i) in st:
                n += 1
                want = 'PASS' if exp[i] else 'FAIL'
                if st['c%d' % i] != want:
                    ctx.failing('%s == /%s/ on %r answers %s after the comparisons before it in this file; alone it is %s' % (clauses[i][0], clauses[i][1], doc[clauses[i][0]], st['c%d' % i], want),
                                {'class': 'regex-history', 'rules': rules, 'data': json.dumps(doc)}, found=True)
                    break
        if 'all' in st:
            n += 1
            if st['all'] != 'PASS':
                ctx.failing('a rule of lines `X == /re/ or X != /re/` is %s: some comparison answered differently the second time' % st['all'],
                            {'class': 'regex-history', 'rules': rules, 'data': json.dumps(doc)}, found=True)
    ctx.coverage['regex_history_comparisons'] = n
    ctx.coverage['evaluations'] += len(ops)
    return n


def e2e_rule_statuses(result):
    """(rule name, status) of the RuleCheck records directly under the file record of a hook eval result ['Ok', status, tree]"""
    out = []
    tree = result[2]
    for ch in ct.L(tree[3]):
        c = ch[2]['O'] if ch[2] else None
        if c and c[0] == 'RuleCheck':
            out.append((ct.S(c[1]), c[2]))
    return out


def query_matrix(ctx):
    """both sides of the operator are QUERIES: documents {"A": x, "B": y, "LA": [x, x'], "LB": [y, y']} x rules A == B, A != B, B == A,
    LA[*] == LB[*], LA[*] != LB[*], A in LB, A not in LB, for x, y over the JSON-able universe plus maps / nested maps / lists of maps that are
    equal but written with their keys in another order; the model against the implementation (status and record tree), and on the
    implementation alone: values that differ only in key order are equal."""
    import itertools
    vals = [(u[1], u[2]) for u in UNIVERSE if u[1] is not NOJSON and u[0] in QUICK + ['{a: "x"}', '["a"]', '[[1, 2]]']]
    vals += [({'m': {'x': 1, 'y': 2}, 'k': [1]}, 'map'), ({'k': [1], 'm': {'y': 2, 'x': 1}}, 'map'), ([{'a': 1, 'b': 2}, {'c': 3}], 'list'), ([{'b': 2, 'a': 1}, {'c': 3}], 'list'),
             ({'a': 1, 'b': 2, 'c': {'d': [{'e': 1, 'f': 2}]}}, 'map'), ({'c': {'d': [{'f': 2, 'e': 1}]}, 'b': 2, 'a': 1}, 'map'), ({'a': 1, 'b': 3}, 'map')]
    canon = lambda v: json.dumps(v, sort_keys=True)
    pairs_xy = []
    for (x, cx), (y, cy) in itertools.product(vals, vals):
        if cx == cy or canon(x) == canon(y) or (ctx.tier == 'thorough'):
            pairs_xy.append((x, cx, y, cy))
    rules = ('rule q0 {\n  A == B\n}\nrule q1 {\n  A != B\n}\nrule q2 {\n  B == A\n}\nrule q3 {\n  LA[*] == LB[*]\n}\nrule q4 {\n  LA[*] != LB[*]\n}\n'
             'rule q5 {\n  A in LB\n}\nrule q6 {\n  A not in LB\n}\nrule q7 {\n  some LA[*] == LB[*]\n}\n')
    pairs = []
    for x, cx, y, cy in pairs_xy:
        doc = {'A': x, 'B': y, 'LA': [x, {'zz': 1}], 'LB': [y, {'zz': 1}]}
        pairs.append({'rules': rules, 'data': json.dumps(doc)})
    out, errs = corr.run(pairs, ctx.wd, 'c13query', loader='json')
    if errs:
        raise ToolingError('model evaluation failed: %r' % (errs[:1],))
    n = 0
    for (x, cx, y, cy), p, o in zip(pairs_xy, pairs, out):
        if o['kind'] != 'compared':
            continue
        n += 1
        ctx.coverage['evaluations'] += 8
        if o['verdict'] not in ('VAgree', 'VAgreeErr'):
            ctx.failing('query-to-query comparisons on %s: model and implementation disagree (%s)' % (p['data'][:120], o['verdict']),
                        {'class': 'query-correspondence', 'rules': rules, 'data': p['data'], 'verdict': o['verdict']}, found=False)
        res = o['result']
        if res[0] != 'Ok' or cx not in ('map', 'list') or canon(x) != canon(y):
            continue
        sts = [child[2]['O'][2] for child in ct.L(res[2][3]) if child[2]['O'][0] == 'RuleCheck']
        want = ['PASS', 'FAIL', 'PASS', 'PASS', 'FAIL', 'PASS', 'FAIL', 'PASS']
        if x in ([], {}):
            continue            # an empty list / struct under [*] is a missing value, not an equality question
        if sts != want:
            ctx.failing('two values that differ only in the order of their keys (%s / %s) compared query to query: statuses %s, expected %s' % (json.dumps(x)[:60], json.dumps(y)[:60], sts, want),
                        {'class': 'key-order-equality', 'rules': rules, 'data': p['data'], 'statuses': sts}, found=True)
    ctx.coverage['query_to_query_documents'] = n
    return n


def run(ctx):
    ctx.build()
    pr = ctx.proofs('C13')
    univ = UNIVERSE if ctx.tier == 'thorough' else [u for u in UNIVERSE if u[0] in QUICK]
    texts, pvs, codes = kernel_matrix(ctx, UNIVERSE)   # the kernel matrix is always over the whole universe
    lhs, index, status = clause_matrix(ctx, univ)
    n = monitor(ctx, univ, lhs, index, status)
    n += regex_history(ctx)
    n += query_matrix(ctx)
    ctx.coverage['distinct_nontrivial'] = len(set(codes)) and len(codes) + len(status)
    ctx.coverage['exhaustive'] = True
    ctx.coverage['rule'] = ('all ordered pairs of the %d-value universe x 6 kernels through the cmp hook; documents {"v": a} x '
                            '%d clause forms x all literals through the evaluator and run_checks; a case is one (lhs, rhs, operator) triple, '
                            'all distinct by construction' % (len(univ), len(FORMS)))
    ctx.sample({'kernel': ['Lt', texts[1], texts[2]], 'impl_code': codes[(1 * len(texts) + 2) * len(KOPS) + 1]})
    ctx.sample({'rule': 'rule r { v >= %s }' % univ[3][0], 'data': '{"v": %s}' % lhs[1][0],
                'status': status.get((1, 3, 3))})
    ctx.coverage['trusted_base'] = [
        'Coq 8.16.1 kernel (coqc); vm_compute for evaluating cases; no axioms (Print Assumptions: Closed under the global context)',
        'hand-written model Compare.v/Operators.v/SEval.v of path_value.rs, operators.rs, eval.rs (modelled, not verified)',
        'correspondence: hook cmp/lit/eval + python glue tools/gv (translator coqterm.py)',
        'oracle: fancy_regex results shipped as a table per run',
    ]
    ctx.assumptions = ['regex engine (fancy_regex) is an oracle', 'decimal->f64 conversion of literals is the implementation\'s (bit patterns are compared)']
    # the recorded deviation: null ordered against null (witness replayed every run)
    ai = next(i for i, l in enumerate(lhs) if l[1] == 'null')
    bi = next(i for i, u in enumerate(univ) if u[0] == 'null')
    if not pr['ok']:
        ctx.failing('proof obligations of Props/C13.v no longer check: %s' % (pr.get('problems') or pr.get('log', '')[-500:]),
                    {'class': 'proof', 'theorems': pr['theorems']}, found=False)


def replay(ctx, path):
    j = json.load(open(path))
    for v in j.get('violations', []):
        print(json.dumps(v, indent=1))
    return 0
