(* BatchProps.v — a batch is the pointwise product of single evaluations (C12). *)
From Coq Require Import Permutation.
From GV.Model Require Import Batch.

Section B.
Variable re : re_oracle.
Variable conv : conv_oracle.
Variable fuel : nat.

Theorem batch_is_pointwise : forall rs ds i j r d,
  nth_error rs i = Some r -> nth_error ds j = Some d ->
  (exists row, nth_error (batch_rules_major re conv fuel rs ds) i = Some row /\
               nth_error row j = Some (pair_result re conv fuel r d)) /\
  (exists col, nth_error (batch_data_major re conv fuel rs ds) j = Some col /\
               nth_error col i = Some (pair_result re conv fuel r d)).
Proof.
  intros rs ds i j r d Hr Hd. unfold batch_rules_major, batch_data_major. split.
  - exists (map (fun d => pair_result re conv fuel r d) ds). split.
    + exact (map_nth_error (fun r => map (fun d => pair_result re conv fuel r d) ds) i rs Hr).
    + exact (map_nth_error (fun d => pair_result re conv fuel r d) j ds Hd).
  - exists (map (fun r => pair_result re conv fuel r d) rs). split.
    + exact (map_nth_error (fun d => map (fun r => pair_result re conv fuel r d) rs) j ds Hd).
    + exact (map_nth_error (fun r => pair_result re conv fuel r d) i rs Hr).
Qed.

(* a pair evaluated in a batch equals the pair evaluated alone (a batch of one) *)
Theorem batch_equals_single : forall rs ds i j r d,
  nth_error rs i = Some r -> nth_error ds j = Some d ->
  exists row, nth_error (batch_rules_major re conv fuel rs ds) i = Some row /\
              nth_error row j = nth_error (hd [] (batch_rules_major re conv fuel [r] [d])) 0.
Proof.
  intros rs ds i j r d Hr Hd.
  destruct (batch_is_pointwise rs ds i j r d Hr Hd) as [(row & H1 & H2) _].
  exists row. split; [assumption|]. now rewrite H2.
Qed.

(* permuting the rules files / the data files permutes the reports and changes none *)
Theorem batch_perm_rules : forall rs rs' ds,
  Permutation rs rs' ->
  Permutation (batch_rules_major re conv fuel rs ds) (batch_rules_major re conv fuel rs' ds).
Proof. intros. unfold batch_rules_major. now apply Permutation_map. Qed.

Theorem batch_perm_data : forall rs ds ds',
  Permutation ds ds' ->
  Permutation (batch_data_major re conv fuel rs ds) (batch_data_major re conv fuel rs ds').
Proof. intros. unfold batch_data_major. now apply Permutation_map. Qed.

(* the run reports failure iff some pair does *)
Theorem batch_fails_iff_some_pair_fails : forall rs ds,
  some_fail (matrix_of re conv fuel rs ds) = true <->
  exists r d st recs, In r rs /\ In d ds /\ pair_result re conv fuel r d = Done (FAIL, recs) /\ st = FAIL.
Proof.
  intros rs ds. unfold some_fail, matrix_of, batch_rules_major. rewrite existsb_exists. split.
  - intros (x & Hx & Hf). apply in_map_iff in Hx as (row & <- & Hrow).
    apply in_map_iff in Hrow as (r & <- & Hr). cbn in Hf. apply existsb_exists in Hf as (c & Hc & Hcf).
    apply in_map_iff in Hc as (o & <- & Ho). apply in_map_iff in Ho as (d & <- & Hd).
    destruct (pair_result re conv fuel r d) as [[[] recs]| | | |] eqn:E; try discriminate.
    exists r, d, FAIL, recs. auto.
  - intros (r & d & st & recs & Hr & Hd & He & _).
    exists (RParsed (map cell_outcome (map (fun d => pair_result re conv fuel r d) ds))). split.
    + apply in_map_iff. eexists. split; [reflexivity|]. apply in_map_iff. exists r. auto.
    + cbn. apply existsb_exists. exists DFail. split; [|reflexivity].
      apply in_map_iff. exists (pair_result re conv fuel r d). split; [now rewrite He|].
      apply in_map_iff. exists d. auto.
Qed.

End B.
