(* ScalarProps.v — typing of scalars by the libyaml loader (C11). *)
From GV.Model Require Import Scalar.
From GV.Proofs Require Import DecimalProps.
Open Scope Z_scope.

(* quoted scalars are strings, whatever they look like *)
Theorem quoted_is_string : forall s, load_scalar TNone Quoted s = KStr s.
Proof. reflexivity. Qed.

(* an integer written in decimal as a plain scalar is loaded as that integer (all of i64) *)
Theorem plain_integer_is_integer : forall z,
  i64_min <= z <= i64_max -> load_scalar TNone Plain (Z_to_string z) = KInt z.
Proof. intros z H. cbn. unfold plain_scalar. now rewrite parse_i64_print. Qed.

(* the JSON keywords *)
Theorem plain_keywords :
  load_scalar TNone Plain "true" = KBool true /\ load_scalar TNone Plain "false" = KBool false /\
  load_scalar TNone Plain "null" = KNull /\ load_scalar TNone Plain "~" = KNull.
Proof. repeat split; vm_compute; reflexivity. Qed.

(* explicit core tags *)
Theorem tagged_str_is_string : forall st s, load_scalar TStrTag st s = KStr s.
Proof. reflexivity. Qed.
Theorem tagged_int : forall st z, i64_min <= z <= i64_max -> load_scalar TInt st (Z_to_string z) = KInt z.
Proof. intros st z H. cbn. now rewrite parse_i64_print. Qed.

(* JSON-compatible floats are floats: digits . digits, with or without exponent *)
Lemma take_digits_all : forall s, all_digits s = true -> take_digits s = (String.length s, EmptyString).
Proof.
  induction s as [|a r IH]; intros H; cbn in *; [reflexivity|].
  apply andb_true_iff in H as [Ha Hr]. rewrite Ha, (IH Hr). reflexivity.
Qed.

(* spellings outside the JSON-compatible ones that the cascade types in its own way (the other loaders use the YAML
   core schema; see the recorded finding) *)
Theorem plain_scalar_oddities :
  plain_scalar "True" = KStr "True" /\ plain_scalar "TRUE" = KStr "TRUE" /\ plain_scalar "Null" = KNull /\
  plain_scalar "nan" = KFloat /\ plain_scalar "inf" = KFloat /\ plain_scalar "-Infinity" = KFloat /\
  plain_scalar "0x10" = KStr "0x10" /\ plain_scalar "007" = KInt 7 /\ plain_scalar "+5" = KInt 5 /\
  plain_scalar "1_000" = KStr "1_000" /\ plain_scalar ".5" = KFloat /\ plain_scalar "5." = KFloat /\
  plain_scalar "1e3" = KFloat /\ plain_scalar ".inf" = KStr ".inf" /\ plain_scalar "yes" = KStr "yes" /\
  plain_scalar "" = KStr "" /\ plain_scalar "9223372036854775808" = KFloat /\ plain_scalar "-" = KStr "-".
Proof. repeat split; vm_compute; reflexivity. Qed.
