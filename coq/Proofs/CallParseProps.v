(* CallParseProps.v — function calls (Model/CallParse.v): a call is accepted only for a built-in function name with exactly the
   number of arguments that function expects; anything else is not a call (and is then read as a query). *)
From Coq Require Import Lia.
From GV.Model Require Import Ast.
From GV.Model Require Import ValueParse QueryParse OpParse ClauseParse CnfParse FilterParse ClauseFParse LetParse CallParse.
From GV.Proofs Require Import LexProps ValueParseProps QueryParseProps.
Local Open Scope string_scope.
Local Open Scope nat_scope.

Theorem only_known_functions_are_calls : forall lv n t v r, function_expr_with lv n t = POk v r ->
  exists name f k args, assoc name fn_table = Some (f, k) /\ v = PVCall f args /\ List.length args = k.
Proof.
  intros lv n t v r. unfold function_expr_with.
  destruct (var_name t) as [name r0| | | |]; try discriminate.
  destruct (expect "(" r0) as [r1|]; [|discriminate].
  destruct (sep_list0 _ _ n r1) as [args r2| | | |]; try discriminate.
  destruct (expect ")" r2) as [r3|]; [|discriminate].
  destruct (assoc name fn_table) as [[f k]|] eqn:E; [|discriminate].
  destruct (Nat.eqb (List.length args) k) eqn:El; [|discriminate].
  intros H. inversion H; subst. apply Nat.eqb_eq in El. exists name, f, k, args. auto.
Qed.

(* the table is the documented one: fifteen functions, with these arities *)
Theorem function_table : map (fun p => (fst p, snd (snd p))) fn_table =
  [("count", 1); ("join", 2); ("json_parse", 1); ("now", 0); ("parse_boolean", 1); ("parse_char", 1); ("parse_epoch", 1); ("parse_float", 1);
   ("parse_int", 1); ("parse_string", 1); ("regex_replace", 3); ("substring", 3); ("to_lower", 1); ("to_upper", 1); ("url_decode", 1)].
Proof. reflexivity. Qed.

(* a right-hand side / a let value that is read as a call is a call of a known function with the right number of arguments *)
Theorem let_value_calls_are_known : forall rv n s f args r, let_value rv n s = POk (PVCall f args) r ->
  exists name k, assoc name fn_table = Some (f, k) /\ List.length args = k.
Proof.
  intros rv n s f args r. destruct n as [|n]; [discriminate|]. cbn [let_value].
  destruct (parse_value rv n (skip_ws_comments s)) as [l r0| | | |]; try discriminate.
  destruct (function_expr_with (let_value rv n) n (skip_ws_comments s)) as [v r0| | | |] eqn:E; try discriminate.
  - intros H. inversion H; subst. apply only_known_functions_are_calls in E as (name & f' & k & args' & Ea & Ev & El). inversion Ev; subst. eauto.
  - intros H. apply pmap_ok in H as (q & _ & Hq). discriminate.
Qed.
