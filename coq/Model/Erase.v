(* Erase.v — forgetting where a value was written.  Every PathAwareValue carries the path and the line/column it was
   loaded from; `er` replaces all of them (also those of the key list of a struct) by the root path.  The same
   for everything that contains values: query results, comparison results, the literals of a rules file, scopes,
   evaluator states.  Definitions only; the theorems are in Proofs/ErasePure.v and Proofs/EraseProps.v. *)
From GV.Model Require Export SEval.

Fixpoint er (v : pv) : pv :=
  match v with
  | PNull _ => PNull root_path
  | PString _ s => PString root_path s
  | PRegex _ s => PRegex root_path s
  | PBool _ b => PBool root_path b
  | PInt _ z => PInt root_path z
  | PFloat _ f => PFloat root_path f
  | PChar _ c => PChar root_path c
  | PList _ l => PList root_path (map er l)
  | PMap _ ks vals => PMap root_path (map er ks) (map (fun kv => (fst kv, er (snd kv))) vals)
  | PRangeInt _ a b i => PRangeInt root_path a b i
  | PRangeFloat _ a b i => PRangeFloat root_path a b i
  | PRangeChar _ a b i => PRangeChar root_path a b i
  end.

Definition er_vals (vals : list (string * pv)) : list (string * pv) := map (fun kv => (fst kv, er (snd kv))) vals.

Definition er_u (u : unresolved) : unresolved := mkUnres (er (ur_traversed_to u)) (ur_remaining u) (ur_has_reason u).
Definition er_q (q : qres) : qres :=
  match q with
  | QLiteral v => QLiteral (er v)
  | QResolved v => QResolved (er v)
  | QUnResolved u => QUnResolved (er_u u)
  end.

(* results of the operator layer *)
Definition er_ck (c : compare_kind) : compare_kind :=
  match c with
  | CValue l r => CValue (er l) (er r)
  | CQueryIn d l r => CQueryIn (map er d) (map er l) (map er r)
  | CListIn d l r => CListIn (map er d) (er l) (er r)
  | CValueIn l r => CValueIn (er l) (er r)
  end.
Definition er_cr (c : comparison_result) : comparison_result :=
  match c with
  | CRSuccess k => CRSuccess (er_ck k)
  | CRFail k => CRFail (er_ck k)
  | CRNotComparable l r => CRNotComparable (er l) (er r)
  | CRRhsUnresolved u l => CRRhsUnresolved (er_u u) (er l)
  end.
Definition er_ver (v : value_eval_result) : value_eval_result :=
  match v with
  | VLhsUnresolved u => VLhsUnresolved (er_u u)
  | VComparison c => VComparison (er_cr c)
  end.
Definition er_eres (e : eval_result) : eval_result :=
  match e with ESkip => ESkip | EResult l => EResult (map er_ver l) end.
Definition er_old (x : old_cmp_result) : old_cmp_result :=
  match x with
  | OComparable b l r => OComparable b (er l) (er r)
  | ONotComparable l r => ONotComparable (er l) (er r)
  | OUnResolvedRhs q l => OUnResolvedRhs (er_q q) (er l)
  end.

Definition omap {A B} (f : A -> B) (o : outcome A) : outcome B :=
  match o with Done a => Done (f a) | Err e => Err e | Panic p => Panic p | OutOfFuel => OutOfFuel | Unknown => Unknown end.

(* the literals of a rules file *)
Fixpoint er_lv (v : let_value) : let_value :=
  match v with
  | LValue x => LValue (er x)
  | LAccess q => LAccess (er_aq q)
  | LFunction ps n => LFunction (map er_lv ps) n
  end
with er_part (p : query_part) : query_part :=
  match p with
  | QMapKeyFilter n c w => QMapKeyFilter n c (er_lv w)
  | QFilter n cnf => QFilter n (map (map er_gc) cnf)
  | other => other
  end
with er_aq (a : access_query) : access_query :=
  match a with AccessQuery q m => AccessQuery (map er_part q) m end
with er_ac (c : access_clause) : access_clause :=
  match c with
  | GuardAccessClause q c w custom neg => GuardAccessClause (er_aq q) c (option_map er_lv w) custom neg
  end
with er_gc (g : guard_clause) : guard_clause :=
  match g with
  | GClause c => GClause (er_ac c)
  | GNamedRule n => GNamedRule n
  | GParameterizedNamedRule ps n => GParameterizedNamedRule (map er_lv ps) n
  | GBlockClause q b ne => GBlockClause (er_aq q) (er_blk b) ne
  | GWhenBlock conds b => GWhenBlock (map (map er_wc) conds) (er_blk b)
  end
with er_wc (w : when_clause) : when_clause :=
  match w with
  | WClause c => WClause (er_ac c)
  | WNamedRule n => WNamedRule n
  | WParameterizedNamedRule ps n => WParameterizedNamedRule (map er_lv ps) n
  end
with er_blk (b : gblock) : gblock :=
  match b with
  | Block lets cnf => Block (map (fun kv => (fst kv, er_lv (snd kv))) lets) (map (map er_gc) cnf)
  end.

Definition er_query (q : query) : query := map er_part q.
Definition er_lets (l : list let_expr) : list let_expr := map (fun kv => (fst kv, er_lv (snd kv))) l.
Definition er_cnf (c : list (list guard_clause)) := map (map er_gc) c.
Definition er_conds (c : when_conditions) : when_conditions := map (map er_wc) c.

Definition er_rc (c : rule_clause) : rule_clause :=
  match c with
  | RClause g => RClause (er_gc g)
  | RWhenBlock conds b => RWhenBlock (er_conds conds) (er_blk b)
  | RTypeBlock tn conds b q => RTypeBlock tn (option_map er_conds conds) (er_blk b) (er_query q)
  end.
Definition er_rule (x : rule) : rule :=
  mkRule (rule_name x) (option_map er_conds (rule_conditions x)) (er_lets (rule_lets x)) (map (map er_rc) (rule_cnf x)).
Definition er_pr (p : param_rule) : param_rule := mkParamRule (pr_params p) (er_rule (pr_rule p)).
Definition er_prog (p : rules_file) : rules_file :=
  mkRulesFile (er_lets (rf_lets p)) (map er_rule (rf_rules p)) (map er_pr (rf_param_rules p)).

(* scopes and states *)
Definition er_memo (m : list (string * list qres)) : list (string * list qres) := map (fun kv => (fst kv, map er_q (snd kv))) m.
Definition er_frame (f : frame) : frame :=
  match f with
  | FRoot root lets memo => FRoot (er root) (er_lets lets) (er_memo memo)
  | FBlock root lets memo => FBlock (er root) (er_lets lets) (er_memo memo)
  | FValue root => FValue (er root)
  | FParams b n m => FParams (er_memo b) n m
  end.
Definition erS (s : state) : state := mkState (map er_frame (frames s)) (statuses s).

(* outcomes of the state monad: the record tree is output only and is left out of the comparison *)
Definition erO {A} (ea : A -> A) (o : outcome (A * list record * state)) : outcome (A * list record * state) :=
  match o with
  | Done (a, _, s) => Done (ea a, [], erS s)
  | Err e => Err e | Panic p => Panic p | OutOfFuel => OutOfFuel | Unknown => Unknown
  end.
Definition dropR {A} (o : outcome (A * list record * state)) : outcome (A * list record * state) :=
  match o with
  | Done (a, _, s) => Done (a, [], s)
  | Err e => Err e | Panic p => Panic p | OutOfFuel => OutOfFuel | Unknown => Unknown
  end.

(* what an evaluation answers, records and final state left out *)
Definition verdict (o : outcome (status * list record * state)) : outcome status :=
  match o with
  | Done (st, _, _) => Done st
  | Err e => Err e | Panic p => Panic p | OutOfFuel => OutOfFuel | Unknown => Unknown
  end.
