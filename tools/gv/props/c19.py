"""C19 — generated rules describe the template they were generated from (partial).

proof   : Props/C19.v over Model/Rulegen.v (one rule per type that has properties; the values of a clause are exactly the
          template's values for that type and property; == for singletons, IN for sets)
tie     : the rules `rulegen` prints are parsed back through the hook (ast_dump) and compared, inside Coq, with
          Rulegen.print_rules (gen_rules template): rule per type in template order, clause per property, operator, number
          of values
monitor : end to end: the emitted text parses, has one rule per resource type with properties, the source template
          validated against it gives PASS for every emitted rule, and changing a scalar property value to a value not
          present for that type and property makes the corresponding rule FAIL; templates: 1..5 resources over 1..3 types,
          scalar / list / map properties, repeated and distinct values
recorded deviations: property sets that differ between resources of a type, strings that need escaping or have
          surrounding blanks, a property that is a list in one resource and a scalar in another.
"""
import json, random, os, re, copy
from .. import coqterm as ct
from .. import impl, model, e2e
from ..common import *

HEADER = 'From Coq Require Import String.\nFrom GV.Model Require Import Rulegen.\n'
TYPES = ['AWS::S3::Bucket', 'AWS::EC2::Instance', 'AWS::IAM::Role']
PROPS = ['Name', 'Size', 'Enabled', 'Zone', 'Tags', 'Policy', 'Ports']
PLAIN = ['a', 'prod', 'us-west-2b', 'x y', 'AWS', 'v1.2', 'héllo', '10', 'true', 'back\\slash', '^\\d+$', 'C:\\dir\\file', "single'quote", 'tab\there', '', 'null', '8080', '1.5', '[1]', '{}', '# x']
# long values with a comma followed by a blank inside: several of them for one property give an IN [...] clause longer than any
# line-wrapping threshold, whose separators must not be confused with the commas inside the strings
LONG = ['Orders, billing and invoices, archived monthly', 'first, second, third and the rest of them', 'a, b',
        'eu-west-1a, eu-west-1b, eu-west-1c, eu-central-1a', 'nothing special but quite long all the same, really']
TRICKY = [' padded ', 'quote"inside', 'trailing\\', ' lead', 'trail ', '"']
# strings outside ASCII - two-, three- and four-byte characters, several of them, at the end of the value and of the file
UNICODE = ['東京リージョン', 'Zürich–Genève', 'naïve café', '🚀 launch', 'Ünïcödé', 'данные', 'µ', 'ab€', '日本']


def problematic(v):
    """the strings of the recorded finding: surrounding blanks (trimmed in the rule only), a double quote or a final backslash
    (printed without escaping)"""
    return isinstance(v, str) and (v != v.strip() or '"' in v or v.endswith('\\') or '\n' in v)


def string_finding_applies(tpl, failed_rules=None):
    """is every failing rule (or, with None, the template as a whole) explained by a problematic string of that type?"""
    by_type = {}
    for r in tpl['Resources'].values():
        if isinstance(r.get('Type'), str) and isinstance(r.get('Properties'), dict):
            if any(problematic(v) for v in r['Properties'].values()):
                by_type[r['Type'].replace('::', '_').lower()] = True
    if failed_rules is None:
        return bool(by_type)
    return bool(failed_rules) and all(by_type.get(f) for f in failed_rules)



def gen_value(rng, kind, tricky):
    if kind == 'str':
        return rng.choice(TRICKY) if tricky and rng.random() < 0.6 else rng.choice(PLAIN)
    if kind == 'int':
        return rng.choice([0, 1, 2, 50, 500, -1, 9007199254740993, -9007199254740993, 4611686018427387905, 2.5])
    if kind == 'bool':
        return rng.choice([True, False])
    if kind == 'list':
        # lists are compared position by position: members in an order that is neither ascending by value nor by rendered text
        return rng.choice([[1, 2], ['a'], [{'Key': 'env', 'Value': rng.choice(['prod', 'dev'])}], [], [[1], [2, 3]],
                           [80, 443, 8080], [9, 10, 2], ['b', 'a', 'c'], [[2, 3], [1]], [{'Key': 'z', 'Value': 'q'}, {'Key': 'a', 'Value': 'p'}], [True, False, 1, 'x']])
    return rng.choice([{'Statement': [{'Effect': rng.choice(['Allow', 'Deny'])}], 'Version': rng.choice(['2012', 2012])}, {'k': rng.choice([1, 'v']), 'l': [1]}, {},
                       {'Zones': ['us-west-2b', 'us-west-2a'], 'Ports': [9, 10]}, {'z': 1, 'a': {'y': [3, 1, 2], 'b': 0}}])


def gen_template(rng, k):
    kind = rng.choice(['plain', 'plain', 'plain', 'nonuniform', 'tricky', 'mixed', 'long'])
    if k % 9 == 4:
        kind = 'long'
    if k % 9 == 7:
        kind = 'unicode'
    ntypes = rng.choice([1, 2, 3])
    types = rng.sample(TYPES, ntypes)
    layout = {t: {p: rng.choice(['str', 'str', 'int', 'bool', 'list', 'map']) for p in rng.sample(PROPS, rng.choice([1, 2, 3]))} for t in types}
    if kind == 'unicode':
        for t in types:
            layout[t]['Name'] = 'str'      # at least one string property per type
    res = {}
    for i in range(rng.choice([1, 2, 3, 4, 5]) if kind != 'long' else rng.choice([3, 4, 5])):
        t = rng.choice(types)
        props = {}
        for p, vk in layout[t].items():
            if kind == 'nonuniform' and rng.random() < 0.4:
                continue
            if kind == 'mixed' and rng.random() < 0.4:
                vk = 'list' if vk in ('str', 'int', 'bool') else 'int'
            props[p] = gen_value(rng, vk, kind == 'tricky')
            if kind == 'unicode' and vk == 'str':
                props[p] = UNICODE[(i + len(p) + k) % len(UNICODE)]
            if kind == 'long' and vk == 'str':
                props[p] = LONG[(i + len(p)) % len(LONG)] if rng.random() < 0.9 else rng.choice(PLAIN)
        r = {'Type': t}
        if props or rng.random() < 0.8:
            r['Properties'] = props
        res['res%d' % i] = r
    if rng.random() < 0.1:
        res['notype'] = {'Properties': {'Name': 'x'}}
    if k % 3 == 1:
        # resources that contribute nothing (no Properties, Properties that is not a struct, no Type) BEFORE, between and after the others
        extra = [('bare%d' % k, {'Type': 'AWS::SNS::Topic'}), ('odd%d' % k, {'Type': 'AWS::Lambda::Function', 'Properties': 'n/a'}), ('untyped%d' % k, {'Properties': {'Name': 'x'}})]
        items = list(res.items())
        for j, e in enumerate(extra[:1 + k % 3]):
            items.insert(min(len(items), j * 2), e)
        res = dict(items)
    return {'Resources': res}, kind


def rendered(v):
    if isinstance(v, str):
        return '"' + v.strip().replace('\n', '') + '"'
    return json.dumps(v, sort_keys=True, separators=(',', ':'))


def resources_term(tpl):
    items = []
    for name, r in tpl['Resources'].items():
        t = r.get('Type')
        props = r.get('Properties')
        if not isinstance(props, dict):
            continue
        ty = ('(Some %s)' % ct.cstr(t)) if isinstance(t, str) else 'None'
        items.append('(%s, %s)' % (ty, ct.clist(['(%s, %s)' % (ct.cstr(p), ct.cstr(rendered(v))) for p, v in props.items()])))
    return ct.clist(items)


def observed_from_ast(ast):
    """hook dump of the emitted rules -> [(type, [(prop, is_eq, nvalues)])] in order"""
    out = []
    rf = ast
    lets = {}
    for le in ct.L(rf[1]):
        # let <var> = Resources.*[ Type == '<T>' ]
        m = re.search(r'"S": "(AWS::[A-Za-z0-9:]+|[A-Za-z0-9:_]+::[A-Za-z0-9:]+)"', json.dumps(le))
        lets[ct.S(le[1])] = m.group(1) if m else None
    for r in ct.L(rf[2]):
        name = ct.S(r[1])
        clauses = []
        var = None
        def walk(x):
            nonlocal var
            if isinstance(x, list) and x and x[0] == 'GuardAccessClause':
                q = x[1]
                parts = ct.L(q[1])
                keys = [ct.S(p[1]) for p in parts if p[0] == 'Key']
                if keys and keys[0].startswith('%') and 'Properties' in keys:
                    var = keys[0][1:]
                    prop = keys[keys.index('Properties') + 1]
                    op = x[2][1]
                    rhs = x[3]
                    n = 1
                    if op == 'In':
                        try:
                            lv = rhs['O'][1]
                            n = len(ct.L(lv[2])) if lv[0] == 'PList' else 1
                        except Exception:
                            n = -1
                    clauses.append((prop, op == 'Eq', n))
                return
            if isinstance(x, list):
                for y in x:
                    walk(y)
            elif isinstance(x, dict):
                for y in x.values():
                    walk(y)
        walk(r)
        out.append((lets.get(var), name, clauses))
    return out


def run_templates(ctx, n):
    rng = random.Random(ctx.seed * 701 + 19)
    scen, jobs = [], []
    for k in range(n):
        tpl, kind = gen_template(rng, k)
        d = os.path.join(ctx.wd, 'g%d' % k)
        text = json.dumps(tpl, indent=1) if rng.random() < 0.7 else json.dumps(tpl)
        e2e.write_files(d, {'t.json': text})
        scen.append({'tpl': tpl, 'kind': kind, 'dir': d})
        jobs.append({'args': ['rulegen', '-t', 't.json'], 'cwd': d})
    res = e2e.run_many(jobs)
    # the same rules through --output, onto a file that already holds (longer) rules from an earlier run
    stale = '# rules of an earlier run\n' + ''.join('rule stale_%d {\n  Resources.*.Properties.P%d exists\n}\n' % (i, i) for i in range(300))
    ojobs = []
    for sc in scen:
        e2e.write_files(sc['dir'], {'out.guard': stale})
        ojobs.append({'args': ['rulegen', '-t', 't.json', '-o', 'out.guard'], 'cwd': sc['dir']})
    ores = e2e.run_many(ojobs)
    for sc, (code, so, se), (ocode, oso, ose) in zip(scen, res, ores):
        if code != 0 or ocode != code:
            if ocode != code:
                ctx.failing('rulegen --output exits %s, to stdout %s' % (ocode, code), {'class': 'rulegen', 'template': sc['tpl']}, found=True)
            continue
        try:
            written = open(os.path.join(sc['dir'], 'out.guard'), encoding='utf-8', errors='replace').read()
        except OSError:
            written = None
        if written is None or written.strip() != so.decode('utf-8', 'replace').strip():
            ctx.failing('rulegen --output onto an existing file leaves text that differs from what it prints to stdout (%d vs %d characters)'
                        % (len(written or ''), len(so)), {'class': 'rulegen', 'template': sc['tpl'], 'file_tail': (written or '')[-200:]}, found=True)
    aops, idx = [], []
    for k, (sc, (code, so, se)) in enumerate(zip(scen, res)):
        sc['code'], sc['rules'], sc['stderr'] = code, so.decode('utf-8', 'replace'), se.decode('utf-8', 'replace')
        if code == 0 and sc['rules'].strip():
            aops.append({'op': 'ast', 'rules': sc['rules']})
            idx.append(k)
    ares = impl.run_ops_parallel(aops, ctx.wd, 'c19ast')
    cases, vjobs, vmeta = [], [], []
    stats = {'error_exit': 0, 'empty_output': 0, 'emitted': 0}
    for k, r in zip(idx, ares):
        scen[k]['ast'] = r.get('res')
    for k, sc in enumerate(scen):
        info = {'class': 'rulegen', 'template': sc['tpl'], 'template_kind': sc['kind'], 'rules': sc.get('rules', '')[:1500]}
        code = sc['code']
        if not isinstance(code, int) or code < 0 or code == 101:
            ctx.failing('rulegen crashes (status %s): %s' % (code, sc['stderr'][:160]), dict(info, **{'class': 'rulegen-crash'}), found=True)
            continue
        types_with_props = []
        for r in sc['tpl']['Resources'].values():
            if isinstance(r.get('Type'), str) and isinstance(r.get('Properties'), dict) and r['Properties'] and r['Type'] not in types_with_props:
                types_with_props.append(r['Type'])
        if code != 0:
            stats['error_exit'] += 1
            continue                      # "either reports an error ..."
        if not sc['rules'].strip():
            if types_with_props and 'Parsing error' not in sc['stderr']:
                ctx.failing('rulegen prints nothing for a template with properties', info, found=True)
            elif types_with_props:
                # its own parse check rejected the output: the recorded finding when a string needs escaping, a violation otherwise
                ctx.failing('rulegen emits nothing: its own output does not parse (%s)' % sc['stderr'][:120],
                            dict(info, **{'class': 'rulegen-string-rendering' if string_finding_applies(sc['tpl']) else 'rulegen'}), found=True)
            stats['empty_output'] += 1
            continue
        a = sc.get('ast')
        if not a or a[0] != 'Ok':
            ctx.failing('the emitted text does not parse as a rules file: %s' % str(a)[:200], info, found=True)
            continue
        stats['emitted'] += 1
        obs = observed_from_ast(a[1])
        if [t for t, _, _ in obs] != types_with_props:
            ctx.failing('emitted rules are for %s, the template has properties for %s' % ([t for t, _, _ in obs], types_with_props), info, found=True)
            continue
        obs_term = ct.clist(['(%s, %s)' % (ct.cstr(t), ct.clist(['(%s, (%s, %d%%nat))' % (ct.cstr(p), ct.cbool(eq), nv) for p, eq, nv in cl])) for t, _, cl in obs])
        cases.append((k, '', 'rulegen_agrees %s %s' % (resources_term(sc['tpl']), obs_term)))
        # validate the template against its own rules, and a mutated template
        e2e.write_files(sc['dir'], {'g.guard': sc['rules']})
        vjobs.append({'args': ['validate', '-r', 'g.guard', '-d', 't.json', '--structured', '-o', 'json', '-S', 'none'], 'cwd': sc['dir']})
        vmeta.append((k, 'self', None))
        # sensitivity: one scalar occurrence changed to a fresh value
        cands = [(rn, p) for rn, r in sc['tpl']['Resources'].items() if isinstance(r.get('Type'), str) and isinstance(r.get('Properties'), dict)
                 for p, v in r['Properties'].items() if isinstance(v, (str, int, bool)) and not isinstance(v, list)]
        if cands:
            rn, p = rng.choice(cands)
            mt = copy.deepcopy(sc['tpl'])
            old = mt['Resources'][rn]['Properties'][p]
            mt['Resources'][rn]['Properties'][p] = 'fresh-value-not-in-template' if not isinstance(old, str) else 987654
            e2e.write_files(sc['dir'], {'m.json': json.dumps(mt)})
            vjobs.append({'args': ['validate', '-r', 'g.guard', '-d', 'm.json', '--structured', '-o', 'json', '-S', 'none'], 'cwd': sc['dir']})
            vmeta.append((k, 'mutated', (rn, p, mt['Resources'][rn]['Type'])))
    verdicts, errors = model.eval_cases(cases, ctx.wd, 'c19m', header=HEADER, per_file=60)
    if errors:
        raise ToolingError('model evaluation failed: %r' % (errors[:1],))
    for k, _, _ in cases:
        if verdicts.get(k) != 'true':
            sc = scen[k]
            ctx.failing('the printed rules differ from the model of rulegen (rule per type / clause per property / operator / number of values)',
                        {'class': 'rulegen-correspondence', 'template': sc['tpl'], 'rules': sc['rules'][:1500]}, found=False)
    vres = e2e.run_many(vjobs)
    npass = 0
    for (k, what, extra), (code, so, se) in zip(vmeta, vres):
        sc = scen[k]
        info = {'class': 'rulegen', 'template': sc['tpl'], 'template_kind': sc['kind'], 'rules': sc['rules'][:1500]}
        try:
            rep = json.loads(so.decode())[0]
        except Exception:
            if what == 'self':
                cls = {'nonuniform': 'rulegen-nonuniform-properties', 'tricky': 'rulegen-string-rendering', 'mixed': 'rulegen-mixed-list-scalar'}.get(sc['kind'], 'rulegen')
                if cls == 'rulegen-string-rendering' and not string_finding_applies(sc['tpl']):
                    cls = 'rulegen'
                ctx.failing('validating the template against its generated rules fails with status %s: %s' % (code, se.decode('utf-8', 'replace')[:160]), dict(info, **{'class': cls}), found=True)
            continue
        failed = [r['Rule']['name'] for r in rep['not_compliant'] if 'Rule' in r]
        if what == 'self':
            if failed or rep['not_applicable']:
                cls = {'nonuniform': 'rulegen-nonuniform-properties', 'tricky': 'rulegen-string-rendering', 'mixed': 'rulegen-mixed-list-scalar'}.get(sc['kind'], 'rulegen')
                if cls == 'rulegen-string-rendering' and not string_finding_applies(sc['tpl'], failed + list(rep['not_applicable'])):
                    cls = 'rulegen'
                ctx.failing('the template does not PASS the rules generated from it: FAIL %s, SKIP %s' % (failed, rep['not_applicable']), dict(info, **{'class': cls}), found=True)
            else:
                npass += 1
        else:
            rn, p, t = extra
            rule = t.replace('::', '_').lower()
            if rule not in failed:
                ctx.failing('changing %s.Properties.%s to a value not in the template leaves rule %s %s' % (rn, p, rule, 'PASS' if rule in rep['compliant'] else 'not FAIL'),
                            dict(info, changed=[rn, p]), found=True)
    ctx.coverage['templates'] = n
    ctx.coverage['template_outcomes'] = stats
    ctx.coverage['self_validations_passing'] = npass
    ctx.coverage['evaluations'] += n + len(vjobs)
    ctx.sample({'template': scen[0]['tpl'], 'rules': scen[0].get('rules', '')[:800]})
    return stats['emitted']


def run(ctx):
    ctx.build(cli=True)
    pr = ctx.proofs('C19')
    thorough = ctx.tier == 'thorough'
    n = run_templates(ctx, 600 if thorough else 90)
    ctx.coverage['distinct_nontrivial'] = n
    ctx.coverage['rule'] = ('templates: 1..5 resources over 1..3 types, 1..3 properties per type (string, int incl. integers beyond 2^53, 2.5, bool, list, map), each also written with --output onto an existing longer file, repeated and distinct values; kinds: plain (uniform property '
                            'sets, plain strings), nonuniform, tricky strings, mixed list/scalar - the last three are the recorded deviations; counted: templates for which rules were emitted')
    ctx.coverage['trusted_base'] = [
        'Coq 8.16.1 kernel (coqc), vm_compute for case evaluation; no axioms',
        'hand-written model Rulegen.v (modelled, not verified); hook ast_dump for the emitted text; CLI runs of rulegen and validate',
    ]
    ctx.assumptions = ['that a printed clause PASSes on the template is the evaluator\'s part: checked end to end, not proved',
                       'value rendering (JSON text, trimming and re-quoting of strings) is compared only through the number of distinct values']
    if not pr['ok']:
        ctx.failing('proof obligations of Props/C19.v no longer check: %s' % (pr.get('problems') or pr.get('log', '')[-500:]),
                    {'class': 'proof', 'theorems': pr['theorems']}, found=False)


def replay(ctx, path):
    j = json.load(open(path))
    for v in j.get('violations', []):
        print(json.dumps(v, indent=1)[:3000])
    return 0
