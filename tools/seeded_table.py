#!/usr/bin/env python3
"""regenerates seeded/RESULTS.md from the lab runs kept under seeded/lab/*.tsv (later files override earlier ones) and the
notes in seeded/strengthened.json"""
import json, glob, re, os
ROOT = os.path.join(os.path.dirname(os.path.abspath(__file__)), '..', 'seeded')
res = {}
for f in sorted(glob.glob(os.path.join(ROOT, 'lab', 'mut-results-*.tsv')), key=lambda x: int(re.search(r'(\d+)\.tsv', x).group(1))):
    for l in open(f):
        p = l.rstrip('\n').split('\t')
        if len(p) >= 3 and re.fullmatch(r'C\d\d-\d+', p[0]) and re.fullmatch(r'C\d\d', p[1]):
            res.setdefault(p[0], {})[p[1]] = p[2]
strength = json.load(open(os.path.join(ROOT, 'strengthened.json')))
rows = []
for m in sorted(res, key=lambda x: (x.split('-')[0], int(x.split('-')[1]))):
    try:
        meta = json.load(open(os.path.join(ROOT, m, 'meta.json')))
    except Exception:
        meta = {}
    summ = re.sub(r'\s+', ' ', (meta.get('breaks') or meta.get('summary') or ''))[:230]
    caught = sorted(c for c, v in res[m].items() if v == 'CAUGHT')
    missed = sorted(c for c, v in res[m].items() if v != 'CAUGHT')
    rows.append((m, summ, caught, missed, strength.get(m, '')))
out = ['# Seeded property-breaking changes and the checks that catch them', '',
       'Each change was written by a fresh sub-agent that saw only the property text (from round 2 on: plus one-line summaries of the earlier changes for that property, to force different mechanisms; six rounds) and a scratch worktree; it compiles, passes the pinned 638-test baseline and needs a specific input to manifest (`meta.json`, `demo.sh`). Confirmed by `tools/confirm_mutant.sh`; run against the checks by `tools/mutant_lab.sh` (scratch copy of /verif + scratch worktree; raw results in `seeded/lab/`) and `tools/try_mutant.sh` (`git -C /repo apply`, `./check`, `git -C /repo checkout -- .`). Verdicts are those of the quick tier on the last run after strengthening.', '',
       '| change | what it breaks | caught by (quick) | other checks tried, silent | check strengthened after a first miss |', '|---|---|---|---|---|']
for m, summ, c, ms, st in rows:
    out.append('| %s | %s | %s | %s | %s |' % (m, summ.replace('|', '\\|'), ', '.join(c), ', '.join(ms) or '-', st or '-'))
own = sum(1 for r in rows if r[0].split('-')[0] in r[2])
out += ['', '%d changes, %d caught by the check of their own property.' % (len(rows), own), '',
        '## Semantics-preserving refactorings (false-alarm test)', '',
        open(os.path.join(ROOT, 'benign.md')).read() if os.path.exists(os.path.join(ROOT, 'benign.md')) else '(none yet)']
open(os.path.join(ROOT, 'RESULTS.md'), 'w').write('\n'.join(out) + '\n')
print('%d changes, %d caught by own check; not caught by own: %s' % (len(rows), own, [r[0] for r in rows if r[0].split('-')[0] not in r[2]]))
