(* CallExtendProps.v — the clause parser with calls (Model/CallParse.clause_c) extends the clause parser over queries with filters
   (Model/ClauseFParse.clause_f), which extends the filter-free one: the three layers answer alike wherever the lower one answers. *)
From Coq Require Import Lia.
From GV.Model Require Import Ast.
From GV.Model Require Import ValueParse QueryParse OpParse ClauseParse CnfParse FilterParse ClauseFParse LetParse CallParse.
From GV.Proofs Require Import LexProps ValueParseProps QueryParseProps ClauseParseProps CnfParseProps CnfSpellProps FilterParseProps ClauseFProps FuelMonoProps.
Local Open Scope string_scope.
Local Open Scope nat_scope.

Section Extends.
Variable rv : string -> bool.

Definition value_of_rhs (w : grhs (Q := fquery)) : pvalue := match w with GLit l => PVLit l | GQuery q => PVQuery q end.
Definition with_calls (c : gclause (Q := fquery)) : cclause_c :=
  mkCCC (gc_neg c) (gc_query c) (gc_cmp c) (option_map value_of_rhs (gc_rhs c)) (gc_msg c).

Lemma parse_value_skip n s : parse_value rv n (skip_ws_comments s) = parse_value rv n s.
Proof. destruct n as [|n]; [reflexivity|]. rewrite !parse_value_S. cbv zeta. now rewrite skip_idem. Qed.

Lemma no_call_here lv m t : function_like t = PErr -> function_expr_with lv m t = PErr.
Proof.
  unfold function_like, function_expr_with. destruct (var_name t) as [name r| | | |]; try discriminate; [|reflexivity].
  destruct r as [|c r]; [reflexivity|]. cbn [expect]. destruct (Ascii.eqb c "("); [discriminate|reflexivity].
Qed.

Lemma call_fails_alike lv m t : function_like t = PFail -> function_expr_with lv m t = PFail.
Proof.
  unfold function_like, function_expr_with. destruct (var_name t) as [name r| | | |]; try discriminate; [|reflexivity].
  destruct r as [|c r]; [discriminate|]. destruct (Ascii.eqb c "("); discriminate.
Qed.

Theorem clause_c_extends : forall n s x, clause_f rv n s = x -> x <> PUnk -> x <> POof ->
  forall m, n <= m -> clause_c rv (S m) s = pmap with_calls x.
Proof.
  intros n s x H H1 H2 m L. unfold clause_f, gclause_parse in H. unfold clause_c.
  destruct (match not_kw (skip_ws_comments s) with Some r => (true, r) | None => (false, skip_ws_comments s) end) as [neg s1].
  destruct (access_f rv n s1) as [q r1| | | |] eqn:Ea; cbn [gfail] in H; try (subst x; congruence);
    rewrite (access_f_mono rv n (S m) s1 _ ltac:(lia) Ea) by discriminate; try (subst x; reflexivity).
  destruct (value_cmp (skip_ws_comments r1)) as [c r2| | | |]; cbn [gfail] in H; try (subst x; (reflexivity || congruence)).
  destruct (is_unary (fst c)).
  { subst x. unfold gwith_message. destruct (opt_message r2); reflexivity. }
  cbn [let_value]. rewrite parse_value_skip.
  destruct (parse_value rv n r2) as [l r3| | | |] eqn:Ep; cbn [gfail] in H; try (subst x; congruence).
  - rewrite (parse_value_fuel_mono rv n m r2 _ L Ep) by discriminate. subst x. unfold gwith_message. destruct (opt_message r3); reflexivity.
  - rewrite (parse_value_fuel_mono rv n m r2 _ L Ep) by discriminate.
    destruct (function_like (skip_ws_comments r2)) eqn:Ef; cbn [gfail] in H; try (subst x; congruence);
      [|rewrite (call_fails_alike _ m _ Ef); subst x; reflexivity].
    rewrite (no_call_here _ m _ Ef).
    destruct (access_f rv n (skip_ws_comments r2)) as [q2 r3| | | |] eqn:Ea2; cbn [gfail] in H; try (subst x; congruence).
    + rewrite (access_f_mono rv n m _ _ L Ea2) by discriminate. cbn [pmap]. subst x. unfold gwith_message. destruct (opt_message r3); reflexivity.
    + rewrite (access_f_mono rv n m _ _ L Ea2) by discriminate. subst x. reflexivity.
    + rewrite (access_f_mono rv n m _ _ L Ea2) by discriminate. subst x. reflexivity.
  - rewrite (parse_value_fuel_mono rv n m r2 _ L Ep) by discriminate. subst x. reflexivity.
Qed.

(* all three layers: a clause of the filter-free grammar is read alike by the parser with filters and by the parser with calls *)
Corollary three_layers_agree : forall s c r, clause_top rv s = POk c r ->
  clause_f_top rv s = POk (embed_clause c) r /\ clause_c_top rv s = POk (with_calls (embed_clause c)) r.
Proof.
  intros s c r H. pose proof (clause_f_top_extends rv s _ H ltac:(discriminate)) as E1. cbn [pmap] in E1. split; [exact E1|].
  unfold clause_f_top in E1. unfold clause_c_top.
  rewrite (clause_c_extends _ s _ E1 ltac:(discriminate) ltac:(discriminate) (S (S (S (S (len s))))) ltac:(lia)). reflexivity.
Qed.

End Extends.
