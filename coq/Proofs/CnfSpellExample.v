(* CnfSpellExample.v — the premises of conditions_spelling_parses are met: two lines, the first with two alternatives joined by OR
   over a line break, a negated comparison, a message, a comment between the lines, a `!` clause, ending where the block opens. *)
From Coq Require Import Lia.
From GV.Model Require Import Ast.
From GV.Model Require Import ValueParse QueryParse OpParse ClauseParse CnfParse.
From GV.Proofs Require Import LexProps ValueParseProps ValueSpellProps ValueSpellExample QueryParseProps QuerySpellProps QuerySpellExample OpParseProps
  ClauseParseProps ClauseFuelProps ClauseSpellProps ClauseSpellExample CnfParseProps CnfSpellProps.
Local Open Scope string_scope.

Definition ex_a1 : calt :=
  AClause (mkCC EmptyString (NWord false " ") (mkCQ None (CVar "b") [CBrStar EmptyString EmptyString EmptyString; CDotKey EmptyString KBare "Size"]) " " (OpSym ">=")
              (RhsValue " " (CInt false "10")) None) (OGe, false).
Definition ex_a2 : calt :=
  AClause (mkCC EmptyString NNone (mkCQ None (CThis EmptyString false) [CDotKey EmptyString KBare "Mode"]) " " (OpSym "==")
              (RhsValue " " (CStr false "strict")) (Some (" ", "mode"))) (OEq, false).
Definition ex_a3 : calt :=
  AClause (mkCC EmptyString NBang (mkCQ None (CKey KBare "Tags") []) " " (OpKw NNone "empty") RhsNone None) (OEmpty, false).

Definition ex_a4 : calt := ANamed (NWord true " ") "other_rule" (Some (" ", "see docs")).
Definition ex_a5 : calt := ANamed NNone "r2" None.

Definition ex_lines : list cline :=
  [mkLine (nl +++ "    ") ex_a1 [(mkOr " " "OR" (nl +++ "      "), ex_a2)];
   mkLine (nl +++ "    # second" +++ nl +++ "    ") ex_a3 [];
   mkLine (nl +++ "    ") ex_a4 [(mkOr " " "|OR|" " ", ex_a5)]].
Definition ex_tail : string := " {" +++ nl.

Lemma kw_empty_lc : is_keyword_spelling OEmpty "empty".
Proof. exists kw_empty. split; [right; right; left; reflexivity|]. unfold kw_empty. cbn. auto. Qed.

Example ex_lines_ok : lines_ok rv0 ex_lines ex_tail.
Proof.
  unfold ex_lines, ex_tail. cbn [lines_ok]. unfold line_ok, wf_or. cbn [ln_w ln_first ln_rest alts_ok or_w or_t or_w'].
  unfold ex_a1, ex_a2, ex_a3, ex_a4, ex_a5. cbn [alt_ok cl_w0]. unfold named_ok, wf_name, no_keyword_prefix.
  repeat split; try (apply layout_dec_sound; reflexivity); try reflexivity; try discriminate; try (unfold kw_or_term; cbn; auto); try (intros; discriminate);
    try (eexists; eexists; split; [reflexivity|split; reflexivity]).
  all: try (cwf_tac; apply od_sym; cbn; auto 10).
  all: try (cwf_tac; apply (od_kw NNone "empty" OEmpty kw_empty_lc)).
  all: try follow_tac.
Qed.

Example ex_conditions_parse :
  single_clauses_top rv0 (render_conds rv0 ex_lines +++ ex_tail) =
  POk [[PWClause (mkPC true (AccessQuery [QKey "%b"; QAllIndices None; QKey "Size"] true) (OGe, false) (Some (RLit (VInt 10))) None);
        PWClause (mkPC false (AccessQuery [QThis; QKey "Mode"] true) (OEq, false) (Some (RLit (VStr "strict"))) (Some "mode"))];
       [PWClause (mkPC true (AccessQuery [QKey "Tags"] true) (OEmpty, false) None None)];
       [PWNamed (mkPN "other_rule" true (Some "see docs")); PWNamed (mkPN "r2" false None)]] (" {" +++ nl).
Proof.
  unfold ex_lines. rewrite (conditions_spelling_parses rv0 _ _ ex_tail ex_lines_ok).
  - reflexivity.
  - reflexivity.
  - intros m. destruct m; reflexivity.
Qed.
