(* QueryParse.v — the query grammar of rules/parser.rs (`access`, lines 545-952): an optional `some`, the head of the query
   (`this`, a `%variable`, a bare or quoted key), and any number of parts: `.n`, `.key`, `."key"`, `.%var`, `.*`, `[*]`,
   `[name]`, `[n]`, `['key']`, `[ name ]`; with the layout the combinators absorb, nom's Error / Failure distinction
   (the closing bracket of `[n` is cut), the cast of an index to i32 (it wraps), and the `[*]` the parser inserts after
   a variable head.  The answer is the AST the evaluator model runs (Ast.access_query).
   Outside the model (answer PUnk, never a query): a bracket that is none of the forms above - a keys filter
   `[ keys == .. ]`, a filter `[ clause .. ]` or a syntax error - and a non-ASCII character directly after a name (the
   code asks char::is_alphanumeric).  No proofs here. *)
From GV.Model Require Import Ast.
From GV.Model Require Import ValueParse.
Local Open Scope string_scope.

Definition name_char (a : ascii) : bool := is_digit a || is_alpha a || Ascii.eqb a "_".

(* var_name: alpha1 (ASCII letters) then take_while(char::is_alphanumeric or '_') *)
Definition var_name (s : string) : pres string :=
  let '(a, r) := span_while is_alpha s in
  match a with
  | EmptyString => PErr
  | String _ _ =>
      let '(b, r2) := span_while name_char r in
      match r2 with
      | String c _ => if is_ascii c then POk (a +++ b) r2 else PUnk
      | EmptyString => POk (a +++ b) r2
      end
  end.

(* var_name_access_inclusive: '%' var_name, the '%' kept in the key *)
Definition var_access (s : string) : pres string :=
  match expect "%" s with
  | Some r => pmap (fun n => String "%" n) (var_name r)
  | None => PErr
  end.

(* property_name: var_name or a quoted string *)
Definition property_name (s : string) : pres string := palt (var_name s) (parse_string_r s).

(* `i as i32` *)
Definition wrap_i32 (z : Z) : Z := ((z + 2147483648) mod 4294967296 - 2147483648)%Z.

Definition int_index (s : string) : pres query_part :=
  pmap (fun l => match l with VInt z => QIndex (wrap_i32 z) | _ => QThis end) (parse_int s).

Definition star (s : string) (p : query_part) : pres query_part :=
  match expect "*" s with Some r => POk p r | None => PErr end.

(* dotted_property: layout '.' then an index, a key, a variable or '*' *)
Definition dotted_property (s : string) : pres query_part :=
  match ws_char "." s with
  | None => PErr
  | Some s1 =>
      palt (int_index s1)
      (palt (pmap QKey (property_name s1))
      (palt (pmap QKey (var_access s1))
            (star s1 (QAllValues None))))
  end.

(* close_array without / with cut *)
Definition closed {A} (x : pres A) (on_miss : pres A) : pres A :=
  match x with
  | POk p r => match ws_char "]" r with Some r' => POk p r' | None => on_miss end
  | other => other
  end.

(* the bracket forms, after the opening bracket *)
Definition all_indices_body (s1 : string) : pres query_part :=
  closed (palt (star (skip_ws_comments s1) (QAllIndices None))
               (pmap (fun n => QAllIndices (Some n)) (var_name s1))) PErr.

Definition array_index_body (s1 : string) : pres query_part := closed (int_index s1) PFail.

Definition map_key_lookup_body (s1 : string) : pres query_part :=
  closed (palt (pmap QKey (parse_string_r s1))
               (match var_name (skip_ws_comments s1) with
                | POk n r => POk (QAllValues (Some n)) (skip_ws_comments r)
                | other => pmap (fun _ => QThis) other
                end)) PErr.

(* predicate_or_index: all_indices, array_index, map_key_lookup, then map_keys_match and predicate_filter_clauses (PUnk) *)
Definition predicate_or_index (s : string) : pres query_part :=
  match ws_char "[" s with
  | None => PErr
  | Some s1 => palt (all_indices_body s1) (palt (array_index_body s1) (palt (map_key_lookup_body s1) PUnk))
  end.

Definition part (s : string) : pres query_part := palt (dotted_property s) (predicate_or_index s).

(* fold_many1: at least one part; a recoverable error ends the list *)
Fixpoint parts_loop (fuel : nat) (acc : list query_part) (s : string) : pres (list query_part) :=
  match fuel with
  | O => POof
  | S n =>
      match part s with
      | POk p r => parts_loop n (acc ++ [p]) r
      | PErr => POk acc s
      | PFail => PFail
      | PUnk => PUnk
      | POof => POof
      end
  end.
Definition dotted_access (fuel : nat) (s : string) : pres (list query_part) :=
  match part s with
  | POk p r => parts_loop fuel [p] r
  | other => pmap (fun _ => []) other
  end.

Definition starts_layout (s : string) : bool :=
  match s with String c _ => is_ws c || is_hash c | EmptyString => false end.

(* some_keyword: layout, SOME / some, at least one blank or comment *)
Definition some_keyword (s : string) : option string :=
  match alt_tags kw_some_keyword (skip_ws_comments s) with
  | Some r => if starts_layout r then Some (skip_ws_comments r) else None
  | None => None
  end.
Definition this_keyword (s : string) : option string := alt_tags kw_this_keyword (skip_ws_comments s).

(* the `[*]` inserted after a variable head that is followed by something else *)
Definition after_variable (first : query_part) (parts : list query_part) : list query_part :=
  if part_is_variable first then
    match parts with
    | QAllIndices _ :: _ => parts
    | _ => QAllIndices None :: parts
    end
  else parts.

Definition access (fuel : nat) (s : string) : pres access_query :=
  let '(all, s1) := match some_keyword s with Some r => (false, r) | None => (true, s) end in
  let first : pres query_part :=
    match this_keyword s1 with
    | Some r => POk QThis r
    | None => pmap QKey (palt (var_access s1) (property_name s1))
    end in
  match first with
  | POk f r =>
      match dotted_access fuel r with
      | POk parts r' => POk (AccessQuery (f :: after_variable f parts) all) r'
      | PErr => POk (AccessQuery [f] all) r
      | other => pmap (fun _ => AccessQuery [] all) other
      end
  | other => pmap (fun _ => AccessQuery [] all) other
  end.

Definition access_fuel (s : string) : nat := S (String.length s).
Definition access_top (s : string) : pres access_query := access (access_fuel s) s.

(* ---------------------------------------------------------------- the tie: what the implementation answered *)
Inductive impl_access :=
| IAOk (q : access_query) (offset : N)
| IAError | IAFailure | IAOther.

Definition ostr_eqb (a b : option string) : bool :=
  match a, b with
  | Some x, Some y => String.eqb x y
  | None, None => true
  | _, _ => false
  end.
Definition part_eqb (a b : query_part) : bool :=
  match a, b with
  | QThis, QThis => true
  | QKey x, QKey y => String.eqb x y
  | QAllValues x, QAllValues y => ostr_eqb x y
  | QAllIndices x, QAllIndices y => ostr_eqb x y
  | QIndex x, QIndex y => Z.eqb x y
  | _, _ => false
  end.
Fixpoint parts_eqb (a b : list query_part) : bool :=
  match a, b with
  | [], [] => true
  | x :: a', y :: b' => part_eqb x y && parts_eqb a' b'
  | _, _ => false
  end.
Definition aq_eqb (a b : access_query) : bool :=
  parts_eqb (aq_query a) (aq_query b) && Bool.eqb (aq_all a) (aq_all b).

Inductive pa_verdict := PAAgree | PAAgreeReject | PANotModelled | PADisagree.

Definition access_obs (text : string) (i : impl_access) : pa_verdict :=
  match access_top text, i with
  | PUnk, _ => PANotModelled
  | POk q r, IAOk q' off =>
      if aq_eqb q q' && N.eqb (N.of_nat (String.length text - String.length r)) off then PAAgree else PADisagree
  | PErr, IAError => PAAgreeReject
  | PFail, IAFailure => PAAgreeReject
  | _, _ => PADisagree
  end.
