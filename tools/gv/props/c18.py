"""C18 — built-in functions compute what their documentation says (partial).

proof   : Props/C18.v over Model/Functions.v (count, join, substring on ASCII, element-wise behaviour, skipping,
          to_upper on ASCII, parse_int(parse_string(n)) = n, "the parsed value or an error")
tie     : SEval (with Functions.v) vs implementation on generated programs that use functions in every argument form
          (literal, query, variable, nested call): status, error kind, whole record tree
monitor : an independent python reference of every documented function (docs/FUNCTIONS.md) - count, to_upper, to_lower,
          url_decode, substring, regex_replace, join, json_parse, parse_int / float / string / boolean / char / epoch - is
          compared with the implementation on generated argument values (unicode strings, numeric strings, mixed-type
          lists, unresolved members, empty selections): the function result is observed through `%r == <expected>` (PASS),
          its negation (FAIL), an empty result (SKIP) or an evaluation error; composites parse_int(parse_string(n)) = n and
          json_parse(JSON text of D) == D; a function result bound to a variable is used in later clauses like any value
oracles (not modelled): Unicode case mapping, percent-decoding, fancy_regex, serde_yaml, decimal<->float, chrono.
"""
import json, random, re, urllib.parse, datetime
from .. import coqterm as ct
from .. import impl, corr, gen, e2e
from ..common import *

ERR = object()
SKIPPED = object()

STRINGS = ['', 'a', 'abc', 'Hello World', 'héllo', 'ÀÉÎ', 'ß', 'straße', 'École', 'ΑΘΗΝΑ', 'MAñANA', 'привет', 'ÉCOLE Normale', 'a%20b', '%41%42', 'a+b', '100%', '%zz', '%C3%A9', '%E9', 'x-y-z', 'arn:aws:s3:::bucket',
           '12', '-7', '+3', '007', '1.5', 'abc12', 'true', 'TRUE', 'False', 'yes', '2024-01-01T00:00:00Z', '2024-01-01T00:00:00+05:30', 'not a date', '{"a": [1, 2]}',
           '[1, "x", null]', '{"a": ', '9223372036854775807', '9223372036854775808', 'ǆ', 'İ']
OTHERS = [0, 5, -3, 9, 8, 1, 10, -1, 2.5, -1.5, -0.25, -2.0, -7.9, 0.99, 1e10, True, False, None, [], ['a', 'b'], {'k': 'v'}, ['a', 1],
          2147483647, 2147483648, 5000000000, -4294967296, 4294967296, 9007199254740992, -2147483649]     # integers beyond i32 (and at 2^53)


def ref(fn, v, extra=()):
    """python reference on ONE resolved value: a python value, SKIPPED (value of unsupported type) or ERR"""
    if fn in ('to_upper', 'to_lower'):
        if not isinstance(v, str):
            return SKIPPED
        return v.upper() if fn == 'to_upper' else v.lower()
    if fn == 'url_decode':
        if not isinstance(v, str):
            return SKIPPED
        try:
            return urllib.parse.unquote(v, errors='strict')
        except UnicodeDecodeError:
            return SKIPPED
    if fn == 'substring':
        if not isinstance(v, str):
            return SKIPPED
        i, j = extra
        b = v.encode('utf-8')
        if i < 0 or j < 0:
            return SKIPPED          # an offset before the start of the string selects nothing
        if not v or not (i < j) or i > len(b) or j > len(b):
            return SKIPPED
        try:
            b[:i].decode('utf-8'); b[:j].decode('utf-8')
        except UnicodeDecodeError:
            return SKIPPED
        return b[i:j].decode('utf-8')
    if fn == 'regex_replace':
        if not isinstance(v, str):
            return SKIPPED
        pat, rep = extra
        return re.sub(pat, re.sub(r'\$\{(\d+)\}', r'\\g<\1>', rep), v)
    if fn == 'parse_int':
        if isinstance(v, bool) or v is None or isinstance(v, (list, dict)):
            return SKIPPED
        if isinstance(v, int):
            return v
        if isinstance(v, float):
            return int(v)
        if re.fullmatch(r'[+-]?\d+', v) and -2 ** 63 <= int(v) < 2 ** 63:
            return int(v)
        return ERR
    if fn == 'parse_float':
        if isinstance(v, bool) or v is None or isinstance(v, (list, dict)):
            return SKIPPED
        if isinstance(v, (int, float)):
            return float(v)
        if re.fullmatch(r'[+-]?(\d+\.?\d*([eE][+-]?\d+)?|\.\d+([eE][+-]?\d+)?)', v):
            return float(v)
        if v.lower().lstrip('+-') in ('inf', 'infinity', 'nan'):
            return None          # not comparable by ==: not used as an expectation
        return ERR
    if fn == 'parse_boolean':
        if isinstance(v, bool):
            return v
        if isinstance(v, str):
            return {'true': True, 'false': False}.get(v.lower(), ERR)
        return SKIPPED
    if fn == 'parse_string':
        if isinstance(v, bool):
            return 'true' if v else 'false'
        if isinstance(v, int):
            return str(v)
        if isinstance(v, str):
            return v
        if isinstance(v, float):
            return None          # Rust float formatting: not used as an expectation
        return SKIPPED
    if fn == 'parse_char':
        # observed through parse_string(parse_char(v)): a digit 0..9 or a one-byte string gives that character; other integers and
        # longer strings are errors; the empty string and values of other types are skipped
        if isinstance(v, bool) or v is None or isinstance(v, (list, dict, float)):
            return SKIPPED
        if isinstance(v, int):
            return str(v) if 0 <= v <= 9 else ERR
        b = v.encode('utf-8')
        if len(b) > 1:
            return ERR
        return v if len(b) == 1 else SKIPPED
    if fn == 'json_parse':
        if not isinstance(v, str):
            return SKIPPED
        try:
            return json.loads(v)
        except ValueError:
            return None          # serde_yaml accepts more than JSON: no expectation for non-JSON text
    if fn == 'parse_epoch':
        if not isinstance(v, str):
            return SKIPPED
        try:
            if not re.fullmatch(r'\d{4}-\d\d-\d\dT\d\d:\d\d:\d\d(\.\d+)?(Z|[+-]\d\d:\d\d)', v):
                return ERR
            return int(datetime.datetime.fromisoformat(v.replace('Z', '+00:00')).timestamp())
        except ValueError:
            return ERR
    raise ValueError(fn)


def lit(v):
    return gen.render_lit(gen.lit_from_py(v))


def call_text(fn, argq, extra):
    if fn == 'substring':
        return 'substring(%s, %d, %d)' % (argq, extra[0], extra[1])
    if fn == 'regex_replace':
        return 'regex_replace(%s, %s, %s)' % (argq, lit(extra[0]), lit(extra[1]))
    if fn == 'parse_char':
        return 'parse_string(parse_char(%s))' % argq
    return '%s(%s)' % (fn, argq)


def single_value_cases(ctx, thorough):
    rng = random.Random(ctx.seed * 601 + 18)
    fns = ['to_upper', 'to_lower', 'url_decode', 'substring', 'regex_replace', 'parse_int', 'parse_float', 'parse_boolean', 'parse_string', 'parse_char', 'json_parse', 'parse_epoch']
    cases = []
    for fn in fns:
        vals = STRINGS + OTHERS
        for v in vals:
            extras = [()]
            if fn == 'substring':
                extras = [(0, 1), (1, 3), (0, 0), (2, 1), (0, 40), (1, 2), (-2, 3), (-1, 2), (0, -1)]
            if fn == 'regex_replace':
                extras = [('-', '_'), ('^(\\w+) (\\w+)$', '${2} ${1}'), ('[0-9]+', '#'), ('^arn:(\\w+):(\\w+):.*$', '${2}/${1}'), ('z', 'Q'),
                          ('^', 'pre-'), ('$', '-suf'), ('\\b', '|')]          # patterns that match the empty string
            for ex in extras:
                exp = ref(fn, v, ex)
                if exp is None:
                    continue
                cases.append((fn, v, ex, exp))
    if not thorough:
        # every function on every non-string value and on the numeric-looking strings always; a seeded sample of the rest
        core = [c for c in cases if not isinstance(c[1], str) or re.fullmatch(r'[+-]?[0-9.]+', c[1]) or (c[0] == 'substring' and min(c[2]) < 0)
                or (c[0] in ('to_upper', 'to_lower') and any(ord(ch) > 127 for ch in c[1]))]       # case mapping beyond ASCII: always
        rest = [c for c in cases if c not in core]
        rng.shuffle(rest)
        cases = core + rest[:max(0, 600 - len(core))]
    ops, meta = [], []
    for fn, v, ex, exp in cases:
        doc = {'v': v, 'w': [v, v]}
        for form in ('query', 'variable', 'literal'):
            if form == 'literal' and not isinstance(v, str):
                continue
            if form == 'query':
                pre, arg = '', 'v'
            elif form == 'variable':
                pre, arg = 'let a = v\n', '%a'
            else:
                pre, arg = '', lit(v)
            call = call_text(fn, arg, ex)
            if exp is ERR or exp is SKIPPED:
                rules = '%slet r = %s\nrule t {\n  %%r exists\n}\n' % (pre, call)
            else:
                e = lit(exp)
                rules = '%slet r = %s\nrule t {\n  %%r == %s\n}\nrule u {\n  %%r != %s\n}\nrule later when %%r exists {\n  let again = %%r\n  %%again == %s\n}\n' % (pre, call, e, e, e)
            ops.append({'op': 'eval', 'rules': rules, 'data': json.dumps(doc), 'loader': 'json'})
            meta.append((fn, v, ex, exp, form, rules))
    res = impl.run_ops_parallel(ops, ctx.wd, 'c18single')
    dist = {}
    n = 0
    for (fn, v, ex, exp, form, rules), r in zip(meta, res):
        info = {'class': 'function-result', 'function': fn, 'argument': v, 'extra': ex, 'form': form, 'rules': rules, 'data': json.dumps({'v': v, 'w': [v, v]})}
        if 'panic' in r or 'abort' in r:
            ctx.failing('%s(%r) crashes: %s' % (fn, v, str(r)[:120]), info, found=True)
            continue
        d = r.get('res')
        if not isinstance(d, dict) or d.get('ast', [None])[0] != 'Ok':
            dist['unparsed'] = dist.get('unparsed', 0) + 1
            continue
        n += 1
        res_ = d['result']
        got_err = res_[0] == 'Err'
        sts = dict(e2e.rule_statuses(r)) if res_[0] == 'Ok' else {}
        kind = 'ERR' if exp is ERR else ('SKIPPED' if exp is SKIPPED else 'VALUE')
        dist[(fn, kind)] = dist.get((fn, kind), 0) + 1
        if exp is ERR:
            if not got_err:
                ctx.failing('%s(%s) should raise an error for unparsable input, it evaluates (%s)' % (fn, json.dumps(v), sts), info, found=True)
        elif exp is SKIPPED:
            if got_err or sts.get('t') != 'SKIP':
                ctx.failing('%s(%s): a value of unsupported type / out of range should be skipped (empty result), got %s' % (fn, json.dumps(v), 'error ' + str(res_[1]) if got_err else sts), info, found=True)
        else:
            if got_err or sts.get('t') != 'PASS' or sts.get('u') != 'FAIL' or sts.get('later') != 'PASS':
                ctx.failing('%s(%s)%s should be %s; observed %s' % (fn, json.dumps(v), ' ' + str(ex) if ex else '', json.dumps(exp)[:80], 'error ' + str(res_[1]) if got_err else sts), info, found=True)
    ctx.coverage['single_value_cases'] = n
    ctx.coverage['single_value_distribution'] = {'%s:%s' % k if isinstance(k, tuple) else k: v for k, v in sorted(dist.items(), key=str)}
    ctx.coverage['evaluations'] += len(ops)
    ctx.sample({'rules': meta[0][5], 'argument': meta[0][1], 'expected': str(meta[0][3])})
    return n


def collection_cases(ctx):
    """count and join over selections with unresolved members, empty selections, mixed types; order; composites"""
    docs = [
        {"l": [{"n": "a"}, {"n": "b"}, {"m": 1}, {"n": "c"}], "e": [], "mixed": ["a", 1, "b"], "nums": [3, -1, 12], "strs": ["x", "", "z"], "one": "solo", "D": {"k": [1, {"z": None}], "s": "t"}},
    ]
    T = []          # (rules, expected status of rule t or 'ERR')
    T.append(('let c = count(l[*].n)\nrule t { %c == 3 }\n', 'PASS'))                      # unresolved member not counted
    T.append(('let c = count(l[*])\nrule t { %c == 4 }\n', 'PASS'))
    T.append(('let c = count(e[*])\nrule t { %c == 0 }\n', 'PASS'))                        # the empty selection is one unresolved entry
    T.append(('let c = count(zz)\nrule t { %c == 0 }\n', 'PASS'))
    T.append(('let c = count(l[ n == "nothing" ])\nrule t { %c == 0 }\n', 'PASS'))
    T.append(('let c = count(one)\nrule t { %c == 1 }\n', 'PASS'))
    T.append(('let j = join(strs[*], ",")\nrule t { %j == "x,,z" }\n', 'PASS'))             # order, delimiter between
    T.append(('let j = join(strs[*], "")\nrule t { %j == "xz" }\n', 'PASS'))
    T.append(('let j = join(one, "-")\nrule t { %j == "solo" }\n', 'PASS'))
    T.append(('let j = join(mixed[*], ",")\nrule t { %j exists }\n', 'ERR'))                # non-string member
    T.append(('let j = join(l[*].n, ",")\nrule t { %j exists }\n', 'ERR'))                  # unresolved member
    T.append(('let j = join(l[ n exists ].n, "+")\nrule t { %j == "a+b+c" }\n', 'PASS'))
    T.append(('let u = to_upper(l[*].n)\nlet j = join(%u, "")\nrule t { %j == "ABC" }\n', 'PASS'))   # element-wise, unresolved skipped, nested call
    T.append(('let s = parse_string(nums[*])\nlet j = join(%s, ",")\nrule t { %j == "3,-1,12" }\n', 'PASS'))
    T.append(('let s = parse_string(nums[*])\nlet i = parse_int(%s)\nrule t { %i == nums[*] }\nrule u { some %i == 12 }\n', 'PASS'))   # parse_int(parse_string(n)) = n
    T.append(('let i = parse_int(parse_string(nums[*]))\nrule t { %i == nums[*] }\n', 'PASS'))
    T.append(('let p = json_parse(%s)\nrule t { %%p == D }\nrule u { %%p.k[1].z is_null }\n' % lit(json.dumps(docs[0]['D'])), 'PASS'))    # json_parse(JSON text of D) == D
    T.append(('let p = json_parse(%s)\nrule t { %%p.s == "t" }\n' % lit(json.dumps(docs[0]['D'], indent=2)), 'PASS'))
    T.append(('let n = count(l[*].n)\nrule t when %n >= 3 {\n  let m = %n\n  %m in [3, 4]\n  %n < 4\n}\n', 'PASS'))     # a result behaves like any value
    T = [(r, w, docs[0]) for r, w in T]
    # join against the reference on EVERY list of up to 3 strings over {'', 'a', 'b,'} x 3 delimiters; count on EVERY pattern of
    # present / missing members up to length 4
    import itertools
    for n_ in range(1, 4):
        for combo in itertools.product(['', 'a', 'b,'], repeat=n_):
            for delim in (',', '', '-'):
                T.append(('let j = join(x[*], %s)\nrule t { %%j == %s }\n' % (lit(delim), lit(delim.join(combo))), 'PASS', {'x': list(combo)}))
    for n_ in range(1, 5):
        for pat in itertools.product([True, False], repeat=n_):
            d = {'x': [({'n': 'v%d' % i} if p else {'m': i}) for i, p in enumerate(pat)]}
            T.append(('let c = count(x[*].n)\nrule t { %%c == %d }\n' % sum(pat), 'PASS', d))
    # json_parse(JSON text of D) == D on every JSON number spelling (sign, zero, negative zero, fraction, exponent in both cases, the
    # i64 bounds), alone, in a list, in a struct, nested - D as the validate loader reads it (the raw text is the data file)
    class Raw(str):
        pass
    for num in ['-0', '0', '-0.0', '0.0', '1e2', '1E2', '1e+2', '10', '-1', '1.0', '0.1', '1.5e-3', '9223372036854775807', '-9223372036854775808', '100', '-12', '2.50']:
        for shape in ('%s', '[%s]', '{"n": %s}', '[1, {"a": [%s, "x"]}]'):
            j = shape % num
            T.append(('let p = json_parse(s)\nrule t { %p == d }\nrule u { d == %p }\n', 'PASS', Raw('{"s": %s, "d": %s}' % (json.dumps(j), j))))
    ops = [({'op': 'eval', 'rules': r, 'data': str(d), 'loader': 'cli'} if isinstance(d, Raw) else {'op': 'eval', 'rules': r, 'data': json.dumps(d), 'loader': 'json'}) for r, _, d in T]
    res = impl.run_ops_parallel(ops, ctx.wd, 'c18coll')
    n = 0
    for (rules, want, doc_), r in zip(T, res):
        info = {'class': 'function-collection', 'rules': rules, 'data': str(doc_) if isinstance(doc_, Raw) else json.dumps(doc_)}
        d = r.get('res')
        if 'panic' in r or 'abort' in r or not isinstance(d, dict):
            ctx.failing('a function program crashes: %s' % str(r)[:150], info, found=True)
            continue
        if d.get('ast', [None])[0] != 'Ok':
            raise ToolingError('collection case does not parse: %s: %s' % (rules, d.get('ast')))
        n += 1
        if want == 'ERR':
            if d['result'][0] != 'Err':
                ctx.failing('an evaluation error was expected, got %s' % dict(e2e.rule_statuses(r)), info, found=True)
        else:
            sts = dict(e2e.rule_statuses(r)) if d['result'][0] == 'Ok' else {'error': d['result'][1]}
            if sts.get('t') != want or ('u' in sts and sts['u'] != 'PASS'):
                ctx.failing('function program: expected rule t %s, observed %s' % (want, sts), info, found=True)
    ctx.coverage['collection_cases'] = n
    ctx.coverage['evaluations'] += len(ops)
    return n


def model_correspondence(ctx, n):
    rng = random.Random(ctx.seed * 601 + 19)
    pairs = []
    for i in range(n):
        doc, prog = gen.gen_pair(rng, {'cycles': 0.0, 'functions': True})
        # more function use: variables bound to calls, nested calls
        text = gen.render_file(prog)
        if 'count(' in text or 'join(' in text or 'to_' in text or 'parse_' in text or 'substring(' in text:
            pairs.append({'rules': text, 'data': json.dumps(doc)})
    out, errs = corr.run(pairs, ctx.wd, 'c18corr', loader='cli')
    if errs:
        raise ToolingError('model evaluation failed: %r' % (errs[:1],))
    stats = {}
    for o, p in zip(out, pairs):
        key = o['kind'] if o['kind'] != 'compared' else o['verdict']
        stats[key] = stats.get(key, 0) + 1
        if o['kind'] == 'compared' and re.search(r'VDis|VModelOOF|NoModelOutput', o['verdict']):
            ctx.failing('model and implementation disagree on a program that uses functions (%s)' % o['verdict'],
                        {'class': 'eval-correspondence', 'verdict': o['verdict'], 'rules': p['rules'], 'data': p['data']}, found=False)
    ctx.coverage['correspondence_verdicts'] = stats
    ctx.coverage['evaluations'] += len(pairs)
    return len(pairs)


def run(ctx):
    ctx.build()
    pr = ctx.proofs('C18')
    thorough = ctx.tier == 'thorough'
    n = single_value_cases(ctx, thorough) + collection_cases(ctx) + model_correspondence(ctx, 2000 if thorough else 300)
    ctx.coverage['distinct_nontrivial'] = n
    ctx.coverage['rule'] = ('single-value cases: every element-wise function x a universe of %d strings (unicode, numeric-looking, percent-encoded, JSON text, timestamps) and %d non-string values '
                            'x argument form (query, variable, literal) x extra arguments (substring offsets, regex/replacement pairs), expectation from the python reference; collection cases: '
                            'count/join/nested calls/composites over selections with unresolved members, empty selections and mixed types; quick = seeded sample of 500 single-value cases'
                            % (len(STRINGS), len(OTHERS)))
    ctx.coverage['trusted_base'] = [
        'Coq 8.16.1 kernel (coqc), vm_compute for case evaluation; no axioms',
        'hand-written model Functions.v (modelled, not verified; Unknown outside ASCII / for the oracle functions)',
        'the python reference of tools/gv/props/c18.py (str.upper/lower, urllib unquote, re.sub, json, datetime) as the independent implementation',
    ]
    ctx.assumptions = ['float formatting (parse_string of a float), nan/inf and non-JSON YAML accepted by json_parse have no expectation',
                       'python and Rust Unicode case mapping agree on the strings of the universe']
    if not pr['ok']:
        ctx.failing('proof obligations of Props/C18.v no longer check: %s' % (pr.get('problems') or pr.get('log', '')[-500:]),
                    {'class': 'proof', 'theorems': pr['theorems']}, found=False)


def replay(ctx, path):
    j = json.load(open(path))
    for v in j.get('violations', []):
        print(json.dumps(v, indent=1)[:3000])
    return 0
