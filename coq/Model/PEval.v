(* PEval.v — the memo-free reading of the evaluator: the same interpreter as SEval with the two caches
   switched off.  A variable is re-derived from its definition at every reference (the memo of a scope
   is never read nor written), a named rule is re-evaluated at every reference (RootScope.rules_status
   is never read nor written).  Every other body is SEval's own, reused through the record of callees.
   This is what the documentation means by "a variable stands for its definition"; MemoProps.v proves
   that SEval computes the same values.  No proofs in this file. *)
From GV.Model Require Export SEval.

Section PEval.
Variable re : re_oracle.
Variable conv : conv_oracle.
Variable prog : rules_file.

Section Bodies.
Variable r : ev.

(* resolve_variable without the memo *)
Definition resolve_scope' (is_root : bool) (root : pv) (lets : list let_expr) (name : string) : M (list qres) :=
  match find_literal name lets with
  | Some v => ret [QLiteral v]
  | None =>
      match find_function name lets with
      | Some (ps, f) => ev_fn r f ps
      | None =>
          match find_query name lets with
          | Some aq =>
              result <- ev_query r 0 (aq_query aq) root None ;;
              ret (if aq_all aq then result else filter is_resolved result)
          | None =>
              if is_root then failM EMissingValue else with_parent (ev_resolve r name)
          end
      end
  end.

Definition resolve_body' (name : string) : M (list qres) := fun s =>
  match frames s with
  | [] => Unknown
  | FValue _ :: _ => with_parent (ev_resolve r name) s
  | FParams b _ _ :: _ =>
      match assoc name b with
      | Some res => ret res s
      | None => with_parent (ev_resolve r name) s
      end
  | FBlock root lets _ :: _ => resolve_scope' false root lets name s
  | FRoot root lets _ :: _ => resolve_scope' true root lets name s
  end.

(* rule_status without the cache *)
Definition rule_status_inner' (name : string) : M status :=
  match rules_named prog name with
  | [] => failM EMissingValue
  | rules => first_non_skip r rules
  end.
Definition rule_status_body' (name : string) : M status := at_root (rule_status_inner' name).

Definition named_clause_body' (n : named_clause) : M status :=
  match n with
  | GuardNamedRuleClause dep negation custom =>
      node (st <- rule_status_body' dep ;;
            ret (match st with
                 | PASS => if negation then FAIL else PASS
                 | _ => if negation then PASS else FAIL
                 end))
           (fun st => match st with
                      | PASS => KClauseValueCheck CSuccess
                      | _ => KClauseValueCheck (CDependentRule dep false custom FAIL)
                      end)
  end.

Definition when_clause_body' (w : when_clause) : M status :=
  match w with
  | WClause g => access_clause_body re r g
  | WNamedRule n => named_clause_body' n
  | WParameterizedNamedRule ps n => param_call_body prog r ps n
  end.

Definition when_block_body' (conds : when_conditions) (b : gblock) : M status :=
  node (
    cst <- node (cnf_body when_clause_body' conds) KWhenCondition ;;
    match cst with
    | PASS => gblock_body r b
    | _ => ret SKIP
    end) (fun st => KWhenCheck false st false).

Definition clause_body' (g : guard_clause) : M status :=
  match g with
  | GClause c => access_clause_body re r c
  | GNamedRule n => named_clause_body' n
  | GParameterizedNamedRule ps n => param_call_body prog r ps n
  | GBlockClause aq b ne => block_clause_body r aq b ne
  | GWhenBlock conds b => when_block_body' conds b
  end.

Definition type_block_body' (type_name : string) (conds : option when_conditions) (b : gblock)
           (q : query) : M status :=
  node (
    go <- match conds with
          | Some c =>
              cst <- node (cnf_body when_clause_body' c) KTypeCondition ;;
              ret (status_eqb cst PASS)
          | None => ret true
          end ;;
    if negb go then ret SKIP
    else
      values <- ctx_query r q ;;
      match values with
      | [] => ret SKIP
      | _ =>
          sts <- mapM (fun each =>
                   match each with
                   | QLiteral rv | QResolved rv =>
                       node (with_frame (FValue rv) (gblock_body r b)) KTypeBlock
                   | QUnResolved _ => failM EMissingValue
                   end) values ;;
          ret (fold_fail_pass_skip sts)
      end) (fun st => KTypeCheck type_name false st false).

Definition rule_clause_body' (c : rule_clause) : M status :=
  match c with
  | RClause g => ev_clause r g
  | RWhenBlock conds b => when_block_body' conds b
  | RTypeBlock tn conds b q => type_block_body' tn conds b q
  end.

Definition rule_body' (x : rule) : M status :=
  node (
    go <- match rule_conditions x with
          | Some c =>
              cst <- node (cnf_body when_clause_body' c) KRuleCondition ;;
              ret (status_eqb cst PASS)
          | None => ret true
          end ;;
    if negb go then ret SKIP
    else
      root <- ctx_root ;;
      with_frame (FBlock root (rule_lets x) []) (cnf_body rule_clause_body' (rule_cnf x)))
    (fun st => KRuleCheck (rule_name x) st None).

End Bodies.

Fixpoint evalP (fuel : nat) : ev :=
  match fuel with
  | O => ev_bottom
  | S n =>
      let r := evalP n in
      mkEv (query_body re conv r) (clause_body' r) (rule_body' r) (resolve_body' r) (fn_body r)
  end.

Definition eval_file' (fuel : nat) (doc : pv) : outcome (status * list record * state) :=
  file_body prog (evalP fuel) (init_state prog doc).

End PEval.

(* ------------------------------------------------------------------ *)
(* capture-free syntax: no `name |` captures in queries (they write into the root scope) *)

Fixpoint nc_lv (v : let_value) : bool :=
  match v with
  | LValue _ => true
  | LAccess a => nc_aq a
  | LFunction ps _ => forallb nc_lv ps
  end
with nc_part (p : query_part) : bool :=
  match p with
  | QThis | QKey _ | QIndex _ => true
  | QMapKeyFilter _ _ w => nc_lv w
  | QAllValues None | QAllIndices None => true
  | QAllValues (Some _) | QAllIndices (Some _) => false
  | QFilter None cnf => forallb (forallb nc_clause) cnf
  | QFilter (Some _) _ => false
  end
with nc_aq (a : access_query) : bool :=
  match a with AccessQuery q _ => forallb nc_part q end
with nc_ac (c : access_clause) : bool :=
  match c with
  | GuardAccessClause q _ w _ _ => nc_aq q && match w with None => true | Some v => nc_lv v end
  end
with nc_clause (g : guard_clause) : bool :=
  match g with
  | GClause c => nc_ac c
  | GNamedRule _ => true
  | GParameterizedNamedRule ps _ => forallb nc_lv ps
  | GBlockClause q b _ => nc_aq q && nc_block b
  | GWhenBlock conds b => forallb (forallb nc_wc) conds && nc_block b
  end
with nc_wc (w : when_clause) : bool :=
  match w with
  | WClause c => nc_ac c
  | WNamedRule _ => true
  | WParameterizedNamedRule ps _ => forallb nc_lv ps
  end
with nc_block (b : gblock) : bool :=
  match b with
  | Block lets cnf => forallb (fun l => nc_lv (snd l)) lets && forallb (forallb nc_clause) cnf
  end.

Definition nc_query (q : query) : bool := forallb nc_part q.
Definition nc_cnf (cnf : list (list guard_clause)) : bool := forallb (forallb nc_clause) cnf.
Definition nc_conds (c : when_conditions) : bool := forallb (forallb nc_wc) c.
Definition nc_lets (lets : list let_expr) : bool := forallb (fun l => nc_lv (snd l)) lets.
Definition nc_oconds (c : option when_conditions) : bool := match c with Some c => nc_conds c | None => true end.
Definition nc_rule_clause (c : rule_clause) : bool :=
  match c with
  | RClause g => nc_clause g
  | RWhenBlock conds b => nc_conds conds && nc_block b
  | RTypeBlock _ conds b q => nc_oconds conds && nc_block b && nc_query q
  end.
Definition nc_rule (x : rule) : bool :=
  nc_oconds (rule_conditions x) && nc_lets (rule_lets x) && forallb (forallb nc_rule_clause) (rule_cnf x).
Definition nc_prog (p : rules_file) : bool :=
  nc_lets (rf_lets p) && forallb nc_rule (rf_rules p) && forallb (fun pr => nc_rule (pr_rule pr)) (rf_param_rules p).

