"""C05 — evaluation is deterministic: same inputs, same bytes, same exit code (partial).

proof   : Props/C05.v (evaluation is a function of its inputs; test reports list rules in record order; blocks printed
          from a hash container are permutation-invariant; sorted key lists are order-invariant)
tie     : hash_iter + static inventories regenerated from the source and compared with the reviewed classification
          (which iteration sites feed structured output, which only console output, which are sorted first)
search  : the repeated-run differential the property's quantifier describes: every generated (rules, data, mode) in 5
          fresh processes (fresh hash seeds) - byte equality for structured output, sorted-line equality for console
          output, JUnit time attributes masked - and 5 times within one process through run_checks, interleaved with
          other evaluations. This is testing: it finds replays; only the theorems hold for all seeds.
not provable here: that serde_json / serde_yaml / quick_xml render a given value to the same bytes each time.
"""
import json, random, os, re
from .. import impl, gen, e2e, inventory
from ..common import *

REPEAT = 5


def mask(fmt, b):
    if fmt == 'junit':
        b = re.sub(rb'time="\d+"', b'time="0"', b)
    return b


def console_norm(b):
    # colour escapes of the console renderings follow CLICOLOR_FORCE / NO_COLOR / the terminal: presentation, not content
    return sorted(re.sub(r'\x1b\[[0-9;]*m', '', b.decode('utf-8', 'replace')).splitlines())


VAL_MODES = [
    ('console', [], 'lines'),
    ('console-all', ['-S', 'all'], 'lines'),
    ('verbose', ['-v'], 'lines'),
    ('print-json', ['-p', '-S', 'none'], 'bytes'),
    ('o-json', ['-o', 'json', '-S', 'none'], 'bytes'),
    ('o-yaml', ['-o', 'yaml', '-S', 'none'], 'bytes'),
    ('s-json', ['--structured', '-o', 'json', '-S', 'none'], 'bytes'),
    ('s-yaml', ['--structured', '-o', 'yaml', '-S', 'none'], 'bytes'),
    ('s-sarif', ['--structured', '-o', 'sarif', '-S', 'none'], 'bytes'),
    ('s-junit', ['--structured', '-o', 'junit', '-S', 'none'], 'junit'),
]


def run_processes(ctx, n, thorough):
    rng = random.Random(ctx.seed * 53 + 5)
    jobs, meta, scen = [], [], []
    for k in range(n):
        if rng.random() < 0.5:
            doc = gen.gen_cfn(rng)
            prog = gen.ProgGen(rng, doc, {'cycles': 0.0}).gen_file()
        else:
            doc, prog = gen.gen_pair(rng, {'cycles': 0.0})
        rules = gen.render_file(prog)
        if rng.random() < 0.15:
            rules = rules + '\nrule missing_ref {\n  no_such_rule_%d\n}\n' % k     # error text lists the rule names
        d = os.path.join(ctx.wd, 'p%d' % k)
        names = sorted(set(re.findall(r'^rule (\w+)', rules, re.M)))
        spec = [{'name': 'c', 'input': doc, 'expectations': {'rules': {nm: rng.choice(['PASS', 'FAIL', 'SKIP']) for nm in names if rng.random() < 0.8}}}]
        if k % 5 == 0:
            # several INVALID expectation strings at once (the error must name the same one every time), more than one test case
            rules = ''.join('rule e%d {\n  a exists\n}\n' % i for i in range(8)) + rules
            bad = ['PASSED', 'FAILED', 'SKIPPED', 'OK', 'pass', 'Fail', 'skip ', 'NONE']
            spec = [{'name': 'c%d' % j, 'input': doc, 'expectations': {'rules': {('e%d' % i): bad[(i + j) % 8] for i in range(8)}}} for j in range(2)]
        e2e.write_files(d, {'r.guard': rules, 'd.json': json.dumps(doc, indent=rng.choice([None, 1])), 'tests/r_t.yaml': json.dumps(spec)})
        scen.append({'rules': rules, 'doc': doc})
        modes = VAL_MODES if thorough else ([VAL_MODES[0]] + rng.sample(VAL_MODES[1:], 4))
        runs = [('validate:' + lab, ['validate', '-r', 'r.guard', '-d', 'd.json'] + fl, cmpk) for lab, fl, cmpk in modes]
        runs += [('test:plain', ['test', '-r', 'r.guard', '-t', 'tests'], 'lines'),
                 ('test:json', ['test', '-r', 'r.guard', '-t', 'tests', '-o', 'json'], 'bytes'),
                 ('test:yaml', ['test', '-r', 'r.guard', '-t', 'tests', '-o', 'yaml'], 'bytes'),
                 ('test:junit', ['test', '-r', 'r.guard', '-t', 'tests', '-o', 'junit'], 'junit'),
                 ('parse-tree:json', ['parse-tree', '-r', 'r.guard', '-p'], 'bytes'),
                 ('parse-tree:yaml', ['parse-tree', '-r', 'r.guard', '-y'], 'bytes')]
        if isinstance(doc, dict) and 'Resources' in doc:
            runs.append(('rulegen', ['rulegen', '-t', 'd.json'], 'bytes'))
        for lab, args, cmpk in runs:
            for rep in range(REPEAT):
                jobs.append({'args': args, 'cwd': d})
                meta.append((k, lab, cmpk, rep))
    res = e2e.run_many(jobs)
    groups = {}
    for (k, lab, cmpk, rep), r in zip(meta, res):
        groups.setdefault((k, lab, cmpk), []).append(r)
    dist = {}
    ndist = 0
    for (k, lab, cmpk), rs in groups.items():
        info = {'class': 'process-determinism', 'mode': lab, 'rules': scen[k]['rules'], 'doc': scen[k]['doc']}
        codes = set(r[0] for r in rs)
        dist[lab] = dist.get(lab, 0) + 1
        if any(c == 'timeout' or (isinstance(c, int) and (c < 0 or c == 101)) for c in codes):
            continue    # crashes and hangs are C08's subject
        if len(codes) != 1:
            ctx.failing('%s: exit code differs between identical runs: %s' % (lab, sorted(map(str, codes))), info, found=True)
            continue
        if cmpk == 'lines':
            outs = set(json.dumps(console_norm(r[1])) for r in rs)
            errs = set(json.dumps(console_norm(r[2])) for r in rs)
        else:
            outs = set(mask(cmpk, r[1]) for r in rs)
            errs = set(r[2] for r in rs)
        if len(outs) != 1:
            a, b = list(outs)[:2]
            ctx.failing('%s: output differs between identical runs in fresh processes' % lab, dict(info, first=str(a)[:600], second=str(b)[:600]), found=True)
        elif len(errs) != 1:
            a, b = list(errs)[:2]
            ctx.failing('%s: stderr differs between identical runs in fresh processes' % lab, dict(info, first=str(a)[:600], second=str(b)[:600]), found=True)
        ndist += 1
    ctx.coverage['process_groups'] = dist
    ctx.coverage['evaluations'] += len(jobs)
    ctx.sample({'rules': scen[0]['rules'], 'doc': scen[0]['doc'], 'modes': sorted(dist)})
    return ndist


ENVS = [{'TZ': 'UTC0', 'LANG': 'C'}, {'TZ': 'JST-9', 'LANG': 'en_US.UTF-8', 'HOME': '/nonexistent'}, {'TZ': 'America/Los_Angeles', 'LC_ALL': 'tr_TR.UTF-8', 'COLUMNS': '40'},
        {'CLICOLOR_FORCE': '1', 'TERM': 'xterm-256color'}, {'NO_COLOR': '1', 'CLICOLOR': '0', 'TERM': 'dumb'}]
DATE_RULES = ('let t1 = parse_epoch(ts_plain)\nlet t2 = parse_epoch(ts_z)\nlet up = to_upper(name)\nlet lo = to_lower(name)\n'
              'rule z_ts { %t2 == 1704067200 }\nrule upper { %up == "ISTANBUL" }\nrule lower { %lo == "istanbul" }\nrule plain_ts { %t1 == 1704067200 }\n')
DATE_DOC = {"ts_plain": "2024-01-01T00:00:00", "ts_z": "2024-01-01T00:00:00Z", "name": "istanbul"}


def run_environment(ctx, n):
    """the same command under different TZ / locale / HOME / COLUMNS: same exit code and bytes (no now() in the rules)"""
    rng = random.Random(ctx.seed * 53 + 7)
    jobs, meta, scen = [], [], []
    for k in range(n):
        if k == 0:
            rules, doc = DATE_RULES, DATE_DOC
        else:
            doc, prog = gen.gen_pair(rng, {'cycles': 0.0})
            rules = gen.render_file(prog)
        d = os.path.join(ctx.wd, 'e%d' % k)
        e2e.write_files(d, {'r.guard': rules, 'd.json': json.dumps(doc)})
        scen.append({'rules': rules, 'doc': doc})
        for lab, fl in (('s-json', ['--structured', '-o', 'json', '-S', 'none']), ('console', ['-S', 'all'])):
            for ei, env in enumerate(ENVS):
                jobs.append({'args': ['validate', '-r', 'r.guard', '-d', 'd.json'] + fl, 'cwd': d, 'env': env})
                meta.append((k, lab, ei))
    # the test command with met and unmet expectations, every rendering, under the same environments
    d = os.path.join(ctx.wd, 'etest')
    spec = [{'name': 'c0', 'input': {'x': 1}, 'expectations': {'rules': {'a': 'FAIL', 'b': 'PASS', 's': 'PASS'}}}, {'name': 'c1', 'input': {'x': 2}, 'expectations': {'rules': {'a': 'FAIL'}}}]
    e2e.write_files(d, {'r.guard': 'rule a {\n  x == 1\n}\nrule b {\n  x exists\n}\nrule s when y exists {\n  x == 3\n}\n', 'tests/r_tests.yaml': json.dumps(spec)})
    scen.append({'rules': 'test command: rules a, b, s with met and unmet expectations', 'doc': spec})
    for lab, fl in (('test-junit', ['-o', 'junit']), ('test-json', ['-o', 'json']), ('test-yaml', ['-o', 'yaml']), ('test-plain', []), ('test-plain-v', ['-v'])):
        for ei, env in enumerate(ENVS):
            jobs.append({'args': ['test', '-r', 'r.guard', '-t', 'tests/r_tests.yaml'] + fl, 'cwd': d, 'env': env})
            meta.append((n, lab, ei))
    res = e2e.run_many(jobs)
    groups = {}
    for (k, lab, ei), r in zip(meta, res):
        groups.setdefault((k, lab), []).append(r)
    for (k, lab), rs in groups.items():
        if lab == 'test-junit':
            rs = [(c, mask('junit', so), se) for c, so, se in rs]
        info = {'class': 'environment', 'mode': lab, 'rules': scen[k]['rules'], 'doc': scen[k]['doc'], 'environments': ENVS}
        if any(c == 'timeout' or (isinstance(c, int) and (c < 0 or c == 101)) for c, _, _ in rs):
            continue
        if len(set(r[0] for r in rs)) != 1:
            ctx.failing('%s: exit code depends on the environment: %s' % (lab, [r[0] for r in rs]), info, found=True)
        elif len(set((json.dumps(console_norm(r[1])) if lab in ('console', 'test-plain', 'test-plain-v') else r[1]) for r in rs)) != 1:
            ctx.failing('%s: output depends on the environment (TZ / locale / HOME / COLUMNS)' % lab, info, found=True)
    ctx.coverage['environment_groups'] = len(groups)
    ctx.coverage['evaluations'] += len(jobs)
    return len(groups)


def run_history(ctx, n):
    """what was evaluated earlier in the process: a data file validated after others gets the report it gets alone"""
    rng = random.Random(ctx.seed * 53 + 8)
    jobs, meta, scen = [], [], []
    flags = ['--structured', '-o', 'json', '-S', 'none']
    hand = 'rule is_prod when env exists { env == "prod" }\nrule tagged when is_prod { tags !empty }\nrule other {\n  not is_prod or\n  tagged\n}\n'
    hdocs = [{"env": "prod", "tags": ["a"]}, {"env": "dev"}, {"tags": []}, {"env": "prod", "tags": []}]
    # many distinct regular expressions, strings and keys in one process: any per-process cache (compiled patterns,
    # interned names) must not make a later file's report depend on the earlier ones
    many = ''.join('rule re%03d {\n  name == /^n%03d$/ or\n  name == /v%03d/ or\n  other.k%03d !exists\n}\n' % (i, i % 150, i, i) for i in range(150))
    mdocs = [{"name": "n007"}, {"name": "zzv120zz", "other": {"k003": 1}}, {"name": "n007"}, {"name": "n149"}, {"name": "n007"}]
    hands = [(hand, hdocs), (hand, list(reversed(hdocs))), (many, mdocs)]
    for k in range(n):
        if k < len(hands):
            rules, docs = hands[k]
        else:
            doc, prog = gen.gen_pair(rng, {'cycles': 0.0, 'types': False, 'functions': False})
            rules, docs = gen.render_file(prog), [doc, gen.gen_doc(rng), doc]
        d = os.path.join(ctx.wd, 'h%d' % k)
        files = {'r.guard': rules}
        for i, x in enumerate(docs):
            files['d%d.json' % i] = json.dumps(x)
        e2e.write_files(d, files)
        scen.append({'rules': rules, 'docs': docs})
        for mode, fl in (('structured', flags), ('plain-json', ['-o', 'json', '-S', 'none'])):
            args = ['validate', '-r', 'r.guard'] + fl
            for i in range(len(docs)):
                args += ['-d', 'd%d.json' % i]
            jobs.append({'args': args, 'cwd': d})
            meta.append((k, mode, 'all'))
            for i in range(len(docs)):
                jobs.append({'args': ['validate', '-r', 'r.guard', '-d', 'd%d.json' % i] + fl, 'cwd': d})
                meta.append((k, mode, i))
    res = e2e.run_many(jobs)
    by = {}
    for (k, mode, i), r in zip(meta, res):
        by.setdefault((k, mode), {})[i] = r
    n_ok = 0
    for (k, mode), runs in by.items():
        info = {'class': 'history', 'mode': mode, 'rules': scen[k]['rules'], 'docs': scen[k]['docs']}
        if any(r[0] not in (0, 19) for r in runs.values()):
            continue
        def reports(b):
            dec, i, out, t = json.JSONDecoder(), 0, [], b.decode('utf-8', 'replace')
            while i < len(t):
                while i < len(t) and t[i] not in '{[':
                    i += 1
                if i >= len(t):
                    break
                try:
                    o, j = dec.raw_decode(t, i)
                except ValueError:
                    i += 1
                    continue
                out += o if isinstance(o, list) else [o]
                i = j
            return [x for x in out if isinstance(x, dict) and 'not_compliant' in x]
        alls = reports(runs['all'][1])
        singles = [r for i in range(len(scen[k]['docs'])) for r in reports(runs[i][1])]
        n_ok += 1
        if json.dumps(alls, sort_keys=True) != json.dumps(singles, sort_keys=True):
            ctx.failing('%s: a data file validated after others does not get the report it gets alone' % mode, info, found=True)
    ctx.coverage['history_groups'] = n_ok
    ctx.coverage['evaluations'] += len(jobs)
    return n_ok


def run_in_process(ctx, n):
    """the same run_checks call REPEAT times in one process, interleaved with other evaluations"""
    rng = random.Random(ctx.seed * 53 + 6)
    items = []
    for k in range(n):
        doc, prog = gen.gen_pair(rng, {'cycles': 0.0})
        items.append((gen.render_file(prog), json.dumps(doc)))
    ops = []
    for rep in range(REPEAT):
        order = list(range(n))
        rng.shuffle(order)
        for k in order:
            for verbose in (False, True):
                ops.append({'op': 'runchecks', 'id': [k, verbose], 'rules': items[k][0], 'data': items[k][1], 'rules_name': 'r.guard', 'data_name': 'd.json', 'verbose': verbose})
    res = impl.run_ops(ops, ctx.wd, 'c05inproc')     # one process, sequential
    seen = {}
    bad = 0
    for op, r in zip(ops, res):
        key = (op['id'][0], op['id'][1])
        val = json.dumps(r, sort_keys=True)
        if 'panic' in r or 'abort' in r or 'timeout' in r:
            continue
        if key in seen and seen[key] != val:
            bad += 1
            ctx.failing('run_checks returns a different result when repeated within one process (verbose=%s)' % op['id'][1],
                        {'class': 'in-process-determinism', 'rules': op['rules'], 'data': op['data'], 'first': seen[key][:500], 'second': val[:500]}, found=True)
        seen.setdefault(key, val)
    ctx.coverage['in_process_calls'] = len(ops)
    ctx.coverage['evaluations'] += len(ops)
    return len(seen)


def run_many_files(ctx):
    """sizes that everyday use does not reach: 24 and 40 data files in one run (one of them large, so that any worker pool would
    finish the files out of order), 20 rules files, and a test directory with rules files whose names are prefixes of one
    another (which file claims an ambiguous spec must not depend on a hash seed). Same bytes in every fresh process, and the
    per-file reports in the order the files were given."""
    jobs, meta = [], []
    big = {'Resources': {'r%d' % i: {'Type': 'AWS::S3::Bucket', 'Properties': {'Size': i, 'Tags': [{'Key': 'k%d' % j, 'Value': 'v'} for j in range(30)]}} for i in range(150)}}
    small = lambda i: {'Resources': {'b': {'Type': 'AWS::S3::Bucket', 'Properties': {'Size': i}}}}
    rules = 'rule sized {\n  Resources.*[ Type == "AWS::S3::Bucket" ].Properties.Size >= 3 <<too small>>\n}\nrule tagged {\n  Resources.*.Properties.Tags[*].Key exists\n}\n'
    for nfiles in (24, 40):
        d = os.path.join(ctx.wd, 'many%d' % nfiles)
        files = {'r.guard': rules}
        names = []
        for i in range(nfiles):
            nm = 'data/f%02d.json' % i
            files[nm] = json.dumps(big if i == 0 else small(i))
            names.append(nm)
        for i in range(20):
            files['rules/r%02d.guard' % i] = 'rule r%02d {\n  Resources.*.Properties.Size >= %d\n}\n' % (i, i)
        e2e.write_files(d, files)
        dargs = [x for nm in names for x in ('-d', nm)]
        for lab, args, cmpk in (('many-data:s-json', ['validate', '-r', 'r.guard'] + dargs + ['--structured', '-o', 'json', '-S', 'none'], 'bytes'),
                                ('many-data:s-junit', ['validate', '-r', 'r.guard'] + dargs + ['--structured', '-o', 'junit', '-S', 'none'], 'junit'),
                                ('many-data:console', ['validate', '-r', 'r.guard', '-d', 'data', '-S', 'all'], 'lines'),
                                ('many-data:dir-json', ['validate', '-r', 'r.guard', '-d', 'data', '--structured', '-o', 'yaml', '-S', 'none'], 'bytes'),
                                ('many-rules:s-json', ['validate', '-r', 'rules', '-d', 'data/f01.json', '--structured', '-o', 'json', '-S', 'none'], 'bytes'),
                                ('many-rules:console', ['validate', '-r', 'rules', '-d', 'data/f01.json', '-d', 'data/f05.json', '-S', 'all'], 'lines')):
            for rep in range(REPEAT):
                jobs.append({'args': args, 'cwd': d}); meta.append((nfiles, lab, cmpk, rep, names))
    d = os.path.join(ctx.wd, 'prefixes')
    spec = lambda rule, want: json.dumps([{'name': 'c', 'input': {'x': 1}, 'expectations': {'rules': {rule: want}}}])
    e2e.write_files(d, {'t/bucket.guard': 'rule b {\n  x == 1\n}\n', 't/bucket_policy.guard': 'rule p {\n  x == 2\n}\n', 't/bucket_policy_v2.guard': 'rule q {\n  x exists\n}\n',
                        't/tests/bucket_tests.yaml': spec('b', 'PASS'), 't/tests/bucket_policy_tests.yaml': spec('p', 'FAIL'), 't/tests/bucket_policy_v2_tests.yaml': spec('q', 'PASS')})
    for lab, args, cmpk in (('prefix-names:plain', ['test', '-d', 't'], 'lines'), ('prefix-names:json', ['test', '-d', 't', '-o', 'json'], 'bytes'),
                            ('prefix-names:junit', ['test', '-d', 't', '-o', 'junit'], 'junit')):
        for rep in range(REPEAT * 2):
            jobs.append({'args': args, 'cwd': d}); meta.append((0, lab, cmpk, rep, None))
    res = e2e.run_many(jobs)
    groups = {}
    for (k, lab, cmpk, rep, names), r in zip(meta, res):
        groups.setdefault((k, lab, cmpk), []).append((r, names))
    n = 0
    for (k, lab, cmpk), rs in groups.items():
        info = {'class': 'process-determinism', 'mode': lab, 'files': k}
        n += 1
        codes = set(r[0] for r, _ in rs)
        if len(codes) != 1:
            ctx.failing('%s (%s files): exit code differs between identical runs: %s' % (lab, k, sorted(map(str, codes))), info, found=True)
            continue
        outs = set(json.dumps(console_norm(r[1])) if cmpk == 'lines' else mask(cmpk, r[1]) for r, _ in rs)
        if len(outs) != 1:
            a, b = list(outs)[:2]
            ctx.failing('%s (%s files): output differs between identical runs in fresh processes' % (lab, k), dict(info, first=str(a)[:400], second=str(b)[:400]), found=True)
            continue
        names = rs[0][1]
        if lab == 'many-data:s-json' and names:
            try:
                got = [os.path.basename(fr['name']) for fr in json.loads(rs[0][0][1].decode())]
            except Exception as e:
                got = 'unparsable: %s' % e
            if got != [os.path.basename(x) for x in names]:
                ctx.failing('%s: the reports are not in the order the %s data files were given: %s' % (lab, k, str(got)[:300]), info, found=True)
    ctx.coverage['many_files_groups'] = n
    ctx.coverage['evaluations'] += len(jobs)
    return n


MIXED_RULES = 'rule sized {\n  Resources.*.Properties.Size <= 10 <<too big>>\n}\nrule named {\n  Name == "x"\n}\nrule planned {\n  resource_changes[*].change.after.size <= 10\n}\n'
MIXED_DOCS = {
    'tpl.json': {'Resources': {'a': {'Type': 'AWS::S3::Bucket', 'Properties': {'Size': 50}}}, 'Name': 'x'},
    'tpl_ok.yaml': {'Resources': {'a': {'Type': 'AWS::S3::Bucket', 'Properties': {'Size': 5}}}, 'Name': 'x'},
    'plain.json': {'Name': 'y', 'Other': 1},
    'plan.json': {'resource_changes': [{'address': 'aws_s3_bucket.b', 'type': 'aws_s3_bucket', 'change': {'after': {'size': 50}}}], 'Name': 'x'},
    'list.json': [1, 2],
}


def run_mixed_kinds(ctx):
    """what was evaluated earlier in the process must not matter: data files of different kinds (a CloudFormation template, a
    template that passes, a plain document, a Terraform plan, a list) in ONE console run, in several orders - the part of the output
    that belongs to a file is what a run on that file alone prints, and the exit code is the worst of the single runs"""
    import yaml
    d = os.path.join(ctx.wd, 'mixed')
    files = {'r.guard': MIXED_RULES}
    for nm, doc in MIXED_DOCS.items():
        files[nm] = yaml.safe_dump(doc) if nm.endswith('.yaml') else json.dumps(doc, indent=1)
    e2e.write_files(d, files)
    names = list(MIXED_DOCS)
    orders = [names, names[::-1], ['plain.json', 'tpl.json', 'plan.json'], ['tpl.json', 'plain.json'], ['plain.json', 'tpl.json'], ['plan.json', 'tpl.json', 'plain.json'],
              ['tpl_ok.yaml', 'tpl.json', 'plain.json'], ['list.json', 'tpl.json']]
    modes = [('console', []), ('console-all', ['-S', 'all']), ('verbose', ['-v'])]
    jobs, meta = [], []
    for mlab, flags in modes:
        for nm in names:
            jobs.append({'args': ['validate', '-r', 'r.guard', '-d', nm] + flags, 'cwd': d}); meta.append((mlab, (nm,)))
        for od in orders:
            jobs.append({'args': ['validate', '-r', 'r.guard'] + [x for nm in od for x in ('-d', nm)] + flags, 'cwd': d}); meta.append((mlab, tuple(od)))
    res = dict(zip(meta, e2e.run_many(jobs)))
    head = re.compile(r'^(\S*?)(tpl\.json|tpl_ok\.yaml|plain\.json|plan\.json|list\.json) Status = ', re.M)

    def sections(text):
        out, marks = {}, [(m.start(), m.group(2)) for m in head.finditer(text)]
        for i, (pos, nm) in enumerate(marks):
            out[nm] = text[pos:(marks[i + 1][0] if i + 1 < len(marks) else len(text))]
        return out
    n = 0
    for (mlab, od), (code, so, se) in res.items():
        if len(od) == 1:
            continue
        n += 1
        text = so.decode('utf-8', 'replace')
        info = {'class': 'history-mixed-kinds', 'mode': mlab, 'order': list(od), 'rules': MIXED_RULES, 'stdout': text[:1500]}
        singles = {nm: res[(mlab, (nm,))] for nm in od}
        want = max((c for c, _, _ in singles.values()), key=lambda c: (c not in (0, 19), c))
        if code != want and not any(c not in (0, 19) for c, _, _ in singles.values()):
            ctx.failing('validate (%s) over %s exits %s; the files alone exit %s' % (mlab, list(od), code, [singles[nm][0] for nm in od]), info, found=True)
        secs = sections(text)
        for nm in od:
            alone = sections(singles[nm][1].decode('utf-8', 'replace')).get(nm)
            if alone is None:
                continue          # the file alone prints no report section (an error exit): nothing to compare
            got = secs.get(nm)
            if got is None or sorted(got.strip().splitlines()) != sorted(alone.strip().splitlines()):
                ctx.failing('validate (%s) over %s: the report of %s differs from the report of a run on %s alone (what was evaluated earlier matters)'
                            % (mlab, list(od), nm, nm), dict(info, file=nm, alone=alone[:800], in_batch=(got or '')[:800]), found=True)
    ctx.coverage['mixed_kind_runs'] = n
    ctx.coverage['evaluations'] += len(jobs)
    return n


def run_tagged_template(ctx):
    """a YAML template that uses EVERY short-form tag of the tag table (sequence tags with a list, the others with a scalar) under
    rules that look at the long-form key each of them stands for; 12 fresh processes per output mode: same exit code, same bytes"""
    from .. import tables
    try:
        pairs, sets = tables.tag_tables()
    except tables.TableError:
        j = json.load(open(os.path.join(VERIF, 'inventory', 'tag_tables.json')))
        pairs, sets = [tuple(x) for x in j['pairs']], j['sets']
    seq = set(sets['SEQUENCE_VALUE_FUNC_REF'])
    lines, rules = ['Resources:', '  r:', '    Type: T', '    Properties:'], []
    for i, (short, longf) in enumerate(sorted(pairs)):
        lines.append('      p%d: !%s %s' % (i, short, '[a, b]' if short in seq else 'val'))
        rules.append('rule t%d_%s {\n  Resources.r.Properties.p%d."%s" exists\n}\n' % (i, re.sub(r'\W', '_', short), i, longf))
    d = os.path.join(ctx.wd, 'tagged')
    e2e.write_files(d, {'r.guard': ''.join(rules), 'd.yaml': '\n'.join(lines) + '\n'})
    jobs, meta = [], []
    for lab, fl, cmpk in (('console', [], 'lines'), ('s-json', ['--structured', '-o', 'json', '-S', 'none'], 'bytes'), ('o-yaml', ['-o', 'yaml', '-S', 'none'], 'bytes')):
        for rep in range(12):
            jobs.append({'args': ['validate', '-r', 'r.guard', '-d', 'd.yaml'] + fl, 'cwd': d}); meta.append((lab, cmpk))
    groups = {}
    for (lab, cmpk), r in zip(meta, e2e.run_many(jobs)):
        groups.setdefault((lab, cmpk), []).append(r)
    n = 0
    for (lab, cmpk), rs in groups.items():
        n += 1
        info = {'class': 'process-determinism', 'mode': lab, 'rules': ''.join(rules), 'doc_yaml': '\n'.join(lines)}
        codes = sorted(set(str(r[0]) for r in rs))
        outs = set(json.dumps(console_norm(r[1])) for r in rs) if cmpk == 'lines' else set(r[1] for r in rs)
        if len(codes) != 1:
            ctx.failing('%s on a template with every short-form tag: exit code differs between identical runs: %s' % (lab, codes), info, found=True)
        elif len(outs) != 1:
            a, b = list(outs)[:2]
            ctx.failing('%s on a template with every short-form tag: output differs between identical runs in fresh processes' % lab, dict(info, first=str(a)[:600], second=str(b)[:600]), found=True)
    ctx.coverage['tagged_template_groups'] = n
    ctx.coverage['tagged_template_tags'] = len(pairs)
    ctx.coverage['evaluations'] += len(jobs)
    return n


def run(ctx):
    ctx.build(cli=True)
    pr = ctx.proofs('C05')
    thorough = ctx.tier == 'thorough'
    inv_problems = []
    for kind in ('hash_iter', 'static'):
        cur, problems, rev = inventory.compare(kind)
        ctx.coverage['inventory_' + kind] = len(cur)
        inv_problems += ['%s: %s' % (kind, p) for p in problems]
    n1 = run_processes(ctx, 60 if thorough else 14, thorough)
    n2 = run_in_process(ctx, 60 if thorough else 25)
    n3 = run_environment(ctx, 40 if thorough else 10)
    n4 = run_history(ctx, 40 if thorough else 10) + run_many_files(ctx) + run_mixed_kinds(ctx) + run_tagged_template(ctx)
    ctx.coverage['distinct_nontrivial'] = n1 + n2 + n3 + n4
    ctx.coverage['rule'] = ('group = (generated rules + document, command and output mode); each group is run in %d fresh processes and compared (bytes for '
                            'JSON/YAML/SARIF/print-json/parse-tree/rulegen, JUnit with time attributes masked, sorted lines for console output, stderr likewise); '
                            'run_checks: every (rules, data, verbose) %d times in one process in shuffled order; distinct = groups' % (REPEAT, REPEAT))
    ctx.coverage['trusted_base'] = [
        'Coq 8.16.1 kernel (coqc); no axioms',
        'inventories tools/gv/inventory.py (pattern-based) vs /verif/inventory/{hash_iter,static}.json: which hash-container iterations exist and what they feed',
        'serde_json / serde_yaml / quick_xml rendering is library behaviour: observed by the repeated runs only',
    ]
    ctx.assumptions = ['console output is compared as a multiset of lines (the statement allows reordering of independent detail lines)',
                       'runs that crash or hang are left to C08']
    if inv_problems:
        ctx.failing('the hash-iteration / static-state inventory changed: %s' % inv_problems[:4], {'class': 'inventory', 'problems': inv_problems}, found=False)
    if not pr['ok']:
        ctx.failing('proof obligations of Props/C05.v no longer check: %s' % (pr.get('problems') or pr.get('log', '')[-500:]),
                    {'class': 'proof', 'theorems': pr['theorems']}, found=False)


def replay(ctx, path):
    j = json.load(open(path))
    for v in j.get('violations', []):
        print(json.dumps(v, indent=1)[:3000])
    return 0
