(* FilterParseProps.v — the query parser with filters (Model/FilterParse.v) extends the filter-free one (Model/QueryParse.v): wherever
   `access` answers - a query, a recoverable error or a failure - `access_f` answers the same.  So every theorem about spellings of
   filter-free queries (QuerySpellProps) holds for the parser with filters. *)
From Coq Require Import Lia.
From GV.Model Require Import Ast.
From GV.Model Require Import ValueParse QueryParse OpParse ClauseParse CnfParse FilterParse.
From GV.Proofs Require Import LexProps ValueParseProps QueryParseProps.
Local Open Scope string_scope.
Local Open Scope nat_scope.

Section Extends.
Variable rv : string -> bool.

Definition embed (q : access_query) : fquery := mkFQ (map FP (aq_query q)) (aq_all q).

Lemma pmap_palt {A B} (f : A -> B) (x y : pres A) : pmap f (palt x y) = palt (pmap f x) (pmap f y).
Proof. destruct x; reflexivity. Qed.

Lemma palt_assoc_unk {A} (x y z : pres A) (k : pres A) :
  palt x (palt y (palt z PUnk)) <> PUnk -> palt x (palt y (palt z k)) = palt x (palt y (palt z PUnk)).
Proof. destruct x; cbn; try reflexivity. destruct y; cbn; try reflexivity. destruct z; cbn; try reflexivity. congruence. Qed.

Theorem part_f_extends n s : part s <> PUnk -> part_f rv n s = pmap FP (part s).
Proof.
  unfold part, part_f. destruct (dotted_property s) as [p r| | | |] eqn:E; cbn [palt pmap]; try reflexivity.
  unfold predicate_or_index. destruct (ws_char "[" s) as [s1|]; [|reflexivity]. intros H.
  rewrite !pmap_palt. cbn [pmap].
  rewrite <- (palt_assoc_unk _ _ _ (palt (keys_match rv n s1) (filter rv n s1))).
  - reflexivity.
  - intros E1. apply H. destruct (all_indices_body s1); cbn in *; try discriminate; try reflexivity.
    destruct (array_index_body s1); cbn in *; try discriminate; try reflexivity.
    destruct (map_key_lookup_body s1); cbn in *; try discriminate; reflexivity.
Qed.

Lemma parts_loop_extends : forall n acc s x, parts_loop n acc s = x -> x <> PUnk -> x <> POof ->
  forall m, n <= m -> parts_loop_f rv m (map FP acc) s = pmap (map FP) x.
Proof.
  induction n as [|n IH]; intros acc s x H H1 H2 m L; [cbn in H; congruence|].
  destruct m as [|m]; [lia|]. cbn [parts_loop parts_loop_f] in *.
  destruct (part s) as [p r| | | |] eqn:E.
  - rewrite part_f_extends by (rewrite E; discriminate). rewrite E. cbn [pmap].
    replace (map FP acc ++ [FP p])%list with (map FP (acc ++ [p])) by (now rewrite map_app).
    apply IH; [exact H|exact H1|exact H2|lia].
  - rewrite part_f_extends by (rewrite E; discriminate). rewrite E. subst x. reflexivity.
  - rewrite part_f_extends by (rewrite E; discriminate). rewrite E. subst x. reflexivity.
  - congruence.
  - congruence.
Qed.

Lemma parts_loop_not_err : forall n acc s, parts_loop n acc s <> PErr.
Proof.
  induction n as [|n IH]; intros acc s; cbn [parts_loop]; [discriminate|]. destruct (part s); try discriminate. apply IH.
Qed.

Lemma after_variable_embed f parts : after_variable_f f (map FP parts) = map FP (after_variable f parts).
Proof.
  unfold after_variable_f, after_variable. destruct (part_is_variable f); [|reflexivity].
  destruct parts as [|p ps]; [reflexivity|]. destruct p; reflexivity.
Qed.

Theorem access_f_extends : forall n s x, access n s = x -> x <> PUnk -> x <> POof ->
  forall m, n <= m -> access_f rv (S m) s = pmap embed x.
Proof.
  intros n s x H H1 H2 m L. unfold access, access_f in *.
  destruct (match some_keyword s with Some r => (false, r) | None => (true, s) end) as [all s1].
  destruct (match this_keyword s1 with Some r => POk QThis r | None => pmap QKey (palt (var_access s1) (property_name s1)) end) as [f r| | | |];
    try (subst x; reflexivity).
  unfold dotted_access in H. destruct (part r) as [p r1| | | |] eqn:E; cbn [pmap] in H.
  - rewrite part_f_extends by (rewrite E; discriminate). rewrite E. cbn [pmap].
    destruct (parts_loop n [p] r1) as [parts r'| | | |] eqn:El.
    + pose proof (parts_loop_extends n [p] r1 _ El ltac:(discriminate) ltac:(discriminate) m L) as E2. cbn [map pmap] in E2. rewrite E2.
      subst x. cbn [pmap]. unfold embed. cbn [aq_query aq_all map]. now rewrite after_variable_embed.
    + exfalso. now apply parts_loop_not_err in El.
    + pose proof (parts_loop_extends n [p] r1 _ El ltac:(discriminate) ltac:(discriminate) m L) as E2. cbn [map pmap] in E2. rewrite E2. subst x. reflexivity.
    + subst x. cbn in H1. congruence.
    + subst x. cbn in H2. congruence.
  - rewrite part_f_extends by (rewrite E; discriminate). rewrite E. subst x. reflexivity.
  - rewrite part_f_extends by (rewrite E; discriminate). rewrite E. subst x. reflexivity.
  - subst x. cbn in H1. congruence.
  - subst x. cbn in H2. congruence.
Qed.

Corollary access_f_top_extends : forall s x, access_top s = x -> x <> PUnk -> access_f_top rv s = pmap embed x.
Proof.
  intros s x H H1. unfold access_f_top. apply (access_f_extends (access_fuel s) s x); [exact H|exact H1| |unfold access_fuel; lia].
  subst x. apply access_answers.
Qed.

End Extends.

(* ---------------------------------------------------------------- consumption and fuel *)
From GV.Proofs Require Import ValueSpellProps OpParseProps ClauseParseProps CnfParseProps.

Section Fuel.
Variable rv : string -> bool.

Lemma capture_le s o r : capture s = POk o r -> len r <= len s.
Proof.
  unfold capture. pose proof (skip_len s false) as L. fold (skip_ws_comments s) in L.
  destruct (var_name (skip_ws_comments s)) as [v r1| | | |] eqn:E; try discriminate.
  - apply var_name_len in E. destruct (span_while is_blank r1) as [a b] eqn:Es. apply span_while_len in Es. cbn [snd].
    destruct (expect "|" b) as [r'|] eqn:Ee; intros H; inversion H; subst; [apply expect_len in Ee; lia|lia].
  - intros H. inversion H; subst. lia.
Qed.

Lemma capture_nooof s : capture s <> POof.
Proof.
  unfold capture. pose proof (var_name_nooof (skip_ws_comments s)) as V. destruct (var_name (skip_ws_comments s)); try discriminate; [|congruence].
  destruct (expect "|" _); discriminate.
Qed.

Lemma keys_cmp_len s c r : keys_cmp s = POk c r -> len r < len s.
Proof.
  unfold keys_cmp. intros H.
  repeat (apply palt_ok in H as [H|[_ H]]; [eapply tagged_len; [|exact H]; repeat constructor; discriminate|]).
  destruct (not_kw s) as [r1|] eqn:E; [|discriminate]. apply not_kw_len in E. eapply tagged_len in H; [lia|repeat constructor; discriminate].
Qed.

Lemma keys_cmp_nooof s : keys_cmp s <> POof.
Proof. unfold keys_cmp. repeat apply palt_not_oof; try apply tagged_nooof. destruct (not_kw s); [apply tagged_nooof|discriminate]. Qed.

Lemma access_lt n t : len t < n -> access n t <> POof.
Proof. intros L. rewrite (access_at n t L). apply access_answers. Qed.

Lemma keys_match_len n s p r : keys_match rv n s = POk p r -> len r < len s.
Proof.
  unfold keys_match. destruct (capture s) as [name s2| | | |] eqn:Ec; try discriminate. apply capture_le in Ec.
  destruct (alt_tags kw_keys (skip_ws_comments s2)) as [s3|] eqn:Ek; [|discriminate].
  apply alt_tags_len in Ek; [|repeat constructor; discriminate]. pose proof (skip_len s2 false) as L2. fold (skip_ws_comments s2) in L2.
  destruct (keys_cmp (skip_ws_comments s3)) as [c s4| | | |] eqn:Eq; try discriminate. apply keys_cmp_len in Eq.
  pose proof (skip_len s3 false) as L3. fold (skip_ws_comments s3) in L3.
  destruct (parse_value rv n s4) as [l s5| | | |] eqn:Ep; try discriminate.
  - apply parse_value_consumes in Ep. destruct (ws_char "]" s5) as [r0|] eqn:Ew; [|discriminate]. apply ws_char_len in Ew. intros H. inversion H; subst. lia.
  - destruct (access n (skip_ws_comments s4)) as [q s5| | | |] eqn:Ea; try discriminate. apply access_consumes in Ea.
    pose proof (skip_len s4 false) as L4. fold (skip_ws_comments s4) in L4.
    destruct (ws_char "]" s5) as [r0|] eqn:Ew; [|discriminate]. apply ws_char_len in Ew. intros H. inversion H; subst. lia.
Qed.

Lemma keys_match_nooof n s : len s < n -> keys_match rv n s <> POof.
Proof.
  intros L. unfold keys_match. pose proof (capture_nooof s) as C. destruct (capture s) as [name s2| | | |] eqn:Ec; try discriminate; [|congruence]. apply capture_le in Ec.
  destruct (alt_tags kw_keys (skip_ws_comments s2)) as [s3|] eqn:Ek; [|discriminate].
  apply alt_tags_len in Ek; [|repeat constructor; discriminate]. pose proof (skip_len s2 false) as L2. fold (skip_ws_comments s2) in L2.
  pose proof (keys_cmp_nooof (skip_ws_comments s3)) as K. destruct (keys_cmp (skip_ws_comments s3)) as [c s4| | | |] eqn:Eq; try discriminate; [|congruence]. apply keys_cmp_len in Eq.
  pose proof (skip_len s3 false) as L3. fold (skip_ws_comments s3) in L3.
  pose proof (parse_value_enough_fuel rv n s4 ltac:(lia)) as P. destruct (parse_value rv n s4) as [l s5| | | |]; try discriminate; [| |congruence].
  - destruct (ws_char "]" s5); discriminate.
  - pose proof (skip_len s4 false) as L4. fold (skip_ws_comments s4) in L4.
    pose proof (access_lt n (skip_ws_comments s4) ltac:(lia)) as A. destruct (access n (skip_ws_comments s4)); try discriminate; [|congruence].
    destruct (ws_char "]" rest); discriminate.
Qed.

Lemma filter_elem_len n t c r : filter_elem rv n t = POk c r -> len r < len t.
Proof.
  unfold filter_elem. pose proof (skip_len t false) as L. fold (skip_ws_comments t) in L.
  destruct (alt_tags kw_when (skip_ws_comments t)); [discriminate|].
  destruct (clause rv n (skip_ws_comments t)) as [c0 r0| | | |] eqn:E; try discriminate.
  - apply clause_consumes in E. match goal with |- context [if ?b then _ else _] => destruct b end; [discriminate|]. intros H. inversion H; subst. lia.
  - destruct (call_like (skip_ws_comments t)) eqn:Ec; cbn [pmap]; try discriminate.
    + exfalso. unfold call_like in Ec. eapply function_like_not_ok. exact Ec.
    + destruct (access n (skip_ws_comments t)) as [q r1| | | |]; try discriminate. destruct (starts_with "{" (skip_ws_comments r1)); discriminate.
Qed.

Lemma filter_elem_nooof n t : len t < n -> filter_elem rv n t <> POof.
Proof.
  intros Ln. unfold filter_elem. pose proof (skip_len t false) as L. fold (skip_ws_comments t) in L.
  destruct (alt_tags kw_when (skip_ws_comments t)); [discriminate|].
  pose proof (clause_enough_fuel rv n (skip_ws_comments t) ltac:(lia)) as C.
  destruct (clause rv n (skip_ws_comments t)) as [c0 r0| | | |]; try discriminate; [| |congruence].
  - match goal with |- context [if ?b then _ else _] => destruct b end; discriminate.
  - unfold call_like. pose proof (function_like_nooof (match not_kw (skip_ws_comments t) with Some r => r | None => skip_ws_comments t end)) as F.
    destruct (function_like _); cbn [pmap]; try discriminate; [|congruence].
    pose proof (access_lt n (skip_ws_comments t) ltac:(lia)) as A. destruct (access n (skip_ws_comments t)); try discriminate; [|congruence].
    destruct (starts_with "{" _); discriminate.
Qed.

Lemma filter_len n s p r : filter rv n s = POk p r -> len r < len s \/ (len r <= len s /\ False).
Proof.
  unfold filter. destruct (capture s) as [name s2| | | |] eqn:Ec; try discriminate. apply capture_le in Ec.
  destruct (cnf (filter_elem rv) n s2) as [l r1| | | |] eqn:E; try discriminate.
  destruct (ws_char "]" r1) as [r'|] eqn:Ew; [|discriminate]. apply ws_char_len in Ew. intros H. inversion H; subst. left.
  unfold cnf in E. eapply (cnf_loop_len (filter_elem rv) (filter_elem_len)) in E. lia.
Qed.

Lemma filter_nooof n s : len s + 1 < n -> filter rv n s <> POof.
Proof.
  intros L. unfold filter. pose proof (capture_nooof s) as C. destruct (capture s) as [name s2| | | |] eqn:Ec; try discriminate; [|congruence]. apply capture_le in Ec.
  pose proof (cnf_loop_nooof (filter_elem rv) filter_elem_len filter_elem_nooof n [] s2 ltac:(lia)) as F. unfold cnf.
  destruct (cnf_loop (filter_elem rv) n [] s2); try discriminate; [|congruence]. destruct (ws_char "]" rest); discriminate.
Qed.

Lemma part_f_len n s p r : part_f rv n s = POk p r -> len r < len s.
Proof.
  unfold part_f. destruct (dotted_property s) as [p0 r0| | | |] eqn:E; cbn [pmap]; try discriminate.
  - intros H. inversion H; subst. now apply dotted_property_len in E.
  - destruct (ws_char "[" s) as [s1|] eqn:Ew; [|discriminate]. apply ws_char_len in Ew. intros H.
    assert (len r < len s1); [|lia].
    apply palt_ok in H as [H|[_ H]]; [apply pmap_ok in H as (a & H & _); now apply all_indices_body_len in H|].
    apply palt_ok in H as [H|[_ H]]; [apply pmap_ok in H as (a & H & _); now apply array_index_body_len in H|].
    apply palt_ok in H as [H|[_ H]]; [apply pmap_ok in H as (a & H & _); now apply map_key_lookup_body_len in H|].
    apply palt_ok in H as [H|[_ H]]; [now apply keys_match_len in H|]. apply filter_len in H as [H|[_ []]]. exact H.
Qed.

Lemma closed_nooof {A} (x y : pres A) : x <> POof -> y <> POof -> closed x y <> POof.
Proof. intros Hx Hy. unfold closed. destruct x; try congruence. destruct (ws_char "]" rest); [discriminate|exact Hy]. Qed.

Lemma star_nooof t p : star t p <> POof.
Proof. unfold star. destruct (expect "*" t); discriminate. Qed.

Lemma int_index_nooof t : int_index t <> POof.
Proof. intros H. apply pmap_oof in H. now apply parse_int_nooof in H. Qed.

Lemma bodies_nooof s1 : all_indices_body s1 <> POof /\ array_index_body s1 <> POof /\ map_key_lookup_body s1 <> POof.
Proof.
  repeat split.
  - apply closed_nooof; [|discriminate]. apply palt_not_oof; [apply star_nooof|]. intros H. apply pmap_oof in H. now apply var_name_nooof in H.
  - apply closed_nooof; [apply int_index_nooof|discriminate].
  - apply closed_nooof; [|discriminate]. apply palt_not_oof.
    + intros H. apply pmap_oof in H. now apply parse_string_r_nooof in H.
    + pose proof (var_name_nooof (skip_ws_comments s1)) as V. destruct (var_name (skip_ws_comments s1)); try discriminate. congruence.
Qed.

Lemma part_f_nooof n s : len s + 1 < n -> part_f rv n s <> POof.
Proof.
  intros L. unfold part_f. destruct (dotted_property s) as [p0 r0| | | |] eqn:E; cbn [pmap]; try discriminate.
  - destruct (ws_char "[" s) as [s1|] eqn:Ew; [|discriminate]. pose proof (ws_char_len _ _ _ Ew) as Lw.
    destruct (bodies_nooof s1) as (B1 & B2 & B3).
    repeat apply palt_not_oof.
    + intros H. apply pmap_oof in H. now apply B1.
    + intros H. apply pmap_oof in H. now apply B2.
    + intros H. apply pmap_oof in H. now apply B3.
    + apply keys_match_nooof. lia.
    + apply filter_nooof. lia.
  - exfalso. assert (P : part s <> POof) by apply part_not_oof. unfold part in P. rewrite E in P. now apply P.
Qed.

Lemma parts_loop_f_nooof : forall n acc s, len s + 2 < n -> parts_loop_f rv n acc s <> POof.
Proof.
  induction n as [|n IH]; intros acc s L; [lia|]. cbn [parts_loop_f].
  destruct (part_f rv n s) as [p r| | | |] eqn:E; try discriminate.
  - apply IH. apply part_f_len in E. lia.
  - exfalso. eapply part_f_nooof; [|exact E]. lia.
Qed.

Theorem access_f_answers : forall s, access_f_top rv s <> POof.
Proof.
  intros s. unfold access_f_top, access_f.
  destruct (match some_keyword s with Some r => (false, r) | None => (true, s) end) as [all s1] eqn:E0.
  assert (L1 : len s1 <= len s).
  { destruct (some_keyword s) as [r|] eqn:E; inversion E0; subst; [now apply some_keyword_len in E|lia]. }
  assert (H : forall f r, len r < len s ->
     match part_f rv (S (S (len s))) r with
     | POk p r1 => match parts_loop_f rv (S (S (len s))) [p] r1 with
                   | POk parts r' => POk (mkFQ (FP f :: after_variable_f f parts) all) r'
                   | other => pmap (fun _ => mkFQ [] all) other end
     | PErr => POk (mkFQ [FP f] all) r
     | other => pmap (fun _ => mkFQ [] all) other
     end <> POof).
  { intros f r L. pose proof (part_f_nooof (S (S (len s))) r ltac:(lia)) as P.
    destruct (part_f rv (S (S (len s))) r) as [p r1| | | |] eqn:E; try discriminate; [|congruence].
    apply part_f_len in E. pose proof (parts_loop_f_nooof (S (S (len s))) [p] r1 ltac:(lia)) as Q.
    destruct (parts_loop_f rv (S (S (len s))) [p] r1); try discriminate. congruence. }
  destruct (this_keyword s1) as [r|] eqn:E1.
  - apply H. unfold this_keyword in E1. apply alt_tags_len in E1; [|repeat constructor; discriminate]. pose proof (skip_len s1 false). unfold skip_ws_comments in *. lia.
  - destruct (pmap QKey (palt (var_access s1) (property_name s1))) as [f r| | | |] eqn:E2; try discriminate.
    + apply H. apply pmap_ok in E2 as (k & E2 & _). assert (len r < len s1); [|lia]. revert E2. apply consumes_palt; [apply var_access_len|apply property_name_len].
    + apply pmap_oof in E2. exfalso. revert E2. apply palt_not_oof.
      * unfold var_access. destruct (expect "%" s1); [|discriminate]. intros H2. apply pmap_oof in H2. now apply var_name_nooof in H2.
      * apply palt_not_oof; [apply var_name_nooof|apply parse_string_r_nooof].
Qed.

End Fuel.
