#!/bin/sh
# usage: try_mutant.sh <patch.diff> <Cnn> [<Cnn>...]  — apply a seeded change to /repo, run checks, undo.
P=$1; shift
cd /repo && git apply "$P" || exit 2
for c in "$@"; do
  echo "=== $c"; (cd /verif && VERIF_EVIDENCE_DIR=/verif/work/mutant-evidence ./check $c quick 2>&1 | tail -6)
done
cd /repo && git checkout -- . && git status --short | head -3
