(* C01 — rule verdicts equal the documented semantics of clauses, queries and blocks. Pinned statements only.

   The full statement is kept visible as C01_full_statement. It is PROVED (C01_refinement, C01_refinement_memo_free
   below) for capture-free programs, relative to the values of the "world" of an evaluation (the sub-values of the
   document and of the literal values of variables that Spec is asked to cover) on which
     - structs are well formed (as many keys as entries),
     - the undocumented case-converter key fallback never hits (the recorded deviation of C01, excluded exactly),
     - `not in` between two lists is coherent (== is an equivalence on the members; fails for NaN),
   in both directions also for the evaluator WITH its caches (C01_refinement_total): a status is the documented status,
   an evaluation error never meets a defined verdict (MemoErr.v: the failures of SEval are the failures of the memo-free
   evaluator), and SEval never answers where the semantics is undefined.
   RefineExample.v shows the premises satisfiable (okv) and instantiates the theorem on a non-trivial program.
   The refinement is ALSO checked on every run by evaluating Spec inside Coq on the implementation's parsed AST and
   loaded value and comparing with the implementation's verdicts (tools/gv/props/c01.py); that is what ties Spec
   and SEval to the Rust code. *)
From GV.Model Require Import SEval PEval Spec CheckSpec.
From GV.Proofs Require Import StatusProps ClauseProps RefineOps RefineProps RefineFile RefineExample TableProps.
From GV.Generated Require Import EvalTables.

Definition C01_full_statement : Prop :=
  forall re conv prog doc fuel sfuel,
    match eval_file re conv prog fuel doc, spec_file re (fun _ => true) prog doc sfuel with
    | Done (st, [rec], _), SOk (st', rules) => st = st' /\ compare_rules rules (rule_statuses rec) = None
    | Err _, SOk _ => False
    | Done _, SUndef => False
    | _, _ => True       (* outside the fragment, out of fuel, crashes (C08) *)
    end.

(* "Unresolved paths count as FAIL for comparisons": every comparison operator, both polarities, any right-hand side *)
Theorem C01_unresolved_cmp_fails_partial : forall re c lhs rhs l u,
  cmp_compare re c lhs rhs = Done (EResult l) -> In (QUnResolved u) lhs ->
  In (VLhsUnresolved u) l /\
  forall custom, In (CComparison c (QUnResolved u) None false custom FAIL, QUnResolved u, FAIL)
                    (flat_map (report_binary c custom) l).
Proof. exact unresolved_cmp_fails. Qed.
Print Assumptions C01_unresolved_cmp_fails_partial.

(* "... as `empty` / `not exists`" *)
Theorem C01_unresolved_is_empty_not_exists_partial : forall u,
  unary_op (OExists, false) false exists_operation (QUnResolved u) = Done false /\
  unary_op (OExists, true) false exists_operation (QUnResolved u) = Done true /\
  unary_op (OExists, false) true exists_operation (QUnResolved u) = Done true /\
  unary_op (OEmpty, false) false element_empty_operation (QUnResolved u) = Done true /\
  unary_op (OEmpty, true) false element_empty_operation (QUnResolved u) = Done false /\
  forall t n, unary_op (t, n) false (is_type_operation TString) (QUnResolved u) = Done n.
Proof. exact unresolved_is_empty_not_exists. Qed.
Print Assumptions C01_unresolved_is_empty_not_exists_partial.

(* "... and empty filtered selections make the dependent clause or block SKIP" *)
Theorem C01_empty_selection_compare_skips_partial : forall re c rhs, cmp_compare re c [] rhs = Done ESkip.
Proof. exact empty_selection_compare_skips. Qed.
Print Assumptions C01_empty_selection_compare_skips_partial.

Theorem C01_empty_selection_block_skips_partial : forall r aq b s recs s',
  ctx_query r (aq_query aq) s = Done ([], recs, s') ->
  exists recs', block_clause_body r aq b false s = Done (SKIP, recs', s') /\
  exists recs'', block_clause_body r aq b true s = Done (FAIL, recs'', s').
Proof. exact empty_selection_block_skips. Qed.
Print Assumptions C01_empty_selection_block_skips_partial.

(* "an evaluation error is raised exactly when that semantics is undefined (e.g. `empty` on a number)" *)
Theorem C01_empty_on_number_is_an_error_partial : forall p z f,
  element_empty_operation (QResolved (PInt p z)) = Err EIncompatible /\
  element_empty_operation (QResolved (PFloat p f)) = Err EIncompatible /\
  element_empty_operation (QResolved (PNull p)) = Err EIncompatible.
Proof. exact empty_on_number_is_an_error. Qed.
Print Assumptions C01_empty_on_number_is_an_error_partial.

(* the documented semantics says the same *)
Theorem C01_spec_sentences : forall re o neg r lit p z,
  check_value re o neg SMiss r = SOk [FAIL] /\
  unary_value OExists SMiss = SOk false /\ unary_value OEmpty SMiss = SOk true /\
  unary_value OEmpty (SV lit (PInt p z)) = SUndef.
Proof. exact spec_sentences. Qed.
Print Assumptions C01_spec_sentences.

(* all / some quantification over the per-value outcomes *)
Theorem C01_clause_all_spec : forall l, clause_all l = FAIL <-> In FAIL l.
Proof. exact clause_all_spec. Qed.
Print Assumptions C01_clause_all_spec.
Theorem C01_clause_some_spec : forall l, clause_some l = PASS <-> In PASS l.
Proof. exact clause_some_spec. Qed.
Print Assumptions C01_clause_some_spec.

(* ------------------------------------------------------------------ *)
(* the refinement *)

(* the model of the implementation (SEval, with the variable memo and the rule-status cache) against the documented
   semantics: same file status, same status for every rule, and never an answer where the semantics is undefined *)
Theorem C01_refinement : forall re conv lit_ok prog doc,
  (forall p ks vals, world lit_ok doc (PMap p ks vals) -> List.length ks = List.length vals) ->
  (forall p ks vals c k k', world lit_ok doc (PMap p ks vals) -> conv c k = Some k' -> map_get k vals = None -> map_get k' vals = None) ->
  (forall v r, world lit_ok doc v -> nin_ok re v r) ->
  forall n m st recs s',
  nc_prog prog = true ->
  eval_file re conv prog n doc = Done (st, recs, s') ->
  match spec_file re lit_ok prog doc m with
  | SOk (st', table) => st = st' /\ exists rec, recs = [rec] /\ compare_rules table (rule_statuses rec) = None
  | SUndef => False
  | SOut => True
  end.
Proof. exact refinement. Qed.
Print Assumptions C01_refinement.

(* the error direction for the evaluator with its caches: an evaluation error never meets a defined verdict *)
Theorem C01_refinement_errors : forall re conv lit_ok prog doc,
  (forall p ks vals, world lit_ok doc (PMap p ks vals) -> List.length ks = List.length vals) ->
  (forall p ks vals c k k', world lit_ok doc (PMap p ks vals) -> conv c k = Some k' -> map_get k vals = None -> map_get k' vals = None) ->
  (forall v r, world lit_ok doc v -> nin_ok re v r) ->
  forall n m e,
  nc_prog prog = true ->
  eval_file re conv prog n doc = Err e ->
  match spec_file re lit_ok prog doc m with
  | SOk _ => False
  | _ => True
  end.
Proof. exact refinement_errors. Qed.
Print Assumptions C01_refinement_errors.

(* both directions in one statement: whatever SEval answers at whatever fuel, the documented semantics agrees wherever
   it covers the file *)
Theorem C01_refinement_total : forall re conv lit_ok prog doc,
  (forall p ks vals, world lit_ok doc (PMap p ks vals) -> List.length ks = List.length vals) ->
  (forall p ks vals c k k', world lit_ok doc (PMap p ks vals) -> conv c k = Some k' -> map_get k vals = None -> map_get k' vals = None) ->
  (forall v r, world lit_ok doc v -> nin_ok re v r) ->
  forall n m,
  nc_prog prog = true ->
  match eval_file re conv prog n doc, spec_file re lit_ok prog doc m with
  | Done (st, recs, _), SOk (st', table) => st = st' /\ exists rec, recs = [rec] /\ compare_rules table (rule_statuses rec) = None
  | Done _, SUndef => False
  | Err _, SOk _ => False
  | _, _ => True
  end.
Proof. exact refinement_total. Qed.
Print Assumptions C01_refinement_total.

(* the memo-free evaluator (what MemoProps shows SEval computes), errors included: an evaluation error is raised
   exactly when the semantics is undefined *)
Theorem C01_refinement_memo_free : forall re conv lit_ok prog doc,
  (forall p ks vals, world lit_ok doc (PMap p ks vals) -> List.length ks = List.length vals) ->
  (forall p ks vals c k k', world lit_ok doc (PMap p ks vals) -> conv c k = Some k' -> map_get k vals = None -> map_get k' vals = None) ->
  (forall v r, world lit_ok doc v -> nin_ok re v r) ->
  forall k m,
  match eval_file' re conv prog k doc, spec_file re lit_ok prog doc m with
  | Done (st, _, _), SOk (st', _) => st = st'
  | Err _, SOk _ => False
  | Done _, SUndef => False
  | _, _ => True
  end.
Proof. exact refinement_memo_free. Qed.
Print Assumptions C01_refinement_memo_free.

(* every entry point, every fuel on both sides: queries (with filters and variables), clauses, blocks, rules *)
Theorem C01_every_entry_point_refines : forall re conv lit_ok prog doc (G : pv -> Prop),
  (forall p l x, G (PList p l) -> In x l -> G x) ->
  (forall p ks vals k x, G (PMap p ks vals) -> In (k, x) vals -> G x) ->
  (forall p ks vals, G (PMap p ks vals) -> List.length ks = List.length vals) ->
  (forall p ks vals c k k', G (PMap p ks vals) -> conv c k = Some k' -> map_get k vals = None -> map_get k' vals = None) ->
  (forall v r, G v -> nin_ok re v r) ->
  G doc -> (forall v, lit_ok v = true -> G v) ->
  forall n m, FrameProps.ev_kshape (evalP re conv prog n) /\
              ev_rel re lit_ok prog doc G (evalP re conv prog n) (Spec.run re lit_ok prog doc m).
Proof. exact evalP_refines. Qed.
Print Assumptions C01_every_entry_point_refines.

(* the comparison layer: every binary operator, both polarities, any left-hand selection, a literal right-hand side *)
Theorem C01_comparisons_refine : forall re o neg lhs svals r l custom sts,
  Forall2 rel_q lhs svals -> (forall v, In v (selected_values lhs) -> nin_ok re v r) ->
  cmp_compare re (o, neg) lhs [QLiteral r] = Done (EResult l) ->
  spec_binary re o neg svals r = SOk sts ->
  same_verdicts (sts_of (o, neg) custom l) sts.
Proof. exact binary_refines. Qed.
Print Assumptions C01_comparisons_refine.

(* incomparable values are a FAIL, never an evaluation error; and the documented checks are never undefined *)
Theorem C01_comparisons_never_err : forall re o neg lhs rhs e, is_unary o = false -> cmp_compare re (o, neg) lhs rhs <> Err e.
Proof. exact cmp_compare_no_err. Qed.
Print Assumptions C01_comparisons_never_err.

(* the unary tests, value by value *)
Theorem C01_unary_refines : forall o base a x, unary_base o = Some base -> rel_q a x -> rel_ob (base a) (unary_value o x).
Proof. exact unary_refines. Qed.
Print Assumptions C01_unary_refines.

(* `not in`: lists of plain scalars satisfy the coherence premise *)
Theorem C01_notin_premise_for_scalars : forall re l rhsl, forallb scalar_plain l = true -> notin_coherent re l rhsl.
Proof. exact notin_coherent_scalars. Qed.
Print Assumptions C01_notin_premise_for_scalars.

(* the premises are satisfiable: every document that passes the decidable check okv, with any program *)
Theorem C01_refinement_applies : forall doc, okv doc = true -> forall prog n m st recs s',
  nc_prog prog = true ->
  eval_file re_ex conv_ex prog n doc = Done (st, recs, s') ->
  match spec_file re_ex okv prog doc m with
  | SOk (st', table) => st = st' /\ exists rec, recs = [rec] /\ compare_rules table (rule_statuses rec) = None
  | SUndef => False
  | SOut => True
  end.
Proof. exact refinement_okv. Qed.
Print Assumptions C01_refinement_applies.

(* ... and on a concrete program both sides answer: the conclusion is not vacuous *)
Theorem C01_refinement_instance :
  okv ex_doc = true /\ nc_prog ex_prog = true /\
  spec_file re_ex okv ex_prog ex_doc 40 = SOk (PASS, [("sized", PASS); ("named", PASS); ("unused", SKIP)]%string) /\
  exists recs s', eval_file re_ex conv_ex ex_prog 60 ex_doc = Done (PASS, recs, s').
Proof. exact (conj ex_doc_ok (conj ex_nc (conj ex_spec ex_impl))). Qed.
Print Assumptions C01_refinement_instance.

(* the operator enumeration of the model is the CmpOperator enum of the source, and the case converters tried by the key
   fallback are the seven the model indexes (regenerated from values.rs / eval_context.rs on every run) *)
Theorem C01_operator_and_converter_tables :
  map op_name all_ops = src_cmp_operators /\ (forall o, In o all_ops) /\
  src_converters = ["camel"; "class"; "kebab"; "pascal"; "snake"; "title"; "train"]%string.
Proof. exact (conj (proj1 cmp_operators_are_the_source_enum) (conj (proj2 cmp_operators_are_the_source_enum) converters_are_the_seven_of_the_source)). Qed.
Print Assumptions C01_operator_and_converter_tables.
