(* C16 — `cfn-guard test` agrees with `cfn-guard validate`. Pinned statements only. *)
From GV.Model Require Import TestCmd.
From GV.Proofs Require Import TestCmdProps.

(* an expectation is met iff some definition has the expected non-SKIP status, or all are SKIP when SKIP is expected *)
Theorem C16_status_result_spec : forall exp l,
  matched exp l = true <->
  (exp <> SKIP /\ In exp l) \/ (exp = SKIP /\ Forall (eq SKIP) l).
Proof. exact status_result_spec. Qed.
Print Assumptions C16_status_result_spec.

(* a rule defined once: met iff the evaluated status equals the expectation *)
Theorem C16_single_definition : forall exp st, matched exp [st] = true <-> st = exp.
Proof. exact single_definition. Qed.
Print Assumptions C16_single_definition.

(* on a mismatch the report lists every evaluated status of that rule *)
Theorem C16_mismatch_lists_all : forall exp l,
  matched exp l = false -> snd (get_status_result exp l) = l.
Proof. exact mismatch_lists_all. Qed.
Print Assumptions C16_mismatch_lists_all.

(* the statuses matched against an expectation are those of the same-named rules of the evaluation record,
   in definition order -- the record `validate` reports from *)
Theorem C16_get_by_rules : forall rules n,
  assoc n (get_by_rules rules) = match statuses_of n rules with [] => None | l => Some l end.
Proof. exact get_by_rules_spec. Qed.
Print Assumptions C16_get_by_rules.

Theorem C16_verdict_of_rule : forall exps groups n,
  (In n (plain_pass (classify exps groups)) <->
     exists l e, In (n, l) groups /\ assoc n exps = Some e /\ matched e l = true) /\
  (In n (plain_fail (classify exps groups)) <->
     exists l e, In (n, l) groups /\ assoc n exps = Some e /\ matched e l = false).
Proof. exact verdict_of_rule. Qed.
Print Assumptions C16_verdict_of_rule.

(* rules without an expectation are reported as such and never counted as failures *)
Theorem C16_no_expectation_never_fails : forall exps groups n,
  assoc n exps = None -> ~ In n (plain_fail (classify exps groups)) /\ ~ In n (plain_pass (classify exps groups)).
Proof. exact no_expectation_never_fails. Qed.
Print Assumptions C16_no_expectation_never_fails.

Theorem C16_partition : forall exps groups n,
  In n (map fst groups) ->
  In n (structured_passed (classify exps groups)) \/
  In n (structured_failed (classify exps groups)) \/
  In n (structured_skipped (classify exps groups)).
Proof. exact classification_partition. Qed.
Print Assumptions C16_partition.

(* the renderings agree: a case fails iff failed_rules is non-empty; JUnit marks = passed / failed rules *)
Theorem C16_case_fails_iff : forall c, case_fails c = true <-> structured_failed c <> [].
Proof. exact case_fails_iff. Qed.
Print Assumptions C16_case_fails_iff.

Theorem C16_junit_agrees : forall c n,
  (In (n, true) (junit_marks c) <-> In n (structured_passed c)) /\
  (In (n, false) (junit_marks c) <-> In n (structured_failed c)).
Proof. exact junit_agrees. Qed.
Print Assumptions C16_junit_agrees.
