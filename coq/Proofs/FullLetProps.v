(* FullLetProps.v — `xassignment`, the assignment parser of the whole-grammar parser (Model/FullParse.v): every spelling
   `let <layout> name <layout> = | := <layout> value` is read as the tree Let name (Lit value), and the same with a filter-free
   %variable query on the right as Let name (Query query) - the trees of what the proved layers (LetParseProps, QuerySpellProps) read. *)
From Coq Require Import Lia.
From GV.Model Require Import Ast.
From GV.Model Require Import ValueParse QueryParse OpParse ClauseParse CnfParse FilterParse ClauseFParse LetParse CallParse FullParse.
From GV.Proofs Require Import LexProps ValueParseProps ValueSpellProps QueryParseProps QuerySpellProps OpParseProps ClauseParseProps
  FilterParseProps LetParseProps FullLinkProps.
Local Open Scope string_scope.
Local Open Scope nat_scope.

Ltac norm := repeat first [ rewrite sapp_assoc in * | progress cbn [append] in * ].
Ltac lens := repeat first [ rewrite len_app in * | progress cbn [String.length] in * ].

Section XLet.
Variable rv : string -> bool.

Definition let_rhs (n : nat) (name : string) (Y : string) : pres tree :=
  match parse_value rv n Y with
  | POk l r => POk (T "Let" [Leaf name; T "Lit" [lit_tree l]]) r
  | PErr =>
      let t := skip_ws_comments Y in
      let query : pres tree := pmap (fun q => T "Let" [Leaf name; T "Query" [q]]) (pcut (xaccess rv n t)) in
      match xfunction rv n t with
      | POk v r => POk (T "Let" [Leaf name; v]) r
      | PErr => query
      | PFail => query
      | PUnk => PUnk
      | POof => POof
      end
  | PFail => PFail
  | PUnk => PUnk
  | POof => POof
  end.

Lemma xassignment_S n s : xassignment rv (S n) s =
  match alt_tags kw_let_keyword s with
  | None => PErr
  | Some s1 =>
      match ws1 s1 with
      | None => PErr
      | Some s1' =>
          pbind (var_name s1') (fun name s2 =>
            match alt_tags kw_assign (skip_ws_comments s2) with
            | None => PFail
            | Some s3 => let_rhs n name s3
            end)
      end
  end.
Proof. reflexivity. Qed.

(* the common prefix: `let`, layout, the name, layout, the sign *)
Lemma xlet_prefix n w1 name w2 eq Y : layout w1 -> w1 <> EmptyString -> wf_name name -> layout w2 -> In eq kw_assign ->
  xassignment rv (S n) ("let" +++ (w1 +++ (name +++ (w2 +++ (eq +++ Y))))) = let_rhs n name Y.
Proof.
  intros Hw1 Hne Hname Hw2 Heq. rewrite xassignment_S.
  cbn [append alt_tags kw_let_keyword str_prefix Ascii.eqb Bool.eqb andb drop String.length]. unfold ws1.
  rewrite (layout_nonempty_starts w1 _ Hw1 Hne). rewrite (skip_layout w1 _ Hw1).
  pose proof Hname as (a & r & -> & Ha & Hr). destruct (alpha_facts a Ha) as (_ & _ & _ & A1 & A2 & _).
  cbn [append]. rewrite (skip_solid a _ A1 A2). change (String a (r +++ (w2 +++ (eq +++ Y)))) with (String a r +++ (w2 +++ (eq +++ Y))).
  rewrite (var_name_spelled (String a r) _ Hname (sign_name_end w2 eq Y Hw2 Heq)). cbn [pbind].
  rewrite (skip_layout w2 _ Hw2), (sign_solid eq Y Heq), (assign_sign eq Y Heq). reflexivity.
Qed.

Theorem xlet_spelling_parses : forall w1 name w2 eq w3 t rest,
  layout w1 -> w1 <> EmptyString -> wf_name name -> layout w2 -> In eq kw_assign -> layout w3 -> wf rv t -> follow t rest ->
  let text := "let" +++ (w1 +++ (name +++ (w2 +++ (eq +++ (w3 +++ (render t +++ rest)))))) in
  xassignment rv (S (S (S (S (S (len text)))))) text = POk (T "Let" [Leaf name; T "Lit" [lit_tree (denote t)]]) rest.
Proof.
  intros w1 name w2 eq w3 t rest Hw1 Hne Hname Hw2 Heq Hw3 Ht Hf text. unfold text.
  rewrite (xlet_prefix _ w1 name w2 eq _ Hw1 Hne Hname Hw2 Heq). unfold let_rhs.
  rewrite (parse_value_layout rv _ w3 _ Hw3). rewrite (parse_value_fuel_irrelevant rv (render t +++ rest)).
  - now rewrite (spelling_parses rv t rest Ht Hf).
  - unfold value_fuel. lens. lia.
Qed.

(* a filter-free %variable query on the right *)
Theorem xlet_query_spelling_parses : forall w1 name w2 eq w3 v ps rest,
  layout w1 -> w1 <> EmptyString -> wf_name name -> layout w2 -> In eq kw_assign -> layout w3 -> qwf (mkCQ None (CVar v) ps) -> query_end rest ->
  let text := "let" +++ (w1 +++ (name +++ (w2 +++ (eq +++ (w3 +++ (qrender (mkCQ None (CVar v) ps) +++ rest)))))) in
  xassignment rv (S (S (S (S (S (len text)))))) text =
  POk (T "Let" [Leaf name; T "Query" [query_tree (qdenote (mkCQ None (CVar v) ps))]]) rest.
Proof.
  intros w1 name w2 eq w3 v ps rest Hw1 Hne Hname Hw2 Heq Hw3 Hq Hr text. unfold text.
  match goal with |- xassignment rv (S ?k) _ = _ => set (n := k) end.
  rewrite (xlet_prefix n w1 name w2 eq _ Hw1 Hne Hname Hw2 Heq). unfold let_rhs.
  assert (Eq2 : qrender (mkCQ None (CVar v) ps) +++ rest = String "%" (v +++ (render_parts ps +++ rest))).
  { unfold qrender. cbn [c_some c_head c_parts render_some render_head]. norm. reflexivity. }
  rewrite (parse_value_layout rv n w3 _ Hw3). rewrite Eq2. unfold n at 1. rewrite (parse_value_closer rv _ "%" _ eq_refl). fold n.
  cbv zeta. rewrite (skip_layout w3 _ Hw3). rewrite (skip_solid "%" _ eq_refl eq_refl).
  assert (Ef : function_like (String "%" (v +++ (render_parts ps +++ rest))) = PErr).
  { unfold function_like. now rewrite (var_name_not "%" _ eq_refl). }
  unfold n at 1. rewrite (no_function_here rv _ _ Ef). fold n. rewrite <- Eq2.
  pose proof (query_spelling_parses (mkCQ None (CVar v) ps) rest Hq Hr) as Ea. unfold access_top in Ea.
  unfold n. rewrite (xaccess_extends rv _ _ _ Ea ltac:(discriminate) ltac:(discriminate)).
  - reflexivity.
  - unfold access_fuel. lens. lia.
Qed.

(* `=` and `:=` are one sign for the whole-grammar parser too *)
Corollary xlet_signs_agree : forall w1 name w2 w3 t rest,
  layout w1 -> w1 <> EmptyString -> wf_name name -> layout w2 -> layout w3 -> wf rv t -> follow t rest ->
  let a := "let" +++ (w1 +++ (name +++ (w2 +++ ("=" +++ (w3 +++ (render t +++ rest)))))) in
  let b := "let" +++ (w1 +++ (name +++ (w2 +++ (":=" +++ (w3 +++ (render t +++ rest)))))) in
  xassignment rv (S (S (S (S (S (len a)))))) a = xassignment rv (S (S (S (S (S (len b)))))) b.
Proof.
  intros w1 name w2 w3 t rest Hw1 Hne Hname Hw2 Hw3 Ht Hf a b. unfold a, b.
  rewrite (xlet_spelling_parses w1 name w2 "=" w3 t rest); try assumption; [|unfold kw_assign; cbn; auto].
  rewrite (xlet_spelling_parses w1 name w2 ":=" w3 t rest); try assumption; [|unfold kw_assign; cbn; auto]. reflexivity.
Qed.

End XLet.

(* the statements above on concrete texts (evaluation, not proof): both kinds of right-hand side, both signs *)
Example xlet_example_query :
  xassignment (fun _ => true) 30 ("let a  := %b.c" +++ String (Ascii.ascii_of_nat 10) EmptyString) =
  POk (T "Let" [Leaf "a"; T "Query" [T "Q" [Leaf "true"; T "parts" [T "Key" [Leaf "%b"]; T "AllIndices" [T "none" []]; T "Key" [Leaf "c"]]]]])
      (String (Ascii.ascii_of_nat 10) EmptyString).
Proof. vm_compute. reflexivity. Qed.

Example xlet_example_value :
  xassignment (fun _ => true) 30 "let a = [1, 'x']}" =
  POk (T "Let" [Leaf "a"; T "Lit" [T "list" [T "int" [Leaf "1"]; T "str" [Leaf "x"]]]]) "}".
Proof. vm_compute. reflexivity. Qed.
