"""C02 — every composite status follows from its parts.

proof   : Props/C02.v (or-line law with trace, body law, CNF of any shape, when/rule guards,
          named clause, file law, node carries the computed status) over SEval's combinators
tie     : SEval vs implementation on generated programs x documents (status, error kind and the
          whole record tree), plus an exhaustive enumeration of CNF shapes with forced
          PASS/FAIL/SKIP leaves at six call sites
monitor : Wf.wf_tree (the executable reading of the statement) evaluated by Coq on the
          implementation's record trees; expected composite status of every enumerated shape
"""
import json, random, itertools, re
from .. import coqterm as ct
from .. import impl, model, corr, gen, e2e
from ..common import *

LEAF = {'P': ['a exists', 'a == 1'], 'F': ['a !exists', 'a == 2'], 'S': ['l[ x == 99 ].y exists', 'l[ x == 99 ].y == 1']}
VAL = {"a": 1, "l": [{"x": 1}]}
DOC = dict(VAL, blk=VAL, items=[VAL], Resources={"r": dict(VAL, Type="AWS::X::Y")})


def disj(l):
    return 'PASS' if 'P' in l else ('FAIL' if 'F' in l else 'SKIP')


def conj(lines):
    s = [disj(l) for l in lines]
    return 'FAIL' if 'FAIL' in s else ('PASS' if 'PASS' in s else 'SKIP')


def shapes(max_lines, max_alts):
    lines = []
    for n in range(1, max_alts + 1):
        lines.extend(itertools.product('PFS', repeat=n))
    out = []
    for k in range(1, max_lines + 1):
        out.extend(itertools.product(lines, repeat=k))
    return out


def cnf_text(shape, rng, sep='\n    '):
    return sep.join(' or '.join(rng.choice(LEAF[x]) for x in line) for line in shape)


SITES = ['rule', 'when_block', 'guard_block', 'type_block', 'filter', 'rule_when',
         'param_call', 'param_call_msg', 'param_call_nested', 'param_call_nested_nomsg', 'named_ref', 'named_ref_not', 'some_block', 'when_block_cond', 'type_block_cond']


def site_rule(site, name, body):
    if site == 'rule':
        return 'rule %s {\n    %s\n}' % (name, body)
    if site == 'when_block':
        return 'rule %s {\n  when a exists {\n    %s\n  }\n}' % (name, body)
    if site == 'guard_block':
        return 'rule %s {\n  blk {\n    %s\n  }\n}' % (name, body)
    if site == 'type_block':
        return 'rule %s {\n  AWS::X::Y {\n    %s\n  }\n}' % (name, body)
    if site == 'filter':
        return 'rule %s {\n  some items[ %s ] exists\n}' % (name, body)
    if site == 'rule_when':
        return 'rule %s when %s {\n  a exists\n}' % (name, body)
    if site == 'param_call':
        return 'rule callee_%s(p) {\n    %s\n}\nrule %s {\n  callee_%s(a)\n}' % (name, body, name, name)
    if site == 'param_call_msg':
        return 'rule callee_%s(p) {\n    %s\n}\nrule %s {\n  callee_%s(a) <<custom message>>\n}' % (name, body, name, name)
    if site == 'param_call_nested':
        return ('rule inner_%s(q) {\n    %s\n}\nrule callee_%s(p) {\n  inner_%s(%%p) <<inner message>>\n}\nrule %s {\n  callee_%s(a) <<outer message>>\n}'
                % (name, body, name, name, name, name))
    if site == 'param_call_nested_nomsg':
        return ('rule inner_%s(q) {\n    %s\n}\nrule callee_%s(p) {\n  inner_%s(%%p) <<inner message>>\n}\nrule %s {\n  callee_%s(a)\n}'
                % (name, body, name, name, name, name))
    if site == 'named_ref':
        return 'rule %s {\n  dep_%s\n}\nrule dep_%s {\n    %s\n}' % (name, name, name, body)
    if site == 'named_ref_not':
        return 'rule dep_%s {\n    %s\n}\nrule %s {\n  not dep_%s\n}' % (name, body, name, name)
    if site == 'some_block':
        return 'rule %s {\n  some items[*] {\n    %s\n  }\n}' % (name, body)
    if site == 'when_block_cond':
        # the CNF is the condition of a when block whose body fails: not PASS => SKIP and no body evaluated
        return 'rule %s {\n  when %s {\n    a !exists\n  }\n}' % (name, body)
    if site == 'type_block_cond':
        return 'rule %s {\n  AWS::X::Y when %s {\n    a !exists\n  }\n}' % (name, body)
    raise ValueError(site)


def find(rec, kind):
    """first container of that kind in a record subtree (pre-order)"""
    c = rec[2]['O'] if rec[2] else None
    if c and c[0] == kind:
        return c
    for ch in ct.L(rec[3]):
        r = find(ch, kind)
        if r is not None:
            return r
    return None


def observed(site, rule_rec):
    c = rule_rec[2]['O']
    rule_st = c[2]
    if site == 'rule':
        return rule_st, rule_st
    if site == 'when_block':
        w = find(rule_rec, 'WhenCheck')
        return w[2], rule_st
    if site == 'guard_block':
        w = find(rule_rec, 'BlockGuardCheck')
        return w[2], rule_st
    if site == 'type_block':
        w = find(rule_rec, 'TypeBlock')
        return w[1], rule_st
    if site == 'filter':
        w = find(rule_rec, 'Filter')
        return w[1], rule_st
    if site == 'rule_when':
        w = find(rule_rec, 'RuleCondition')
        return w[1], rule_st
    if site in ('param_call', 'param_call_msg', 'param_call_nested', 'param_call_nested_nomsg'):
        for ch in ct.L(rule_rec[3]):
            w = find(ch, 'RuleCheck')
            if w is not None:
                return w[2], rule_st
        return None, rule_st
    if site in ('named_ref', 'named_ref_not'):
        return None, rule_st
    if site == 'some_block':
        w = find(rule_rec, 'BlockGuardCheck')
        return w[2], rule_st
    if site == 'when_block_cond':
        w = find(rule_rec, 'WhenCondition')
        return w[1], rule_st
    if site == 'type_block_cond':
        w = find(rule_rec, 'TypeCondition')
        return w[1], rule_st


def expected_rule(site, st):
    if site in ('rule', 'when_block', 'guard_block', 'type_block', 'param_call', 'param_call_msg', 'param_call_nested', 'param_call_nested_nomsg', 'some_block'):
        return st
    if site == 'named_ref':
        return 'PASS' if st == 'PASS' else 'FAIL'
    if site == 'named_ref_not':
        return 'FAIL' if st == 'PASS' else 'PASS'
    if site == 'filter':
        return 'PASS' if st == 'PASS' else 'SKIP'
    if site == 'rule_when':
        return 'PASS' if st == 'PASS' else 'SKIP'
    if site in ('when_block_cond', 'type_block_cond'):
        return 'FAIL' if st == 'PASS' else 'SKIP'


def exhaustive_cnf(ctx, max_lines, max_alts, per_file=400):
    rng = random.Random(ctx.seed)
    shp = shapes(max_lines, max_alts)
    pairs, meta = [], []
    for site in SITES:
        for k in range(0, len(shp), per_file):
            chunk = shp[k:k + per_file]
            sep = '\n    ' if site not in ('filter', 'rule_when', 'when_block_cond', 'type_block_cond') else '\n      '
            text = '\n'.join(site_rule(site, 'r%d' % i, cnf_text(s, rng, sep)) for i, s in enumerate(chunk)) + '\n'
            pairs.append({'rules': text, 'data': json.dumps(DOC)})
            meta.append((site, chunk))
    out, errs = corr.run(pairs, ctx.wd, 'c02cnf', loader='json', expr='({check}, wf_impl i{i})')
    if errs:
        raise ToolingError('model evaluation failed: %r' % (errs[:1],))
    n = 0
    for (site, chunk), o, pair in zip(meta, out, pairs):
        if o['kind'] != 'compared':
            raise ToolingError('CNF shape file not evaluated (%s): %r' % (site, str(o)[:300]))
        v = o['verdict']
        if 'VAgree' not in v:
            ctx.failing('CNF shapes at site %s: model and implementation disagree (%s)' % (site, v),
                        {'class': 'cnf-correspondence', 'site': site, 'verdict': v, 'rules': pair['rules'][:2000], 'data': pair['data']}, found=False)
        if 'WfOk' not in v:
            ctx.failing('record tree of the implementation is not explained by its children at site %s (%s)' % (site, v),
                        {'class': 'wf', 'site': site, 'verdict': v, 'rules': pair['rules'][:2000], 'data': pair['data']}, found=True)
        res = o['result']
        if res[0] != 'Ok':
            ctx.failing('CNF shape file raised an error at site %s' % site, {'class': 'cnf-error', 'site': site, 'rules': pair['rules'][:2000], 'data': pair['data']}, found=True)
            continue
        byname = {}
        for c in ct.L(res[2][3]):
            cc = c[2]['O']
            if cc[0] == 'RuleCheck':
                byname.setdefault(ct.S(cc[1]), c)
        if any(('r%d' % i) not in byname for i in range(len(chunk))):
            raise ToolingError('unexpected rule records')
        for i, shape in enumerate(chunk):
            rr = byname['r%d' % i]
            n += 1
            exp = conj(shape)
            got, rule_st = observed(site, rr)
            if (got is not None and got != exp) or rule_st != expected_rule(site, exp):
                text = site_rule(site, 'r', cnf_text(shape, random.Random(0)))
                ctx.failing('CNF %s at site %s: composite status %s (rule %s), the statement requires %s (rule %s)' % (
                    '&'.join('|'.join(l) for l in shape), site, got, rule_st, exp, expected_rule(site, exp)),
                    {'class': 'cnf-shape', 'site': site, 'shape': shape, 'rules': text, 'data': json.dumps(DOC)}, found=True)
    ctx.coverage['cnf_shapes'] = len(shp)
    ctx.coverage['cnf_sites'] = SITES
    ctx.coverage['cnf_evaluations'] = n
    ctx.coverage['evaluations'] += n
    ctx.sample({'site': 'when_block', 'shape': 'P|F & S', 'rules': site_rule('when_block', 'r', cnf_text((('P', 'F'), ('S',)), random.Random(0))),
                'data': json.dumps(DOC), 'expected': conj((('P', 'F'), ('S',)))})
    return n


def generated(ctx, n):
    rng = random.Random(ctx.seed * 7919 + 1)
    pairs = []
    for i in range(n):
        doc, prog = gen.gen_pair(rng)
        pairs.append({'rules': gen.render_file(prog), 'data': json.dumps(doc)})
    out, errs = corr.run(pairs, ctx.wd, 'c02gen', loader='cli', expr='({check}, wf_impl i{i})')
    if errs:
        raise ToolingError('model evaluation failed: %r' % (errs[:1],))
    stats = {}
    distinct = set()
    for o, pair in zip(out, pairs):
        key = o['kind'] if o['kind'] != 'compared' else o['verdict']
        stats[key] = stats.get(key, 0) + 1
        if o['kind'] != 'compared':
            continue
        v = o['verdict']
        if re.search(r'VDis|VModelOOF|NoModelOutput', v):
            ctx.failing('generated program: model and implementation disagree (%s)' % v,
                        {'class': 'eval-correspondence', 'verdict': v, 'rules': pair['rules'], 'data': pair['data']}, found=False)
        if 'WfBadNode' in v or 'WfRootMismatch' in v:
            ctx.failing('record tree of the implementation is not explained by its children (%s)' % v,
                        {'class': 'wf', 'verdict': v, 'rules': pair['rules'], 'data': pair['data']}, found=True)
        if 'WfOk' in v:
            distinct.add(pair['rules'] + pair['data'])
    ctx.coverage['generated_pairs'] = n
    ctx.coverage['generated_verdicts'] = stats
    ctx.coverage['evaluations'] += n
    ctx.sample({'rules': pairs[0]['rules'], 'data': pairs[0]['data'], 'verdict': out[0].get('verdict')})
    return len(distinct)


def fold_fps(l):
    return 'FAIL' if 'F' in l else ('PASS' if 'P' in l else 'SKIP')


def fold_pfs(l):
    return 'PASS' if 'P' in l else ('FAIL' if 'F' in l else 'SKIP')


def aggregation(ctx, maxn):
    """aggregation ACROSS VALUES: every tuple of per-value body statuses (PASS / FAIL / SKIP) for a type block over several
    resources, a block over several values (all / some), a filter over several elements, and the rules of a file"""
    import itertools
    BODY = 'when st != "S" {\n      st == "P"\n    }'
    pairs, meta = [], []
    for n_ in range(1, maxn + 1):
        for combo in itertools.product('PFS', repeat=n_):
            items = [{'st': c, 'i': i} for i, c in enumerate(combo)]
            doc = {'items': items, 'Resources': {'r%d' % i: dict(it, Type='AWS::X::Y') for i, it in enumerate(items)}}
            for c in combo:
                doc['st_' + c] = c
            rules = {
                'type_block': ('rule t {\n  AWS::X::Y {\n    %s\n  }\n}\n' % BODY, fold_fps(combo)),
                'block_all': ('rule t {\n  items[*] {\n    %s\n  }\n}\n' % BODY, fold_fps(combo)),
                'block_some': ('rule t {\n  some items[*] {\n    %s\n  }\n}\n' % BODY, fold_pfs(combo)),
                'block_filtered': ('rule t {\n  items[ i >= 0 ] {\n    %s\n  }\n}\n' % BODY, fold_fps(combo)),
                'file': (''.join('rule f%d {\n  when items[%d].st != "S" {\n    items[%d].st == "P"\n  }\n}\n' % (i, i, i) for i in range(n_)), fold_fps(combo)),
            }
            for site, (text, want) in rules.items():
                pairs.append({'rules': text, 'data': json.dumps(doc)}); meta.append((site, ''.join(combo), want))
    out, errs = corr.run(pairs, ctx.wd, 'c02agg', loader='json', expr='({check}, wf_impl i{i})')
    if errs:
        raise ToolingError('model evaluation failed: %r' % (errs[:1],))
    n = 0
    for (site, combo, want), o, pair in zip(meta, out, pairs):
        info = {'class': 'aggregation', 'site': site, 'values': combo, 'rules': pair['rules'], 'data': pair['data']}
        if o['kind'] != 'compared':
            raise ToolingError('aggregation case not compared: %s %s' % (site, o['kind']))
        n += 1
        res = o.get('result')
        got = res[1] if res and res[0] == 'Ok' else str(res)[:80]
        if got != want:
            ctx.failing('%s over values with body statuses %s: status %s, the statement requires %s' % (site, combo, got, want), info, found=True)
        elif not o['verdict'].startswith('(VAgree, WfOk'):
            ctx.failing('%s over %s: model and implementation disagree (%s)' % (site, combo, o['verdict']), dict(info, **{'class': 'eval-correspondence'}), found=False)
    ctx.coverage['aggregation_cases'] = n
    ctx.coverage['evaluations'] += len(pairs)
    return n


def filter_positions(ctx):
    """records of filters in every position a filter can take (after a key on a list / a struct, after [*] / * on
    scalars, structs and lists, twice in a row, on a variable) as the head of a block, a clause and a when condition:
    the clauses of a filter belong under a Filter record, never among the lines of the enclosing body
    (regression of the defect fixed in /repo ec31769: `l[*][ this == 1 ] { .. }` on scalars)"""
    doc = {'l': [1, 2], 's': [{'x': 1, 'y': 1}, {'x': 2, 'y': 1}], 'm': {'a': {'x': 1, 'y': 1}, 'b': {'x': 2, 'y': 1}},
           'n': [[1, 2], [2]], 'e': []}
    heads = ['l[*][ this == 1 ]', 'l[ this == 1 ]', 'l[*][ this == 9 ]', 's[ x == 1 ]', 's[*][ x == 1 ]', 'm[ x == 1 ]',
             'm.*[ x == 1 ]', 'm[*][ x == 1 ]', 's[ x == 1 ][ y == 1 ]', 's[*][ x == 1 ][ y == 2 ]', 'n[*][*][ this == 2 ]',
             'n[*][ this == 2 ]', 'l[*][ this == 1 or this == 2 ]', 'l[*][ this >= 1\n this == 2 ]', 'e[*][ this == 1 ]',
             'm.a.x[ this == 1 ]', 's[0].x[*][ this == 1 ]', 's[*].x[*][ this == 2 ]']
    uses = ['rule t {\n  %s {\n    this exists\n  }\n}\n', 'rule t {\n  some %s {\n    this exists\n  }\n}\n',
            'rule t {\n  %s exists\n}\n', 'rule t {\n  %s !empty\n  l exists\n}\n',
            'rule t {\n  when %s exists {\n    l exists\n  }\n}\n', 'rule t when %s exists {\n  l !exists\n}\n',
            'let v = %s\nrule t {\n  %%v exists\n  %%v {\n    this exists\n  }\n}\n',
            'rule t {\n  l exists or\n  %s !exists\n  %s { this !exists }\n}\n']
    pairs = []
    for h in heads:
        for u in uses:
            pairs.append({'rules': u.replace('%s', h).replace('%%', '%'), 'data': json.dumps(doc)})
    out, errs = corr.run(pairs, ctx.wd, 'c02flt', loader='json', expr='({check}, wf_impl i{i})')
    if errs:
        raise ToolingError('model evaluation failed: %r' % (errs[:1],))
    n = 0
    for o, pair in zip(out, pairs):
        info = {'class': 'filter-position', 'rules': pair['rules'], 'data': pair['data']}
        if o['kind'] != 'compared':
            continue      # not in the grammar (e.g. a filter on a scalar key is rejected): nothing to observe
        n += 1
        v = o['verdict']
        if 'WfBadNode' in v or 'WfRootMismatch' in v:
            ctx.failing('a filter\'s records are not explained / a body has a line that is not its own (%s)' % v, dict(info, **{'class': 'wf'}), found=True)
        elif re.search(r'VDis|VModelOOF|NoModelOutput', v):
            ctx.failing('filter position: model and implementation disagree (%s)' % v, dict(info, **{'class': 'eval-correspondence'}), found=False)
    ctx.coverage['filter_position_cases'] = n
    ctx.coverage['evaluations'] += n
    return n


def repeated_rule_names(ctx):
    """a rule name defined two or three times (each definition PASS / FAIL / SKIP by its body, or left out by its own `when`
    guard): a clause naming the rule, plain and negated, written before, between and after the definitions, takes the status of
    the FIRST definition that is not SKIP (RootScope::rule_status); the referring rule and the file follow. Model against the
    implementation: status, record tree, every rule."""
    body = {'P': 'a exists', 'F': 'a !exists', 'S': 'l[ x == 99 ].y exists'}
    pairs = []
    for k in (2, 3):
        for combo in itertools.product('PFS', repeat=k):
            for guard in ('', ' when a exists', ' when a !exists'):
                defs = ['rule dep%s {\n  %s\n}\n' % (guard if i == 1 else '', body[c]) for i, c in enumerate(combo)]
                for pos in range(k + 1):
                    for ref in ('dep', 'not dep'):
                        parts = list(defs)
                        parts.insert(pos, 'rule r {\n  %s\n}\nrule r2 {\n  a exists\n  %s or a !exists\n}\n' % (ref, ref))
                        pairs.append({'rules': ''.join(parts), 'data': json.dumps(VAL)})
    if ctx.tier != 'thorough':
        rng = random.Random(ctx.seed * 31 + 2)
        core = [p for p in pairs if p['rules'].count('rule dep') == 2]
        pairs = core + rng.sample([p for p in pairs if p not in core], 60)
    out, errs = corr.run(pairs, ctx.wd, 'c02dup', loader='json')
    if errs:
        raise ToolingError('model evaluation failed: %r' % (errs[:1],))
    n = 0
    for o, pair in zip(out, pairs):
        if o['kind'] != 'compared':
            raise ToolingError('repeated-rule-name program not evaluated: %s' % o['kind'])
        n += 1
        if re.search(r'VDis|VModelOOF|NoModelOutput', o['verdict']):
            ctx.failing('a rule name with several definitions: model and implementation disagree (%s)' % o['verdict'],
                        {'class': 'eval-correspondence', 'rules': pair['rules'], 'data': pair['data'], 'verdict': o['verdict']}, found=False)
    ctx.coverage['repeated_rule_name_programs'] = n
    ctx.coverage['evaluations'] += n
    return n


def multi_document_runs(ctx):
    """one `validate` run over several documents (the console paths build their records in a loop over the data files): rules that name
    other rules - in a clause, under `not`, in an or-line, in a `when` - whose status differs from document to document, every order of
    the documents. In every printed record (a) each rule has the status the evaluator gives for that (rules, document) pair alone - the
    statuses the rest of this check validates against the model and `wf_tree` - and (b) wherever the record of a referenced rule is nested
    under a reference it carries the same status as that rule's own record."""
    import itertools
    rules = ('rule is_prod when env == "prod" {\n  env exists\n}\nrule prod_encrypted when is_prod {\n  enc == true\n}\n'
             'rule uses {\n  is_prod or name exists\n}\nrule neg {\n  not is_prod\n}\nrule both when is_prod {\n  prod_encrypted\n}\nrule big {\n  size >= 10\n}\nrule chain when big {\n  not prod_encrypted or is_prod\n}\n')
    docs = {'dev': {'env': 'dev', 'enc': False, 'name': 'a', 'size': 50}, 'prod': {'env': 'prod', 'enc': False, 'name': 'b', 'size': 5},
            'prod_ok': {'env': 'prod', 'enc': True, 'size': 20}}
    orders = [list(p_) for k_ in (2, 3) for p_ in itertools.permutations(sorted(docs), k_)]
    ref = {}
    res = impl.run_ops([{'op': 'eval', 'rules': rules, 'data': json.dumps(docs[dn]), 'loader': 'json'} for dn in sorted(docs)], ctx.wd, 'c02multi')
    for dn, r in zip(sorted(docs), res):
        ref[dn] = sorted(e2e.rule_statuses(r))
    impl.build_cli()
    jobs = []
    for oi, do in enumerate(orders):
        d = os.path.join(ctx.wd, 'md%d' % oi)
        files = {'r.guard': rules}
        for j, dn in enumerate(do):
            files['d%d_%s.json' % (j, dn)] = json.dumps(docs[dn])
        e2e.write_files(d, files)
        jobs.append({'args': ['validate', '-r', 'r.guard'] + [a for j, dn in enumerate(do) for a in ('-d', 'd%d_%s.json' % (j, dn))] + ['-p'], 'cwd': d})
    n = 0
    for do, (code, so, se) in zip(orders, e2e.run_many(jobs)):
        txt, recs, i = so.decode('utf-8', 'replace'), [], 0
        dec = json.JSONDecoder()
        while i < len(txt):
            if txt[i] != '{':
                i += 1
                continue
            try:
                o, j = dec.raw_decode(txt, i)
            except ValueError:
                i += 1
                continue
            if isinstance(o, dict) and isinstance(o.get('container'), dict) and 'FileCheck' in o['container']:
                recs.append(o)
            i = j
        info = {'class': 'multi-document', 'rules': rules, 'docs': [docs[x] for x in do], 'doc_order': do}
        if len(recs) != len(do):
            ctx.failing('validate --print-json over %d documents prints %d file records' % (len(do), len(recs)), info, found=True)
            continue
        for dn, rec in zip(do, recs):
            n += 1
            top = {c['container']['RuleCheck']['name']: c['container']['RuleCheck']['status'] for c in rec.get('children', []) if isinstance(c.get('container'), dict) and 'RuleCheck' in c['container']}
            if sorted(top.items()) != ref[dn]:
                ctx.failing('document %s evaluated as number %d of %s: rule statuses %s, evaluated alone %s' % (dn, do.index(dn) + 1, do, sorted(top.items()), ref[dn]), dict(info, document=dn), found=True)
            def nested(x, depth):
                out = []
                if isinstance(x, dict):
                    cont = x.get('container')
                    if depth > 1 and isinstance(cont, dict) and 'RuleCheck' in cont:
                        out.append((cont['RuleCheck']['name'], cont['RuleCheck']['status']))
                    for ch in x.get('children', []) or []:
                        out += nested(ch, depth + 1)
                return out
            for name, st in nested(rec, 0):
                if name in top and top[name] != st:
                    ctx.failing('document %s: the record of rule %s nested under a reference says %s, the rule\'s own record %s' % (dn, name, st, top[name]), dict(info, document=dn), found=True)
    ctx.coverage['multi_document_records'] = n
    ctx.coverage['evaluations'] += len(jobs)
    return n


def run(ctx):
    ctx.build()
    pr = ctx.proofs('C02')
    n0 = aggregation(ctx, 4 if ctx.tier == 'thorough' else 3) + filter_positions(ctx) + repeated_rule_names(ctx) + multi_document_runs(ctx)
    if ctx.tier == 'thorough':
        n1 = exhaustive_cnf(ctx, 3, 3) if os.environ.get('VERIF_C02_FULL') else exhaustive_cnf(ctx, 3, 2)
        n2 = generated(ctx, 4000)
    else:
        n1 = exhaustive_cnf(ctx, 2, 2)
        n2 = generated(ctx, 600)
    ctx.coverage['distinct_nontrivial'] = n0 + n1 + n2
    ctx.coverage['rule'] = ('every CNF shape (lines x alternatives, leaves forced to PASS/FAIL/SKIP) at six call sites, all distinct; '
                            'generated programs x documents from tools/gv/gen.py seeded by VERIF_SEED, counted distinct when the '
                            '(rules, data) text is new and the implementation produced a record tree')
    ctx.coverage['trusted_base'] = [
        'Coq 8.16.1 kernel (coqc), vm_compute for case evaluation; no axioms',
        'hand-written model SEval.v/Status.v of eval.rs, eval_context.rs (modelled, not verified)',
        'correspondence: hook eval_dump + tools/gv glue; Wf.wf_tree is the monitor and the statement',
    ]
    ctx.assumptions = ['`some` blocks: the record does not group lines by value, so only necessary conditions are monitored for them',
                       'a childless Success leaf under a body may be a cached named-rule clause or a keys-filter hit; both readings are accepted']
    if not pr['ok']:
        ctx.failing('proof obligations of Props/C02.v no longer check: %s' % (pr.get('problems') or pr.get('log', '')[-500:]),
                    {'class': 'proof', 'theorems': pr['theorems']}, found=False)


def replay(ctx, path):
    j = json.load(open(path))
    for v in j.get('violations', []):
        print(json.dumps(v, indent=1)[:3000])
    return 0
