"""Seeded generators: documents, Guard rule programs (as a small Python AST that
can be transformed and pretty-printed under different styles), and a malformed
stream. Every random choice comes from the random.Random handed in."""
import json, random

# ----------------------------------------------------------------------------
# documents

KEYS = ['a', 'b', 'c', 'd', 'A', 'Type', 'Properties', 'Tags', 'Key', 'Value', 'name',
        'some-key', 'BucketName', 'bucket_name', 'x', 'y', 'z', 'items', 'k1', 'k2']
TYPES = ['AWS::S3::Bucket', 'AWS::EC2::Instance', 'AWS::IAM::Role']
STRINGS = ['', 'a', 'ab', 'abc', 'b', 'AWS::S3::Bucket', 'true', '10', 'x y', 'prod', 'dev',
           'k1', 'k2', 'a', 'z', 'Value', 'héllo']
INTS = [0, 1, -1, 2, 3, 5, 10, 80, 443, 9223372036854775807, -9223372036854775807]
FLOATS = [0.0, 1.5, 2.5, 10.0, 1e308, 5e-324, 0.1]


def gen_scalar(rng):
    k = rng.random()
    if k < 0.35:
        return rng.choice(INTS[:9]) if rng.random() < 0.9 else rng.choice(INTS)
    if k < 0.65:
        return rng.choice(STRINGS)
    if k < 0.77:
        return rng.choice([True, False])
    if k < 0.90:
        return rng.choice(FLOATS[:4]) if rng.random() < 0.85 else rng.choice(FLOATS)
    return None


def gen_value(rng, depth):
    if depth <= 0 or rng.random() < 0.35:
        return gen_scalar(rng)
    if rng.random() < 0.5:
        n = rng.choice([0, 1, 2, 2, 3])
        if rng.random() < 0.6:
            # homogeneous list of maps or scalars
            if rng.random() < 0.5:
                keys = rng.sample(KEYS, rng.choice([1, 2, 3]))
                return [{k: gen_value(rng, depth - 2) for k in keys if rng.random() < 0.85} for _ in range(n)]
            return [gen_scalar(rng) for _ in range(n)]
        return [gen_value(rng, depth - 1) for _ in range(n)]
    n = rng.choice([0, 1, 2, 3, 4])
    keys = rng.sample(KEYS, n)
    return {k: gen_value(rng, depth - 1) for k in keys}


def gen_cfn(rng):
    res = {}
    for i in range(rng.choice([0, 1, 2, 3, 4])):
        name = rng.choice(['r', 'bucket', 'inst', 'role']) + str(i)
        r = {}
        if rng.random() < 0.93:
            r['Type'] = rng.choice(TYPES)
        if rng.random() < 0.9:
            props = {}
            for k in rng.sample(['BucketName', 'Size', 'Enabled', 'Tags', 'Ports', 'Policy', 'Arn'], rng.choice([0, 1, 2, 3])):
                if k == 'Tags':
                    props[k] = [{'Key': rng.choice(['env', 'team', 'k1']), 'Value': rng.choice(STRINGS)}
                                for _ in range(rng.choice([0, 1, 2]))]
                elif k == 'Ports':
                    props[k] = [rng.choice([22, 80, 443, 8080]) for _ in range(rng.choice([0, 1, 2, 3]))]
                elif k == 'Policy':
                    props[k] = {'Statement': [{'Effect': rng.choice(['Allow', 'Deny']),
                                               'Action': rng.choice(['*', 's3:Get', ['s3:Get', 's3:Put']])}
                                              for _ in range(rng.choice([1, 2]))]}
                else:
                    props[k] = gen_scalar(rng)
            r['Properties'] = props
        res[name] = r if rng.random() < 0.97 else gen_scalar(rng)
    doc = {}
    if rng.random() < 0.92:
        doc['Resources'] = res
    if rng.random() < 0.4:
        doc['Parameters'] = {k: gen_scalar(rng) for k in rng.sample(['env', 'size', 'flag'], rng.choice([1, 2]))}
    return doc


def gen_doc(rng):
    if rng.random() < 0.45:
        return gen_cfn(rng)
    d = gen_value(rng, 3)
    if not isinstance(d, dict) and rng.random() < 0.9:
        d = {rng.choice(KEYS): d, rng.choice(KEYS): gen_value(rng, 2)}
    return d


def doc_paths(doc, prefix=()):
    """all (path, value) pairs; path elements are str keys or int indices"""
    out = [(prefix, doc)]
    if isinstance(doc, dict):
        for k, v in doc.items():
            out.extend(doc_paths(v, prefix + (k,)))
    elif isinstance(doc, list):
        for i, v in enumerate(doc):
            out.extend(doc_paths(v, prefix + (i,)))
    return out


def get_path(doc, path):
    for p in path:
        doc = doc[p]
    return doc

# ----------------------------------------------------------------------------
# literals of the Guard language, as python tagged values

def lit_from_py(v):
    """python document value -> literal AST"""
    if v is None:
        return ('null',)
    if isinstance(v, bool):
        return ('bool', v)
    if isinstance(v, int):
        return ('int', v)
    if isinstance(v, float):
        return ('float', v)
    if isinstance(v, str):
        return ('str', v)
    if isinstance(v, list):
        return ('list', [lit_from_py(x) for x in v])
    if isinstance(v, dict):
        return ('map', [(k, lit_from_py(x)) for k, x in v.items()])
    raise ValueError(v)


def ci(x):
    """integers the rules grammar can spell: -(2^63 - 1) .. 2^63 - 1"""
    return max(-9223372036854775807, min(9223372036854775807, x))


def gen_literal(rng, near=None):
    """a literal; when `near` (a python value) is given, mostly equal or close to it"""
    if near is not None or rng.random() < 0.3:
        r = rng.random()
        if isinstance(near, bool):
            return ('bool', near if r < 0.6 else not near)
        if isinstance(near, int):
            if r < 0.45:
                return ('int', near)
            if r < 0.7:
                return ('int', ci(near + rng.choice([-1, 1])))
            if r < 0.8:
                return ('range_int', ci(near - rng.choice([0, 1, 5])), ci(near + rng.choice([0, 1, 5])),
                        rng.choice('(['), rng.choice(')]'))
            if r < 0.9:
                return ('list', [('int', ci(near + d)) for d in rng.sample([-2, -1, 0, 1, 2], rng.choice([1, 2, 3]))])
        if isinstance(near, float) and abs(near) < 1e300 and near >= 0:
            if r < 0.5:
                return ('float', near)
            if r < 0.8:
                return ('float', near + 0.5)
            return ('range_float', max(near - 1.0, 0.0), near + 1.0, rng.choice('(['), rng.choice(')]'))
        if isinstance(near, str):
            if r < 0.4:
                return ('str', near)
            if r < 0.55:
                return ('regex', rng.choice(['^' + regex_escape(near[:2]), regex_escape(near[-1:]) + '$', '.', 'a', '[0-9]+', 'a|b']))
            if r < 0.7:
                return ('list', [('str', s) for s in rng.sample(STRINGS[:8], 2)] + ([('str', near)] if rng.random() < 0.6 else []))
            if r < 0.8:
                return ('str', near + 'x')
        if isinstance(near, list) and r < 0.5:
            return lit_from_py(near)
        if isinstance(near, dict) and r < 0.4:
            return lit_from_py(near)
        if near is None and r < 0.5:
            return ('null',)
    r = rng.random()
    if r < 0.25:
        return ('int', rng.choice(INTS[:9]))
    if r < 0.45:
        return ('str', rng.choice(STRINGS))
    if r < 0.53:
        return ('bool', rng.choice([True, False]))
    if r < 0.6:
        return ('float', rng.choice(FLOATS[:4]))
    if r < 0.67:
        return ('regex', rng.choice(['a', '^a', 'b$', 'a.c', '[0-9]+', '^AWS::', 'a|z', 'x?']))
    if r < 0.72:
        return ('null',)
    if r < 0.85:
        return ('list', [gen_literal(rng) for _ in range(rng.choice([0, 1, 2, 3]))])
    if r < 0.9:
        return ('map', [(k, gen_literal(rng)) for k in rng.sample(KEYS[:6], rng.choice([0, 1, 2]))])
    if r < 0.95:
        a = rng.choice([0, 1, 5])
        return ('range_int', a, a + rng.choice([0, 1, 10]), rng.choice('(['), rng.choice(')]'))
    return ('range_float', 0.5, 2.5, rng.choice('(['), rng.choice(')]'))


def keypart(k):
    """query part for a map key: quoted when it is not a plain identifier"""
    if isinstance(k, str) and k and k[0].isalpha() and k.replace('_', '').isalnum() and k.isascii():
        return ('key', k)
    return ('qkey', k)


def regex_escape(s):
    return ''.join(('\\' + c) if c in '.^$*+?()[]{}|\\/' else c for c in s)


def fmt_float(f):
    if f == int(f) and abs(f) < 1e15:
        return '%.1f' % f
    s = repr(f)
    if 'e' in s:
        m, e = s.split('e')
        if '.' not in m:
            m += '.0'
        sign = '-' if e.startswith('-') else '+'
        return '%se%s%s' % (m, sign, e.lstrip('+-'))
    return s


def render_lit(l, style=None):
    q = '"'
    if style is not None and style.get('quote') == "'":
        q = "'"
    t = l[0]
    if t == 'null':
        return 'null' if not style or not style.get('upper_null') else 'NULL'
    if t == 'bool':
        if style and style.get('cap_bool'):
            return 'True' if l[1] else 'False'
        return 'true' if l[1] else 'false'
    if t == 'int':
        return str(l[1])
    if t == 'float':
        return fmt_float(l[1])
    if t == 'str':
        s = l[1]
        if q in s or s.endswith('\\'):
            other = "'" if q == '"' else '"'
            if other not in s and not s.endswith('\\'):
                return other + s + other
            return q + s.replace(q, '\\' + q) + q
        return q + s + q
    if t == 'regex':
        return '/' + l[1].replace('/', '\\/') + '/'
    if t == 'list':
        sep = ', ' if not style or not style.get('list_nl') else ',\n   '
        return '[' + sep.join(render_lit(x, style) for x in l[1]) + ']'
    if t == 'map':
        return '{' + ', '.join('%s: %s' % (render_key(k), render_lit(v, style)) for k, v in l[1]) + '}'
    if t == 'range_int':
        return 'r%s%d,%d%s' % (l[3], l[1], l[2], l[4])
    if t == 'range_float':
        return 'r%s%s,%s%s' % (l[3], fmt_float(l[1]), fmt_float(l[2]), l[4])
    raise ValueError(l)


def render_key(k):
    import re
    if re.fullmatch(r'[A-Za-z0-9_-]+', k):
        return k
    return '"' + k + '"'

# ----------------------------------------------------------------------------
# program AST
#
# query  := {'some':bool, 'parts':[part]}
# part   := ('this',) | ('key',name) | ('qkey',name) | ('var',name) | ('all',) | ('allidx',) | ('idx',n)
#         | ('dotidx',n) | ('filter', cnf, capture|None) | ('keys', opname, lit) | ('capall', name)
# clause := ('cmp', neg, query, op, opnot, rhs, msg)      rhs := None | ('lit',l) | ('q',query) | ('fn',name,[arg])
#         | ('named', neg, rule, msg) | ('call', name, [arg], msg) | ('block', query, not_empty, block)
#         | ('when', cnf, block) | ('type', typename, when_cnf|None, block)
# block  := {'lets': [(name, rhs)], 'cnf': [[clause]]}
# rule   := {'name', 'when': cnf|None, 'block', 'params': [names]|None}
# file   := {'lets': [...], 'rules': [rule], 'default': [[clause]]}

UNARY = ['exists', 'empty', 'is_string', 'is_list', 'is_struct', 'is_bool', 'is_int', 'is_float', 'is_null']
BINARY = ['==', '>', '>=', '<', '<=', 'in']


class ProgGen:
    def __init__(self, rng, doc, features=None):
        self.rng = rng
        self.doc = doc
        self.paths = doc_paths(doc)
        self.f = dict(filters=True, variables=True, named=True, functions=True, blocks=True,
                      types=True, params=True, keys=True, captures=False, when=True,
                      prefix_not=True, query_rhs=True, miss=0.15, cycles=0.02)
        if features:
            self.f.update(features)
        self.counter = 0

    # -- queries -------------------------------------------------------------
    def pick_path(self, base=None):
        cands = self.paths if base is None else doc_paths(base)
        cands = [p for p in cands if len(p[0]) > 0] or cands
        return self.rng.choice(cands)

    def query_for_path(self, path, root=None, allow_filter=True):
        """a query that (mostly) reaches `path` from root"""
        rng = self.rng
        parts = []
        cur = self.doc if root is None else root
        for step in path:
            if isinstance(step, int):
                r = rng.random()
                if r < 0.6:
                    parts.append(('allidx',))
                elif r < 0.75:
                    parts.append(('idx', step))
                elif r < 0.8:
                    parts.append(('dotidx', step))
                elif r < 0.9 and allow_filter and self.f['filters'] and isinstance(cur[step], dict) and cur[step]:
                    # `list[ filter ]`; with the star_filter feature (off by default, no draw then) also `list[*][ filter ]`
                    if self.f.get('star_filter') and rng.random() < self.f['star_filter']:
                        parts.append(('allidx',))
                    parts.append(('filter', self.filter_cnf(cur[step]), None))
                else:
                    parts.append(('all',))
            else:
                r = rng.random()
                if r < self.f['miss'] / 2:
                    parts.append(keypart(rng.choice(KEYS)))
                elif r < 0.12 and isinstance(cur, dict) and len(cur) > 0:
                    parts.append(('all',))
                    if allow_filter and self.f['filters'] and isinstance(cur.get(step), dict) and cur.get(step) and rng.random() < 0.5:
                        parts.append(('filter', self.filter_cnf(cur[step]), None))
                elif r < 0.16 and allow_filter and self.f['filters'] and isinstance(cur.get(step), dict) and cur.get(step) and parts:
                    # filter directly after a key: keyed map of maps
                    parts.append(keypart(step))
                    inner = cur[step]
                    sub = next((v for v in inner.values() if isinstance(v, dict) and v), None)
                    if sub is not None:
                        parts.append(('filter', self.filter_cnf(sub), None))
                    cur = cur[step]
                    continue
                elif r < 0.19 and self.f['keys'] and isinstance(cur, dict) and parts:
                    parts.append(('keys', rng.choice(['==', 'in', 'not in', '!=']),
                                  rng.choice([('str', step), ('regex', '^' + regex_escape(step[:1])),
                                              ('list', [('str', step), ('str', 'zz')])])))
                else:
                    parts.append(keypart(step))
            try:
                cur = cur[step]
            except Exception:
                break
        if rng.random() < self.f['miss'] / 2:
            parts.append(keypart(rng.choice(KEYS)))
        elif isinstance(cur, list) and rng.random() < 0.5:
            parts.append(('allidx',))
        elif isinstance(cur, dict) and cur and rng.random() < 0.2:
            parts.append(('all',))
        if not parts or parts[0][0] not in ('key', 'qkey'):
            parts.insert(0, ('this',))
        elif rng.random() < 0.05:
            parts.insert(0, ('this',))
        return {'some': rng.random() < 0.2, 'parts': parts}, cur

    def filter_cnf(self, elem):
        """a CNF over an element (a dict) of a collection"""
        rng = self.rng
        n = rng.choice([1, 1, 1, 2])
        cnf = []
        for _ in range(n):
            line = []
            for _ in range(rng.choice([1, 1, 1, 2])):
                if elem and rng.random() < 0.9:
                    k = rng.choice(list(elem.keys()))
                    v = elem[k]
                else:
                    k, v = rng.choice(KEYS), None
                q = {'some': False, 'parts': [keypart(k)]}
                line.append(self.clause_on(q, v, simple=True))
            cnf.append(line)
        return cnf

    # -- clauses -------------------------------------------------------------
    def clause_on(self, q, val, simple=False, scope_vars=()):
        rng = self.rng
        neg = self.f['prefix_not'] and rng.random() < 0.12
        msg = 'm%d' % rng.randrange(100) if rng.random() < 0.15 else None
        if rng.random() < 0.3:
            op = rng.choice(UNARY)
            if rng.random() < 0.5:
                # pick the type test that matches
                op = {bool: 'is_bool', int: 'is_int', float: 'is_float', str: 'is_string', list: 'is_list',
                      dict: 'is_struct', type(None): 'is_null'}.get(type(val), op) if rng.random() < 0.6 else op
            return ('cmp', neg, q, op, rng.random() < 0.3, None, msg)
        op = rng.choice(BINARY)
        opnot = op in ('==', 'in') and rng.random() < 0.25
        near = val
        if isinstance(val, list) and val and rng.random() < 0.7:
            near = rng.choice(val)
        if isinstance(near, (dict, list)) and rng.random() < 0.7:
            flat = [v for _, v in doc_paths(near) if not isinstance(v, (dict, list))]
            near = rng.choice(flat) if flat else near
        r = rng.random()
        if not simple and self.f['query_rhs'] and r < 0.15:
            p, _ = self.pick_path()
            rq, _ = self.query_for_path(p, allow_filter=False)
            rq['some'] = False
            rhs = ('q', rq)
        elif not simple and scope_vars and r < 0.3:
            rhs = ('q', {'some': False, 'parts': [('var', rng.choice(list(scope_vars)))]})
        elif not simple and self.f['functions'] and r < 0.36:
            rhs = self.gen_fn(scope_vars)
        else:
            lit = gen_literal(rng, near)
            if op in ('>', '>=', '<', '<=') and lit[0] in ('list', 'map', 'regex', 'range_int', 'range_float') and rng.random() < 0.8:
                lit = gen_literal(rng, near if isinstance(near, (int, float, str)) and not isinstance(near, bool) else 1)
                if lit[0] in ('regex', 'range_int', 'range_float', 'list'):
                    lit = ('int', 1)
            if op == 'in' and lit[0] not in ('list', 'str', 'range_int', 'range_float') and rng.random() < 0.8:
                lit = ('list', [lit, gen_literal(rng)])
            rhs = ('lit', lit)
        return ('cmp', neg, q, op, opnot, rhs, msg)

    def gen_fn(self, scope_vars=()):
        rng = self.rng
        name = rng.choice(['count', 'join', 'to_upper', 'to_lower', 'substring', 'parse_int', 'parse_string',
                           'parse_boolean', 'count', 'join'])
        p, v = self.pick_path()
        q, _ = self.query_for_path(p, allow_filter=False)
        q['some'] = False
        arg = ('q', q)
        if scope_vars and rng.random() < 0.3:
            arg = ('q', {'some': False, 'parts': [('var', rng.choice(list(scope_vars)))]})
        if name == 'join':
            return ('fn', name, [arg, ('lit', ('str', rng.choice([',', '', '-'])))])
        if name == 'substring':
            return ('fn', name, [arg, ('lit', ('int', rng.choice([0, 1]))), ('lit', ('int', rng.choice([1, 2, 3])))])
        return ('fn', name, [arg])

    def gen_clause(self, root=None, depth=0, scope_vars=(), rule_names=(), at_rule_level=False, param_rules=()):
        rng = self.rng
        r = rng.random()
        base = self.doc if root is None else root
        if at_rule_level and rule_names and self.f['named'] and r < 0.12:
            return ('named', rng.random() < 0.25, rng.choice(list(rule_names)),
                    ('n%d' % rng.randrange(50)) if rng.random() < 0.2 else None)
        if param_rules and self.f['params'] and r < 0.18:
            pr = rng.choice(list(param_rules))
            args = []
            for _ in pr[1]:
                if rng.random() < 0.5:
                    p, v = self.pick_path(base)
                    q, _ = self.query_for_path(p, root=base, allow_filter=False)
                    q['some'] = False
                    args.append(('q', q))
                else:
                    args.append(('lit', gen_literal(rng)))
            return ('call', pr[0], args, ('pm%d' % rng.randrange(20)) if rng.random() < 0.5 else None)
        if at_rule_level and self.f['types'] and isinstance(self.doc, dict) and 'Resources' in self.doc and r < 0.3:
            tn = rng.choice(TYPES)
            inner = None
            res = self.doc.get('Resources')
            if isinstance(res, dict):
                for v in res.values():
                    if isinstance(v, dict) and v.get('Type') == tn:
                        inner = v
                        break
            blk = self.gen_block(inner if inner is not None else {}, depth + 1, scope_vars)
            wc = None
            if self.f['when'] and rng.random() < 0.2:
                wc = [[self.gen_when_clause(scope_vars, rule_names)]]
            return ('type', tn, wc, blk)
        if depth < 2 and self.f['blocks'] and r < (0.42 if depth == 0 else 0.3):
            p, v = self.pick_path(base)
            conts = [(pp, vv) for pp, vv in doc_paths(base) if isinstance(vv, (dict, list)) and len(pp) > 0]
            if conts:
                p, v = rng.choice(conts)
            q, reached = self.query_for_path(p, root=base)
            elem = reached
            if isinstance(elem, list) and elem:
                elem = elem[0]
            blk = self.gen_block(elem if isinstance(elem, (dict, list)) else {}, depth + 1, scope_vars)
            return ('block', q, rng.random() < 0.1, blk)
        if depth < 2 and self.f['when'] and r < (0.5 if depth == 0 else 0.34):
            wc = [[self.gen_when_clause(scope_vars, rule_names if at_rule_level else ())]]
            return ('when', wc, self.gen_block(base if isinstance(base, (dict, list)) else {}, depth + 1, scope_vars))
        # plain comparison clause
        if scope_vars and self.f['variables'] and rng.random() < 0.25:
            v = rng.choice(list(scope_vars))
            parts = [('var', v)]
            k = rng.random()
            if k < 0.3:
                parts.append(('allidx',))
            elif k < 0.5:
                parts.append(keypart(rng.choice(KEYS)))
            q = {'some': rng.random() < 0.2, 'parts': parts}
            return self.clause_on(q, None, scope_vars=scope_vars)
        p, v = self.pick_path(base)
        q, reached = self.query_for_path(p, root=base)
        return self.clause_on(q, reached, scope_vars=scope_vars)

    def gen_when_clause(self, scope_vars, rule_names):
        rng = self.rng
        if rule_names and self.f['named'] and rng.random() < 0.3:
            return ('named', rng.random() < 0.3, rng.choice(list(rule_names)), None)
        p, v = self.pick_path()
        q, reached = self.query_for_path(p, allow_filter=False)
        return self.clause_on(q, reached, simple=True)

    def gen_lets(self, base, scope_vars, n=None):
        rng = self.rng
        lets = []
        if not self.f['variables']:
            return lets
        for _ in range(n if n is not None else rng.choice([0, 0, 1, 1, 2])):
            self.counter += 1
            name = 'v%d' % self.counter
            r = rng.random()
            if r < 0.5:
                p, v = self.pick_path(base)
                q, _ = self.query_for_path(p, root=base)
                lets.append((name, ('q', q)))
            elif r < 0.8 and self.f.get('literal_lets', True):
                lets.append((name, ('lit', gen_literal(rng))))
            elif r < 0.8:
                p, v = self.pick_path(base)
                q, _ = self.query_for_path(p, root=base)
                lets.append((name, ('q', q)))
            elif self.f['functions']:
                lets.append((name, self.gen_fn(scope_vars)))
            elif self.f.get('literal_lets', True):
                lets.append((name, ('lit', gen_literal(rng))))
            else:
                p, v = self.pick_path(base)
                q, _ = self.query_for_path(p, root=base)
                lets.append((name, ('q', q)))
        return lets

    def gen_block(self, base, depth, scope_vars, at_rule_level=False, rule_names=(), param_rules=()):
        rng = self.rng
        lets = self.gen_lets(base, scope_vars) if rng.random() < 0.4 else []
        sv = tuple(scope_vars) + tuple(n for n, _ in lets)
        cnf = []
        for _ in range(rng.choice([1, 1, 1, 2, 2, 3]) if depth == 0 else rng.choice([1, 1, 2])):
            line = []
            for _ in range(rng.choice([1, 1, 1, 1, 2, 3]) if depth == 0 else rng.choice([1, 1, 1, 2])):
                line.append(self.gen_clause(base, depth, sv, rule_names, at_rule_level, param_rules))
            cnf.append(line)
        return {'lets': lets, 'cnf': cnf}

    def gen_file(self):
        rng = self.rng
        file_lets = self.gen_lets(self.doc, (), n=rng.choice([0, 1, 2])) if self.f['variables'] else []
        fv = tuple(n for n, _ in file_lets)
        nrules = rng.choice([1, 1, 2, 2, 3, 4])
        names = ['r%d' % i for i in range(nrules)]
        if rng.random() < self.f.get('dup_names', 0.1) and nrules > 1:
            names[-1] = names[0]          # same name twice
        param_rules = []
        if self.f['params'] and rng.random() < self.f.get('param_rate', 0.25):
            pn = ['p1', 'p2'][:rng.choice([1, 2])]
            if fv and rng.random() < self.f.get('param_clash', 0.3):
                pn[0] = rng.choice(fv)        # a parameter named like a file-level variable: the parameter must win inside the body
            cnf = []
            for _ in range(rng.choice([1, 1, 2, 3])):
                line = []
                for _ in range(rng.choice([1, 1, 1, 2])):
                    parts = [('var', rng.choice(pn))]
                    k = rng.random()
                    if k < 0.2:
                        parts.append(('allidx',))
                    elif k < 0.35:
                        parts.append(keypart(rng.choice(KEYS)))
                    op = rng.choice(BINARY + ['exists', 'is_string', 'is_int'])
                    q = {'some': rng.random() < 0.15, 'parts': parts}
                    if op in BINARY:
                        rhs = ('q', {'some': False, 'parts': [('var', pn[-1])]}) if (len(pn) > 1 and rng.random() < 0.4) else ('lit', gen_literal(rng))
                        line.append(('cmp', False, q, op, rng.random() < 0.15, rhs, ('pb%d' % rng.randrange(30)) if rng.random() < 0.3 else None))
                    else:
                        line.append(('cmp', False, q, op, rng.random() < 0.15, None, None))
                cnf.append(line)
            param_rules.append(('chk', pn, {'lets': [], 'cnf': cnf}))
        rules = []
        forward = rng.random() < 0.3
        for i, name in enumerate(names):
            if self.f['cycles'] and rng.random() < self.f['cycles']:
                refs = names
            elif forward:
                refs = [n for j, n in enumerate(names) if j > i and n != name and n not in names[:i + 1]]
            else:
                refs = [n for j, n in enumerate(names) if j < i and n != name and n not in names[i:]]
            wc = None
            if self.f['when'] and rng.random() < 0.3:
                wc = [[self.gen_when_clause(fv, refs)] for _ in range(rng.choice([1, 1, 2]))]
            blk = self.gen_block(self.doc, 0, fv, at_rule_level=True, rule_names=refs,
                                 param_rules=[(p[0], p[1]) for p in param_rules])
            rules.append({'name': name, 'when': wc, 'block': blk, 'params': None})
        for p in param_rules:
            rules.append({'name': p[0], 'when': None, 'block': p[2], 'params': p[1]})
        return {'lets': file_lets, 'rules': rules, 'default': []}

# ----------------------------------------------------------------------------
# printer

DEFAULT_STYLE = dict(quote='"', upper_kw=False, not_form='not', or_form='or', assign='=', indent='  ',
                     cap_bool=False, upper_null=False, comments=False, extra_nl=False, list_nl=False,
                     this_prefix=False, dotidx=None, opneg='!')


def kw(word, style):
    return word.upper() if style.get('upper_kw') else word


def render_query(q, style):
    out = ''
    if q.get('some'):
        out += kw('some', style) + ' '
    first = True
    for p in q['parts']:
        t = p[0]
        if t == 'this':
            s = kw('this', style)
        elif t == 'key':
            s = p[1] if first else '.' + p[1]
        elif t == 'qkey':
            # a key that needs quoting: first part must be written as a string property name
            s = ('"%s"' % p[1]) if first else ('."%s"' % p[1]) if style.get('dotted_q', True) else '["%s"]' % p[1]
        elif t == 'var':
            s = '%' + p[1] if first else '.%' + p[1]
        elif t == 'all':
            s = '*' if first else '.*'
        elif t == 'allidx':
            s = '[*]'
        elif t == 'idx':
            s = ('.%d' % p[1]) if (style.get('dotidx') is True and p[1] >= 0) else '[%d]' % p[1]
        elif t == 'dotidx':
            s = ('[%d]' % p[1]) if style.get('dotidx') is False else '.%d' % p[1]
        elif t == 'capall':
            s = '[%s]' % p[1]
        elif t == 'filter':
            cap = (p[2] + ' | ') if p[2] else ''
            s = '[ ' + cap + render_cnf(p[1], style, inline=True) + ' ]'
        elif t == 'keys':
            opn = p[1]
            opn = {'in': kw('in', style), 'not in': kw('not', style) + ' ' + kw('in', style)}.get(opn, opn)
            s = '[ ' + kw('keys', style) + ' ' + opn + ' ' + render_lit(p[2], style) + ' ]'
        else:
            raise ValueError(p)
        out += s
        first = False
    return out


def render_rhs(rhs, style):
    if rhs[0] == 'lit':
        return render_lit(rhs[1], style)
    if rhs[0] == 'q':
        q = rhs[1]
        if q['parts'] and q['parts'][0][0] == 'qkey':
            q = dict(q, parts=[('this',)] + list(q['parts']))
        return render_query(q, style)
    if rhs[0] == 'fn':
        return '%s(%s)' % (rhs[1], ', '.join(render_rhs(a, style) for a in rhs[2]))
    raise ValueError(rhs)


def render_not(style):
    nf = style.get('not_form', 'not')
    return {'not': 'not ', 'NOT': 'NOT ', '!': '!'}[nf]


def render_clause(c, style, ind=''):
    t = c[0]
    if t == 'cmp':
        _, neg, q, op, opnot, rhs, msg = c
        s = render_not(style) if neg else ''
        s += render_query(q, style) + ' '
        if op in ('==',):
            s += '!=' if opnot else '=='
        elif op == 'in':
            s += (kw('not', style) + ' ' if opnot else '') + kw('in', style)
        elif op in UNARY:
            if opnot:
                s += '!' if style.get('opneg', '!') == '!' else kw('not', style) + ' '
            s += kw(op, style)
        else:
            s += op
        if rhs is not None:
            s += ' ' + render_rhs(rhs, style)
        if msg:
            s += ' <<' + msg + '>>'
        return s
    if t == 'named':
        s = (render_not(style) if c[1] else '') + c[2]
        if c[3]:
            s += ' <<' + c[3] + '>>'
        return s
    if t == 'call':
        s = '%s(%s)' % (c[1], ', '.join(render_rhs(a, style) for a in c[2]))
        if c[3]:
            s += ' <<' + c[3] + '>>'
        return s
    if t == 'block':
        s = render_query(c[1], style)
        if c[2]:
            s += ' !' + kw('empty', style)
        return s + ' ' + render_block(c[3], style, ind)
    if t == 'when':
        return kw('when', style) + ' ' + render_cnf(c[1], style, inline=True) + ' ' + render_block(c[2], style, ind)
    if t == 'type':
        s = c[1]
        if c[2]:
            s += ' ' + kw('when', style) + ' ' + render_cnf(c[2], style, inline=True)
        return s + ' ' + render_block(c[3], style, ind)
    raise ValueError(c)


def render_or(style):
    return {'or': 'or', 'OR': 'OR', '|OR|': '|OR|'}[style.get('or_form', 'or')]


def render_cnf(cnf, style, inline=False, ind=''):
    lines = []
    for line in cnf:
        alts = [render_clause(c, style, ind) for c in line]
        if inline:
            lines.append((' ' + render_or(style) + ' ').join(alts))
        elif style.get('or_lead'):
            # the alternative ends its line (with a comment when comments are on), `or` leads the next line
            lines.append((('  # c' if style.get('comments') else '') + '\n' + ind + render_or(style) + ' ').join(alts))
        else:
            lines.append((' ' + render_or(style) + ('  # c' if style.get('alt_comments') else '') + '\n' + ind).join(alts))
    if inline:
        return '\n'.join(lines)
    out = []
    for ln in lines:
        out.append(ind + ln)
        if style.get('comments'):
            out[-1] += '  # c'
        if style.get('extra_nl'):
            out.append('')
    return '\n'.join(out)


def render_let(name, rhs, style):
    return 'let %s %s %s' % (name, style.get('assign', '='), render_rhs(rhs, style))


def render_block(b, style, ind=''):
    ind2 = ind + style.get('indent', '  ')
    parts = ['{']
    for n, rhs in b['lets']:
        parts.append(ind2 + render_let(n, rhs, style))
    parts.append(render_cnf(b['cnf'], style, ind=ind2))
    parts.append(ind + '}')
    return '\n'.join(parts)


def render_rule(r, style):
    s = 'rule ' + r['name']
    if r.get('params'):
        s += '(' + ', '.join(r['params']) + ')'
    if r.get('when'):
        s += ' ' + kw('when', style) + ' ' + render_cnf(r['when'], style, inline=True)
    return s + ' ' + render_block(r['block'], style)


def render_file(f, style=None):
    st = dict(DEFAULT_STYLE)
    if style:
        st.update(style)
    parts = []
    if st.get('comments'):
        parts.append('# header comment')
    for n, rhs in f['lets']:
        parts.append(render_let(n, rhs, st))
    if f.get('default'):
        parts.append(render_cnf(f['default'], st))
    for r in f['rules']:
        parts.append(render_rule(r, st))
        if st.get('extra_nl'):
            parts.append('')
    return '\n'.join(parts) + '\n'

# ----------------------------------------------------------------------------
# malformed stream

def mutate_text(rng, text):
    if not text:
        return text
    k = rng.randrange(7)
    toks = text.split(' ')
    if k == 0:
        i = rng.randrange(len(text))
        return text[:i]
    if k == 1 and len(toks) > 1:
        i = rng.randrange(len(toks))
        return ' '.join(toks[:i] + toks[i + 1:])
    if k == 2 and len(toks) > 1:
        i = rng.randrange(len(toks))
        return ' '.join(toks[:i] + [toks[i], toks[i]] + toks[i + 1:])
    if k == 3:
        i = rng.randrange(len(text))
        j = rng.randrange(len(text))
        a, b = min(i, j), max(i, j)
        return text[:a] + text[b:] + text[a:b]
    if k == 4:
        i = rng.randrange(len(text))
        return text[:i] + rng.choice(['é', '中', '\U0001F600', '\x00', '%', '[', '}', '<<', '"', "'", '/', '\\']) + text[i:]
    if k == 5:
        i = rng.randrange(len(text))
        return text[:i] + text[i + 1:]
    i = rng.randrange(len(text))
    return text[:i] + rng.choice(['{', '}', '[', ']', '(', ')', ' or ', ' when ', '\n']) + text[i + 1:]


def gen_pair(rng, features=None):
    doc = gen_doc(rng)
    prog = ProgGen(rng, doc, features).gen_file()
    return doc, prog
