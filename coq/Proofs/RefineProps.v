(* RefineProps.v — the model of the implementation refines the documented semantics (C01).

   PEval (SEval with the two caches switched off; MemoProps shows SEval computes the same values) is related to
   Spec.v, entry point by entry point: whenever the documented semantics covers a case (answers SOk / SUndef) the
   evaluator answers the same status / raises an evaluation error; where Spec answers "not covered" (SOut) nothing
   is claimed.  By induction on the evaluator's fuel, for every fuel of Spec.

   The statement is relative to a set G of values ("the values of this world": the document, its sub-values and the
   literal values of `let` variables that Spec is asked to cover) on which
     - the case-converter key fallback never hits (G_alias: the recorded deviation of C01 is excluded exactly),
     - `not in` between two lists is coherent (G_notin: == is an equivalence on the members; false for NaN),
     - struct values are well formed (as many keys as entries).  *)
From GV.Model Require Import SEval PEval Spec.
From GV.Proofs Require Import EvalLaws FrameProps RefineOps.
From Coq Require Import Lia.
Local Open Scope nat_scope.

(* ------------------------------------------------------------------ *)
(* outcomes *)

Definition rel_out {A B} (R : A -> B -> Prop) (o : outcome (A * list record * state)) (x : sres B) : Prop :=
  match x with
  | SOut => True
  | SOk b => match o with Done (a, _, _) => R a b | Err _ => False | _ => True end
  | SUndef => match o with Done _ => False | _ => True end
  end.

Lemma rel_out_SOut {A B} (R : A -> B -> Prop) o : rel_out R o SOut.
Proof. exact I. Qed.

Lemma rel_out_wrap {A B} (R : A -> B -> Prop) (o : outcome (A * list record * state)) r1 x :
  rel_out R o x ->
  rel_out R (match o with
             | Done (b, r2, s2) => Done (b, r1 ++ r2, s2)
             | Err e => Err e | Panic p => Panic p | OutOfFuel => OutOfFuel | Unknown => Unknown
             end) x.
Proof. destruct o as [[[b r2] s2]| | | |], x; cbn; auto. Qed.

Lemma rel_out_impl {A B} (R R' : A -> B -> Prop) o x : (forall a b, R a b -> R' a b) -> rel_out R o x -> rel_out R' o x.
Proof. intros H. destruct x; cbn; auto. destruct o as [[[a0 r] s]| | | |]; auto. Qed.

Lemma root_of_shape fs : root_of (map fshape fs) = root_of fs.
Proof. induction fs as [|f fs IH]; cbn; [reflexivity|]. destruct f; cbn; auto. Qed.

Section Refine.
Variable re : re_oracle.
Variable conv : conv_oracle.
Variable lit_ok : pv -> bool.
Variable prog : rules_file.
Variable doc : pv.

Variable G : pv -> Prop.
Hypothesis G_list : forall p l x, G (PList p l) -> In x l -> G x.
Hypothesis G_map : forall p ks vals k x, G (PMap p ks vals) -> In (k, x) vals -> G x.
Hypothesis G_wf : forall p ks vals, G (PMap p ks vals) -> List.length ks = List.length vals.
Hypothesis G_alias : forall p ks vals c k k', G (PMap p ks vals) -> conv c k = Some k' -> map_get k vals = None -> map_get k' vals = None.
Hypothesis G_notin : forall v r, G v -> nin_ok re v r.
Hypothesis G_doc : G doc.
Hypothesis G_lit : forall v, lit_ok v = true -> G v.

Notation walk := Spec.walk.
Notation resolve := (Spec.resolve lit_ok).
Notation query_s := (Spec.query_s lit_ok).
Notation access_s := (Spec.access_s re lit_ok).
Notation clause_s := (Spec.clause_s re lit_ok).
Notation when_clause_s := (Spec.when_clause_s re lit_ok).
Notation block_s := Spec.block_s.
Notation when_block_s := (Spec.when_block_s re lit_ok).
Notation named_s := Spec.named_s.
Notation type_block_s := (Spec.type_block_s re lit_ok).
Notation rule_clause_s := (Spec.rule_clause_s re lit_ok).
Notation rule_eval_s := (Spec.rule_eval_s re lit_ok prog doc).
Notation rule_status_s := (Spec.rule_status_s re lit_ok prog doc).
Notation cnf_s := (Spec.cnf_s re lit_ok).
Notation run := (Spec.run re lit_ok prog doc).
Notation file_env := (Spec.file_env prog doc).

(* ------------------------------------------------------------------ *)
(* scopes: the implementation's frames against the environment of the documented semantics.  A value scope defines
   no variable, so either side may hold value scopes the other does not (the implementation evaluates a query of a
   value scope in the parent scope; it pushes one per struct entry under `*`) *)

Inductive rel_env : list SEval.frame -> senv -> Prop :=
| re_root : rel_env [FRoot doc (rf_lets prog) []] [(doc, rf_lets prog)]
| re_block root lets fs env : G root -> rel_env fs env -> rel_env (FBlock root lets [] :: fs) ((root, lets) :: env)
| re_value v fs env : G v -> rel_env fs env -> rel_env (FValue v :: fs) ((v, []) :: env)
| re_skip v fs env : rel_env fs env -> rel_env fs ((v, []) :: env)
| re_extra v fs env : rel_env fs env -> rel_env (FValue v :: fs) env.

Definition Gq (q : qres) : Prop := match q with QResolved v | QLiteral v => G v | QUnResolved _ => True end.
Definition RQ (a : list qres) (b : list sval) : Prop := Forall2 rel_q a b /\ Forall Gq a.

Definition simS {A B} (R : A -> B -> Prop) (env : senv) (m : M A) (x : sres B) : Prop :=
  forall s, rel_env (shape s) env -> rel_out R (m s) x.

(* head-coherent: the current value of both sides is v *)
Definition simC {A B} (R : A -> B -> Prop) (env : senv) (v : pv) (m : M A) (x : sres B) : Prop :=
  G v -> cur_value env = SOk v ->
  forall s, rel_env (shape s) env -> root_of (frames s) = Some v -> rel_out R (m s) x.

Lemma simS_C {A B} (R : A -> B -> Prop) env v m x : simS R env m x -> simC R env v m x.
Proof. intros H _ _ s Hs _. apply H, Hs. Qed.

Lemma simS_SOut {A B} (R : A -> B -> Prop) env (m : M A) : simS R env m SOut.
Proof. intros s _. exact I. Qed.
Lemma simC_SOut {A B} (R : A -> B -> Prop) env v (m : M A) : simC R env v m SOut.
Proof. intros _ _ s _ _. exact I. Qed.

Lemma simS_ret {A B} (R : A -> B -> Prop) env a b : R a b -> simS R env (ret a) (SOk b).
Proof. intros H s _. exact H. Qed.
Lemma simS_fail {A B} (R : A -> B -> Prop) env e : simS R env (@failM A e) (@SUndef B).
Proof. intros s _. exact I. Qed.
Lemma simS_unknown {A B} (R : A -> B -> Prop) env x : simS R env (@unknownM A) x.
Proof. intros s _. destruct x; exact I. Qed.
Lemma simS_panic {A B} (R : A -> B -> Prop) env p x : simS R env (@panicM A p) x.
Proof. intros s _. destruct x; exact I. Qed.
Lemma simS_oof {A B} (R : A -> B -> Prop) env x : simS R env (@oofM A) x.
Proof. intros s _. destruct x; exact I. Qed.

Lemma simS_impl {A B} (R R' : A -> B -> Prop) env m x : (forall a b, R a b -> R' a b) -> simS R env m x -> simS R' env m x.
Proof. intros H Hm s Hs. eapply rel_out_impl; [exact H|apply Hm, Hs]. Qed.

Lemma simC_impl {A B} (R R' : A -> B -> Prop) env v m x : (forall a b, R a b -> R' a b) -> simC R env v m x -> simC R' env v m x.
Proof. intros H Hm HG Hcur s Hs Hv. eapply rel_out_impl; [exact H|apply Hm; assumption]. Qed.

Lemma simS_bind {A B A' B'} (R : A -> A' -> Prop) (R' : B -> B' -> Prop) env m x (f : A -> M B) (g : A' -> sres B') :
  kshape m -> simS R env m x -> (forall a b, R a b -> simS R' env (f a) (g b)) -> simS R' env (bind m f) (sbind x g).
Proof.
  intros Hk Hm Hf s Hs. specialize (Hm s Hs). unfold bind.
  destruct x as [b| |]; cbn [sbind]; [| |exact I].
  - destruct (m s) as [[[a r1] s1]| | | |] eqn:E; cbn in Hm; try contradiction; try (destruct (g b); exact I).
    apply rel_out_wrap. apply Hf; [exact Hm|]. apply Hk in E. unfold same_shape in E. rewrite E. exact Hs.
  - destruct (m s) as [[[a r1] s1]| | | |] eqn:E; cbn in Hm; try contradiction; exact I.
Qed.

Lemma simC_bind {A B A' B'} (R : A -> A' -> Prop) (R' : B -> B' -> Prop) env v m x (f : A -> M B) (g : A' -> sres B') :
  kshape m -> simC R env v m x -> (forall a b, R a b -> simC R' env v (f a) (g b)) -> simC R' env v (bind m f) (sbind x g).
Proof.
  intros Hk Hm Hf HG Hcur s Hs Hv. specialize (Hm HG Hcur s Hs Hv). unfold bind.
  destruct x as [b| |]; cbn [sbind]; [| |exact I].
  - destruct (m s) as [[[a r1] s1]| | | |] eqn:E; cbn in Hm; try contradiction; try (destruct (g b); exact I).
    apply rel_out_wrap. apply Hk in E. unfold same_shape in E. apply Hf; [exact Hm|exact HG|exact Hcur|rewrite E; exact Hs|].
    rewrite <- root_of_shape. fold (shape s1). rewrite E. unfold shape. rewrite root_of_shape. exact Hv.
  - destruct (m s) as [[[a r1] s1]| | | |] eqn:E; cbn in Hm; try contradiction; exact I.
Qed.

(* a computation of the implementation that the documented semantics does not have: records *)
Lemma simS_leaf_l {B B'} (R : B -> B' -> Prop) env c (f : unit -> M B) x :
  simS R env (f tt) x -> simS R env (bind (leaf c) f) x.
Proof.
  intros Hf s Hs. specialize (Hf s Hs). unfold bind, leaf, node, ret. cbn. destruct (f tt s) as [[[b r2] s2]| | | |], x; cbn in *; auto.
Qed.

Lemma simS_ret_l {C B B'} (R : B -> B' -> Prop) env (c : C) (f : C -> M B) x :
  simS R env (f c) x -> simS R env (bind (ret c) f) x.
Proof.
  intros Hf s Hs. specialize (Hf s Hs). unfold bind, ret. destruct (f c s) as [[[b r2] s2]| | | |], x; cbn in *; auto.
Qed.

Lemma node_out {A B} (R : A -> B -> Prop) (m : M A) mk s x : rel_out R (m s) x -> rel_out R (node m mk s) x.
Proof. unfold node. destruct (m s) as [[[a r1] s1]| | | |], x; cbn in *; auto. Qed.

(* sequencing when the two halves are related under different views of the same scope stack *)
Lemma bind_out2 {A B A' B'} (R : A -> A' -> Prop) (R' : B -> B' -> Prop) env2 (m : M A) x (f : A -> M B) (g : A' -> sres B') s :
  kshape m -> rel_env (shape s) env2 -> rel_out R (m s) x ->
  (forall a b, R a b -> simS R' env2 (f a) (g b)) -> rel_out R' (bind m f s) (sbind x g).
Proof.
  intros Hk Hs Hm Hf. unfold bind.
  destruct x as [b| |]; cbn [sbind]; [| |exact I].
  - destruct (m s) as [[[a r1] s1]| | | |] eqn:E; cbn in Hm; try contradiction; try (destruct (g b); exact I).
    apply rel_out_wrap. apply Hf; [exact Hm|]. apply Hk in E. unfold same_shape in E. rewrite E. exact Hs.
  - destruct (m s) as [[[a r1] s1]| | | |] eqn:E; cbn in Hm; try contradiction; exact I.
Qed.

Lemma simS_node {A B} (R : A -> B -> Prop) env (m : M A) mk x : simS R env m x -> simS R env (node m mk) x.
Proof.
  intros Hm s Hs. specialize (Hm s Hs). unfold node. destruct (m s) as [[[a r1] s1]| | | |], x; cbn in *; auto.
Qed.
Lemma simC_node {A B} (R : A -> B -> Prop) env v (m : M A) mk x : simC R env v m x -> simC R env v (node m mk) x.
Proof.
  intros Hm HG Hcur s Hs Hv. specialize (Hm HG Hcur s Hs Hv). unfold node. destruct (m s) as [[[a r1] s1]| | | |], x; cbn in *; auto.
Qed.

Lemma simS_lift {A B} (R : A -> B -> Prop) env (o : outcome A) x :
  match x with
  | SOut => True
  | SOk b => match o with Done a => R a b | Err _ => False | _ => True end
  | SUndef => match o with Done _ => False | _ => True end
  end -> simS R env (lift o) x.
Proof. intros H s _. unfold lift. destruct o, x; cbn in *; auto. Qed.

(* scopes pushed and popped *)
Lemma with_frame_out {A B} (R : A -> B -> Prop) f (m : M A) s x :
  rel_out R (m (mkState (f :: frames s) (statuses s))) x -> rel_out R (with_frame f m s) x.
Proof. unfold with_frame. destruct (m _) as [[[a r1] s1]| | | |], x; cbn; auto. Qed.

Lemma with_parent_out {A B} (R : A -> B -> Prop) (m : M A) f rest st x :
  rel_out R (m (mkState rest st)) x -> rel_out R (with_parent m (mkState (f :: rest) st)) x.
Proof. unfold with_parent. cbn. destruct (m _) as [[[a r1] s1]| | | |], x; cbn; auto. Qed.

(* ------------------------------------------------------------------ *)
(* lists *)

Lemma RQ_nil : RQ [] [].
Proof. split; constructor. Qed.
Lemma RQ_app a b a' b' : RQ a a' -> RQ b b' -> RQ (a ++ b) (a' ++ b').
Proof. intros [H1 H2] [H3 H4]. split; [apply Forall2_app; assumption|apply Forall_app; split; assumption]. Qed.
Lemma RQ_concat l l' : Forall2 RQ l l' -> RQ (List.concat l) (List.concat l').
Proof. induction 1; cbn; [apply RQ_nil|apply RQ_app; assumption]. Qed.
Lemma RQ_one a b : rel_q a b -> Gq a -> RQ [a] [b].
Proof. intros H1 H2. split; repeat constructor; assumption. Qed.
Lemma RQ_miss u : RQ [QUnResolved u] [SMiss].
Proof. apply RQ_one; exact I. Qed.

Lemma simS_mapM {A A' B B'} (RA : A -> A' -> Prop) (R : B -> B' -> Prop) env (f : A -> M B) (g : A' -> sres B') l l' :
  Forall2 RA l l' -> (forall a, In a l -> kshape (f a)) ->
  (forall a a', In a l -> RA a a' -> simS R env (f a) (g a')) ->
  simS (Forall2 R) env (mapM f l) (smap g l').
Proof.
  induction 1 as [|x x' l l' Hx Hl IH]; intros Hk Hf; cbn [mapM smap].
  - apply simS_ret. constructor.
  - eapply simS_bind; [apply Hk; now left|apply Hf; [now left|exact Hx]|]. intros y y' Hy.
    eapply simS_bind; [apply keeps_mapM_in; [exact ss_refl|exact ss_trans|]; intros a Ha; apply Hk; now right| |].
    + apply IH; [intros a Ha; apply Hk; now right|intros a a' Ha; apply Hf; now right].
    + intros ys ys' Hys. apply simS_ret. constructor; assumption.
Qed.

Lemma simC_mapM {A A' B B'} (RA : A -> A' -> Prop) (R : B -> B' -> Prop) env v (f : A -> M B) (g : A' -> sres B') l l' :
  Forall2 RA l l' -> (forall a, In a l -> kshape (f a)) ->
  (forall a a', In a l -> RA a a' -> simC R env v (f a) (g a')) ->
  simC (Forall2 R) env v (mapM f l) (smap g l').
Proof.
  induction 1 as [|x x' l l' Hx Hl IH]; intros Hk Hf; cbn [mapM smap].
  - apply simS_C, simS_ret. constructor.
  - eapply simC_bind; [apply Hk; now left|apply Hf; [now left|exact Hx]|]. intros y y' Hy.
    eapply simC_bind; [apply keeps_mapM_in; [exact ss_refl|exact ss_trans|]; intros a Ha; apply Hk; now right| |].
    + apply IH; [intros a Ha; apply Hk; now right|intros a a' Ha; apply Hf; now right].
    + intros ys ys' Hys. apply simS_C, simS_ret. constructor; assumption.
Qed.

Lemma simS_concatMapM {A A'} (RA : A -> A' -> Prop) env (f : A -> M (list qres)) (g : A' -> sres (list sval)) l l' :
  Forall2 RA l l' -> (forall a, In a l -> kshape (f a)) ->
  (forall a a', In a l -> RA a a' -> simS RQ env (f a) (g a')) ->
  simS RQ env (concatMapM f l) (sflat g l').
Proof.
  intros Hl Hk Hf. unfold concatMapM, sflat.
  eapply simS_bind; [apply keeps_mapM_in; [exact ss_refl|exact ss_trans|exact Hk]|eapply simS_mapM; eassumption|].
  intros a b Hab. apply simS_ret. apply RQ_concat. exact Hab.
Qed.

Lemma Forall2_eq_refl {A} (l : list A) : Forall2 eq l l.
Proof. induction l; constructor; auto. Qed.
Lemma Forall2_eq {A} (l l' : list A) : Forall2 eq l l' -> l = l'.
Proof. induction 1; congruence. Qed.

(* CNF *)
Lemma simC_disj {T} env v (f : T -> M status) (g : T -> sres status) l failed :
  (forall x, In x l -> kshape (f x)) -> (forall x, In x l -> simC eq env v (f x) (g x)) ->
  simC eq env v (disj_body f l failed) (or_line g l failed).
Proof.
  revert failed. induction l as [|x l IH]; intros failed Hk Hf; cbn [disj_body or_line].
  - apply simS_C, simS_ret. reflexivity.
  - eapply simC_bind; [apply Hk; now left|apply Hf; now left|]. intros st st' <-.
    destruct st.
    + apply simS_C, simS_ret. reflexivity.
    + apply IH; intros; [apply Hk|apply Hf]; now right.
    + apply IH; intros; [apply Hk|apply Hf]; now right.
Qed.

Lemma simC_line {T} env v (f : T -> M status) (g : T -> sres status) l :
  (forall x, In x l -> kshape (f x)) -> (forall x, In x l -> simC eq env v (f x) (g x)) ->
  simC eq env v (line_body f l) (or_line g l false).
Proof.
  intros Hk Hf. unfold line_body. destruct l as [|a [|b l]]; try (apply simC_disj; assumption).
  apply simC_node. apply simC_disj; assumption.
Qed.

Lemma ks_line_in {T} (f : T -> M status) l : (forall x, In x l -> kshape (f x)) -> kshape (line_body f l).
Proof. intros H. apply keeps_line_body_in; [exact ss_refl|exact ss_trans|exact H]. Qed.

Lemma simC_cnf {T} env v (f : T -> M status) (g : T -> sres status) cnf :
  (forall l x, In l cnf -> In x l -> kshape (f x)) -> (forall l x, In l cnf -> In x l -> simC eq env v (f x) (g x)) ->
  simC eq env v (cnf_body f cnf) (and_body g cnf).
Proof.
  intros Hk Hf. unfold cnf_body, and_body.
  eapply simC_bind.
  - apply keeps_mapM_in; [exact ss_refl|exact ss_trans|]. intros l Hl. apply ks_line_in. intros x Hx. eapply Hk; eassumption.
  - eapply (simC_mapM eq eq); [apply Forall2_eq_refl|intros l Hl; apply ks_line_in; intros x Hx; eapply Hk; eassumption|].
    intros l l' Hl <-. apply simC_line; intros x Hx; [eapply Hk|eapply Hf]; eassumption.
  - intros sts sts' Hs. apply Forall2_eq in Hs. subst. apply simS_C, simS_ret. reflexivity.
Qed.

(* ------------------------------------------------------------------ *)
(* the documented query, started from an explicit value *)

Definition query_at (sr : sev) (env : senv) (q : query) (cur : pv) : sres (list sval) :=
  match q with
  | [] => SOk [SV false cur]
  | QKey k :: _ => match key_variable k with Some _ => query_s sr env q | None => walk sr env None q cur end
  | _ => walk sr env None q cur
  end.

Definition qspec (sr : sev) (env : senv) (qi : nat) (q : query) (cur : pv) : sres (list sval) :=
  match qi with
  | O => query_at sr env q cur
  | S p => walk sr env (nth_error q p) (skipn (S p) q) cur
  end.

Definition prevp (qi : nat) (q : query) : option query_part := match qi with O => None | S p => nth_error q p end.

Lemma skipn_nth {A} (l : list A) n x : nth_error l n = Some x -> skipn n l = x :: skipn (S n) l.
Proof. revert n. induction l as [|a l IH]; intros [|n] H; cbn in *; try discriminate; [inversion H; reflexivity|apply IH, H]. Qed.
Lemma skipn_none {A} (l : list A) n : nth_error l n = None -> skipn n l = [].
Proof. intros H. apply skipn_all2. apply nth_error_None. exact H. Qed.

Lemma qspec_none sr env qi q cur : nth_error q qi = None -> qspec sr env qi q cur = SOk [SV false cur].
Proof.
  intros H. destruct qi as [|p]; cbn [qspec].
  - destruct q; [reflexivity|discriminate].
  - rewrite (skipn_none _ _ H). reflexivity.
Qed.

Lemma qspec_step sr env qi q cur part :
  nth_error q qi = Some part -> (if Nat.eqb qi 0 then part_variable part else None) = None ->
  qspec sr env qi q cur = walk sr env (prevp qi q) (part :: skipn (S qi) q) cur.
Proof.
  intros H Hv. destruct qi as [|p]; cbn [qspec prevp].
  - destruct q as [|p0 rest]; [discriminate|]. cbn in H. inversion H; subst p0. cbn in Hv. cbn [skipn].
    unfold query_at. destruct part; try reflexivity. cbn in Hv. rewrite Hv. reflexivity.
  - rewrite (skipn_nth _ _ _ H). reflexivity.
Qed.

Lemma qspec_next sr env qi q v part : nth_error q qi = Some part ->
  qspec sr env (S qi) q v = walk sr env (Some part) (skipn (S qi) q) v.
Proof. intros H. cbn [qspec]. rewrite H. reflexivity. Qed.

Lemma assoc_in {A} k (l : list (string * A)) v : assoc k l = Some v -> In (k, v) l.
Proof.
  induction l as [|[k' v'] l IH]; cbn; [discriminate|]. destruct (String.eqb k k') eqn:E.
  - intros H. inversion H; subst. apply String.eqb_eq in E. subst. now left.
  - intros H. right. apply IH, H.
Qed.

Lemma combine_snd (ks : list pv) (vals : list (string * pv)) : List.length ks = List.length vals ->
  Forall2 (fun kv v' => snd kv = v') (combine ks (map snd vals)) (map snd vals).
Proof.
  revert vals. induction ks as [|k ks IH]; intros [|[n v] vals] H; cbn in *; try discriminate; constructor; [reflexivity|].
  apply IH. lia.
Qed.

Lemma Forall2_in_r {A B} (P : A -> B -> Prop) (Q : B -> Prop) l l' :
  Forall2 P l l' -> (forall y, In y l' -> Q y) -> Forall2 (fun x y => P x y /\ Q y) l l'.
Proof. induction 1; intros HQ; constructor; [split; [assumption|apply HQ; now left]|]. apply IHForall2. intros; apply HQ; now right. Qed.

Lemma concatMapM_singletons {A} (f : A -> M (list A)) l : (forall x, In x l -> f x = ret [x]) ->
  forall s, concatMapM f l s = Done (l, [], s).
Proof.
  intros H s. unfold concatMapM, bind.
  assert (K : mapM f l s = Done (map (fun x => [x]) l, [], s)).
  { induction l as [|x l IH]; cbn [mapM map]; [reflexivity|]. unfold bind. rewrite (H x) by now left. cbn.
    rewrite IH by (intros; apply H; now right). reflexivity. }
  rewrite K. cbn. rewrite concat_singletons. reflexivity.
Qed.

(* ------------------------------------------------------------------ *)
(* bodies of the evaluator over callees r, against the documented semantics over callees sr *)

Section Bodies.
Variable r : ev.
Variable sr : sev.
Hypothesis Hks : ev_kshape r.
Hypothesis HQ : forall env qi q cur, G cur -> simS RQ env (ev_query r qi q cur None) (qspec sr env qi q cur).
Hypothesis Hcnf : forall env v cnf, simC eq env v (cnf_body (ev_clause r) cnf) (sv_cnf sr env cnf).
Hypothesis Hres : forall env name, simS RQ env (ev_resolve r name) (resolve sr env name).

Let ksq := proj1 Hks.

Lemma rel_env_push_value s env e : G e ->
  rel_env (shape s) env -> rel_env (shape (mkState (FValue e :: frames s) (statuses s))) ((e, []) :: env).
Proof. intros He H. unfold shape. cbn. apply re_value; assumption. Qed.
Lemma rel_env_push_extra s env e :
  rel_env (shape s) env -> rel_env (shape (mkState (FValue e :: frames s) (statuses s))) env.
Proof. intros H. unfold shape. cbn. apply re_extra. exact H. Qed.

(* the filter's condition in the scope of one candidate *)
Lemma filter_cond env e cnf : G e ->
  simS eq env (with_frame (FValue e) (eval_filter_cnf r cnf)) (sv_cnf sr ((e, []) :: env) cnf).
Proof.
  intros He s Hs. apply with_frame_out. apply (Hcnf ((e, []) :: env) e cnf He eq_refl).
  - apply rel_env_push_value; assumption.
  - reflexivity.
Qed.

Definition keep (env : senv) (prev : option query_part) (rest : query) (cnf : list (list guard_clause)) (e : pv) : sres (list sval) :=
  st <~ sv_cnf sr ((e, []) :: env) cnf ;;
  match st with PASS => walk sr env prev rest e | _ => SOk [] end.

(* check_and_delegate inside the value scope of its candidate *)
Lemma delegate_refines env qi q part key e cnf : nth_error q qi = Some part -> G e ->
  simS RQ env (with_frame (FValue e) (check_and_delegate r cnf None (S qi) q key e None))
              (keep env (Some part) (skipn (S qi) q) cnf e).
Proof.
  intros Hn He s Hs. apply with_frame_out. unfold check_and_delegate, keep.
  set (s1 := mkState (FValue e :: frames s) (statuses s)).
  assert (H1 : rel_env (shape s1) ((e, []) :: env)) by (apply rel_env_push_value; assumption).
  assert (H2 : rel_env (shape s1) env) by (apply rel_env_push_extra, Hs).
  eapply (bind_out2 eq RQ env).
  - apply keeps_node. apply (ks_eval_filter_cnf r Hks).
  - exact H2.
  - apply node_out. exact (Hcnf ((e, []) :: env) e cnf He eq_refl s1 H1 eq_refl).
  - intros st st' <-. apply simS_ret_l. destruct st; try (apply simS_ret; apply RQ_nil).
    rewrite <- (qspec_next sr env qi q e part Hn). apply HQ. exact He.
Qed.

Lemma filter_list_refines env qi q part cnf e : nth_error q qi = Some part -> G e ->
  simS RQ env (st <- node (with_frame (FValue e) (eval_filter_cnf r cnf)) KFilter ;;
               match st with PASS => rq r (S qi) q e None | _ => ret [] end)
              (keep env (Some part) (skipn (S qi) q) cnf e).
Proof.
  intros Hn He. unfold keep. eapply simS_bind.
  - apply keeps_node. apply keeps_with_frame; [exact ss_push|]. apply (ks_eval_filter_cnf r Hks).
  - apply simS_node. apply filter_cond. exact He.
  - intros st st' <-. destruct st; try (apply simS_ret; apply RQ_nil).
    rewrite <- (qspec_next sr env qi q e part Hn). apply HQ. exact He.
Qed.

Ltac kk := repeat first [ apply (ks_rq r Hks) | apply (ks_eval_filter_cnf r Hks) | apply (ks_check_and_delegate r Hks)
                        | apply (ks_ctx_query r Hks) | apply (ks_gblock_body r Hks) | ks_step ].

Lemma next_refines env qi q part v : nth_error q qi = Some part -> G v ->
  simS RQ env (rq r (S qi) q v None) (walk sr env (Some part) (skipn (S qi) q) v).
Proof. intros Hn Hv. rewrite <- (qspec_next sr env qi q v part Hn). apply HQ, Hv. Qed.

Lemma index_refines env qi q part p l i : nth_error q qi = Some part -> G (PList p l) ->
  simS RQ env (qr <- lift (retrieve_index (PList p l) i l q) ;; map_resolved qr (fun v => rq r (S qi) q v None))
              (match nth_error l (Z.to_nat (Z.abs i)) with
               | Some e => walk sr env (Some part) (skipn (S qi) q) e
               | None => SOk [SMiss]
               end).
Proof.
  intros Hn Hg. unfold retrieve_index, abs_index. cbn [obind]. apply simS_ret_l.
  destruct (nth_error l (Z.to_nat (Z.abs i))) as [e|] eqn:E; cbn [map_resolved].
  - apply next_refines; [exact Hn|]. eapply G_list; [exact Hg|]. eapply nth_error_In; exact E.
  - apply simS_ret. apply RQ_miss.
Qed.

Lemma lift_done_bind {A B} (a : A) (f : A -> M B) : bind (lift (Done a)) f = bind (ret a) f.
Proof. reflexivity. Qed.

Lemma accumulate_refines env qi q part p l : nth_error q qi = Some part -> G (PList p l) ->
  simS RQ env (accumulate r (PList p l) qi q l None)
              (match l with [] => SOk [SMiss] | _ => sflat (walk sr env (Some part) (skipn (S qi) q)) l end).
Proof.
  intros Hn Hg. unfold accumulate. destruct l as [|x l']; [apply simS_ret, RQ_miss|].
  set (l := x :: l') in *. clearbody l.
  eapply (simS_concatMapM (fun a b => a = b /\ G b)).
  - apply Forall2_in_r; [apply Forall2_eq_refl|]. intros y Hy. eapply G_list; eassumption.
  - intros a _. apply (ks_rq r Hks).
  - intros a a' _ [<- Ha]. apply next_refines; assumption.
Qed.

Lemma lookup_refines env qi q part p ks vals k : nth_error q qi = Some part -> G (PMap p ks vals) ->
  simS RQ env (lookup_key conv r vals (PMap p ks vals) k qi q None)
              (match assoc k vals with
               | Some x => walk sr env (Some part) (skipn (S qi) q) x
               | None => SOk [SMiss]
               end).
Proof.
  intros Hn Hg. cbv delta [lookup_key map_get]. cbv beta. destruct (assoc k vals) as [v|] eqn:E.
  - apply next_refines; [exact Hn|]. eapply G_map; [exact Hg|]. apply assoc_in. exact E.
  - repeat (match goal with
            | |- simS _ _ (match conv ?c k with _ => _ end) _ =>
                let cvt := fresh "cvt" in let Ec := fresh "Ec" in
                destruct (conv c k) as [cvt|] eqn:Ec; [let Hx := fresh "Hx" in pose proof (G_alias p ks vals c k cvt Hg Ec E) as Hx; unfold map_get in Hx; rewrite Hx|apply simS_unknown]
            end).
    apply simS_ret, RQ_miss.
Qed.

Lemma map_values_refines env p ks vals (f : pv -> pv -> M (list qres)) (g : pv -> sres (list sval)) :
  G (PMap p ks vals) -> (forall k v, kshape (f k v)) -> (forall k v, G v -> simS RQ env (with_frame (FValue v) (f k v)) (g v)) ->
  simS RQ env (concatMapM (fun kv => with_frame (FValue (snd kv)) (f (fst kv) (snd kv))) (combine ks (map snd vals)))
              (sflat g (map snd vals)).
Proof.
  intros Hg Hk Hf.
  eapply (simS_concatMapM (fun kv b => snd kv = b /\ G b)).
  - apply Forall2_in_r; [apply combine_snd, (G_wf p ks vals Hg)|].
    intros y Hy. apply in_map_iff in Hy as ([k0 y0] & <- & Hin). eapply G_map; eassumption.
  - intros a _. apply keeps_with_frame; [exact ss_push|]. apply Hk.
  - intros a a' _ [<- Ha]. apply Hf, Ha.
Qed.

Lemma with_value_extra {A B} (R : A -> B -> Prop) env v (m : M A) x :
  simS R env m x -> simS R env (with_frame (FValue v) m) x.
Proof. intros H s Hs. apply with_frame_out. apply H. apply rel_env_push_extra, Hs. Qed.

Lemma with_value_scope {A B} (R : A -> B -> Prop) env v (m : M A) x : G v ->
  simS R ((v, []) :: env) m x -> simS R env (with_frame (FValue v) m) x.
Proof. intros Hv H s Hs. apply with_frame_out. apply H. apply rel_env_push_value; assumption. Qed.

Theorem query_body_refines env qi q cur : G cur ->
  simS RQ env (query_body re conv r qi q cur None) (qspec sr env qi q cur).
Proof.
  intros Hg. unfold query_body. destruct (nth_error q qi) as [part|] eqn:Hn.
  2: { rewrite (qspec_none _ _ _ _ _ Hn). apply simS_ret. apply RQ_one; [reflexivity|exact Hg]. }
  destruct (if Nat.eqb qi 0 then part_variable part else None) as [var|] eqn:Hv.
  - (* a query that starts with a variable *)
    destruct qi as [|qi']; [|discriminate]. cbn [Nat.eqb] in Hv.
    destruct q as [|p0 rest]; [discriminate|]. cbn in Hn. inversion Hn; subst p0; clear Hn.
    destruct part as [|k| | | | |]; try discriminate. cbn [part_variable] in Hv.
    cbn [qspec query_at]. rewrite Hv. unfold Spec.query_s. rewrite Hv.
    eapply simS_bind; [apply (proj1 (proj2 (proj2 (proj2 Hks))))|apply Hres|].
    intros retrieved vals [Hrel HG].
    change (nth_error (QKey k :: rest) 1) with (nth_error rest 0).
    set (index := match nth_error rest 0 with Some (QAllIndices _) => 2 | _ => 1 end).
    destruct (match rest with QAllIndices n :: rr => (QAllIndices n, rr) | _ => (QKey k, rest) end) as [prev rest'] eqn:Esplit.
    assert (Hidx : skipn index (QKey k :: rest) = rest' /\ nth_error (QKey k :: rest) (index - 1) = Some prev).
    { subst index. destruct rest as [|[] rr]; cbn in Esplit |- *; inversion Esplit; subst; split; reflexivity. }
    destruct Hidx as [Hskip Hprev].
    assert (Hlen : Nat.ltb index (List.length (QKey k :: rest)) = match rest' with [] => false | _ => true end).
    { subst index. destruct rest as [|[] rr]; cbn in Esplit |- *; inversion Esplit; subst; try reflexivity; destruct rr; reflexivity. }
    rewrite Hlen. destruct rest' as [|r0 rest''].
    + (* nothing follows: the values of the variable *)
      intros s Hs. rewrite concatMapM_singletons; [split; assumption|]. intros x _. destruct x; reflexivity.
    + eapply (simS_concatMapM (fun a b => rel_q a b /\ Gq a)).
      * clear -Hrel HG. induction Hrel; constructor; inversion HG; subst; auto.
      * intros a _. destruct a; try apply keeps_ret; try exact ss_refl; apply keeps_with_frame; try exact ss_push; apply (ks_rq r Hks).
      * intros a b _ [Hab Ha]. destruct a as [v|v|u], b as [lit v'|]; cbn in Hab; try contradiction;
          try (destruct lit; try contradiction; subst v'; apply with_value_scope; [exact Ha|];
               assert (E : qspec sr ((v, []) :: env) index (QKey k :: rest) v = walk sr ((v, []) :: env) (Some prev) (r0 :: rest'') v);
               [ subst index; destruct (nth_error rest 0) as [[]|]; cbn [qspec]; cbn [Nat.sub] in Hprev; rewrite ?Nat.sub_0_r in Hprev; rewrite Hprev, Hskip; reflexivity
               | rewrite <- E; apply HQ; exact Ha ]).
        apply simS_ret, RQ_miss.
  - rewrite (qspec_step sr env qi q cur part Hn Hv).
    assert (Hnext := next_refines env qi q part).
    destruct part as [|k|name c w|name|name|i|name cnf]; cbn [Spec.walk].
    + (* this *) apply Hnext; [exact Hn|exact Hg].
    + (* key *)
      destruct (key_variable k) eqn:Ekv; [apply simS_SOut|].
      destruct (parse_i32 k) as [idx|].
      * destruct cur; try (apply simS_ret, RQ_miss). apply index_refines; assumption.
      * destruct cur; try (apply simS_ret, RQ_miss). apply lookup_refines; assumption.
    + apply simS_SOut.
    + (* all values *)
      destruct name; [apply simS_SOut|].
      destruct cur; try (apply Hnext; [exact Hn|exact Hg]).
      * apply accumulate_refines; assumption.
      * unfold accumulate_map. destruct vals as [|kv0 vals']; [apply simS_ret, RQ_miss|].
        set (vals := kv0 :: vals') in *. clearbody vals.
        apply (map_values_refines env p keys vals (fun _ v => _ <- ret tt ;; rq r (S qi) q v None)); [exact Hg| |].
        -- intros k0 v. kk.
        -- intros k0 v Hgv. apply with_value_extra. apply simS_ret_l. apply Hnext; assumption.
    + (* all indices *)
      destruct name as [n|].
      * destruct cur; try apply simS_SOut.
      * destruct cur; try (apply Hnext; [exact Hn|exact Hg]). apply accumulate_refines; assumption.
    + (* index *)
      destruct cur; try (apply simS_ret, RQ_miss). apply index_refines; assumption.
    + (* filter *)
      destruct name; [destruct cur; apply simS_SOut|].
      assert (Hkeep : forall e, keep env (Some (QFilter None cnf)) (skipn (S qi) q) cnf e =
                (st <~ sv_cnf sr ((e, []) :: env) cnf ;; match st with PASS => walk sr env (Some (QFilter None cnf)) (skipn (S qi) q) e | _ => SOk [] end)) by reflexivity.
      destruct cur as [p0|p0 s0|p0 s0|p0 b0|p0 z0|p0 f0|p0 c0|p0 l|p0 ks vals|p0 lo hi i0|p0 lo hi i0|p0 lo hi i0];
        try (destruct qi as [|pi]; [apply simS_panic|]; cbn [prevp];
             destruct (nth_error q pi) as [[]|]; try apply simS_SOut; try (apply simS_ret, RQ_miss);
             rewrite <- Hkeep;
             eapply simS_bind; [apply keeps_node, keeps_with_frame; [exact ss_push|apply (ks_eval_filter_cnf r Hks)]|apply simS_node, filter_cond; exact Hg|];
             intros st st' <-; destruct st; try (apply simS_ret, RQ_nil); apply Hnext; [exact Hn|exact Hg]).
      * (* a list: every element is a candidate *)
        eapply (simS_concatMapM (fun a b => a = b /\ G b)).
        -- apply Forall2_in_r; [apply Forall2_eq_refl|]. intros y Hy. eapply G_list; eassumption.
        -- intros a _. kk.
        -- intros a a' _ [<- Ha]. rewrite <- Hkeep. apply filter_list_refines; assumption.
      * (* a struct *)
        destruct qi as [|pi]; [apply simS_panic|]. cbn [prevp].
        destruct (nth_error q pi) as [[]|]; try apply simS_SOut.
        -- (* after a key: every entry is a candidate *)
           destruct vals as [|kv0 vals']; [apply simS_ret, RQ_nil|].
           set (vals := kv0 :: vals') in *. assert (Hvals : map snd vals = snd kv0 :: map snd vals') by reflexivity.
           unfold accumulate_map. change (match vals with [] => ret [unresolved_at (PMap p0 ks vals) (skipn (S pi) q)] | _ => ?x end) with x.
           clearbody vals.
           apply (map_values_refines env p0 ks vals (fun k0 v => check_and_delegate r cnf None (S (S pi)) q k0 v None)); [exact Hg| |].
           ++ intros k0 v. kk.
           ++ intros k0 v Hgv. rewrite <- Hkeep. apply delegate_refines; assumption.
        -- rewrite <- Hkeep. apply delegate_refines; assumption.
        -- rewrite <- Hkeep. apply delegate_refines; assumption.
Qed.

(* ------------------------------------------------------------------ *)
(* variables *)

Hypothesis Hsq : forall env q root, cur_value env = SOk root -> G root ->
  simS RQ env (ev_query r 0 q root None) (sv_query sr env q).

Lemma count_zero name lets : count_name name lets = 0 ->
  find_literal name lets = None /\ find_function name lets = None /\ find_query name lets = None.
Proof.
  induction lets as [|[n v] lets IH]; cbn; [auto|]. destruct (String.eqb n name) eqn:E; [discriminate|].
  cbn. intros H. destruct (IH H) as (-> & -> & ->). destruct v; auto.
Qed.

Lemma count_one name lets lv : count_name name lets = 1 -> find_let name lets = Some lv ->
  match lv with
  | LValue v => find_literal name lets = Some v
  | LAccess aq => find_literal name lets = None /\ find_function name lets = None /\ find_query name lets = Some aq
  | LFunction ps f => True
  end.
Proof.
  induction lets as [|[n v] lets IH]; cbn; [discriminate|]. destruct (String.eqb n name) eqn:E; cbn.
  - intros H Hf. inversion Hf; subst v. assert (H0 : count_name name lets = 0) by lia.
    destruct (count_zero _ _ H0) as (-> & -> & ->). destruct lv; auto.
  - intros H Hf. specialize (IH H Hf). destruct lv.
    + rewrite IH. reflexivity.
    + destruct IH as (-> & -> & ->). destruct v; auto.
    + exact I.
Qed.

Lemma RQ_filter a b : RQ a b -> existsb is_lit b = false -> RQ (filter is_resolved a) (filter not_miss b).
Proof.
  intros [H1 H2]. induction H1 as [|x y a b Hxy H1 IH]; intros Hl; [apply RQ_nil|].
  inversion H2; subst. cbn in Hl. apply Bool.orb_false_iff in Hl as [Hy Hl]. specialize (IH H4 Hl).
  destruct x as [v|v|u], y as [[|] v'|]; cbn in Hxy; try contradiction; try discriminate; cbn [filter is_resolved not_miss].
  - subst. apply (RQ_app [QResolved v'] _ [SV false v']); [apply RQ_one; [reflexivity|assumption]|exact IH].
  - exact IH.
Qed.

Lemma scope_refines (is_root : bool) root lets name env_outer s :
  G root ->
  rel_env (shape s) ((root, lets) :: env_outer) ->
  (is_root = true -> env_outer = []) ->
  (is_root = false -> rel_out RQ (with_parent (ev_resolve r name) s) (resolve sr env_outer name)) ->
  rel_out RQ (resolve_scope' r is_root root lets name s) (resolve sr ((root, lets) :: env_outer) name).
Proof.
  intros Hg Hs Hroot Hparent. cbn [Spec.resolve]. unfold resolve_scope'.
  destruct (count_name name lets) as [|[|n]] eqn:Ec; [| |exact I].
  - destruct (count_zero _ _ Ec) as (-> & -> & ->). destruct is_root.
    + rewrite (Hroot eq_refl). exact I.
    + apply Hparent. reflexivity.
  - destruct (find_let name lets) as [lv|] eqn:El; [|exact I].
    pose proof (count_one _ _ _ Ec El) as K. destruct lv as [v|aq|ps f]; [| |exact I].
    + rewrite K. destruct (lit_ok v) eqn:Ek; [|exact I]. apply RQ_one; [reflexivity|apply G_lit, Ek].
    + destruct K as (-> & -> & ->).
      assert (HS : simS RQ ((root, lets) :: env_outer)
                     (result <- ev_query r 0 (aq_query aq) root None ;; ret (if aq_all aq then result else filter is_resolved result))
                     (res <~ sv_query sr ((root, lets) :: env_outer) (aq_query aq) ;;
                      (if aq_all aq then SOk res else if existsb is_lit res then SOut else SOk (filter not_miss res)))).
      { eapply simS_bind; [apply ksq|apply Hsq; [reflexivity|exact Hg]|].
        intros a b Hab. destruct (aq_all aq); [apply simS_ret, Hab|].
        destruct (existsb is_lit b) eqn:El2; [apply simS_SOut|]. apply simS_ret. apply RQ_filter; assumption. }
      apply HS, Hs.
Qed.

Lemma rel_env_no_params fs env : rel_env fs env -> forall b n m rest, fs <> FParams b n m :: rest.
Proof. induction 1; intros; try discriminate; auto. Qed.

Theorem resolve_body_refines env name : simS RQ env (resolve_body' r name) (resolve sr env name).
Proof.
  intros s Hs. remember (shape s) as fs eqn:Efs. revert s Efs.
  induction Hs as [|root lets fs env Hg Hs IH|v fs env Hg Hs IH|v fs env Hs IH|v fs env Hs IH]; intros s Efs.
  - (* the file scope *)
    unfold resolve_body'. destruct s as [[|f rest] st]; [discriminate|]. unfold shape in Efs. cbn in Efs.
    destruct rest; [|discriminate]. destruct f; try discriminate. cbn in Efs. inversion Efs; subst. cbn [frames].
    apply (scope_refines true); [exact G_doc|unfold shape; cbn; apply re_root|reflexivity|discriminate].
  - (* a block scope *)
    unfold resolve_body'. destruct s as [[|f rest] st]; [discriminate|]. unfold shape in Efs. cbn in Efs.
    destruct f; try discriminate. cbn in Efs. inversion Efs; subst. cbn [frames].
    apply (scope_refines false); [exact Hg|unfold shape; cbn; apply re_block; assumption|discriminate|].
    intros _. apply with_parent_out. apply Hres. exact Hs.
  - (* a value scope on both sides *)
    unfold resolve_body'. destruct s as [[|f rest] st]; [discriminate|]. unfold shape in Efs. cbn in Efs.
    destruct f; try discriminate. cbn in Efs. inversion Efs; subst. cbn [frames Spec.resolve count_name].
    apply with_parent_out. apply Hres. exact Hs.
  - (* a value scope the implementation has left *)
    cbn [Spec.resolve count_name]. apply IH. exact Efs.
  - (* a value scope only the implementation has *)
    unfold resolve_body'. destruct s as [[|f rest] st]; [discriminate|]. unfold shape in Efs. cbn in Efs.
    destruct f; try discriminate. cbn in Efs. inversion Efs; subst. cbn [frames].
    apply with_parent_out. apply Hres. exact Hs.
Qed.

(* ------------------------------------------------------------------ *)
(* a query in the current scope *)

Lemma rel_env_pop_value v fs env : rel_env (FValue v :: fs) env -> rel_env fs env.
Proof.
  intros H. remember (FValue v :: fs) as fs0 eqn:E. revert v fs E.
  induction H as [|root lets fs0 env Hg Hs IH|v0 fs0 env Hg Hs IH|v0 fs0 env Hs IH|v0 fs0 env Hs IH]; intros v fs E; try discriminate.
  - inversion E; subst. apply re_skip. exact Hs.
  - apply re_skip. eapply IH. exact E.
  - inversion E; subst. exact Hs.
Qed.

Lemma query_s_at env q v : cur_value env = SOk v -> q <> [] -> query_s sr env q = query_at sr env q v.
Proof.
  intros Hv Hq. destruct q as [|p rest]; [contradiction|].
  destruct p; try (unfold Spec.query_s, query_at; rewrite Hv; reflexivity).
  unfold query_at. destruct (key_variable k) eqn:E; [reflexivity|]. unfold Spec.query_s. rewrite E, Hv. reflexivity.
Qed.

Theorem ctx_query_refines env v q : simC RQ env v (ctx_query r q) (query_s sr env q).
Proof.
  intros Hg Hcur s Hs Hv. destruct q as [|p0 rest]; [exact I|].
  rewrite (query_s_at env (p0 :: rest) v Hcur) by discriminate.
  unfold ctx_query. destruct s as [[|f fs] st]; [discriminate|]. cbn [frames ctx_query_fs].
  destruct f as [root lets memo|root lets memo|root|b n m].
  - cbn in Hv. inversion Hv; subst. apply (HQ env 0 (p0 :: rest) v Hg). exact Hs.
  - cbn in Hv. inversion Hv; subst. apply (HQ env 0 (p0 :: rest) v Hg). exact Hs.
  - cbn in Hv. inversion Hv; subst. apply with_parent_out. apply (HQ env 0 (p0 :: rest) v Hg).
    unfold shape in Hs. cbn in Hs. eapply rel_env_pop_value. exact Hs.
  - exfalso. unfold shape in Hs. cbn in Hs. eapply rel_env_no_params; [exact Hs|reflexivity].
Qed.

Lemma ks_ctxq q : kshape (ctx_query r q).
Proof. apply (ks_ctx_query r Hks). Qed.

(* ------------------------------------------------------------------ *)
(* clauses that look at values *)

Lemma last_is_filter q : q <> [] ->
  match last q QThis with QFilter _ _ | QMapKeyFilter _ _ _ => true | _ => false end
  = match rev q with p :: _ => is_filter_part p | [] => false end.
Proof.
  intros Hq. destruct (exists_last Hq) as (q' & p & ->). rewrite last_last, rev_app_distr. cbn. destruct p; reflexivity.
Qed.

Lemma bare_variable q : q <> [] ->
  (part_is_variable (last q QThis) && Nat.eqb (List.length q) 1) = match q with [p] => part_is_variable p | _ => false end.
Proof.
  intros Hq. destruct q as [|p [|p2 rest]]; [contradiction| |].
  - cbn. apply Bool.andb_true_r.
  - cbn [List.length Nat.eqb]. apply Bool.andb_false_r.
Qed.

Definition spec_flag (q : query) : bool :=
  match rev q with p :: _ => is_filter_part p | [] => false end || match q with [p] => part_is_variable p | _ => false end.

Lemma empty_on_expr_eq q : q <> [] ->
  match last q QThis with
  | QFilter _ _ | QMapKeyFilter _ _ _ => true
  | rest => part_is_variable rest && Nat.eqb (List.length q) 1
  end = spec_flag q.
Proof.
  intros Hq. unfold spec_flag. rewrite <- (last_is_filter q Hq), <- (bare_variable q Hq). destruct (last q QThis); reflexivity.
Qed.

Definition Rst (a : qres * status) (b : status) : Prop := snd a = b.

Lemma map_snd_Rst l l' : Forall2 Rst l l' -> map snd l = l'.
Proof. induction 1; cbn; [reflexivity|]. unfold Rst in H. congruence. Qed.

Lemma has_status_existsb st (l : list (qres * status)) : has_status st l = existsb (status_eqb st) (map snd l).
Proof. unfold has_status. induction l; cbn; [reflexivity|]. now rewrite IHl. Qed.

Lemma aggregate_outcome (all : bool) (l : list (qres * status)) :
  (if all then (if has_status FAIL l then FAIL else PASS) else (if has_status PASS l then PASS else FAIL)) = aggregate all (map snd l).
Proof. unfold aggregate. rewrite !has_status_existsb. reflexivity. Qed.

Lemma is_unary_base o : is_unary o = true -> exists base, unary_base o = Some base.
Proof. destruct o; try discriminate; intros _; eexists; reflexivity. Qed.

Lemma polarity_eq (b neg pre : bool) : (if (if pre then negb (if neg then negb b else b) else (if neg then negb b else b)) then PASS else FAIL) = polarity b neg pre.
Proof. unfold polarity. destruct b, neg, pre; reflexivity. Qed.

(* the tail of eval_guard_access_clause: values to a clause status *)
Definition access_tail (all : bool) (res : evaluation_result) : M (status * bool) :=
  match res with
  | EmptyQueryResult st => ret (st, all)
  | QueryValueResult l =>
      if has_status SKIP l then panicM P_skip_in_values
      else ret (if all then (if has_status FAIL l then FAIL else PASS) else (if has_status PASS l then PASS else FAIL), negb all)
  end.

Lemma access_tail_values env all l sts :
  same_verdicts (map snd l) sts -> simS (fun p st => fst p = st) env (access_tail all (QueryValueResult l)) (SOk (aggregate all sts)).
Proof.
  intros H. unfold access_tail. destruct (has_status SKIP l); [apply simS_panic|].
  apply simS_ret. cbn [fst]. rewrite aggregate_outcome. apply aggregate_same, H.
Qed.

(* plumbing *)
Lemma bind_assoc_out {A B C D} (R : C -> D -> Prop) (ma : M A) (f : A -> M B) (g : B -> M C) s x :
  rel_out R ((a <- ma ;; (b <- f a ;; g b)) s) x -> rel_out R ((b <- (a <- ma ;; f a) ;; g b) s) x.
Proof.
  unfold bind. destruct (ma s) as [[[a r1] s1]| | | |]; auto.
  destruct (f a s1) as [[[b r2] s2]| | | |]; auto.
  destruct (g b s2) as [[[c r3] s3]| | | |]; auto.
Qed.

Lemma wrap_fst_out {A} (m : M (status * A)) mk s x :
  rel_out (fun p st => fst p = st) (m s) x -> rel_out eq ((p <- node m mk ;; ret (fst p)) s) x.
Proof. unfold bind, node, ret. destruct (m s) as [[[[st a] r1] s1]| | | |], x; cbn; auto. Qed.

Lemma smap_pure {A B} (g : A -> B) l : smap (fun x => SOk (g x)) l = SOk (map g l).
Proof. induction l; cbn; [reflexivity|]. now rewrite IHl. Qed.

(* computations that only write records *)
Definition pureM {A} (m : M A) (a : A) : Prop := forall s, exists recs, m s = Done (a, recs, s).
Lemma pure_ret {A} (a : A) : pureM (ret a) a.
Proof. intros s. eexists. reflexivity. Qed.
Lemma pure_leaf c : pureM (leaf c) tt.
Proof. intros s. eexists. reflexivity. Qed.
Lemma pure_bind {A B} (m : M A) a (f : A -> M B) b : pureM m a -> pureM (f a) b -> pureM (bind m f) b.
Proof. intros Hm Hf s. destruct (Hm s) as [r1 E1]. destruct (Hf s) as [r2 E2]. unfold bind. rewrite E1, E2. eexists. reflexivity. Qed.
Lemma pure_mapM {A B} (f : A -> M B) (g : A -> B) l : (forall x, pureM (f x) (g x)) -> pureM (mapM f l) (map g l).
Proof.
  intros H. induction l as [|x l IH]; cbn [mapM map]; [apply pure_ret|].
  eapply pure_bind; [apply H|]. eapply pure_bind; [exact IH|]. apply pure_ret.
Qed.
Lemma pure_concatMapM {A B} (f : A -> M (list B)) (g : A -> list B) l : (forall x, pureM (f x) (g x)) -> pureM (concatMapM f l) (flat_map g l).
Proof.
  intros H. unfold concatMapM. eapply pure_bind; [apply pure_mapM, H|]. rewrite flat_map_concat_map. apply pure_ret.
Qed.
Lemma pure_out {A B} (R : A -> B -> Prop) (m : M A) a s x : pureM m a ->
  match x with SOk b => R a b | SUndef => False | SOut => True end -> rel_out R (m s) x.
Proof. intros Hm Hx. destruct (Hm s) as [recs E]. rewrite E. destruct x; auto. Qed.
Lemma pure_bind_out {A B C} (R : B -> C -> Prop) (m : M A) a (f : A -> M B) s x :
  pureM m a -> rel_out R (f a s) x -> rel_out R (bind m f s) x.
Proof.
  intros Hm Hf. destruct (Hm s) as [recs E]. unfold bind. rewrite E. destruct (f a s) as [[[b r2] s2]| | | |], x; cbn in *; auto.
Qed.

(* the reporting loop of binary_operation only writes records *)
Lemma report_loop c custom l :
  pureM (concatMapM (fun e => mapM (fun t => let '(cc, v, st) := t in _ <- leaf (KClauseValueCheck cc) ;; ret (v, st)) (report_binary c custom e)) l)
        (flat_map (fun e => map (fun t => let '(cc, v, st) := t in (v, st)) (report_binary c custom e)) l).
Proof.
  apply pure_concatMapM. intros e. apply pure_mapM. intros [[cc v] st].
  eapply pure_bind; [apply pure_leaf|apply pure_ret].
Qed.

(* the values of a comparison against a literal, up to the clause status *)
Lemma binary_tail_refines env lhs svals o neg rv custom all :
  is_unary o = false -> RQ lhs svals ->
  simS (fun p st => fst p = st) env
    (res <- (results <- lift (cmp_compare re (o, neg) lhs [QLiteral rv]) ;;
             match results with
             | ESkip => ret (EmptyQueryResult SKIP)
             | EResult l =>
                 res <- concatMapM (fun e => mapM (fun t => let '(cc, v, st) := t in _ <- leaf (KClauseValueCheck cc) ;; ret (v, st))
                                                  (report_binary (o, neg) custom e)) l ;;
                 ret (QueryValueResult res)
             end) ;;
     access_tail all res)
    (match svals with
     | [] => SOk SKIP
     | [SV true l] => sts <~ check_literal re o neg l rv ;; SOk (aggregate all sts)
     | _ => sts <~ sflat (fun x => check_value re o neg x rv) svals ;; SOk (aggregate all sts)
     end).
Proof.
  intros Hu [Hrel HG] s Hs.
  assert (Hspec : match svals with
                  | [] => SOk SKIP
                  | [SV true l] => sts <~ check_literal re o neg l rv ;; SOk (aggregate all sts)
                  | _ => sts <~ sflat (fun x => check_value re o neg x rv) svals ;; SOk (aggregate all sts)
                  end = match svals with [] => SOk SKIP | _ => sts <~ spec_binary re o neg svals rv ;; SOk (aggregate all sts) end).
  { unfold spec_binary. destruct svals as [|[[|] l|] [|y rest]]; reflexivity. }
  rewrite Hspec. clear Hspec.
  destruct lhs as [|q0 lhs'].
  - inversion Hrel; subst. cbn. reflexivity.
  - assert (Hne : svals <> []) by (inversion Hrel; discriminate).
    destruct svals as [|y0 svals']; [contradiction|]. set (svals := y0 :: svals') in *. set (lhs := q0 :: lhs') in *.
    pose proof (spec_binary_not_undef re o neg svals rv) as Hnu.
    destruct (cmp_compare re (o, neg) lhs [QLiteral rv]) as [[|l]|e| | |] eqn:Ec.
    + exfalso. revert Ec. apply cmp_compare_not_skip; discriminate.
    + destruct (spec_binary re o neg svals rv) as [sts| |] eqn:Es; cbn [sbind]; [|contradiction|exact I].
      apply bind_assoc_out. eapply pure_bind_out; [intros s0; eexists; reflexivity|].
      apply bind_assoc_out. eapply pure_bind_out; [apply report_loop|].
      eapply pure_bind_out; [apply pure_ret|].
      refine (access_tail_values env all _ sts _ s Hs).
      pose proof (binary_refines re o neg lhs svals rv l custom sts Hrel) as Hb.
      assert (Hok : forall v0, In v0 (selected_values lhs) -> nin_ok re v0 rv).
      { intros v0 Hin. apply G_notin. clear -Hin HG. induction lhs as [|a lhs IH]; [destruct Hin|]. inversion HG; subst.
        destruct a; cbn in Hin; try (destruct Hin as [<-|Hin]; [assumption|]); auto. }
      specialize (Hb Hok Ec Es).
      assert (E : map snd (flat_map (fun e => map (fun t : clause_check * qres * status => let '(_, v, st) := t in (v, st)) (report_binary (o, neg) custom e)) l)
                  = sts_of (o, neg) custom l).
      { unfold sts_of. clear. induction l as [|e l IH]; cbn; [reflexivity|]. rewrite !map_app, IH. f_equal.
        rewrite map_map. apply map_ext. intros [[cc v] st]. reflexivity. }
      rewrite E. exact Hb.
    + exfalso. revert Ec. apply cmp_compare_no_err. exact Hu.
    + unfold bind, lift. destruct (spec_binary re o neg svals rv); cbn; exact I.
    + unfold bind, lift. destruct (spec_binary re o neg svals rv); cbn; exact I.
    + unfold bind, lift. destruct (spec_binary re o neg svals rv); cbn; exact I.
Qed.


(* unary tests *)
Lemma unary_tail_refines env (lhs : list qres) (svals : list sval) (q : query) (o : cmp_op) (neg pre : bool) (custom : option string) (all : bool) :
  is_unary o = true -> q <> [] -> RQ lhs svals ->
  simS (fun p st => fst p = st) env
    (res <- (match last q QThis, q with
             | _, [] => panicM P_lhs_query_empty
             | last_part, _ =>
               let empty_on_expr :=
                 match last_part with
                 | QFilter _ _ | QMapKeyFilter _ _ _ => true
                 | rest => part_is_variable rest && Nat.eqb (List.length q) 1
                 end in
               if empty_on_expr && cmp_op_eqb (fst (o, neg)) OEmpty then
                 match lhs with
                 | _ :: _ =>
                     res <- mapM (fun each =>
                              let '(result, st) :=
                                match each with
                                | QLiteral x | QResolved x =>
                                    (QResolved x, if (if snd (o, neg) then negb (is_null x) else is_null x) then PASS else FAIL)
                                | QUnResolved u => (QUnResolved u, if snd (o, neg) then FAIL else PASS)
                                end in
                              let st := if pre then invert_status st else st in
                              _ <- leaf (KClauseValueCheck
                                           (match st with
                                            | PASS => CSuccess
                                            | _ => CUnary (o, neg) result false custom FAIL
                                            end)) ;;
                              ret (result, st)) lhs ;;
                     ret (QueryValueResult res)
                 | [] =>
                     let result := negb (snd (o, neg)) in
                     let result := if pre then negb result else result in
                     if result then
                       _ <- leaf (KClauseValueCheck CSuccess) ;; ret (EmptyQueryResult PASS)
                     else
                       _ <- leaf (KClauseValueCheck (CNoValueForEmptyCheck custom)) ;; ret (EmptyQueryResult FAIL)
                 end
               else
                 match lhs with
                 | [] => ret (EmptyQueryResult SKIP)
                 | _ =>
                     match unary_base (fst (o, neg)) with
                     | None => panicM P_unary_on_binary_op
                     | Some base =>
                         res <- mapM (fun each =>
                                  b <- lift (unary_op (o, neg) pre base each) ;;
                                  _ <- leaf (KClauseValueCheck
                                               (if b then CSuccess else CUnary (o, neg) each false custom FAIL)) ;;
                                  ret (each, if b then PASS else FAIL)) lhs ;;
                         ret (QueryValueResult res)
                     end
                 end
             end) ;;
     access_tail all res)
    (if cmp_op_eqb o OEmpty && spec_flag q then
       match svals with
       | [] => SOk (if xorb (negb neg) pre then PASS else FAIL)
       | _ => SOk (aggregate all (map (fun x => let b := match x with SMiss => true | SV _ v => is_null v end in polarity b neg pre) svals))
       end
     else
       match svals with
       | [] => SOk SKIP
       | _ => sts <~ smap (fun x => b <~ unary_value o x ;; SOk (polarity b neg pre)) svals ;; SOk (aggregate all sts)
       end).
Proof.
  intros Hu Hq [Hrel HG]. cbv zeta. cbn [fst snd].
  destruct q as [|p0 rest]; [contradiction|]. clear Hq. set (q := p0 :: rest) in *.
  assert (Hflag := empty_on_expr_eq q ltac:(subst q; discriminate)).
  intros s Hs.
  match goal with |- rel_out _ (bind ?m _ s) _ => 
    assert (Em : m = (if spec_flag q && cmp_op_eqb o OEmpty
      then match lhs with
           | _ :: _ =>
               res <- mapM (fun each =>
                        let '(result, st) :=
                          match each with
                          | QLiteral x | QResolved x => (QResolved x, if (if neg then negb (is_null x) else is_null x) then PASS else FAIL)
                          | QUnResolved u => (QUnResolved u, if neg then FAIL else PASS)
                          end in
                        let st := if pre then invert_status st else st in
                        _ <- leaf (KClauseValueCheck (match st with PASS => CSuccess | _ => CUnary (o, neg) result false custom FAIL end)) ;;
                        ret (result, st)) lhs ;;
               ret (QueryValueResult res)
           | [] =>
               if (if pre then negb (negb neg) else negb neg) then _ <- leaf (KClauseValueCheck CSuccess) ;; ret (EmptyQueryResult PASS)
               else _ <- leaf (KClauseValueCheck (CNoValueForEmptyCheck custom)) ;; ret (EmptyQueryResult FAIL)
           end
      else match lhs with
           | [] => ret (EmptyQueryResult SKIP)
           | _ =>
               match unary_base o with
               | None => panicM P_unary_on_binary_op
               | Some base =>
                   res <- mapM (fun each =>
                            b <- lift (unary_op (o, neg) pre base each) ;;
                            _ <- leaf (KClauseValueCheck (if b then CSuccess else CUnary (o, neg) each false custom FAIL)) ;;
                            ret (each, if b then PASS else FAIL)) lhs ;;
                   ret (QueryValueResult res)
               end
           end))
  end.
  { rewrite <- Hflag. subst q. destruct (last (p0 :: rest) QThis); reflexivity. }
  rewrite Em. clear Em Hflag.
  rewrite (Bool.andb_comm (cmp_op_eqb o OEmpty)).
  destruct (spec_flag q && cmp_op_eqb o OEmpty).
  - (* the emptiness of the result set *)
    destruct Hrel as [|a b lhs svals Hab Hrel].
    + destruct neg, pre; cbn [negb xorb]; (eapply pure_bind_out; [eapply pure_bind; [apply pure_leaf|apply pure_ret]|]); cbn; reflexivity.
    + set (lhs0 := a :: lhs) in *. set (svals0 := b :: svals) in *.
      assert (Hrel0 : Forall2 rel_q lhs0 svals0) by (constructor; assumption).
      change (match svals0 with [] => SOk (if xorb (negb neg) pre then PASS else FAIL) | _ :: _ => ?X end) with X.
      change (match lhs0 with _ :: _ => ?X | [] => _ end) with X.
      match goal with |- rel_out _ _ (SOk (aggregate all (map ?Gf svals0))) =>
        assert (Esp : SOk (aggregate all (map Gf svals0)) = (sts <~ smap (fun x => SOk (Gf x)) svals0 ;; SOk (aggregate all sts))) by (rewrite smap_pure; reflexivity);
        rewrite Esp; clear Esp
      end.
      apply bind_assoc_out.
      refine (simS_bind (Forall2 Rst) _ env _ _ _ _ _ _ _ s Hs).
      * apply keeps_mapM; [exact ss_refl|exact ss_trans|]. intros x. destruct x; cbv zeta; kk.
      * refine (simS_mapM rel_q Rst env _ _ lhs0 svals0 Hrel0 _ _); [intros x _; destruct x; cbv zeta; kk|].
        intros x y _ Hxy s0 Hs0.
        destruct x as [v|v|u], y as [[|] v'|]; cbn in Hxy; try contradiction; subst; cbv zeta;
          (eapply pure_out; [eapply pure_bind; [apply pure_leaf|apply pure_ret]|]); unfold Rst; cbn [snd];
          unfold polarity; destruct neg, pre; try destruct (is_null v'); reflexivity.
      * intros res sts Hrs. apply simS_ret_l. apply access_tail_values. rewrite (map_snd_Rst _ _ Hrs). apply sv_refl.
  - destruct Hrel as [|a b lhs svals Hab Hrel]; [cbn; reflexivity|].
    set (lhs0 := a :: lhs) in *. set (svals0 := b :: svals) in *.
    assert (Hrel0 : Forall2 rel_q lhs0 svals0) by (constructor; assumption).
    change (match svals0 with [] => SOk SKIP | _ :: _ => ?X end) with X.
    change (match lhs0 with [] => _ | _ :: _ => ?X end) with X.
    destruct (is_unary_base o Hu) as [base Hb]. rewrite Hb.
    apply bind_assoc_out.
    refine (simS_bind (Forall2 Rst) _ env _ _ _ _ _ _ _ s Hs).
    + apply keeps_mapM; [exact ss_refl|exact ss_trans|]. intros x. kk.
    + refine (simS_mapM rel_q Rst env _ _ lhs0 svals0 Hrel0 _ _); [intros x _; kk|].
      intros x y _ Hxy.
      eapply (simS_bind (fun b b' => b = xorb (xorb b' neg) pre)); [kk| |].
      * apply simS_lift. pose proof (unary_refines o base x y Hb Hxy) as Hu1. unfold unary_op. cbn [snd].
        destruct (unary_value o y) as [b'| |]; [| |exact I]; destruct (base x) as [b0| | | |]; cbn in Hu1 |- *; try contradiction; auto.
        subst. destruct b', neg, pre; reflexivity.
      * intros b0 b' ->. apply simS_leaf_l. apply simS_ret. unfold Rst, polarity. cbn [snd]. reflexivity.
    + intros res sts Hrs. apply simS_ret_l. apply access_tail_values. rewrite (map_snd_Rst _ _ Hrs). apply sv_refl.
Qed.

(* the implementation evaluates the right-hand side first, the documented semantics the left-hand side *)
Lemma swap_out {A A' B B' C D D'} (RR : A -> A' -> Prop) (RL : B -> B' -> Prop) (R' : D -> D' -> Prop) env v
      (mR : M A) xR (mL : M B) xL (f : A -> B -> M C) (g : C -> M D) (k' : B' -> A' -> sres D') :
  kshape mR -> kshape mL -> simC RR env v mR xR -> simC RL env v mL xL ->
  (forall a a' b b', RR a a' -> RL b b' -> simC R' env v (c <- f a b ;; g c) (k' b' a')) ->
  simC R' env v (c <- (a <- mR ;; b <- mL ;; f a b) ;; g c) (b' <~ xL ;; a' <~ xR ;; k' b' a').
Proof.
  intros KR KL HR HL Hk HG Hcur s Hs Hv. specialize (HR HG Hcur s Hs Hv).
  apply bind_assoc_out. unfold bind at 1.
  destruct (mR s) as [[[a r1] s1]| | | |] eqn:ER.
  - apply KR in ER. unfold same_shape in ER.
    assert (Hs1 : rel_env (shape s1) env) by (rewrite ER; exact Hs).
    assert (Hv1 : root_of (frames s1) = Some v).
    { rewrite <- root_of_shape. fold (shape s1). rewrite ER. unfold shape. rewrite root_of_shape. exact Hv. }
    specialize (HL HG Hcur s1 Hs1 Hv1). apply rel_out_wrap. apply bind_assoc_out. unfold bind at 1.
    destruct (mL s1) as [[[b r2] s2]| | | |] eqn:EL.
    + apply KL in EL. unfold same_shape in EL.
      destruct xL as [b'| |]; cbn in HL |- *; [|contradiction|exact I].
      destruct xR as [a'| |]; cbn in HR |- *; [|contradiction|exact I].
      apply rel_out_wrap. apply (Hk a a' b b' HR HL HG Hcur); [rewrite EL; exact Hs1|].
      rewrite <- root_of_shape. fold (shape s2). rewrite EL. unfold shape. rewrite root_of_shape. exact Hv1.
    + destruct xL as [b'| |]; cbn in HL |- *; [contradiction|exact I|exact I].
    + destruct xL as [b'| |]; cbn; [destruct xR as [a'| |]; cbn; [destruct (k' b' a')| |]| |]; exact I.
    + destruct xL as [b'| |]; cbn; [destruct xR as [a'| |]; cbn; [destruct (k' b' a')| |]| |]; exact I.
    + destruct xL as [b'| |]; cbn; [destruct xR as [a'| |]; cbn; [destruct (k' b' a')| |]| |]; exact I.
  - destruct xL as [b'| |]; cbn; [|exact I|exact I]. destruct xR as [a'| |]; cbn in HR |- *; [contradiction|exact I|exact I].
  - destruct xL as [b'| |]; cbn; [destruct xR as [a'| |]; cbn; [destruct (k' b' a')| |]| |]; exact I.
  - destruct xL as [b'| |]; cbn; [destruct xR as [a'| |]; cbn; [destruct (k' b' a')| |]| |]; exact I.
  - destruct xL as [b'| |]; cbn; [destruct xR as [a'| |]; cbn; [destruct (k' b' a')| |]| |]; exact I.
Qed.

Theorem access_refines env v g : simC eq env v (access_clause_body re r g) (access_s sr env g).
Proof.
  destruct g as [aq [o neg] w custom pre]. intros HG Hcur s Hs Hv.
  unfold access_clause_body, Spec.access_s. cbn [fst snd]. apply wrap_fst_out.
  change (fun res : evaluation_result => match res with
            | EmptyQueryResult st => ret (st, aq_all aq)
            | QueryValueResult l => if has_status SKIP l then panicM P_skip_in_values
                                    else ret (if aq_all aq then if has_status FAIL l then FAIL else PASS else if has_status PASS l then PASS else FAIL, negb (aq_all aq))
            end) with (access_tail (aq_all aq)).
  destruct (is_unary o) eqn:Hu.
  - (* unary *)
    unfold unary_operation. apply bind_assoc_out.
    refine (simC_bind RQ _ env v _ _ _ _ (ks_ctxq _) (ctx_query_refines env v _) _ HG Hcur s Hs Hv).
    intros lhs svals Hrq.
    assert (Hq : aq_query aq = [] \/ aq_query aq <> []) by (destruct (aq_query aq); [now left|right; discriminate]).
    destruct Hq as [Hq|Hq].
    + (* an empty query: the implementation indexes past the end *)
      rewrite Hq. apply simS_C. intros s0 Hs0. cbn. destruct (cmp_op_eqb o OEmpty && _); destruct svals; try destruct (smap _ _); cbn; exact I.
    + apply simS_C.
      change (match rev (aq_query aq) with p :: _ => is_filter_part p | [] => false end
              || match aq_query aq with [p] => part_is_variable p | _ => false end) with (spec_flag (aq_query aq)).
      apply (unary_tail_refines env lhs svals (aq_query aq) o neg pre custom (aq_all aq) Hu Hq Hrq).
  - (* binary: against a literal, or a variable bound to a literal *)
    set (c' := if pre then (o, negb neg) else (o, neg)).
    assert (Ec' : c' = (o, xorb neg pre)) by (subst c'; destruct pre, neg; reflexivity).
    set (BODY := fun (lhs : list sval) (rhs : pv) =>
                   match lhs with
                   | [] => SOk SKIP
                   | [SV true l] => sts <~ check_literal re o (xorb neg pre) l rhs ;; SOk (aggregate (aq_all aq) sts)
                   | _ => sts <~ sflat (fun x => check_value re o (xorb neg pre) x rhs) lhs ;; SOk (aggregate (aq_all aq) sts)
                   end).
    set (F := fun (rhs lhs : list qres) =>
                results <- lift (cmp_compare re c' lhs rhs) ;;
                match results with
                | ESkip => ret (EmptyQueryResult SKIP)
                | EResult l =>
                    res <- concatMapM (fun e => mapM (fun t => let '(cc, v0, st) := t in _ <- leaf (KClauseValueCheck cc) ;; ret (v0, st))
                                                     (report_binary c' custom e)) l ;;
                    ret (QueryValueResult res)
                end).
    assert (Hlit : forall rhs lhs svals rv, rhs = [QLiteral rv] -> RQ lhs svals ->
                   simC (fun p st => fst p = st) env v (res <- F rhs lhs ;; access_tail (aq_all aq) res) (BODY svals rv)).
    { intros rhs lhs svals rv -> Hrq. apply simS_C. subst F BODY. cbv beta. rewrite Ec'.
      apply (binary_tail_refines env lhs svals o (xorb neg pre) rv custom (aq_all aq) Hu Hrq). }
    assert (Hgen : forall (mR : M (list qres)) xR (k' : list sval -> list sval -> sres status),
               kshape mR -> simC (Forall2 rel_q) env v mR xR ->
               (forall rhs vals lhs svals, Forall2 rel_q rhs vals -> RQ lhs svals -> simC (fun p st => fst p = st) env v (res <- F rhs lhs ;; access_tail (aq_all aq) res) (k' svals vals)) ->
               rel_out (fun p st => fst p = st)
                 ((res <- (rhs <- mR ;; binary_operation re r (aq_query aq) rhs c' custom) ;; access_tail (aq_all aq) res) s)
                 (lhs <~ query_s sr env (aq_query aq) ;; vals <~ xR ;; k' lhs vals)).
    { intros mR xR k' KR HR Hk'.
      refine (swap_out (Forall2 rel_q) RQ _ env v mR xR (ctx_query r (aq_query aq)) (query_s sr env (aq_query aq)) F (access_tail (aq_all aq)) k'
                KR (ks_ctxq _) HR (ctx_query_refines env v _) _ HG Hcur s Hs Hv).
      intros a a' b b' Ha Hb. apply Hk'; assumption. }
    set (K' := fun (svals vals : list sval) => match vals with [SV true lit] => BODY svals lit | _ => SOut end).
    assert (HK' : forall rhs vals lhs svals, Forall2 rel_q rhs vals -> RQ lhs svals ->
                  simC (fun p st => fst p = st) env v (res <- F rhs lhs ;; access_tail (aq_all aq) res) (K' svals vals)).
    { intros rhs vals lhs svals Hr Hl. subst K'. cbv beta.
      destruct vals as [|[[|] lit|] [|y2 vals2]]; try apply simC_SOut.
      inversion Hr as [|x y l1 l2 Hxy Hr2 E1 E2]; subst. inversion Hr2; subst.
      destruct x; cbn in Hxy; try contradiction. subst. apply Hlit; [reflexivity|exact Hl]. }
    destruct w as [[rv|[qa ma]|ps fn]|].
    + (* a literal *)
      change (rel_out (fun p st => fst p = st)
                ((res <- (rhs <- ret [QLiteral rv] ;; binary_operation re r (aq_query aq) rhs c' custom) ;; access_tail (aq_all aq) res) s)
                (lhs <~ query_s sr env (aq_query aq) ;; vals <~ SOk [SV true rv] ;; K' lhs vals)).
      apply (Hgen (ret [QLiteral rv]) (SOk [SV true rv]) K'); [kk| |exact HK'].
      apply simS_C, simS_ret. repeat constructor.
    + (* a query: covered when it is a bare variable bound to a literal *)
      destruct qa as [|[|k| | | | |] [|p2 rest2]];
        try (match goal with |- context [ctx_query r ?Q] =>
               change (rel_out (fun p st => fst p = st)
                ((res <- (rhs <- ctx_query r Q ;; binary_operation re r (aq_query aq) rhs c' custom) ;; access_tail (aq_all aq) res) s)
                (lhs <~ query_s sr env (aq_query aq) ;; vals <~ SOut ;; K' lhs vals));
               apply (Hgen (ctx_query r Q) SOut K'); [kk|apply simC_SOut|exact HK'] end).
      cbn [aq_query]. destruct (key_variable k) as [name|] eqn:Ekv.
      * assert (Erhs : forall (Kf : pv -> sres status),
                  (rhs <~ (vals <~ resolve sr env name ;; match vals with [SV true lit] => SOk lit | _ => SOut end) ;; Kf rhs)
                  = (vals <~ query_s sr env [QKey k] ;; match vals with [SV true lit] => Kf lit | _ => SOut end)).
        { intros Kf. unfold Spec.query_s. rewrite Ekv. destruct (resolve sr env name) as [vals| |]; cbn; try reflexivity.
          destruct vals as [|[[|] lit|] [|y2 vals2]]; reflexivity. }
        assert (Espec : (lhs <~ query_s sr env (aq_query aq) ;;
                         rhs <~ (vals <~ resolve sr env name ;; match vals with [SV true lit] => SOk lit | _ => SOut end) ;; BODY lhs rhs)
                        = (lhs <~ query_s sr env (aq_query aq) ;; vals <~ query_s sr env [QKey k] ;; K' lhs vals)).
        { destruct (query_s sr env (aq_query aq)) as [lhs| |]; cbn [sbind]; try reflexivity. rewrite (Erhs (BODY lhs)). reflexivity. }
        change (rel_out (fun p st => fst p = st)
                ((res <- (rhs <- ctx_query r [QKey k] ;; binary_operation re r (aq_query aq) rhs c' custom) ;; access_tail (aq_all aq) res) s)
                (lhs <~ query_s sr env (aq_query aq) ;;
                 rhs <~ (vals <~ resolve sr env name ;; match vals with [SV true lit] => SOk lit | _ => SOut end) ;; BODY lhs rhs)).
        rewrite Espec.
        apply (Hgen (ctx_query r [QKey k]) (query_s sr env [QKey k]) K'); [kk| |exact HK'].
        eapply simC_impl; [|apply ctx_query_refines]. intros a b [Hab _]. exact Hab.
      * change (rel_out (fun p st => fst p = st)
                ((res <- (rhs <- ctx_query r [QKey k] ;; binary_operation re r (aq_query aq) rhs c' custom) ;; access_tail (aq_all aq) res) s)
                (lhs <~ query_s sr env (aq_query aq) ;; vals <~ SOut ;; K' lhs vals)).
        apply (Hgen (ctx_query r [QKey k]) SOut K'); [kk|apply simC_SOut|exact HK'].
    + (* a function call: not covered *)
      change (rel_out (fun p st => fst p = st)
                ((res <- (rhs <- ev_fn r fn ps ;; binary_operation re r (aq_query aq) rhs c' custom) ;; access_tail (aq_all aq) res) s)
                (lhs <~ query_s sr env (aq_query aq) ;; vals <~ SOut ;; K' lhs vals)).
      apply (Hgen (ev_fn r fn ps) SOut K'); [apply (proj2 (proj2 (proj2 (proj2 Hks))))|apply simC_SOut|exact HK'].
    + (* no right-hand side *)
      unfold bind, failM. destruct (query_s sr env (aq_query aq)); cbn; exact I.
Qed.

(* ------------------------------------------------------------------ *)
(* rule references, blocks, when blocks, clauses, rules *)

Hypothesis Hsr : forall name s, shape s = [FRoot doc (rf_lets prog) []] ->
  rel_out eq (rule_status_inner' prog r name s) (sv_rule sr name).
Hypothesis Hcl : forall env v g, simC eq env v (ev_clause r g) (clause_s sr env g).

Lemma rel_env_last fs env : rel_env fs env -> exists upper, fs = upper ++ [FRoot doc (rf_lets prog) []].
Proof.
  induction 1 as [|root lets fs env Hg Hs [u ->]|v fs env Hg Hs [u ->]|v fs env Hs IH|v fs env Hs [u ->]].
  - exists []. reflexivity.
  - exists (FBlock root lets [] :: u). reflexivity.
  - exists (FValue v :: u). reflexivity.
  - exact IH.
  - exists (FValue v :: u). reflexivity.
Qed.

Lemma at_root_out {A B} (R : A -> B -> Prop) (m : M A) s env x :
  rel_env (shape s) env ->
  (forall s0, shape s0 = [FRoot doc (rf_lets prog) []] -> rel_out R (m s0) x) ->
  rel_out R (at_root m s) x.
Proof.
  intros Hs Hm. destruct (rel_env_last _ _ Hs) as [upper E]. unfold at_root.
  assert (Hlen : List.length (frames s) = S (List.length upper)).
  { unfold shape in E. apply (f_equal (@List.length _)) in E. rewrite map_length, app_length in E. cbn in E. lia. }
  rewrite Hlen.
  assert (Hsk : shape (mkState (skipn (List.length upper) (frames s)) (statuses s)) = [FRoot doc (rf_lets prog) []]).
  { unfold shape in *. cbn. rewrite <- skipn_map, E. rewrite skipn_app, Nat.sub_diag. cbn.
    rewrite skipn_all2 by lia. reflexivity. }
  specialize (Hm _ Hsk). destruct (m _) as [[[a r1] s1]| | | |], x; cbn in *; auto.
Qed.

Theorem named_refines env v n : simC eq env v (named_clause_body' prog r n) (named_s sr n).
Proof.
  destruct n as [dep neg custom]. intros HG Hcur s Hs Hv. unfold named_clause_body', Spec.named_s. apply node_out.
  unfold rule_status_body'.
  refine (bind_out2 eq eq env _ _ _ _ s _ Hs _ _).
  - apply keeps_at_root; [exact ss_root|]. unfold rule_status_inner'. destruct (rules_named prog dep); [kk|].
    apply (ks_first_non_skip r Hks).
  - eapply at_root_out; [exact Hs|]. intros s0 Hs0. apply Hsr. exact Hs0.
  - intros st st' <-. apply simS_ret. reflexivity.
Qed.

Theorem gblock_refines env v b : simC eq env v (gblock_body r b) (block_s sr env b).
Proof.
  destruct b as [lets cnf]. intros HG Hcur s Hs Hv. unfold gblock_body, Spec.block_s. rewrite Hcur. cbn [sbind].
  unfold bind at 1. unfold ctx_root. rewrite Hv. apply rel_out_wrap. apply with_frame_out.
  apply (Hcnf ((v, lets) :: env) v cnf HG eq_refl).
  - unfold shape. cbn. apply re_block; assumption.
  - reflexivity.
Qed.

Lemma gblock_in_value env rv b : G rv -> simS eq env (with_frame (FValue rv) (gblock_body r b)) (block_s sr ((rv, []) :: env) b).
Proof.
  intros Hg s Hs. apply with_frame_out. apply (gblock_refines ((rv, []) :: env) rv b Hg eq_refl).
  - apply rel_env_push_value; assumption.
  - reflexivity.
Qed.

Theorem block_clause_refines env v aq b ne : simC eq env v (block_clause_body r aq b ne) (clause_s sr env (GBlockClause aq b ne)).
Proof.
  intros HG Hcur s Hs Hv. unfold block_clause_body. cbn [Spec.clause_s]. apply node_out.
  refine (simC_bind RQ eq env v _ _ _ _ (ks_ctxq _) (ctx_query_refines env v _) _ HG Hcur s Hs Hv).
  intros values vals [Hrel HGv]. apply simS_C.
  destruct Hrel as [|a0 b0 values vals Hab Hrel]; [apply simS_ret; reflexivity|].
  set (values0 := a0 :: values) in *. set (vals0 := b0 :: vals) in *.
  assert (Hrel0 : Forall2 rel_q values0 vals0) by (constructor; assumption).
  change (match vals0 with [] => SOk (if ne then FAIL else SKIP) | _ :: _ => ?X end) with X.
  change (match values0 with [] => _ | _ :: _ => ?X end) with X.
  eapply simS_bind.
  - apply keeps_mapM; [exact ss_refl|exact ss_trans|]. intros x. destruct x; kk.
  - refine (simS_mapM (fun a b => rel_q a b /\ Gq a) eq env _ _ values0 vals0 _ _ _).
    + clear -Hrel0 HGv. induction Hrel0; constructor; inversion HGv; subst; auto.
    + intros x _. destruct x; kk.
    + intros x y _ [Hxy Hgx]. destruct x as [rv|rv|u], y as [[|] rv'|]; cbn in Hxy; try contradiction; subst.
      * apply gblock_in_value. exact Hgx.
      * apply gblock_in_value. exact Hgx.
      * apply simS_leaf_l. apply simS_ret. reflexivity.
  - intros sts sts' Hs'. apply Forall2_eq in Hs'. subst. apply simS_ret. destruct (aq_all aq); reflexivity.
Qed.

Theorem when_clause_refines env v w : simC eq env v (when_clause_body' re prog r w) (when_clause_s sr env w).
Proof.
  destruct w as [c|n|ps n]; cbn [when_clause_body' Spec.when_clause_s].
  - apply access_refines.
  - apply named_refines.
  - apply simC_SOut.
Qed.

Lemma ks_named' n : kshape (named_clause_body' prog r n).
Proof.
  destruct n as [dep neg custom]. unfold named_clause_body', rule_status_body'. apply keeps_node.
  apply keeps_bind; [exact ss_trans| |intros st; apply keeps_ret; exact ss_refl].
  apply keeps_at_root; [exact ss_root|]. unfold rule_status_inner'. destruct (rules_named prog dep); [kk|].
  apply (ks_first_non_skip r Hks).
Qed.

Lemma ks_when_clause' w : kshape (when_clause_body' re prog r w).
Proof.
  destruct w as [c|n|ps n]; cbn [when_clause_body'].
  - apply (ks_access_clause_body re r Hks).
  - apply ks_named'.
  - apply (ks_param_call_body prog r Hks).
Qed.

Theorem when_block_refines env v conds b : simC eq env v (when_block_body' re prog r conds b) (when_block_s sr env conds b).
Proof.
  unfold when_block_body', Spec.when_block_s. apply simC_node.
  eapply simC_bind.
  - apply keeps_node. apply keeps_cnf_body; [exact ss_refl|exact ss_trans|]. intros w. apply ks_when_clause'.
  - apply simC_node. apply simC_cnf; intros l x _ _; [apply ks_when_clause'|apply when_clause_refines].
  - intros st st' <-. destruct st; try (apply simS_C, simS_ret; reflexivity). apply gblock_refines.
Qed.

Theorem clause_body_refines env v g : simC eq env v (clause_body' re prog r g) (clause_s sr env g).
Proof.
  destruct g as [c|n|ps n|aq b ne|conds b]; cbn [clause_body'].
  - apply access_refines.
  - apply named_refines.
  - apply simC_SOut.
  - apply block_clause_refines.
  - apply when_block_refines.
Qed.

(* the memo-free bodies keep the shape of the scope stack *)
Lemma ks_conds' conds : kshape (cnf_body (when_clause_body' re prog r) conds).
Proof. apply keeps_cnf_body; [exact ss_refl|exact ss_trans|]. intros w. apply ks_when_clause'. Qed.

Lemma ks_when_block' conds b : kshape (when_block_body' re prog r conds b).
Proof.
  unfold when_block_body'. apply keeps_node. apply keeps_bind; [exact ss_trans|apply keeps_node, ks_conds'|].
  intros st. destruct st; kk.
Qed.

Lemma ks_clause' g : kshape (clause_body' re prog r g).
Proof.
  destruct g as [c|n|ps n|aq b ne|conds b]; cbn [clause_body'].
  - apply (ks_access_clause_body re r Hks).
  - apply ks_named'.
  - apply (ks_param_call_body prog r Hks).
  - apply (ks_block_clause_body r Hks).
  - apply ks_when_block'.
Qed.

Lemma ks_type_block' tn conds b q : kshape (type_block_body' re prog r tn conds b q).
Proof.
  unfold type_block_body'. apply keeps_node. apply keeps_bind; [exact ss_trans| |].
  - destruct conds as [c|]; [|kk]. apply keeps_bind; [exact ss_trans|apply keeps_node, ks_conds'|]. intros st. kk.
  - intros go. destruct (negb go); [kk|]. apply keeps_bind; [exact ss_trans|apply ks_ctxq|]. intros values.
    destruct values; [kk|]. apply keeps_bind; [exact ss_trans| |intros; kk].
    apply keeps_mapM; [exact ss_refl|exact ss_trans|]. intros each. destruct each; kk.
Qed.

Lemma ks_rule_clause' c : kshape (rule_clause_body' re prog r c).
Proof.
  destruct c as [g|conds b|tn conds b q]; cbn [rule_clause_body'].
  - apply (proj1 (proj2 Hks)).
  - apply ks_when_block'.
  - apply ks_type_block'.
Qed.

Lemma ks_rule' x : kshape (rule_body' re prog r x).
Proof.
  unfold rule_body'. apply keeps_node. apply keeps_bind; [exact ss_trans| |].
  - destruct (rule_conditions x) as [c|]; [|kk]. apply keeps_bind; [exact ss_trans|apply keeps_node, ks_conds'|]. intros st. kk.
  - intros go. destruct (negb go); [kk|]. apply keeps_bind; [exact ss_trans|kk|]. intros root.
    apply keeps_with_frame; [exact ss_push|]. apply keeps_cnf_body; [exact ss_refl|exact ss_trans|]. intros c. apply ks_rule_clause'.
Qed.

Lemma ks_resolve' name : kshape (resolve_body' r name).
Proof.
  intros s a recs s' H. unfold resolve_body' in H. destruct s as [[|f fs] st]; [discriminate|]. cbn [frames] in H.
  assert (Kp : kshape (with_parent (ev_resolve r name))).
  { apply keeps_with_parent; [exact ss_parent|]. apply (proj1 (proj2 (proj2 (proj2 Hks)))). }
  assert (Ksc : forall is_root root lets, kshape (resolve_scope' r is_root root lets name)).
  { intros is_root root lets. unfold resolve_scope'. destruct (find_literal name lets); [kk|].
    destruct (find_function name lets) as [[ps f0]|]; [apply (proj2 (proj2 (proj2 (proj2 Hks))))|].
    destruct (find_query name lets); [kk; apply ksq|]. destruct is_root; [kk|exact Kp]. }
  destruct f as [root lets memo|root lets memo|root|b n m].
  - eapply Ksc; exact H.
  - eapply Ksc; exact H.
  - eapply Kp; exact H.
  - destruct (assoc name b); [|eapply Kp; exact H]. apply ret_inv in H as (_ & _ & ->). reflexivity.
Qed.

Theorem type_block_refines env v tn conds b q : simC eq env v (type_block_body' re prog r tn conds b q) (type_block_s sr env conds b q).
Proof.
  unfold type_block_body', Spec.type_block_s. apply simC_node.
  eapply (simC_bind (fun (a b : bool) => a = b)).
  - destruct conds as [c|]; [|kk]. apply keeps_bind; [exact ss_trans|apply keeps_node, ks_conds'|]. intros st. kk.
  - destruct conds as [c|].
    + eapply simC_bind; [apply keeps_node, ks_conds'| |].
      * apply simC_node. apply simC_cnf; intros l w _ _; [apply ks_when_clause'|apply when_clause_refines].
      * intros st st' <-. apply simS_C, simS_ret. reflexivity.
    + apply simS_C, simS_ret. reflexivity.
  - intros go go' <-. destruct go; cbn [negb]; [|apply simS_C, simS_ret; reflexivity].
    intros HG Hcur s Hs Hv.
    refine (simC_bind RQ eq env v _ _ _ _ (ks_ctxq _) (ctx_query_refines env v _) _ HG Hcur s Hs Hv).
    intros values vals [Hrel HGv]. apply simS_C.
    destruct Hrel as [|a0 b0 values vals Hab Hrel]; [apply simS_ret; reflexivity|].
    set (values0 := a0 :: values) in *. set (vals0 := b0 :: vals) in *.
    assert (Hrel0 : Forall2 rel_q values0 vals0) by (constructor; assumption).
    change (match vals0 with [] => SOk SKIP | _ :: _ => ?X end) with X.
    change (match values0 with [] => _ | _ :: _ => ?X end) with X.
    eapply simS_bind.
    + apply keeps_mapM; [exact ss_refl|exact ss_trans|]. intros x0. destruct x0; kk.
    + refine (simS_mapM (fun a b => rel_q a b /\ Gq a) eq env _ _ values0 vals0 _ _ _).
      * clear -Hrel0 HGv. induction Hrel0; constructor; inversion HGv; subst; auto.
      * intros x0 _. destruct x0; kk.
      * intros x0 y _ [Hxy Hgx]. destruct x0 as [rv|rv|u], y as [[|] rv'|]; cbn in Hxy; try contradiction; subst.
        -- apply simS_node. apply gblock_in_value. exact Hgx.
        -- apply simS_node. apply gblock_in_value. exact Hgx.
        -- apply simS_fail.
    + intros sts sts' Hs'. apply Forall2_eq in Hs'. subst. apply simS_ret. reflexivity.
Qed.

Theorem rule_body_refines x : simC eq file_env doc (rule_body' re prog r x) (rule_eval_s sr x).
Proof.
  unfold rule_body', Spec.rule_eval_s. apply simC_node.
  eapply (simC_bind (fun (a b : bool) => a = b)).
  - destruct (rule_conditions x) as [c|]; [|kk]. apply keeps_bind; [exact ss_trans|apply keeps_node, ks_conds'|]. intros st. kk.
  - destruct (rule_conditions x) as [c|].
    + eapply simC_bind; [apply keeps_node, ks_conds'| |].
      * apply simC_node. apply simC_cnf; intros l w _ _; [apply ks_when_clause'|apply when_clause_refines].
      * intros st st' <-. apply simS_C, simS_ret. reflexivity.
    + apply simS_C, simS_ret. reflexivity.
  - intros go go' <-. destruct go; cbn [negb]; [|apply simS_C, simS_ret; reflexivity].
    intros HG Hcur s Hs Hv. unfold bind at 1. unfold ctx_root. rewrite Hv. apply rel_out_wrap. apply with_frame_out.
    refine (simC_cnf ((doc, rule_lets x) :: file_env) doc _ (rule_clause_s sr ((doc, rule_lets x) :: file_env)) (rule_cnf x) _ _ HG eq_refl
              (mkState (FBlock doc (rule_lets x) [] :: frames s) (statuses s)) _ eq_refl).
    + intros l c _ _. apply ks_rule_clause'.
    + intros l c _ _. destruct c as [g|conds b|tn conds b q]; cbn [rule_clause_body' Spec.rule_clause_s].
      * apply Hcl.
      * apply when_block_refines.
      * apply type_block_refines.
    + unfold shape. cbn. apply re_block; assumption.
Qed.

End Bodies.

(* ------------------------------------------------------------------ *)
(* the induction: every entry point of the memo-free evaluator, at every fuel, against every fuel of Spec *)

Definition ev_rel (r : ev) (sr : sev) : Prop :=
  (forall env qi q cur, G cur -> simS RQ env (ev_query r qi q cur None) (qspec sr env qi q cur)) /\
  (forall env v g, simC eq env v (ev_clause r g) (clause_s sr env g)) /\
  (forall x, simC eq file_env doc (ev_rule r x) (rule_eval_s sr x)) /\
  (forall env name, simS RQ env (ev_resolve r name) (resolve sr env name)).

Lemma first_one (r : ev) x s : kshape (ev_rule r x) ->
  forall X, rel_out eq (ev_rule r x s) X -> rel_out eq (first_non_skip r [x] s) X.
Proof.
  intros _ X H. cbn [first_non_skip]. unfold bind. destruct (ev_rule r x s) as [[[st r1] s1]| | | |]; auto.
  destruct st; cbn; destruct X; cbn in *; auto.
Qed.

Theorem evalP_refines n : forall m, ev_kshape (evalP re conv prog n) /\ ev_rel (evalP re conv prog n) (run m).
Proof.
  induction n as [|n IH]; intros m.
  - split.
    + repeat split; intros; intros s a recs s' H; discriminate.
    + repeat split; intros; try apply simS_oof; apply simS_C, simS_oof.
  - set (r := evalP re conv prog n) in *.
    assert (Hks : ev_kshape r) by (apply (IH 0)).
    assert (HQ : forall m0 env qi q cur, G cur -> simS RQ env (ev_query r qi q cur None) (qspec (run m0) env qi q cur))
      by (intros m0; apply (proj1 (proj2 (IH m0)))).
    assert (Hcl : forall m0 env v g, simC eq env v (ev_clause r g) (clause_s (run m0) env g))
      by (intros m0; apply (proj1 (proj2 (proj2 (IH m0))))).
    assert (Hrule : forall m0 x, simC eq file_env doc (ev_rule r x) (rule_eval_s (run m0) x))
      by (intros m0; apply (proj1 (proj2 (proj2 (proj2 (IH m0)))))).
    assert (Hres : forall m0 env name, simS RQ env (ev_resolve r name) (resolve (run m0) env name))
      by (intros m0; apply (proj2 (proj2 (proj2 (proj2 (IH m0)))))).
    assert (Hcnf : forall env v cnf, simC eq env v (cnf_body (ev_clause r) cnf) (sv_cnf (run m) env cnf)).
    { intros env v cnf. destruct m as [|m']; [apply simC_SOut|]. cbn [Spec.run sv_cnf]. unfold Spec.cnf_s.
      apply simC_cnf; intros l g _ _; [apply (proj1 (proj2 Hks))|apply Hcl]. }
    assert (Hsq : forall env q root, cur_value env = SOk root -> G root -> simS RQ env (ev_query r 0 q root None) (sv_query (run m) env q)).
    { intros env q root Hc Hg. destruct m as [|m']; [apply simS_SOut|]. cbn [Spec.run sv_query].
      destruct q as [|p0 rest]; [apply simS_SOut|].
      rewrite (query_s_at (run m') env (p0 :: rest) root Hc) by discriminate. apply (HQ m' env 0 (p0 :: rest) root Hg). }
    assert (Hsr : forall name s, shape s = [FRoot doc (rf_lets prog) []] -> rel_out eq (rule_status_inner' prog r name s) (sv_rule (run m) name)).
    { intros name s Hs. destruct m as [|m']; [exact I|]. cbn [Spec.run sv_rule]. unfold Spec.rule_status_s, rule_status_inner', rules_named.
      destruct (filter (fun x => String.eqb (rule_name x) name) (rf_rules prog)) as [|x [|y rest]]; [exact I| |exact I].
      apply first_one; [apply (proj1 (proj2 (proj2 Hks)))|].
      apply (Hrule m' x G_doc eq_refl s); [rewrite Hs; apply re_root|].
      rewrite <- root_of_shape. fold (shape s). rewrite Hs. reflexivity. }
    split.
    + cbn [evalP]. repeat split; cbn [ev_query ev_clause ev_rule ev_resolve ev_fn]; intros.
      * apply (ks_query_body re conv r Hks).
      * apply (ks_clause' r Hks).
      * apply (ks_rule' r Hks).
      * apply (ks_resolve' r Hks).
      * apply (ks_fn_body r Hks).
    + cbn [evalP]. repeat split; cbn [ev_query ev_clause ev_rule ev_resolve ev_fn]; intros.
      * apply (query_body_refines r (run m) Hks (HQ m) Hcnf (Hres m)). assumption.
      * apply (clause_body_refines r (run m) Hks (HQ m) Hcnf Hsr).
      * apply (rule_body_refines r (run m) Hks (HQ m) Hcnf Hsr (Hcl m)).
      * apply (resolve_body_refines r (run m) Hks (Hres m) Hsq).
Qed.

End Refine.
