(* PureProps.v — the variable-free fragment: clauses, blocks, filters, when blocks and type blocks whose
   queries mention no variable, no capture and no function, and that refer to no other rule.
   For this fragment an evaluation hands back EXACTLY the state it was given (no memo, no cache is
   touched), so the hypothesis `transparent` of the order theorems (C04) is discharged:
   permuting or repeating lines and alternatives cannot change a status.  No bound on sizes. *)
From GV.Model Require Import SEval.
From GV.Proofs Require Import StatusProps EvalLaws FrameProps OrderProps.
From Coq Require Import Permutation.

Fixpoint pure_lv (v : let_value) : bool :=
  match v with
  | LValue _ => true
  | LAccess a => pure_aq a
  | LFunction _ _ => false
  end
with pure_part (p : query_part) : bool :=
  match p with
  | QThis => true
  | QKey k => match key_variable k with None => true | Some _ => false end
  | QMapKeyFilter _ _ w => pure_lv w
  | QAllValues None | QAllIndices None => true
  | QAllValues (Some _) | QAllIndices (Some _) => false
  | QIndex _ => true
  | QFilter None cnf => forallb (forallb pure_clause) cnf
  | QFilter (Some _) _ => false
  end
with pure_aq (a : access_query) : bool :=
  match a with AccessQuery q _ => forallb pure_part q end
with pure_ac (c : access_clause) : bool :=
  match c with
  | GuardAccessClause q _ w _ _ => pure_aq q && match w with None => true | Some v => pure_lv v end
  end
with pure_clause (g : guard_clause) : bool :=
  match g with
  | GClause c => pure_ac c
  | GNamedRule _ => false
  | GParameterizedNamedRule _ _ => false
  | GBlockClause q b _ => pure_aq q && pure_block b
  | GWhenBlock conds b => forallb (forallb pure_wc) conds && pure_block b
  end
with pure_wc (w : when_clause) : bool :=
  match w with
  | WClause c => pure_ac c
  | _ => false
  end
with pure_block (b : gblock) : bool :=
  match b with Block _ cnf => forallb (forallb pure_clause) cnf end.

Definition pure_query (q : query) : bool := forallb pure_part q.
Definition pure_cnf (cnf : list (list guard_clause)) : bool := forallb (forallb pure_clause) cnf.
Definition pure_conds (c : when_conditions) : bool := forallb (forallb pure_wc) c.

Definition pure_rule_clause (c : rule_clause) : bool :=
  match c with
  | RClause g => pure_clause g
  | RWhenBlock conds b => pure_conds conds && pure_block b
  | RTypeBlock _ conds b q => match conds with Some c => pure_conds c | None => true end && pure_block b && pure_query q
  end.
Definition pure_rule (x : rule) : bool :=
  match rule_conditions x with Some c => pure_conds c | None => true end
  && forallb (forallb pure_rule_clause) (rule_cnf x).

(* ------------------------------------------------------------------ *)
(* exact preservation of the state *)

Definition same (s s' : state) : Prop := s' = s.
Lemma sm_refl s : same s s.
Proof. reflexivity. Qed.
Lemma sm_trans a b c : same a b -> same b c -> same a c.
Proof. unfold same. congruence. Qed.
Lemma sm_push f s s' :
  same (mkState (f :: frames s) (statuses s)) s' -> same s (mkState (tl (frames s')) (statuses s')).
Proof. unfold same. intros ->. destruct s; reflexivity. Qed.
Lemma sm_parent f rest st s' :
  same (mkState rest st) s' -> same (mkState (f :: rest) st) (mkState (f :: frames s') (statuses s')).
Proof. unfold same. intros ->. reflexivity. Qed.
Lemma sm_root s k s' :
  same (mkState (skipn k (frames s)) (statuses s)) s' ->
  same s (mkState (firstn k (frames s) ++ frames s') (statuses s')).
Proof. unfold same. intros ->. cbn. rewrite firstn_skipn. destruct s; reflexivity. Qed.

Notation keq := (keeps same).

Local Ltac kgen L := apply L; first [exact sm_refl | exact sm_trans | exact sm_push | exact sm_parent | exact sm_root | idtac].

Ltac ke_step :=
  first
  [ assumption
  | kgen (@keeps_ret) | kgen (@keeps_failM) | kgen (@keeps_panicM) | kgen (@keeps_unknownM) | kgen (@keeps_oofM)
  | kgen (@keeps_lift) | kgen (@keeps_leaf) | kgen (@keeps_ctx_root)
  | kgen (@keeps_bind); [|intros ?]
  | kgen (@keeps_mapM); intros ?
  | kgen (@keeps_concatMapM); intros ?
  | kgen (@keeps_node)
  | kgen (@keeps_with_frame)
  | kgen (@keeps_with_parent)
  | kgen (@keeps_at_root)
  | match goal with |- keeps _ (match ?x with _ => _ end) => destruct x end
  | match goal with |- keeps _ (if ?x then _ else _) => destruct x end
  | match goal with |- keeps _ (let (_, _) := ?x in _) => destruct x end ].

Ltac pur := repeat match goal with H : _ && _ = true |- _ => apply andb_prop in H; destruct H end.

Lemma pure_cnf_in cnf line x : pure_cnf cnf = true -> In line cnf -> In x line -> pure_clause x = true.
Proof.
  intros H Hl Hx. unfold pure_cnf in H. rewrite forallb_forall in H. specialize (H _ Hl).
  rewrite forallb_forall in H. exact (H _ Hx).
Qed.
Lemma pure_conds_in cnf line x : pure_conds cnf = true -> In line cnf -> In x line -> pure_wc x = true.
Proof.
  intros H Hl Hx. unfold pure_conds in H. rewrite forallb_forall in H. specialize (H _ Hl).
  rewrite forallb_forall in H. exact (H _ Hx).
Qed.

Definition ev_pure (r : ev) : Prop :=
  (forall qi q cur cv, pure_query q = true -> keq (ev_query r qi q cur cv)) /\
  (forall g, pure_clause g = true -> keq (ev_clause r g)) /\
  (forall x, pure_rule x = true -> keq (ev_rule r x)).

Section Bodies.
Variable re : re_oracle.
Variable conv : conv_oracle.
Variable prog : rules_file.
Variable r : ev.
Hypothesis Hr : ev_pure r.

Let Hq := proj1 Hr.
Let Hc := proj1 (proj2 Hr).
Let Hrule := proj2 (proj2 Hr).

Ltac kh := first [apply Hq; assumption | apply Hc; assumption | apply Hrule; assumption].
Ltac kl := fail.
Ltac kss := repeat first [kl | kh | ke_step].

Lemma kq_ctx_query_fs fs q : pure_query q = true -> keq (ctx_query_fs r fs q).
Proof. intros Hp. induction fs as [|f fs IH]; cbn [ctx_query_fs]; [kss|]. destruct f; kss. Qed.

Lemma kq_ctx_query q : pure_query q = true -> keq (ctx_query r q).
Proof. intros Hp s a recs s' H. unfold ctx_query in H. eapply kq_ctx_query_fs; eassumption. Qed.

Lemma kq_rq qi q cur cv : pure_query q = true -> keq (rq r qi q cur cv).
Proof. apply Hq. Qed.
Ltac kl ::= first [apply kq_ctx_query; assumption | apply kq_rq; assumption].

Lemma kq_map_resolved qr f : (forall v, keq (f v)) -> keq (map_resolved qr f).
Proof. intros Hf. unfold map_resolved. kss. apply Hf. Qed.

Lemma kq_accumulate parent qi q elements cv : pure_query q = true -> keq (accumulate r parent qi q elements cv).
Proof. intros Hp. unfold accumulate. kss. Qed.

Lemma kq_accumulate_map parent keys vals qi q cv func :
  (forall a c d, keq (func a q c d cv)) -> keq (accumulate_map parent keys vals qi q cv func).
Proof. intros Hf. unfold accumulate_map. kss. apply Hf. Qed.

Lemma kq_eval_filter_cnf cnf : pure_cnf cnf = true -> keq (eval_filter_cnf r cnf).
Proof.
  intros Hp. unfold eval_filter_cnf. apply keeps_cnf_body_in; [exact sm_refl|exact sm_trans|].
  intros line x Hl Hx. apply Hc. eapply pure_cnf_in; eassumption.
Qed.

Ltac kl ::= first [apply kq_ctx_query; assumption | apply kq_rq; assumption | apply kq_eval_filter_cnf; assumption
                  | apply kq_accumulate; assumption].

Lemma kq_check_and_delegate cnf index q key value cv :
  pure_cnf cnf = true -> pure_query q = true -> keq (check_and_delegate r cnf None index q key value cv).
Proof. intros Hp Hpq. unfold check_and_delegate. kss. Qed.

Lemma kq_lookup_key vals cur k qi q cv : pure_query q = true -> keq (lookup_key conv r vals cur k qi q cv).
Proof. intros Hp. unfold lookup_key. destruct (map_get k vals); [apply kq_rq; assumption|]. destruct cv as [c|]; kss. Qed.

Lemma kq_old_report_value c x : keq (old_report_value c x).
Proof. unfold old_report_value. kss. Qed.

Ltac kl ::= first [apply kq_ctx_query; assumption | apply kq_rq; assumption | apply kq_eval_filter_cnf; assumption
                  | apply kq_accumulate; assumption | apply kq_old_report_value].

Lemma kq_real_binary_operation lhs rhs c0 : keq (real_binary_operation re lhs rhs c0).
Proof. unfold real_binary_operation. kss. Qed.
Ltac kl ::= first [apply kq_ctx_query; assumption | apply kq_rq; assumption | apply kq_eval_filter_cnf; assumption
                  | apply kq_accumulate; assumption | apply kq_old_report_value | apply kq_real_binary_operation
                  | apply kq_lookup_key; assumption | apply kq_check_and_delegate; assumption
                  | apply kq_map_resolved; intros ?].

Lemma kq_map_key_filter c w keys vals cur qi q cv :
  pure_lv w = true -> pure_query q = true -> keq (map_key_filter re r c w keys vals cur qi q cv).
Proof.
  intros Hw Hp. unfold map_key_filter. destruct w as [v|a|ps n]; [| |discriminate].
  - kss.
  - assert (Ha : pure_query (aq_query a) = true) by (destruct a; exact Hw).
    kss.
Qed.

Lemma nth_error_pure q qi part : pure_query q = true -> nth_error q qi = Some part -> pure_part part = true.
Proof.
  intros Hp Hn. unfold pure_query in Hp. rewrite forallb_forall in Hp. apply Hp. eapply nth_error_In; exact Hn.
Qed.

Lemma kq_query_body qi q cur cv : pure_query q = true -> keq (query_body re conv r qi q cur cv).
Proof.
  intros Hp. unfold query_body. destruct (nth_error q qi) as [part|] eqn:En; [|kss].
  pose proof (nth_error_pure _ _ _ Hp En) as Hpart.
  assert (Hv : part_variable part = None).
  { destruct part; cbn in *; try reflexivity. destruct (key_variable k); [discriminate|reflexivity]. }
  replace (if Nat.eqb qi 0 then part_variable part else None) with (@None string)
    by (destruct (Nat.eqb qi 0); rewrite ?Hv; reflexivity).
  destruct part as [|k|mname c w|name|name|i|name cnf]; cbn in Hpart.
  - kss.
  - destruct (key_variable k) eqn:Ek; [discriminate|]. kss.
  - destruct cur; try (apply kq_map_key_filter; assumption); kss.
  - destruct name; [discriminate|]. destruct cur; kss. apply kq_accumulate_map. intros. kss.
  - destruct name; [discriminate|]. destruct cur; kss.
  - destruct cur; kss.
  - destruct name; [discriminate|]. fold (pure_cnf cnf) in Hpart.
    destruct cur; kss.
Qed.

Ltac kl2 := fail.
Ltac kss2 := repeat first [kl2 | kl | kh | ke_step].

Lemma kq_unary_operation lq c inverse custom : pure_query lq = true -> keq (unary_operation r lq c inverse custom).
Proof. intros Hp. unfold unary_operation. kss2. Qed.

Lemma kq_binary_operation lq rhs c custom : pure_query lq = true -> keq (binary_operation re r lq rhs c custom).
Proof. intros Hp. unfold binary_operation. kss2. Qed.

Lemma pure_aq_query a : pure_aq a = true -> pure_query (aq_query a) = true.
Proof. destruct a. exact (fun H => H). Qed.

Lemma kq_access_clause_body g : pure_ac g = true -> keq (access_clause_body re r g).
Proof.
  intros Hp. destruct g as [aq c w custom negation]. cbn in Hp. pur.
  pose proof (pure_aq_query _ H) as Hq1.
  unfold access_clause_body. kgen (@keeps_bind); [|intros ?; kss2]. kgen (@keeps_node).
  kgen (@keeps_bind); [|intros ?; kss2].
  destruct (is_unary (fst c)); [apply kq_unary_operation; assumption|].
  destruct w as [wv|]; [|kss2].
  kgen (@keeps_bind); [|intros ?; apply kq_binary_operation; assumption].
  destruct wv as [v|a|ps n]; [kss2| |discriminate].
  apply kq_ctx_query. apply pure_aq_query. assumption.
Qed.

Lemma kq_gblock_body b : pure_block b = true -> keq (gblock_body r b).
Proof.
  intros Hp. destruct b as [lets cnf]. cbn in Hp. fold (pure_cnf cnf) in Hp. unfold gblock_body.
  kgen (@keeps_bind); [kss2|intros root]. kgen (@keeps_with_frame).
  apply keeps_cnf_body_in; [exact sm_refl|exact sm_trans|].
  intros line x Hl Hx. apply Hc. eapply pure_cnf_in; eassumption.
Qed.

Lemma kq_block_clause_body aq b ne : pure_aq aq = true -> pure_block b = true -> keq (block_clause_body r aq b ne).
Proof.
  intros Ha Hb. pose proof (pure_aq_query _ Ha) as Hq1. unfold block_clause_body.
  kgen (@keeps_node). kgen (@keeps_bind); [kss2|intros values].
  destruct values; [kss2|]. kgen (@keeps_bind); [|intros ?; kss2].
  kgen (@keeps_mapM). intros each. destruct each; try (kgen (@keeps_with_frame); apply kq_gblock_body; assumption). kss2.
Qed.

Lemma kq_when_clause_body w : pure_wc w = true -> keq (when_clause_body re prog r w).
Proof. intros Hp. destruct w; try discriminate. cbn in Hp. unfold when_clause_body. apply kq_access_clause_body; assumption. Qed.

Lemma kq_conds conds : pure_conds conds = true -> keq (cnf_body (when_clause_body re prog r) conds).
Proof.
  intros Hp. apply keeps_cnf_body_in; [exact sm_refl|exact sm_trans|].
  intros line x Hl Hx. apply kq_when_clause_body. eapply pure_conds_in; eassumption.
Qed.

Lemma kq_when_block_body conds b : pure_conds conds = true -> pure_block b = true -> keq (when_block_body re prog r conds b).
Proof.
  intros Hcnd Hb. unfold when_block_body. kgen (@keeps_node). kgen (@keeps_bind).
  - kgen (@keeps_node). apply kq_conds; assumption.
  - intros cst. destruct cst; try (apply kq_gblock_body; assumption); kss2.
Qed.

Lemma kq_clause_body g : pure_clause g = true -> keq (clause_body re prog r g).
Proof.
  intros Hp. destruct g as [c|n|ps n|aq b ne|conds b]; cbn in Hp; try discriminate; unfold clause_body.
  - apply kq_access_clause_body; assumption.
  - pur. apply kq_block_clause_body; assumption.
  - pur. apply kq_when_block_body; assumption.
Qed.

Lemma kq_type_block_body tn conds b q :
  match conds with Some c => pure_conds c | None => true end = true -> pure_block b = true -> pure_query q = true ->
  keq (type_block_body re prog r tn conds b q).
Proof.
  intros Hcnd Hb Hpq. unfold type_block_body. kgen (@keeps_node). kgen (@keeps_bind).
  - destruct conds as [c|]; [|kss2]. kgen (@keeps_bind); [|intros ?; kss2]. kgen (@keeps_node). apply kq_conds; assumption.
  - intros go. destruct (negb go); [kss2|]. kgen (@keeps_bind); [kss2|intros values].
    destruct values; [kss2|]. kgen (@keeps_bind); [|intros ?; kss2].
    kgen (@keeps_mapM). intros each.
    destruct each; try (kgen (@keeps_node); kgen (@keeps_with_frame); apply kq_gblock_body; assumption). kss2.
Qed.

Lemma kq_rule_clause_body c : pure_rule_clause c = true -> keq (rule_clause_body re prog r c).
Proof.
  intros Hp. destruct c as [g|conds b|tn conds b q]; cbn in Hp; unfold rule_clause_body.
  - apply Hc; assumption.
  - pur. apply kq_when_block_body; assumption.
  - pur. apply kq_type_block_body; assumption.
Qed.

Lemma kq_rule_body x : pure_rule x = true -> keq (rule_body re prog r x).
Proof.
  intros Hp. unfold pure_rule in Hp. pur. unfold rule_body. kgen (@keeps_node). kgen (@keeps_bind).
  - destruct (rule_conditions x) as [c|]; [|kss2]. kgen (@keeps_bind); [|intros ?; kss2]. kgen (@keeps_node). apply kq_conds; assumption.
  - intros go. destruct (negb go); [kss2|]. kgen (@keeps_bind); [kss2|intros root]. kgen (@keeps_with_frame).
    apply keeps_cnf_body_in; [exact sm_refl|exact sm_trans|].
    intros line c Hl Hx. apply kq_rule_clause_body.
    match goal with HH : forallb (forallb pure_rule_clause) _ = true |- _ =>
      rewrite forallb_forall in HH; specialize (HH _ Hl); rewrite forallb_forall in HH; exact (HH _ Hx) end.
Qed.

End Bodies.

Theorem evalN_pure re conv prog fuel : ev_pure (evalN re conv prog fuel).
Proof.
  induction fuel as [|n IH].
  - repeat split; intros; intros s a recs s' Hd; discriminate.
  - cbn [evalN]. repeat split; cbn [ev_query ev_clause ev_rule]; intros.
    + apply kq_query_body; assumption.
    + apply kq_clause_body; assumption.
    + apply kq_rule_body; assumption.
Qed.

(* ------------------------------------------------------------------ *)
(* C04 for the variable-free fragment, without the hypothesis `transparent` *)

Section Order.
Variable re : re_oracle.
Variable conv : conv_oracle.
Variable prog : rules_file.
Variable fuel : nat.

Let f := ev_clause (evalN re conv prog fuel).
Let fr := rule_clause_body re prog (evalN re conv prog fuel).

(* the clause evaluates in s: no error, no panic, enough fuel *)
Definition evaluates {T} (h : T -> M status) (s : state) (x : T) : Prop :=
  exists st recs s', h x s = Done (st, recs, s').

Definition status_in {T} (h : T -> M status) (s : state) (x : T) : status :=
  match h x s with Done (st, _, _) => st | _ => SKIP end.

Lemma pure_clause_gives_state_back s x st recs s' :
  pure_clause x = true -> f x s = Done (st, recs, s') -> s' = s.
Proof. intros Hp H. eapply (proj1 (proj2 (evalN_pure re conv prog fuel))); eassumption. Qed.

Lemma pure_rule_clause_gives_state_back s x st recs s' :
  pure_rule_clause x = true -> fr x s = Done (st, recs, s') -> s' = s.
Proof. intros Hp H. eapply (kq_rule_clause_body re prog _ (evalN_pure re conv prog fuel)); eassumption. Qed.

Lemma pure_transparent_at s cl :
  (forall x, In x cl -> pure_clause x = true) ->
  (forall x, In x cl -> evaluates f s x) ->
  transparent_at s f (status_in f s) cl.
Proof.
  intros Hp He x Hx. destruct (He x Hx) as (st & recs & s' & H).
  pose proof (pure_clause_gives_state_back _ _ _ _ _ (Hp x Hx) H) as ->.
  exists recs. unfold status_in. rewrite H. reflexivity.
Qed.

Lemma pure_rule_transparent_at s cl :
  (forall x, In x cl -> pure_rule_clause x = true) ->
  (forall x, In x cl -> evaluates fr s x) ->
  transparent_at s fr (status_in fr s) cl.
Proof.
  intros Hp He x Hx. destruct (He x Hx) as (st & recs & s' & H).
  pose proof (pure_rule_clause_gives_state_back _ _ _ _ _ (Hp x Hx) H) as ->.
  exists recs. unfold status_in. rewrite H. reflexivity.
Qed.

Lemma pure_cnf_concat cnf x : pure_cnf cnf = true -> In x (List.concat cnf) -> pure_clause x = true.
Proof. intros Hp Hx. apply in_concat in Hx as (l & Hl & Hx). eapply pure_cnf_in; eassumption. Qed.

(* a body (of a block, a filter, a when block) in the variable-free fragment: its status is the CNF of the statuses
   of its clauses and the state is handed back as it was *)
Theorem pure_body_status cnf s :
  pure_cnf cnf = true -> (forall x, In x (List.concat cnf) -> evaluates f s x) ->
  exists recs, cnf_body f cnf s = Done (conj_status (map (map (status_in f s)) cnf), recs, s).
Proof.
  intros Hp He. apply cnf_body_transparent_at. apply pure_transparent_at; [|exact He].
  intros x Hx. eapply pure_cnf_concat; eassumption.
Qed.

Theorem pure_perm_lines cnf cnf' s :
  pure_cnf cnf = true -> (forall x, In x (List.concat cnf) -> evaluates f s x) ->
  Permutation cnf cnf' ->
  status_of (cnf_body f cnf s) = status_of (cnf_body f cnf' s).
Proof.
  intros Hp He Hperm. eapply perm_lines_at; [exact Hperm|].
  apply pure_transparent_at; [|exact He]. intros x Hx. eapply pure_cnf_concat; eassumption.
Qed.

Theorem pure_perm_alternatives line line' rest s :
  pure_cnf (line :: rest) = true -> (forall x, In x (List.concat (line :: rest)) -> evaluates f s x) ->
  Permutation line line' ->
  status_of (cnf_body f (line :: rest) s) = status_of (cnf_body f (line' :: rest) s).
Proof.
  intros Hp He Hperm. eapply perm_alternatives_at; [exact Hperm|].
  apply pure_transparent_at; [|exact He]. intros x Hx. eapply pure_cnf_concat; eassumption.
Qed.

Theorem pure_dup_line line rest s :
  pure_cnf rest = true -> (forall x, In x (List.concat rest) -> evaluates f s x) ->
  In line rest ->
  status_of (cnf_body f (line :: rest) s) = status_of (cnf_body f rest s).
Proof.
  intros Hp He Hin. eapply dup_line_at; [exact Hin|].
  apply pure_transparent_at; [|exact He]. intros x Hx. eapply pure_cnf_concat; eassumption.
Qed.

(* the same for the body of a rule (clauses, when blocks and type blocks at rule level) *)
Theorem pure_rule_perm_lines cnf cnf' s :
  forallb (forallb pure_rule_clause) cnf = true -> (forall x, In x (List.concat cnf) -> evaluates fr s x) ->
  Permutation cnf cnf' ->
  status_of (cnf_body fr cnf s) = status_of (cnf_body fr cnf' s).
Proof.
  intros Hp He Hperm. eapply perm_lines_at; [exact Hperm|].
  apply pure_rule_transparent_at; [|exact He].
  intros x Hx. apply in_concat in Hx as (l & Hl & Hx).
  rewrite forallb_forall in Hp. specialize (Hp _ Hl). rewrite forallb_forall in Hp. exact (Hp _ Hx).
Qed.

End Order.

(* non-vacuity: a variable-free rule body with a filter, a block and an `or` line; every clause evaluates *)
Example pure_example :
  let re : re_oracle := fun _ _ => ReUnknownPair in
  let conv : conv_oracle := fun _ k => Some k in
  let key k := QKey k in
  let cl q op v := GClause (GuardAccessClause (AccessQuery q true) (op, false) v None false) in
  let c1 := cl [key "a"] OExists None in
  let c2 := cl [key "l"; QAllIndices None; QFilter None [[cl [QThis] OIsInt None]]] OEmpty None in
  let c3 := GBlockClause (AccessQuery [key "o"] true) (Block [] [[cl [key "x"] OExists None; c1]]) false in
  let c4 := cl [key "zz"] OEq (Some (LValue (PInt root_path 1))) in
  let cnf := [[c1; c2]; [c3]; [c4; c1]] in
  let p := root_path in
  let doc := PMap p [PString p "a"; PString p "l"; PString p "o"]
                  [("a", PInt p 1); ("l", PList p [PInt p 1; PInt p 2]);
                   ("o", PMap p [PString p "x"] [("x", PInt p 1)])] in
  let prog := mkRulesFile [] [] [] in
  let s := init_state prog doc in
  pure_cnf cnf = true /\
  forallb (fun x => match ev_clause (evalN re conv prog 20) x s with Done _ => true | _ => false end) (List.concat cnf) = true.
Proof. vm_compute. split; reflexivity. Qed.
