"""Correspondence of Model/ValueParse.v (the value-literal grammar) with rules/parser.rs parse_value: the hook `pvalue` runs
parse_value on a text and reports the value and the byte offset where it stopped, or the class of the nom error; the
model parses the same bytes inside Coq (vm_compute) and `parse_value_obs` compares value, offset and error class."""
import json, random, re
from . import coqterm as ct
from . import impl, model
from .common import *

HEADER = 'From Coq Require Import String ZArith NArith.\nFrom GV.Model Require Import ValueParse.\n'


def lit_term(j):
    k = j[0]
    if k == 'VNull':
        return 'VNull'
    if k in ('VStr', 'VRegex'):
        return '(%s %s)' % (k, ct.cstr(ct.S(j[1])))
    if k == 'VBool':
        return '(VBool %s)' % ct.cbool(j[1])
    if k == 'VInt':
        return '(VInt (%d)%%Z)' % j[1]
    if k == 'VChar':
        c = j[1]['C']
        if c >= 128:
            raise ct.TranslateError('non-ASCII char')
        return '(VChar (Ascii.ascii_of_N %d%%N))' % c
    if k == 'VList':
        return '(VList %s)' % ct.clist([lit_term(x) for x in ct.L(j[1])])
    if k == 'VMap':
        return '(VMap %s)' % ct.clist(['(%s, %s)' % (ct.cstr(ct.S(p[1])), lit_term(p[2])) for p in ct.L(j[1])])
    if k == 'VRangeInt':
        return '(VRangeInt (%d)%%Z (%d)%%Z %d%%N)' % (j[1], j[2], j[3])
    if k == 'VRangeChar':
        if j[1]['C'] >= 128 or j[2]['C'] >= 128:
            raise ct.TranslateError('non-ASCII char')
        return '(VRangeChar (Ascii.ascii_of_N %d%%N) (Ascii.ascii_of_N %d%%N) %d%%N)' % (j[1]['C'], j[2]['C'], j[3])
    raise ct.TranslateError('outside the model: %s' % k)     # floats


def impl_term(res):
    if res[0] == 'Ok':
        return '(IOk %s %d%%N)' % (lit_term(res[1]), res[2])
    return {'Error': 'IError', 'Failure': 'IFailure'}.get(res[0], 'IOther')


def regex_candidates(text):
    """every string parse_regex_inner can hand to Regex::try_from: from each '/' of the text (python twin of read_regex)"""
    b = text.encode('utf-8')
    out = set()
    for i, c in enumerate(b):
        if c != 0x2f:
            continue
        acc, seg, k = b'', b'', i + 1
        while k < len(b):
            if b[k] == 0x2f:
                if not seg:
                    break
                if seg.endswith(b'\\'):
                    acc += seg[:-1] + b'/'
                    seg = b''
                else:
                    out.add(acc + seg)
                    break
            else:
                seg += b[k:k + 1]
            k += 1
    return out


# ------------------------------------------------------------------ generation
LAYOUTS = ['', '', '', ' ', '  ', '\t', '\n', '\r\n', ' # c\n', '#\n', ' #x # y\n  ', '\n\n\t ']
STRS = ['', 'a', 'ab c', 'x/y', '#no', "it's", 'say "hi"', 'back\\slash', 'end\\', '\\', 'é', '日本', ',', ']', '}', ':', 'null', '1', '\\"', "\\'", 'a\\\\']
INTS = ['0', '1', '7', '007', '42', '-1', '-0', '-12', '9223372036854775807', '9223372036854775808', '-9223372036854775807', '-9223372036854775808',
        '99999999999999999999', '12a', '1-2', '-', '--1', '+1', '1_000']
FLOATS = ['1.5', '0.0', '1e+5', '1E-2', '2.5e+3', '1.', '1.x', '1e5', '1e', '1e+', '.5', '-1.5', '1..2', '3.e+1']
REGEXES = ['/a/', '/a.*b/', '/^x$/', '/a\\/b/', '/a\\//', '//', '/a(/', '/[/', '/\\d+/', '/é/', '/a/b/', '/ /', '/a\\\\/', '/(?=x)y/', '/a', '/a\\/', '/\\/']
WORDS = ['null', 'NULL', 'Null', 'nul', 'true', 'True', 'TRUE', 'false', 'False', 'FALSE', 'tru', 'nullx', 'truex', 'Falsey']
RANGES = ['r(1,5)', 'r[1,5]', 'r(1,5]', 'r[ 1 , 5 )', 'r(\t1,\t5)', 'r(1 ,\n5)', 'r(a,z)', 'r[a,z]', 'r(1,a)', 'r(a,1)', 'r(-3,3)', 'r(,,,)', 'r( , )',
          'r(1,5', 'r(1;5)', 'r1,5)', 'r(1.5,2.5)', 'r(1,2.5)', 'r(é,z)', 'r(1,5)x', 'r(12,5)', 'r(1a,5)', 'r(-,5)', 'R(1,5)', 'r((,))', 'r(],])', 'r[[,]]']
KEYS = ['a', 'ab-c', 'a_b', 'K1', '9', '-', '"q k"', "'s'", '"a\\"b"', 'é', 'a b', '', 'a.b', '"', 'a"b"']


def quote(s, rng):
    q = rng.choice('\'"')
    return q + s.replace(q, '\\' + q) + q


def gen_value_text(rng, depth=0, broken=0.0):
    lay = lambda: rng.choice(LAYOUTS)
    r = rng.random()
    if depth >= 3 or r < 0.5:
        k = rng.random()
        if k < 0.25:
            return lay() + quote(rng.choice(STRS), rng)
        if k < 0.45:
            return lay() + rng.choice(INTS)
        if k < 0.55:
            return lay() + rng.choice(WORDS)
        if k < 0.7:
            return lay() + rng.choice(REGEXES)
        if k < 0.85:
            return lay() + rng.choice(RANGES)
        if k < 0.92:
            return lay() + rng.choice(FLOATS)
        return lay() + rng.choice(['', '@', ']', '}', ',', ':', '%x', 'abc', '"open', "'open", '"esc\\'])
    if r < 0.75:
        n = rng.choice([0, 0, 1, 2, 3])
        parts = [gen_value_text(rng, depth + 1, broken) + lay() for _ in range(n)]
        sep = ','
        body = sep.join(parts)
        if rng.random() < broken:
            body = rng.choice([body + ',', ',' + body, body.replace(',', ' ', 1), body + ',,', body.replace(',', ';', 1)])
        close = ']' if rng.random() >= broken / 2 else rng.choice(['', '}', ')'])
        return lay() + '[' + lay() + body + lay() + close
    n = rng.choice([0, 0, 1, 2, 3])
    parts = []
    for _ in range(n):
        key = rng.choice(KEYS) if rng.random() < 0.85 else rng.choice(['a', 'a', 'k'])
        colon = ':' if rng.random() >= broken / 2 else rng.choice(['', '=', '::'])
        parts.append(lay() + key + lay() + colon + gen_value_text(rng, depth + 1, broken) + lay())
    body = ','.join(parts)
    if rng.random() < broken:
        body = rng.choice([body + ',', ',' + body, body + ' x'])
    close = '}' if rng.random() >= broken / 2 else rng.choice(['', ']'])
    # parse_map starts with '{' directly (after the layout parse_value absorbs)
    return lay() + '{' + body + lay() + close


def mutate(text, rng):
    if not text:
        return text
    b = list(text)
    k = rng.randrange(len(b))
    op = rng.random()
    if op < 0.4:
        del b[k]
    elif op < 0.7:
        b.insert(k, rng.choice(list('[]{},:"\'/\\# \n-1rx(')))
    elif op < 0.85:
        b[k] = rng.choice(list('[]{},:"\'/\\# \n-1rx('))
    else:
        b = b[:k]
    return ''.join(b)


def corpus(seed, n):
    rng = random.Random(seed * 7919 + 14)
    texts = []
    # every scalar spelling alone, with a tail, inside a list and as a map value
    for t in ([quote(s, random.Random(1)) for s in STRS] + [quote(s, random.Random(2)) for s in STRS] + INTS + FLOATS + REGEXES + WORDS + RANGES):
        texts += [t, t + ' tail', ' ' + t + ',', '[' + t + ']', '[ ' + t + ' , ' + t + ' ]', '{k:' + t + '}', '{ k : ' + t + ' , j : 1 }']
    for k in KEYS:
        texts += ['{%s: 1}' % k, '{ %s :1, %s: 2 }' % (k, k), '{%s}' % k, '{a: 1, %s: 2, a: 3}' % k]
    texts += ['', ' ', '#', '# c', '# c\n', '[]', '[ ]', '[#c\n]', '{}', '{ }', '{#c\n}', '[,]', '[1,]', '[1,,2]', '[1 2]', '{a:1,}', '{,}', '{a 1}', '{a:}', '{:1}',
              '[[[[[[[[[[1]]]]]]]]]]', '{a:{b:{c:{d:[{e:1}]}}}}', '[' * 40, '[' * 40 + ']' * 40, '{a:' * 30 + '1' + '}' * 30, '[1, [2, [3, [4]]], {a: [5, {b: 6}]}]',
              '[1 #c\n, 2]', '[1, #c\n 2]', '{a #c\n : 1}', '{a: #c\n 1}', '{ #c\n a: 1}', '[1\n,\n2\n]\n', '{"a": 1, \'a\': 2}', '{a: 1, b: 2, a: 3, c: 4, b: 5}']
    while len(texts) < n:
        t = gen_value_text(rng, 0, broken=rng.choice([0.0, 0.0, 0.3]))
        texts.append(t)
        if rng.random() < 0.5:
            texts.append(mutate(t, rng))
        if rng.random() < 0.2:
            texts.append(t + rng.choice([' x', ',', ']', ' # end', '\n', '1', '.5', 'e+1']))
    seen, out = set(), []
    for t in texts:
        if t not in seen:
            seen.add(t); out.append(t)
    return out


def run(texts, wd, tag='vparse'):
    """-> list of (text, verdict, impl result) ; verdict in PVAgree | PVAgreeReject | PVNotModelled | PVDisagree | untranslatable | crash"""
    res = impl.run_ops_parallel([{'op': 'pvalue', 'text': t} for t in texts], wd, tag + '.pv')
    cands = sorted(set().union(*[regex_candidates(t) for t in texts])) if texts else []
    cand_txt = []
    for c in cands:
        try:
            cand_txt.append(c.decode('utf-8'))
        except UnicodeDecodeError:
            pass
    rres = impl.run_ops_parallel([{'op': 'regex', 're': c, 'text': ''} for c in cand_txt], wd, tag + '.re') if cand_txt else []
    valid = {}
    for c, r in zip(cand_txt, rres):
        rr = r.get('res')
        valid[c] = bool(rr) and rr[0] == 'Ok'
    cases, out = [], [None] * len(texts)
    for i, (t, r) in enumerate(zip(texts, res)):
        if 'res' not in r:
            out[i] = (t, 'crash', r)
            continue
        mine = [c for c in cand_txt if c.encode('utf-8') in regex_candidates(t)] if '/' in t else []
        table = ct.clist(['(%s, %s)' % (ct.cstr(c), ct.cbool(valid[c])) for c in mine])
        try:
            it = impl_term(r['res'])
        except ct.TranslateError:
            it = None
        rv = '(fun s => match assoc s %s with Some b => b | None => false end)' % table
        if it is None:
            # the implementation answered a value outside the model (a float, a non-ASCII char): the model must say PUnk
            cases.append((i, '', 'parse_value_obs %s %s IOther' % (rv, ct.cstr(t))))
        else:
            cases.append((i, '', 'parse_value_obs %s %s %s' % (rv, ct.cstr(t), it)))
        out[i] = (t, None, r['res'])
    verdicts, errors = model.eval_cases(cases, wd, tag, header=HEADER, per_file=150)
    if errors:
        raise ToolingError('model evaluation failed: %r' % (errors[:1],))
    for i, _, _ in cases:
        out[i] = (out[i][0], verdicts.get(i, 'NoModelOutput'), out[i][2])
    return out


# ------------------------------------------------------------------ spellings of one value (the statement of C14 on literals)
def gen_abstract(rng, depth=0):
    r = rng.random()
    if depth >= 3 or r < 0.55:
        k = rng.random()
        if k < 0.3:
            return ('str', rng.choice([s for s in STRS if not s.endswith('\\')]))
        if k < 0.55:
            return ('int', rng.choice([0, 1, 7, 42, -1, -12, 9223372036854775807, -9223372036854775807]))
        if k < 0.65:
            return ('null',)
        if k < 0.8:
            return ('bool', rng.random() < 0.5)
        if k < 0.9:
            return ('regex', rng.choice(['a', 'a.*b', '^x$', '\\d+', ' ', 'é']))
        return ('range', rng.choice([(1, 5), (-3, 3), ('a', 'z')]), rng.random() < 0.5, rng.random() < 0.5)
    if r < 0.8:
        return ('list', [gen_abstract(rng, depth + 1) for _ in range(rng.choice([0, 1, 2, 3]))])
    keys = rng.sample(['a', 'ab-c', 'a_b', 'K1', '9', 'q k', "it's", 'x"y'], rng.choice([0, 1, 2, 3]))
    return ('map', [(k, gen_abstract(rng, depth + 1)) for k in keys])


def spell(v, rng, plain=False):
    lay = (lambda: '') if plain else (lambda: rng.choice(LAYOUTS))
    blank = (lambda: '') if plain else (lambda: rng.choice(['', '', ' ', '\t', '  ']))
    k = v[0]
    if k == 'str':
        return quote(v[1], rng)
    if k == 'int':
        z = '' if plain or rng.random() < 0.6 else rng.choice(['0', '00'])
        return ('-' if v[1] < 0 else '') + z + str(abs(v[1]))
    if k == 'null':
        return 'null' if plain else rng.choice(['null', 'NULL'])
    if k == 'bool':
        return (('true', 'True') if v[1] else ('false', 'False'))[0 if plain else rng.randrange(2)]
    if k == 'regex':
        return '/' + v[1] + '/'
    if k == 'range':
        (lo, hi), oi, ci = v[1], v[2], v[3]
        return 'r' + ('[' if oi else '(') + blank() + str(lo) + blank() + ',' + blank() + str(hi) + blank() + (']' if ci else ')')
    if k == 'list':
        return '[' + ','.join(lay() + spell(x, rng, plain) + lay() for x in v[1]) + lay() + ']'
    parts = []
    for key, x in v[1]:
        bare = re.fullmatch(r'[A-Za-z0-9_-]+', key) and (plain or rng.random() < 0.6)
        parts.append(lay() + (key if bare else quote(key, rng)) + lay() + ':' + lay() + spell(x, rng, plain) + lay())
    return '{' + ','.join(parts) + lay() + '}'


def spelling_groups(seed, n, per=3):
    rng = random.Random(seed * 104729 + 14)
    out = []
    for _ in range(n):
        v = gen_abstract(rng)
        out.append((v, [spell(v, rng, plain=True)] + [rng.choice(LAYOUTS) + spell(v, rng) for _ in range(per)]))
    return out
