(* TestCmdProps.v — get_status_result / get_by_rules / classification laws (C16). *)
From Coq Require Import Lia.
From GV.Model Require Import TestCmd.

Lemma status_eqb_eq : forall a b, status_eqb a b = true <-> a = b.
Proof. intros [] []; cbn; split; intros; congruence. Qed.

Lemma status_eqb_refl : forall a, status_eqb a a = true.
Proof. now intros []. Qed.

Lemma status_eqb_sym : forall a b, status_eqb a b = status_eqb b a.
Proof. now intros [] []. Qed.

Fixpoint prefix_before (exp : status) (l : list status) : list status :=
  match l with
  | [] => []
  | x :: r => if status_eqb x exp then [] else x :: prefix_before exp r
  end.

Lemma gsr_nonskip : forall exp l seen k,
  exp <> SKIP ->
  gsr_loop exp l seen k = (existsb (status_eqb exp) l, seen ++ prefix_before exp l, k).
Proof.
  intros exp l. induction l as [|x l IH]; intros seen k Hne.
  - cbn. now rewrite app_nil_r.
  - cbn [gsr_loop existsb prefix_before]. rewrite (status_eqb_sym exp x).
    destruct exp; try congruence.
    + destruct (status_eqb x PASS) eqn:E; cbn [orb].
      * now rewrite app_nil_r.
      * rewrite IH by assumption. now rewrite <- app_assoc.
    + destruct (status_eqb x FAIL) eqn:E; cbn [orb].
      * now rewrite app_nil_r.
      * rewrite IH by assumption. now rewrite <- app_assoc.
Qed.

Lemma gsr_skip : forall l seen k,
  gsr_loop SKIP l seen k = (false, seen ++ l, (k + count_status SKIP l)%nat).
Proof.
  induction l as [|x l IH]; intros seen k.
  - cbn. now rewrite app_nil_r, Nat.add_0_r.
  - cbn [gsr_loop]. rewrite IH. rewrite <- app_assoc. cbn [app].
    unfold count_status. cbn [filter]. rewrite (status_eqb_sym SKIP x).
    destruct (status_eqb x SKIP); cbn [List.length]; f_equal; lia.
Qed.

Lemma filter_len_le : forall A (f : A -> bool) l, (List.length (filter f l) <= List.length l)%nat.
Proof. induction l as [|x l IH]; cbn; [lia|]. destruct (f x); cbn; lia. Qed.

Lemma count_all : forall l, count_status SKIP l = List.length l <-> Forall (eq SKIP) l.
Proof.
  unfold count_status. induction l as [|x l IH]; cbn.
  - split; auto.
  - pose proof (filter_len_le _ (status_eqb SKIP) l) as Hle.
    destruct x; cbn; split; intros H.
    + lia. + inversion H; congruence. + lia. + inversion H; congruence.
    + constructor; [reflexivity|]. apply IH. lia.
    + inversion H; subst. f_equal. now apply IH.
Qed.

(* the statement's rule for rules defined several times *)
Theorem status_result_spec : forall exp l,
  matched exp l = true <->
  (exp <> SKIP /\ In exp l) \/ (exp = SKIP /\ Forall (eq SKIP) l).
Proof.
  intros exp l. unfold matched, get_status_result.
  destruct exp.
  - rewrite gsr_nonskip by congruence. cbn [fst snd].
    destruct (existsb (status_eqb PASS) l) eqn:E; cbn.
    + apply existsb_exists in E as (x & Hin & Hx). apply status_eqb_eq in Hx. subst.
      split; auto. intros _. left. split; [congruence|assumption].
    + split; [discriminate|]. intros [[_ Hin]|[Hc _]]; [|congruence].
      assert (existsb (status_eqb PASS) l = true) by (apply existsb_exists; exists PASS; auto).
      congruence.
  - rewrite gsr_nonskip by congruence. cbn [fst snd].
    destruct (existsb (status_eqb FAIL) l) eqn:E; cbn.
    + apply existsb_exists in E as (x & Hin & Hx). apply status_eqb_eq in Hx. subst.
      split; auto. intros _. left. split; [congruence|assumption].
    + split; [discriminate|]. intros [[_ Hin]|[Hc _]]; [|congruence].
      assert (existsb (status_eqb FAIL) l = true) by (apply existsb_exists; exists FAIL; auto).
      congruence.
  - rewrite gsr_skip. cbn [fst snd andb status_eqb Nat.add].
    destruct (Nat.eqb (count_status SKIP l) (List.length l)) eqn:E; cbn.
    + apply Nat.eqb_eq in E. apply count_all in E. split; auto.
    + apply Nat.eqb_neq in E. split; [discriminate|].
      intros [[Hc _]|[_ Hall]]; [congruence|]. apply count_all in Hall. congruence.
Qed.

(* a single definition: matched iff the evaluated status is the expected one *)
Corollary single_definition : forall exp st, matched exp [st] = true <-> st = exp.
Proof.
  intros exp st. rewrite status_result_spec. split.
  - intros [[_ [H|[]]]|[He H]]; [auto|]. inversion H; subst. congruence.
  - intros ->. destruct exp; [left|left|right]; try (split; [congruence|now left]).
    split; [reflexivity|repeat constructor].
Qed.

(* on a mismatch every evaluated status is listed *)
Theorem mismatch_lists_all : forall exp l,
  matched exp l = false -> snd (get_status_result exp l) = l.
Proof.
  intros exp l. unfold matched, get_status_result. destruct exp.
  - rewrite gsr_nonskip by congruence. cbn [fst snd].
    destruct (existsb (status_eqb PASS) l) eqn:E; cbn; [discriminate|]. intros _.
    clear -E. induction l as [|x l IH]; [reflexivity|]. cbn [existsb] in E. apply orb_false_iff in E as [E1 E2].
    cbn [prefix_before]. rewrite status_eqb_sym, E1. f_equal. now apply IH.
  - rewrite gsr_nonskip by congruence. cbn [fst snd].
    destruct (existsb (status_eqb FAIL) l) eqn:E; cbn; [discriminate|]. intros _.
    clear -E. induction l as [|x l IH]; [reflexivity|]. cbn [existsb] in E. apply orb_false_iff in E as [E1 E2].
    cbn [prefix_before]. rewrite status_eqb_sym, E1. f_equal. now apply IH.
  - rewrite gsr_skip. cbn [fst snd andb status_eqb Nat.add app].
    now destruct (Nat.eqb _ _).
Qed.

(* get_by_rules: the statuses of the same-named rules, in definition order *)
Definition statuses_of (n : string) (rules : list (string * status)) : list status :=
  map snd (filter (fun r => String.eqb n (fst r)) rules).

Lemma assoc_group_insert : forall n name st acc,
  assoc n (group_insert name st acc) =
  if String.eqb n name then Some (match assoc n acc with Some l => l ++ [st] | None => [st] end)
  else assoc n acc.
Proof.
  intros n name st acc. induction acc as [|[k l] acc IH]; cbn.
  - now destruct (String.eqb n name).
  - destruct (String.eqb k name) eqn:Ek; cbn.
    + apply String.eqb_eq in Ek. subst. destruct (String.eqb n name) eqn:En; reflexivity.
    + rewrite IH. destruct (String.eqb n k) eqn:Enk; [|reflexivity].
      apply String.eqb_eq in Enk. subst. now rewrite Ek.
Qed.

Lemma get_by_rules_acc : forall rules acc n,
  assoc n (fold_left (fun acc r => group_insert (fst r) (snd r) acc) rules acc) =
  match assoc n acc, statuses_of n rules with
  | None, [] => None
  | None, l => Some l
  | Some l0, l => Some (l0 ++ l)
  end.
Proof.
  induction rules as [|[k st] rules IH]; intros acc n; cbn.
  - destruct (assoc n acc); [now rewrite app_nil_r|reflexivity].
  - rewrite IH, assoc_group_insert. unfold statuses_of. cbn.
    destruct (String.eqb n k); cbn.
    + destruct (assoc n acc); cbn; [now rewrite <- app_assoc|reflexivity].
    + reflexivity.
Qed.

Theorem get_by_rules_spec : forall rules n,
  assoc n (get_by_rules rules) = match statuses_of n rules with [] => None | l => Some l end.
Proof. intros. unfold get_by_rules. now rewrite get_by_rules_acc. Qed.

(* classification: every evaluated rule name lands in exactly one of the three lists, a rule without
   expectation is never a failure, and the case fails iff failed_rules is not empty *)
Theorem classification_partition : forall exps groups n,
  In n (map fst groups) ->
  In n (structured_passed (classify exps groups)) \/
  In n (structured_failed (classify exps groups)) \/
  In n (structured_skipped (classify exps groups)).
Proof.
  intros exps groups n. unfold structured_passed, structured_failed, plain_pass, plain_fail, structured_skipped, classify.
  induction groups as [|[k l] groups IH]; cbn; [tauto|].
  intros [->|Hin].
  - destruct (assoc n exps) as [e|]; cbn; [|auto].
    destruct (get_status_result e l) as [[m|] seen]; cbn; auto.
  - destruct (IH Hin) as [H|[H|H]]; [left|right; left|right; right]; apply in_or_app; auto.
Qed.

Theorem no_expectation_never_fails : forall exps groups n,
  assoc n exps = None -> ~ In n (plain_fail (classify exps groups)) /\ ~ In n (plain_pass (classify exps groups)).
Proof.
  intros exps groups n Hn. unfold plain_fail, plain_pass, classify.
  induction groups as [|[k l] groups IH]; cbn; [tauto|].
  destruct IH as [IH1 IH2].
  destruct (assoc k exps) as [e|] eqn:Ek; cbn.
  - destruct (get_status_result e l) as [[m|] seen]; cbn; split; try assumption;
      intros [->|H]; try congruence; auto.
  - auto.
Qed.

Definition verdict (exps : list (string * status)) (n : string) (l : list status) : rule_verdict :=
  match assoc n exps with
  | None => RNoExpectation
  | Some exp =>
      match get_status_result exp l with
      | (Some _, _) => RMatched exp
      | (None, seen) => RMismatch exp seen
      end
  end.

Lemma classify_in : forall exps groups n v,
  In (n, v) (classify exps groups) <-> exists l, In (n, l) groups /\ v = verdict exps n l.
Proof.
  intros. unfold classify. rewrite in_map_iff. split.
  - intros ([k l] & Heq & Hin). cbn in Heq. inversion Heq; subst. exists l. split; [assumption|reflexivity].
  - intros (l & Hin & ->). exists (n, l). split; [reflexivity|assumption].
Qed.

Lemma plain_pass_in : forall c n, In n (plain_pass c) <-> exists e, In (n, RMatched e) c.
Proof.
  intros c n. unfold plain_pass. rewrite in_flat_map. split.
  - intros ([k v] & Hin & Hx). destruct v; cbn in Hx; try tauto. destruct Hx as [<-|[]]. eauto.
  - intros (e & Hin). exists (n, RMatched e). split; [assumption|now left].
Qed.

Lemma plain_fail_in : forall c n, In n (plain_fail c) <-> exists e seen, In (n, RMismatch e seen) c.
Proof.
  intros c n. unfold plain_fail. rewrite in_flat_map. split.
  - intros ([k v] & Hin & Hx). destruct v; cbn in Hx; try tauto. destruct Hx as [<-|[]]. eauto.
  - intros (e & seen & Hin). exists (n, RMismatch e seen). split; [assumption|now left].
Qed.

(* a rule is reported as met iff some group of that name matches its expectation, as failed iff it does not *)
Theorem verdict_of_rule : forall exps groups n,
  (In n (plain_pass (classify exps groups)) <->
     exists l e, In (n, l) groups /\ assoc n exps = Some e /\ matched e l = true) /\
  (In n (plain_fail (classify exps groups)) <->
     exists l e, In (n, l) groups /\ assoc n exps = Some e /\ matched e l = false).
Proof.
  intros exps groups n. rewrite plain_pass_in, plain_fail_in. split; split.
  - intros (e & Hin). apply classify_in in Hin as (l & Hl & Hv). exists l.
    unfold verdict in Hv. destruct (assoc n exps) as [e'|] eqn:E; [|discriminate].
    unfold matched. destruct (get_status_result e' l) as [[m|] seen] eqn:G; inversion Hv; subst.
    exists e'. rewrite G. cbn. auto.
  - intros (l & e & Hl & He & Hm). exists e. apply classify_in. exists l. split; [assumption|].
    unfold verdict. rewrite He. unfold matched in Hm.
    destruct (get_status_result e l) as [[m|] seen]; cbn in Hm; [reflexivity|discriminate].
  - intros (e & seen & Hin). apply classify_in in Hin as (l & Hl & Hv). exists l.
    unfold verdict in Hv. destruct (assoc n exps) as [e'|] eqn:E; [|discriminate].
    unfold matched. destruct (get_status_result e' l) as [[m|] seen'] eqn:G; inversion Hv; subst.
    exists e'. rewrite G. cbn. auto.
  - intros (l & e & Hl & He & Hm). unfold matched in Hm.
    destruct (get_status_result e l) as [[m|] seen] eqn:G; cbn in Hm; [discriminate|].
    exists e, seen. apply classify_in. exists l. split; [assumption|].
    unfold verdict. now rewrite He, G.
Qed.

Theorem case_fails_iff : forall c, case_fails c = true <-> structured_failed c <> [].
Proof.
  unfold case_fails, structured_failed, plain_fail.
  induction c as [|[n v] c IH]; cbn; [split; [discriminate|congruence]|].
  destruct v; cbn; try exact IH. split; [discriminate|reflexivity].
Qed.

(* JUnit marks are exactly the passed rules (pass) followed by the failed rules (fail) *)
Theorem junit_agrees : forall c n,
  (In (n, true) (junit_marks c) <-> In n (structured_passed c)) /\
  (In (n, false) (junit_marks c) <-> In n (structured_failed c)).
Proof.
  intros c n. unfold junit_marks. split; split; intros H.
  - apply in_app_or in H as [H|H]; apply in_map_iff in H as (x & Hx & Hin); inversion Hx; subst; auto.
  - apply in_or_app. left. apply in_map_iff. eauto.
  - apply in_app_or in H as [H|H]; apply in_map_iff in H as (x & Hx & Hin); inversion Hx; subst; auto.
  - apply in_or_app. right. apply in_map_iff. eauto.
Qed.
