(* C13 — comparison operators form a coherent algebra over values.
   Only pinned statements: each theorem is closed by `exact <lemma>`. *)
From GV.Model Require Import Compare Operators Erase.
From GV.Proofs Require Import CompareProps ErasePure.

Theorem C13_trichotomy : forall a b,
  ordered_pair a b ->
  exists lt eq gt,
    compare_lt a b = Done lt /\ cmp_with ord_eq a b = Done eq /\ compare_gt a b = Done gt /\
    ((lt = true /\ eq = false /\ gt = false) \/
     (lt = false /\ eq = true /\ gt = false) \/
     (lt = false /\ eq = false /\ gt = true)).
Proof. exact trichotomy. Qed.
Print Assumptions C13_trichotomy.

Theorem C13_le_iff : forall a b,
  ordered_pair a b ->
  exists lt eq le,
    compare_lt a b = Done lt /\ cmp_with ord_eq a b = Done eq /\ compare_le a b = Done le /\
    le = (lt || eq)%bool.
Proof. exact le_iff_lt_or_eq. Qed.
Print Assumptions C13_le_iff.

Theorem C13_ge_iff : forall a b,
  ordered_pair a b ->
  exists gt eq ge,
    compare_gt a b = Done gt /\ cmp_with ord_eq a b = Done eq /\ compare_ge a b = Done ge /\
    ge = (gt || eq)%bool.
Proof. exact ge_iff_gt_or_eq. Qed.
Print Assumptions C13_ge_iff.

Theorem C13_int_order_numeric : forall p q a b,
  compare_lt (PInt p a) (PInt q b) = Done (a <? b)%Z /\
  compare_le (PInt p a) (PInt q b) = Done (a <=? b)%Z /\
  compare_gt (PInt p a) (PInt q b) = Done (a >? b)%Z /\
  compare_ge (PInt p a) (PInt q b) = Done (a >=? b)%Z.
Proof. exact int_order_numeric. Qed.
Print Assumptions C13_int_order_numeric.

Theorem C13_string_order_lexicographic : forall p q a b,
  compare_lt (PString p a) (PString q b) = Done (String.ltb a b) /\
  compare_le (PString p a) (PString q b) = Done (String.leb a b).
Proof. exact string_order_lexicographic. Qed.
Print Assumptions C13_string_order_lexicographic.

Theorem C13_float_order_dyadic : forall p q m1 e1 z1 m2 e2 z2,
  let k := Z.min e1 e2 in
  compare_lt (PFloat p (FFin m1 e1 z1)) (PFloat q (FFin m2 e2 z2))
    = Done (scaled m1 e1 k <? scaled m2 e2 k)%Z.
Proof. exact float_order_dyadic. Qed.
Print Assumptions C13_float_order_dyadic.

Theorem C13_range_forms : forall x lo hi,
  is_within zcmp lo hi 3 x = ((lo <=? x) && (x <=? hi))%bool%Z /\
  is_within zcmp lo hi 0 x = ((lo <? x) && (x <? hi))%bool%Z /\
  is_within zcmp lo hi 1 x = ((lo <=? x) && (x <? hi))%bool%Z /\
  is_within zcmp lo hi 2 x = ((lo <? x) && (x <=? hi))%bool%Z.
Proof. exact range_forms. Qed.
Print Assumptions C13_range_forms.

Theorem C13_range_through_eq : forall re p q x lo hi incl,
  compare_eq re (PInt p x) (PRangeInt q lo hi incl) = Done (is_within zcmp lo hi incl x).
Proof. exact compare_eq_range_int. Qed.
Print Assumptions C13_range_through_eq.

Theorem C13_regex_eq_is_match : forall re p q s r b,
  re r s = ReMatch b ->
  compare_eq re (PString p s) (PRegex q r) = Done b /\
  compare_eq re (PRegex q r) (PString p s) = Done b.
Proof. exact regex_eq_is_oracle. Qed.
Print Assumptions C13_regex_eq_is_match.

Theorem C13_cross_type_never_ordered : forall a b,
  (ordering_type a = None \/ ordering_type b = None \/ ordering_type a <> ordering_type b) ->
  compare_lt a b = Err ENotComparable /\ compare_le a b = Err ENotComparable /\
  compare_gt a b = Err ENotComparable /\ compare_ge a b = Err ENotComparable.
Proof. exact cross_type_never_ordered. Qed.
Print Assumptions C13_cross_type_never_ordered.

Theorem C13_not_comparable_fails_both_polarities : forall re c custom l r op nl nr,
  (forall x, In x (report_binary c custom (VComparison (CRNotComparable l r))) -> snd x = FAIL) /\
  negate_result re op nl nr (VComparison (CRNotComparable l r)) = Done (VComparison (CRNotComparable l r)).
Proof. exact not_comparable_fails_both_polarities. Qed.
Print Assumptions C13_not_comparable_fails_both_polarities.

Theorem C13_in_list_iff_exists_eq : forall re l x,
  (forall y, In y l -> exists b, partial_eq re y x = Done b) ->
  exists b, contains_pv re l x = Done b /\
            (b = true <-> exists y, In y l /\ partial_eq re y x = Done true).
Proof. exact in_list_iff_exists_eq. Qed.
Print Assumptions C13_in_list_iff_exists_eq.

Theorem C13_unordered_types_never_ordered : forall a b,
  (type_of a = TNull \/ type_of a = TBool) ->
  compare_lt a b = Err ENotComparable /\ compare_le a b = Err ENotComparable /\
  compare_gt a b = Err ENotComparable /\ compare_ge a b = Err ENotComparable.
Proof. exact unordered_types_never_ordered. Qed.
Print Assumptions C13_unordered_types_never_ordered.

(* the comparisons do not look at where a value was written: the whole operator layer commutes with the erasure of paths *)
Theorem C13_comparisons_are_path_blind : forall re c lhs rhs,
  cmp_compare re c (map er_q lhs) (map er_q rhs) = omap er_eres (cmp_compare re c lhs rhs).
Proof. exact comparisons_are_path_blind. Qed.
Print Assumptions C13_comparisons_are_path_blind.

Theorem C13_equality_is_path_blind : forall re a b, compare_eq re (er a) (er b) = compare_eq re a b.
Proof. exact compare_eq_er. Qed.
Print Assumptions C13_equality_is_path_blind.
