(* C18 — built-in functions compute what their documentation says (partial). Pinned statements only.
   Proved over Model/Functions.v: count, join, substring on ASCII strings, element-wise behaviour and skipping, to_upper on
   ASCII strings, the decimal round trip parse_int(parse_string(n)) = n, "the parsed value or an error".
   NOT modelled (oracles; checked against an independent python reference): Unicode case mapping, percent-decoding,
   fancy_regex (regex_replace), serde_yaml (json_parse), decimal<->float conversion, chrono (parse_epoch, now). *)
From GV.Model Require Import Functions.
From GV.Proofs Require Import DecimalProps FunctionProps.
Open Scope Z_scope.

Theorem C18_count_is_resolved_count : forall args,
  exists p, fn_count args = PInt p (Z.of_nat (List.length (filter is_resolved_or_literal args))).
Proof. exact count_is_resolved_count. Qed.
Print Assumptions C18_count_is_resolved_count.

Theorem C18_join_spec : forall args delim strs,
  all_strings args = Some strs ->
  exists p, fn_join args delim = Done (PString p (str_join delim strs)).
Proof. exact join_spec. Qed.
Print Assumptions C18_join_spec.

Theorem C18_join_rejects_non_strings : forall args delim,
  all_strings args = None -> fn_join args delim = Err EIncompatible.
Proof. exact join_rejects_non_strings. Qed.
Print Assumptions C18_join_rejects_non_strings.

Theorem C18_substring_ascii : forall p s from to,
  is_ascii_str s = true ->
  fn_substring [QResolved (PString p s)] from to =
  Done [if negb (str_is_empty s) && Nat.ltb from to && Nat.leb from (String.length s) && Nat.leb to (String.length s)
        then Some (PString p (str_take (to - from) (str_skip from s))) else None].
Proof. exact substring_ascii. Qed.
Print Assumptions C18_substring_ascii.

Theorem C18_string_functions_skip_non_strings : forall q,
  (forall p s, q <> QResolved (PString p s) /\ q <> QLiteral (PString p s)) ->
  fn_to_upper [q] = Done [None] /\ fn_to_lower [q] = Done [None] /\
  forall f t, fn_substring [q] f t = Done [None].
Proof. exact string_functions_skip_non_strings. Qed.
Print Assumptions C18_string_functions_skip_non_strings.

Theorem C18_to_upper_ascii : forall p s, is_ascii_str s = true ->
  fn_to_upper [QResolved (PString p s)] = Done [Some (PString p (str_map ascii_upper s))].
Proof. exact to_upper_ascii. Qed.
Print Assumptions C18_to_upper_ascii.

Theorem C18_parse_int_parse_string : forall p n, i64_min <= n <= i64_max ->
  parse_str_one (QResolved (PInt p n)) = Done (Some (PString p (Z_to_string n))) /\
  parse_int_one (QResolved (PString p (Z_to_string n))) = Done (Some (PInt p n)).
Proof. exact parse_int_parse_string. Qed.
Print Assumptions C18_parse_int_parse_string.

Theorem C18_parse_int_value_or_error : forall p s,
  (exists z, parse_i64 s = Some z /\ parse_int_one (QResolved (PString p s)) = Done (Some (PInt p z))) \/
  (parse_i64 s = None /\ parse_int_one (QResolved (PString p s)) = Err EParse).
Proof. exact parse_int_value_or_error. Qed.
Print Assumptions C18_parse_int_value_or_error.

Theorem C18_parse_boolean_value_or_error : forall p s, is_ascii_str s = true ->
  parse_bool_one (QResolved (PString p s)) = Done (Some (PBool p true)) \/
  parse_bool_one (QResolved (PString p s)) = Done (Some (PBool p false)) \/
  parse_bool_one (QResolved (PString p s)) = Err EParse.
Proof. exact parse_boolean_value_or_error. Qed.
Print Assumptions C18_parse_boolean_value_or_error.
