"""Site inventories regenerated from /repo's current source and compared with the reviewed
classification committed under /verif/inventory/*.json. Entries are keyed by file + enclosing fn +
normalised snippet (not by line number), so unrelated edits do not disturb them.

kinds:
  root_scope : every construction of the evaluation state (`root_scope(`) with the loops it sits in
  static     : every `static` / lazy_static! / thread_local! / OnceCell / Mutex item (process-wide state)
  hash_iter  : every iteration over a HashMap / HashSet (order depends on the hash seed)
  panic      : unreachable!/unimplemented!/panic!/unwrap()/expect( sites of the files C08 anchors
"""
import os, re, json, glob
from .common import *

INV_DIR = os.path.join(VERIF, 'inventory')
SRC = 'guard/src'


def rust_files():
    base = os.path.join(REPO, SRC)
    out = []
    for p in sorted(glob.glob(os.path.join(base, '**', '*.rs'), recursive=True)):
        rel = os.path.relpath(p, REPO)
        if rel.endswith('_tests.rs') or rel.endswith('verif_hooks.rs') or '/tests/' in rel or rel.endswith('/tests.rs'):
            continue
        out.append(rel)
    return out


def strip_comments(text):
    text = re.sub(r'//[^\n]*', '', text)
    return text


def enclosing(lines, i):
    """name of the enclosing fn, and the list of loop headers between it and line i (by indentation)"""
    ind = len(lines[i]) - len(lines[i].lstrip())
    fn, loops = None, []
    cur = ind
    want_fn_at = None
    fn_re = r'(?:pub(?:\([^)]*\))?\s+)?(?:async\s+)?fn\s+([A-Za-z0-9_]+)'
    for j in range(i - 1, -1, -1):
        l = lines[j]
        if not l.strip():
            continue
        k = len(l) - len(l.lstrip())
        s = l.strip()
        if want_fn_at is not None and k == want_fn_at:
            m = re.match(fn_re, s)
            if m:
                fn = m.group(1)
                break
        if k < cur:
            m = re.match(fn_re, s)
            if m:
                fn = m.group(1)
                break
            if s.startswith(')'):
                want_fn_at = k
            elif re.match(r'(for\s|while\s|loop\b)', s) or re.search(r'\.(iter|into_iter)\(\)\.(try_)?fold\(|\.try_fold\(|\.fold\(|\.map\(\|', s) or re.match(r'\|mut \w+, ', s):
                loops.append(re.sub(r'\s+', ' ', s)[:60])
            cur = k
    return fn, list(reversed(loops))


def norm(s):
    return re.sub(r'\s+', ' ', s.strip())[:140]


def scan(kind):
    out = []
    for rel in rust_files():
        text = open(os.path.join(REPO, rel), encoding='utf-8').read()
        # drop #[cfg(test)] mod tail
        cut = text.find('#[cfg(test)]\nmod ')
        if cut >= 0:
            text = text[:cut]
        lines = strip_comments(text).split('\n')
        for i, l in enumerate(lines):
            hit = False
            if kind == 'root_scope':
                hit = 'root_scope(' in l and 'fn root_scope' not in l and not l.strip().startswith('use ')
            elif kind == 'static':
                hit = bool(re.search(r'lazy_static!|thread_local!|\bstatic\s+mut\b|^\s*(pub\s+)?static\s+(ref\s+)?[A-Z_]+|OnceCell|once_cell|Lazy<|AtomicUsize|AtomicBool|Mutex<|RwLock<', l))
            elif kind == 'hash_iter':
                hit = False   # computed below with a type-aware pass
            elif kind == 'panic':
                hit = bool(re.search(r'unreachable!\(|unimplemented!\(|panic!\(|todo!\(|\.unwrap\(\)|\.expect\(', l))
            if hit:
                fn, loops = enclosing(lines, i)
                e = {'file': rel, 'fn': fn, 'snippet': norm(l)}
                if kind == 'static':
                    e['snippet'] = norm(l.split('=')[0])       # the item and its type; the initialiser may be rewritten freely
                if kind == 'root_scope':
                    e['loops'] = loops
                out.append(e)
    if kind == 'hash_iter':
        out = scan_hash_iter()
    return out


def scan_hash_iter():
    """iterations over a std HashMap / HashSet (whose order depends on the per-process hash seed): in every function, the
    bindings that are hash-typed (a parameter or `let` annotated with HashMap/HashSet, or initialised from HashMap:: / HashSet::
    / a .collect::<Hash..>()) and every `for .. in x`, x.iter(), .keys(), .values(), .into_iter(), .drain() on them. Iterating a
    Vec or an IndexMap in a function that also owns a HashMap is not listed (so extracting a helper does not disturb the list)."""
    out = []
    it_methods = r'(?:iter|iter_mut|keys|values|values_mut|into_iter|drain|into_keys|into_values)'
    for rel in rust_files():
        text = open(os.path.join(REPO, rel), encoding='utf-8').read()
        cut = text.find('#[cfg(test)]\nmod ')
        if cut >= 0:
            text = text[:cut]
        text = strip_comments(text)
        for m in re.finditer(r'\bfn\s+([A-Za-z0-9_]+)[^{;]*\{', text):
            start = m.end()
            statics = static_hash_names()
            depth, j2 = 1, start
            while j2 < len(text) and depth:
                c = text[j2]
                depth += (c == '{') - (c == '}')
                j2 += 1
            head, body = text[m.start():start], text[start:j2]
            idents = set(re.findall(r'(\w+)\s*:\s*&?\s*(?:mut\s+)?(?:std::collections::)?Hash(?:Map|Set)\b', head))
            idents |= set(re.findall(r'\blet\s+(?:mut\s+)?(\w+)\s*:\s*[^=;]*\bHash(?:Map|Set)\b', body))
            idents |= set(re.findall(r'\blet\s+(?:mut\s+)?(\w+)\s*(?::[^=;]*)?=\s*(?:std::collections::)?Hash(?:Map|Set)::', body))
            idents |= set(re.findall(r'\blet\s+(?:mut\s+)?(\w+)\s*(?::[^=;]*)?=[^;]*collect::<\s*(?:std::collections::)?Hash(?:Map|Set)', body))
            for ident in sorted(idents):
                uses = sorted(set(re.findall(r'for\s+[^\n]*\bin\s+&?(?:mut\s+)?%s\b(?!\.(?:get|contains|entry|insert|len|is_empty))|(?<![\w.])%s\.%s\(' % (ident, ident, it_methods), body)))
                if uses:
                    out.append({'file': rel, 'fn': m.group(1), 'snippet': '%s: %s' % (ident, ' ;; '.join(norm(u) for u in uses)[:300])})
            # process-wide hash tables (`static ref NAME: HashMap<..>` in a lazy_static! block, `static NAME: Lazy<HashSet<..>>`): looking a
            # key up is fine, walking them is seed-dependent wherever the walk happens
            for ident in sorted(statics - idents):
                uses = sorted(set(re.findall(r'for\s+[^\n]*\bin\s+&?\*?%s\b(?!\s*\.\s*(?:get|contains|contains_key|len|is_empty)\b)|(?<![\w.])%s\s*\.\s*%s\(' % (ident, ident, it_methods), body)))
                if uses:
                    out.append({'file': rel, 'fn': m.group(1), 'snippet': 'static %s: %s' % (ident, ' ;; '.join(norm(u) for u in uses)[:300])})
    return out


_STATIC_HASH = None
def static_hash_names():
    global _STATIC_HASH
    if _STATIC_HASH is None:
        names = set()
        for rel in rust_files():
            text = strip_comments(open(os.path.join(REPO, rel), encoding='utf-8').read())
            names |= set(re.findall(r'\bstatic\s+(?:ref\s+)?(?:mut\s+)?(\w+)\s*:\s*[^=;]*\bHash(?:Map|Set)\b', text))
        _STATIC_HASH = names
    return _STATIC_HASH


def key(e):
    return (e['file'], e.get('fn'), e['snippet'], tuple(e.get('loops', [])))


def compare(kind):
    """returns (current entries, problems[list of str], reviewed entries)"""
    cur = scan(kind)
    if kind == 'panic':
        # what matters for C08 is whether a file gained a site that can panic: sites are counted per file and per kind of site
        # (unreachable! / unimplemented! / panic! / todo! / unwrap() / expect(); a site that moves, or whose match arm is
        # re-spelled, is the same site; a file with MORE sites of a kind than the reviewed list has a new one
        path = os.path.join(INV_DIR, kind + '.json')
        rev = json.load(open(path))['sites'] if os.path.exists(path) else []
        def kinds(e):
            return [k2 for k2 in ('unreachable!', 'unimplemented!', 'panic!', 'todo!', '.unwrap()', '.expect(') if k2 in e['snippet']]
        def count(es):
            c = {}
            for e in es:
                for k2 in kinds(e):
                    c[(e['file'], k2)] = c.get((e['file'], k2), 0) + 1
            return c
        cc, rc = count(cur), count(rev)
        problems = ['new site: %s has %d %s site(s), the reviewed inventory %d' % (f, n, k2, rc.get((f, k2), 0)) for (f, k2), n in sorted(cc.items()) if n > rc.get((f, k2), 0)]
        if problems:
            rk = set((e['file'], e['snippet']) for e in rev)
            problems += ['not in the reviewed inventory: %s: %s' % (e['file'], e['snippet']) for e in cur if (e['file'], e['snippet']) not in rk][:10]
        return cur, problems, rev
    return _compare(kind, cur)


def _compare(kind, cur):
    path = os.path.join(INV_DIR, kind + '.json')
    if not os.path.exists(path):
        return cur, ['no reviewed inventory %s' % path], []
    rev = json.load(open(path))['sites']
    ck = {}
    for e in cur:
        ck[key(e)] = ck.get(key(e), 0) + 1
    rk = {}
    for e in rev:
        rk[key(e)] = rk.get(key(e), 0) + 1
    problems = []
    for k, n in ck.items():
        if rk.get(k, 0) < n:
            problems.append('new or changed site: %s fn %s: %s %s' % (k[0], k[1], k[2], list(k[3]) or ''))
    # a reviewed site that is gone (an unwrap removed, a static dropped) cannot break a property: it is only reported when
    # something new appeared as well (then it usually is the old form of the changed site)
    vanished = []
    for k, n in rk.items():
        if ck.get(k, 0) < n:
            vanished.append('site vanished or changed: %s fn %s: %s %s' % (k[0], k[1], k[2], list(k[3]) or ''))
    if problems:
        problems.extend(vanished)
    return cur, problems, rev


def write_reviewed(kind, note_for=None):
    os.makedirs(INV_DIR, exist_ok=True)
    cur = scan(kind)
    path = os.path.join(INV_DIR, kind + '.json')
    old = {}
    if os.path.exists(path):
        for e in json.load(open(path))['sites']:
            old[key(e)] = e
    sites = []
    for e in cur:
        o = old.get(key(e), {})
        e = dict(e)
        e['class'] = o.get('class', note_for(e) if note_for else 'unreviewed')
        sites.append(e)
    with open(path, 'w') as f:
        json.dump({'kind': kind, 'sites': sites}, f, indent=1)
    return sites


if __name__ == '__main__':
    import sys
    for k in sys.argv[1:]:
        print(json.dumps(scan(k), indent=1))
