(* TermProps.v — termination of the evaluator model on stratified programs (C08).

   A program is STRATIFIED by two potential functions wv (variable names) and wr (rule names) when every definition
   weighs less than the name it defines:  wt(def) + 2 <= wv x  for every `let x = def` (file, rule or block level),
   wt(rule) + 2 <= wr R for every rule and parameterised rule named R, where wt is the number of constructors of a term
   (times three) plus the potentials of the variable and rule names it mentions.  Programs whose name references form
   no cycle are exactly the programs that have such potentials.

   Theorem: for a stratified program, every document and every oracle, the evaluation of every query, clause, rule,
   variable and function call with fuel >= its weight + the height of the scope stack never answers OutOfFuel, and
   therefore (fuel monotonicity) the evaluation of the file answers the same status / error / panic site at every
   larger fuel: the recursion of eval.rs / eval_context.rs is bounded by the program, not by the document.
   The recorded finding (reference cycles overflow the stack) is exactly the complement: NoPanicProps exhibits
   cyclic programs that answer OutOfFuel at every fuel. *)
From GV.Model Require Import SEval Strat.
From GV.Proofs Require Import EvalLaws FrameProps FuelProps TermPure.
From Coq Require Import Lia.
Local Open Scope nat_scope.

Lemma sumf_in {A} (f : A -> nat) l x : In x l -> f x <= sumf f l.
Proof. induction l as [|y l IH]; cbn; [contradiction|]. intros [->|H]; [lia|]. specialize (IH H). lia. Qed.

Lemma sumf2_in {A} (f : A -> nat) cnf line x : In line cnf -> In x line -> f x <= sumf (sumf f) cnf.
Proof. intros Hl Hx. pose proof (sumf_in (sumf f) cnf line Hl). pose proof (sumf_in f line x Hx). lia. Qed.

Section Weights.
Variable wv wr : string -> nat.
Notation wt_lv := (wt_lv wv wr). Notation wt_part := (wt_part wv wr). Notation wt_aq := (wt_aq wv wr). Notation wt_ac := (wt_ac wv wr).
Notation wt_clause := (wt_clause wv wr). Notation wt_wc := (wt_wc wv wr). Notation wt_block := (wt_block wv wr). Notation wq := (wq wv wr).
Notation wt_cnf := (wt_cnf wv wr). Notation wt_conds := (wt_conds wv wr). Notation wt_nc := (wt_nc wr).
Notation wf_lv := (wf_lv wv wr). Notation wf_part := (wf_part wv wr). Notation wf_aq := (wf_aq wv wr). Notation wf_ac := (wf_ac wv wr).
Notation wf_clause := (wf_clause wv wr). Notation wf_wc := (wf_wc wv wr). Notation wf_block := (wf_block wv wr). Notation wf_query := (wf_query wv wr).
Notation wf_cnf := (wf_cnf wv wr). Notation wf_conds := (wf_conds wv wr). Notation lets_ok := (lets_ok wv wr).

(* unfolding equations (cbn would expose the raw mutual fixpoints) *)
Lemma wt_lv_value v : wt_lv (LValue v) = 1. Proof. reflexivity. Qed.
Lemma wt_lv_access q m : wt_lv (LAccess (AccessQuery q m)) = 2 + wq q. Proof. reflexivity. Qed.
Lemma wt_lv_fn ps n : wt_lv (LFunction ps n) = 3 + sumf wt_lv ps. Proof. reflexivity. Qed.
Lemma wt_part_key k : wt_part (QKey k) = 3 + match key_variable k with Some v => wv v | None => 0 end. Proof. reflexivity. Qed.
Lemma wt_part_mkf n c w : wt_part (QMapKeyFilter n c w) = 3 + wt_lv w. Proof. reflexivity. Qed.
Lemma wt_part_filter n cnf : wt_part (QFilter n cnf) = 3 + wt_cnf cnf. Proof. reflexivity. Qed.
Lemma wt_aq_eq q m : wt_aq (AccessQuery q m) = 1 + wq q. Proof. reflexivity. Qed.
Lemma wt_ac_eq q c w cu n : wt_ac (GuardAccessClause q c w cu n) = 3 + wt_aq q + match w with None => 0 | Some v => wt_lv v end. Proof. reflexivity. Qed.
Lemma wt_clause_c c : wt_clause (GClause c) = 1 + wt_ac c. Proof. reflexivity. Qed.
Lemma wt_clause_n n : wt_clause (GNamedRule n) = 1 + wt_nc n. Proof. reflexivity. Qed.
Lemma wt_clause_p ps n : wt_clause (GParameterizedNamedRule ps n) = 3 + sumf wt_lv ps + wt_nc n. Proof. reflexivity. Qed.
Lemma wt_clause_b q b ne : wt_clause (GBlockClause q b ne) = 3 + wt_aq q + wt_block b. Proof. reflexivity. Qed.
Lemma wt_clause_w conds b : wt_clause (GWhenBlock conds b) = 3 + wt_conds conds + wt_block b. Proof. reflexivity. Qed.
Lemma wt_wc_c c : wt_wc (WClause c) = 1 + wt_ac c. Proof. reflexivity. Qed.
Lemma wt_wc_n n : wt_wc (WNamedRule n) = 1 + wt_nc n. Proof. reflexivity. Qed.
Lemma wt_wc_p ps n : wt_wc (WParameterizedNamedRule ps n) = 3 + sumf wt_lv ps + wt_nc n. Proof. reflexivity. Qed.
Lemma wt_block_eq lets cnf : wt_block (Block lets cnf) = 3 + wt_cnf cnf. Proof. reflexivity. Qed.
Lemma wq_cons p q : wq (p :: q) = wt_part p + wq q. Proof. reflexivity. Qed.

Lemma wf_lv_access q m : wf_lv (LAccess (AccessQuery q m)) = wf_query q. Proof. reflexivity. Qed.
Lemma wf_lv_fn ps n : wf_lv (LFunction ps n) = forallb wf_lv ps. Proof. reflexivity. Qed.
Lemma wf_part_mkf n c w : wf_part (QMapKeyFilter n c w) = wf_lv w. Proof. reflexivity. Qed.
Lemma wf_part_filter n cnf : wf_part (QFilter n cnf) = wf_cnf cnf. Proof. reflexivity. Qed.
Lemma wf_aq_eq q m : wf_aq (AccessQuery q m) = wf_query q. Proof. reflexivity. Qed.
Lemma wf_ac_eq q c w cu n : wf_ac (GuardAccessClause q c w cu n) = wf_aq q && match w with None => true | Some v => wf_lv v end. Proof. reflexivity. Qed.
Lemma wf_clause_c c : wf_clause (GClause c) = wf_ac c. Proof. reflexivity. Qed.
Lemma wf_clause_p ps n : wf_clause (GParameterizedNamedRule ps n) = forallb wf_lv ps. Proof. reflexivity. Qed.
Lemma wf_clause_b q b ne : wf_clause (GBlockClause q b ne) = wf_aq q && wf_block b. Proof. reflexivity. Qed.
Lemma wf_clause_w conds b : wf_clause (GWhenBlock conds b) = wf_conds conds && wf_block b. Proof. reflexivity. Qed.
Lemma wf_wc_c c : wf_wc (WClause c) = wf_ac c. Proof. reflexivity. Qed.
Lemma wf_wc_p ps n : wf_wc (WParameterizedNamedRule ps n) = forallb wf_lv ps. Proof. reflexivity. Qed.
Lemma wf_block_eq lets cnf : wf_block (Block lets cnf) = lets_ok lets && wf_cnf cnf. Proof. reflexivity. Qed.
Lemma wf_query_cons p q : wf_query (p :: q) = wf_part p && wf_query q. Proof. reflexivity. Qed.


(* ------------------------------------------------------------------ *)
(* the invariant of the scope stack, and "m does not run out of fuel at height h" *)

Definition frame_ok (f : frame) : Prop :=
  match f with
  | FRoot _ lets _ | FBlock _ lets _ => lets_ok lets = true
  | _ => True
  end.
Definition Inv (s : state) : Prop := Forall frame_ok (frames s).

Lemma frame_ok_fshape f : frame_ok (fshape f) <-> frame_ok f.
Proof. destruct f; cbn; tauto. Qed.

Lemma Inv_shape s s' : same_shape s s' -> Inv s -> Inv s' /\ List.length (frames s') = List.length (frames s).
Proof.
  unfold same_shape, shape, Inv. intros H Hi. split.
  - assert (G : Forall frame_ok (map fshape (frames s'))).
    { rewrite H. clear H. induction Hi; cbn; constructor; auto. apply frame_ok_fshape; assumption. }
    clear H Hi. induction (frames s') as [|f fs IH]; constructor; inversion G; subst; auto. apply frame_ok_fshape; assumption.
  - rewrite <- (map_length fshape (frames s')), H, map_length. reflexivity.
Qed.

Definition okM {A} (h : nat) (m : M A) : Prop :=
  forall s, Inv s -> List.length (frames s) = h ->
    m s <> OutOfFuel /\ (forall a recs s', m s = Done (a, recs, s') -> same_shape s s').

Lemma ok_ret {A} h (a : A) : okM h (ret a).
Proof. intros s _ _. split; [discriminate|]. intros b recs s' H. apply ret_inv in H as (_ & _ & ->). apply ss_refl. Qed.
Lemma ok_failM {A} h e : okM h (@failM A e).
Proof. intros s _ _. split; discriminate. Qed.
Lemma ok_panicM {A} h p : okM h (@panicM A p).
Proof. intros s _ _. split; discriminate. Qed.
Lemma ok_unknownM {A} h : okM h (@unknownM A).
Proof. intros s _ _. split; discriminate. Qed.

Lemma ok_lift {A} h (o : outcome A) : nf o -> okM h (lift o).
Proof.
  intros Hn s _ _. unfold lift. destruct o; try (split; discriminate); [|contradiction].
  split; [discriminate|]. intros b recs s' H. inversion H; subst. apply ss_refl.
Qed.

Lemma ok_keeps {A} h (m : M A) : (forall s, m s <> OutOfFuel) -> kshape m -> okM h m.
Proof. intros H K s _ _. split; [apply H|]. intros a recs s' E. eapply K; exact E. Qed.

Lemma ok_bind {A B} h (m : M A) (f : A -> M B) : okM h m -> (forall a, okM h (f a)) -> okM h (bind m f).
Proof.
  intros Hm Hf s Hi Hh. destruct (Hm s Hi Hh) as [Hn Hs]. unfold bind.
  destruct (m s) as [[[a r1] s1]| | | |] eqn:E; try (split; discriminate); [|contradiction].
  specialize (Hs a r1 s1 eq_refl). destruct (Inv_shape s s1 Hs Hi) as [Hi1 Hl1].
  destruct (Hf a s1 Hi1 (eq_trans Hl1 Hh)) as [Hn2 Hs2].
  destruct (f a s1) as [[[b r2] s2]| | | |] eqn:E2; try (split; discriminate); [|contradiction].
  split; [discriminate|]. intros b' recs s' H. inversion H; subst. eapply ss_trans; [exact Hs|]. eapply Hs2. reflexivity.
Qed.

Lemma ok_mapM_in {A B} h (f : A -> M B) l : (forall x, In x l -> okM h (f x)) -> okM h (mapM f l).
Proof.
  induction l as [|x l IH]; intros Hf; cbn [mapM]; [apply ok_ret|].
  apply ok_bind; [apply Hf; left; reflexivity|]. intros y.
  apply ok_bind; [apply IH; intros z Hz; apply Hf; right; exact Hz|]. intros ys. apply ok_ret.
Qed.
Lemma ok_mapM {A B} h (f : A -> M B) l : (forall x, okM h (f x)) -> okM h (mapM f l).
Proof. intros Hf. apply ok_mapM_in. intros x _. apply Hf. Qed.
Lemma ok_concatMapM_in {A B} h (f : A -> M (list B)) l : (forall x, In x l -> okM h (f x)) -> okM h (concatMapM f l).
Proof. intros Hf. unfold concatMapM. apply ok_bind; [apply ok_mapM_in; exact Hf|]. intros r. apply ok_ret. Qed.
Lemma ok_concatMapM {A B} h (f : A -> M (list B)) l : (forall x, okM h (f x)) -> okM h (concatMapM f l).
Proof. intros Hf. apply ok_concatMapM_in. intros x _. apply Hf. Qed.

Lemma ok_node {A} h (m : M A) mk : okM h m -> okM h (node m mk).
Proof.
  intros Hm s Hi Hh. destruct (Hm s Hi Hh) as [Hn Hs]. unfold node.
  destruct (m s) as [[[a r1] s1]| | | |] eqn:E; try (split; discriminate); [|contradiction].
  split; [discriminate|]. intros b recs s' H. inversion H; subst. eapply Hs. reflexivity.
Qed.

Lemma ok_leaf h c : okM h (leaf c).
Proof. unfold leaf. apply ok_node, ok_ret. Qed.

Lemma ok_with_frame {A} h f (m : M A) : frame_ok f -> okM (S h) m -> okM h (with_frame f m).
Proof.
  intros Hf Hm s Hi Hh. unfold with_frame.
  assert (Hi' : Inv (mkState (f :: frames s) (statuses s))) by (constructor; assumption).
  assert (Hh' : List.length (frames (mkState (f :: frames s) (statuses s))) = S h) by (cbn; lia).
  destruct (Hm _ Hi' Hh') as [Hn Hs].
  destruct (m (mkState (f :: frames s) (statuses s))) as [[[a r1] s1]| | | |] eqn:E; try (split; discriminate); [|contradiction].
  split; [discriminate|]. intros b recs s' H. inversion H; subst. apply ss_push with (f := f). eapply Hs. reflexivity.
Qed.

Lemma ok_with_parent {A} h (m : M A) : (forall h', h = S h' -> okM h' m) -> okM h (with_parent m).
Proof.
  intros Hm s Hi Hh. unfold with_parent. destruct s as [fs st]. cbn in *.
  destruct fs as [|f rest]; [split; discriminate|]. cbn in Hh.
  assert (Hi' : Inv (mkState rest st)) by (inversion Hi; assumption).
  destruct (Hm (List.length rest) (eq_sym Hh) (mkState rest st) Hi' eq_refl) as [Hn Hs].
  destruct (m (mkState rest st)) as [[[a r1] s1]| | | |] eqn:E; try (split; discriminate); [|contradiction].
  split; [discriminate|]. intros b recs s' H. inversion H; subst. apply ss_parent. eapply Hs. reflexivity.
Qed.

Lemma ok_at_root {A} h (m : M A) : okM 1 m -> okM h (at_root m).
Proof.
  intros Hm s Hi Hh. unfold at_root. destruct (List.length (frames s)) as [|k] eqn:El; [split; discriminate|].
  assert (Hi' : Inv (mkState (skipn k (frames s)) (statuses s))).
  { unfold Inv in *. cbn. rewrite <- (firstn_skipn k (frames s)) in Hi. apply Forall_app in Hi. apply Hi. }
  assert (Hh' : List.length (frames (mkState (skipn k (frames s)) (statuses s))) = 1) by (cbn; rewrite skipn_length; lia).
  destruct (Hm _ Hi' Hh') as [Hn Hs].
  destruct (m (mkState (skipn k (frames s)) (statuses s))) as [[[a r1] s1]| | | |] eqn:E; try (split; discriminate); [|contradiction].
  split; [discriminate|]. intros b recs s' H. inversion H; subst. apply ss_root. eapply Hs. reflexivity.
Qed.

Lemma ok_ctx_root h : okM h ctx_root.
Proof.
  intros s _ _. unfold ctx_root. destruct (root_of (frames s)); split; try discriminate.
  intros a recs s' H. inversion H; subst. apply ss_refl.
Qed.

Lemma ok_set_top_memo h name vals : okM h (set_top_memo name vals).
Proof.
  apply ok_keeps; [|apply ks_set_top_memo]. intros s. unfold set_top_memo. destruct (frames s) as [|[] ?]; discriminate.
Qed.
Lemma ok_add_capture h name key : okM h (add_capture name key).
Proof.
  apply ok_keeps; [|apply ks_add_capture]. intros s. unfold add_capture. destruct (capture_in name key (frames s)); discriminate.
Qed.

Lemma ok_disj_body_in {T} h (f : T -> M status) l failed : (forall x, In x l -> okM h (f x)) -> okM h (disj_body f l failed).
Proof.
  revert failed. induction l as [|x l IH]; intros failed Hf; cbn [disj_body]; [apply ok_ret|].
  apply ok_bind; [apply Hf; left; reflexivity|]. intros st.
  assert (Hl : forall z, In z l -> okM h (f z)) by (intros z Hz; apply Hf; right; exact Hz).
  destruct st; [apply ok_ret|apply IH; exact Hl|apply IH; exact Hl].
Qed.
Lemma ok_line_body_in {T} h (f : T -> M status) line : (forall x, In x line -> okM h (f x)) -> okM h (line_body f line).
Proof.
  intros Hf. unfold line_body. destruct line as [|x [|y l]]; try (apply ok_disj_body_in; exact Hf).
  apply ok_node. apply ok_disj_body_in; exact Hf.
Qed.
Lemma ok_cnf_body_in {T} h (f : T -> M status) cnf :
  (forall line x, In line cnf -> In x line -> okM h (f x)) -> okM h (cnf_body f cnf).
Proof.
  intros Hf. unfold cnf_body. apply ok_bind; [|intros sts; apply ok_ret].
  apply ok_mapM_in. intros l Hl. apply ok_line_body_in. intros x Hx. eapply Hf; eassumption.
Qed.

End Weights.

#[export] Hint Rewrite wt_lv_value wt_lv_access wt_lv_fn wt_part_key wt_part_mkf wt_part_filter wt_aq_eq wt_ac_eq wt_clause_c wt_clause_n
  wt_clause_p wt_clause_b wt_clause_w wt_wc_c wt_wc_n wt_wc_p wt_block_eq wq_cons
  wf_lv_access wf_lv_fn wf_part_mkf wf_part_filter wf_aq_eq wf_ac_eq wf_clause_c wf_clause_p wf_clause_b wf_clause_w wf_wc_c wf_wc_p
  wf_block_eq wf_query_cons : wt.

(* ------------------------------------------------------------------ *)
(* list facts *)

Lemma skipn_nth {A} (q : list A) i x : nth_error q i = Some x -> skipn i q = x :: skipn (S i) q.
Proof.
  revert i. induction q as [|y q IH]; intros [|i] H; cbn in *; try discriminate.
  - inversion H; reflexivity.
  - apply IH; exact H.
Qed.

Lemma skipn_S_suffix {A} (q : list A) i : skipn (S i) q = tl (skipn i q).
Proof.
  revert q. induction i as [|i IH]; intros q; [destruct q; reflexivity|].
  destruct q as [|y q]; [reflexivity|]. change (skipn (S (S i)) (y :: q)) with (skipn (S i) q).
  change (skipn (S i) (y :: q)) with (skipn i q). apply IH.
Qed.

Lemma find_function_in name lets ps f : find_function name lets = Some (ps, f) -> In (name, LFunction ps f) lets.
Proof.
  induction lets as [|[n v] lets IH]; cbn; [discriminate|].
  destruct (find_function name lets) as [x|].
  - intros E. right. apply IH. exact E.
  - destruct v; try discriminate. destruct (String.eqb n name) eqn:En; [|discriminate].
    intros E. inversion E; subst. apply String.eqb_eq in En. subst. left. reflexivity.
Qed.

Lemma find_query_in name lets aq : find_query name lets = Some aq -> In (name, LAccess aq) lets.
Proof.
  induction lets as [|[n v] lets IH]; cbn; [discriminate|].
  destruct (find_query name lets) as [x|].
  - intros E. right. apply IH. exact E.
  - destruct v; try discriminate. destruct (String.eqb n name) eqn:En; [|discriminate].
    intros E. inversion E; subst. apply String.eqb_eq in En. subst. left. reflexivity.
Qed.

Lemma find_param_rule_in prog name p :
  find_param_rule prog name = Some p -> In p (rf_param_rules prog) /\ rule_name (pr_rule p) = name.
Proof.
  unfold find_param_rule. generalize (rf_param_rules prog) as l. intros l.
  assert (G : forall acc, (match acc with Some a => (In a l \/ True) /\ (In a l -> True) | None => True end) -> True) by auto. clear G.
  assert (H : forall acc,
             fold_left (fun acc p => if String.eqb (rule_name (pr_rule p)) name then Some p else acc) l acc = Some p ->
             (In p l /\ rule_name (pr_rule p) = name) \/ acc = Some p).
  { induction l as [|x l IH]; intros acc E; cbn in E; [right; exact E|].
    apply IH in E. destruct E as [[Hin Hn]|E]; [left; split; [right; exact Hin|exact Hn]|].
    destruct (String.eqb (rule_name (pr_rule x)) name) eqn:En.
    - inversion E; subst. left. split; [left; reflexivity|apply String.eqb_eq; exact En].
    - right. exact E. }
  intros E. apply H in E. destruct E as [E|E]; [exact E|discriminate].
Qed.

(* ------------------------------------------------------------------ *)
(* every body of the interpreter, over callees that do not run out of fuel on arguments of weight <= k *)

Section Bodies.
Variable wv wr : string -> nat.
Variable re : re_oracle.
Variable conv : conv_oracle.
Variable prog : rules_file.
Hypothesis Hprog : stratified wv wr prog = true.
Variable r : ev.
Variable k : nat.

Notation ok := (okM wv wr).
Notation Wq := (wq wv wr).
Notation WFq := (wf_query wv wr).

Definition Good : Prop :=
  (forall qi q cur cv h, WFq (skipn qi q) = true -> Wq (skipn qi q) + h <= k -> ok h (ev_query r qi q cur cv)) /\
  (forall g h, wf_clause wv wr g = true -> wt_clause wv wr g + h <= k -> ok h (ev_clause r g)) /\
  (forall x h, wf_rule wv wr x = true -> wt_rule wv wr x + h <= k -> ok h (ev_rule r x)) /\
  (forall n h, wv n + h <= k -> ok h (ev_resolve r n)) /\
  (forall f ps h, forallb (wf_lv wv wr) ps = true -> wt_lv wv wr (LFunction ps f) + h <= k -> ok h (ev_fn r f ps)).
Hypothesis Hr : Good.

Let Hq := proj1 Hr.
Let Hc := proj1 (proj2 Hr).
Let Hrule := proj1 (proj2 (proj2 Hr)).
Let Hres := proj1 (proj2 (proj2 (proj2 Hr))).
Let Hfn := proj2 (proj2 (proj2 (proj2 Hr))).

Ltac ok_step :=
  first
  [ assumption
  | apply ok_ret | apply ok_failM | apply ok_panicM | apply ok_unknownM | apply ok_leaf | apply ok_ctx_root
  | apply ok_set_top_memo | apply ok_add_capture
  | match goal with |- okM _ _ _ (concatMapM _ _) => apply ok_concatMapM; intros ? end
  | match goal with |- okM _ _ _ (mapM _ _) => apply ok_mapM; intros ? end
  | apply ok_bind; [|intros ?]
  | apply ok_node
  | match goal with |- okM _ _ _ (match ?x with _ => _ end) => destruct x eqn:? end
  | match goal with |- okM _ _ _ (if ?x then _ else _) => destruct x eqn:? end
  | match goal with |- okM _ _ _ (let (_, _) := ?x in _) => destruct x eqn:? end ].
Ltac oks := repeat ok_step.

Ltac pur := repeat match goal with H : _ && _ = true |- _ => apply andb_prop in H; destruct H end.

Lemma ok_ctx_query_fs fs q : WFq q = true -> forall h, Wq q + h <= k -> ok h (ctx_query_fs r fs q).
Proof.
  intros Hw. induction fs as [|f fs IH]; intros h Hk; cbn [ctx_query_fs]; [apply ok_unknownM|].
  destruct f.
  - apply Hq; cbn [skipn]; assumption.
  - apply Hq; cbn [skipn]; assumption.
  - apply ok_with_parent. intros h' ->. apply Hq; cbn [skipn]; [assumption|lia].
  - apply ok_with_parent. intros h' ->. apply IH. lia.
Qed.

Lemma ok_ctx_query q h : WFq q = true -> Wq q + h <= k -> ok h (ctx_query r q).
Proof. intros Hw Hk s Hi Hh. unfold ctx_query. apply (ok_ctx_query_fs (frames s) q Hw h Hk s Hi Hh). Qed.

Lemma wf_lvs_in ps p : forallb (wf_lv wv wr) ps = true -> In p ps -> wf_lv wv wr p = true.
Proof. intros H Hin. rewrite forallb_forall in H. apply H, Hin. Qed.

(* a let value used as an argument / right-hand side *)
Lemma ok_arg (p : let_value) h (lit : pv -> qres) : wf_lv wv wr p = true -> wt_lv wv wr p + h <= k ->
  ok h (match p with
        | LValue v => ret [lit v]
        | LAccess a => ctx_query r (aq_query a)
        | LFunction ps n => ev_fn r n ps
        end).
Proof.
  intros Hw Hk. destruct p as [v|a|ps n].
  - apply ok_ret.
  - destruct a as [q ma]. autorewrite with wt in Hw, Hk. cbn [aq_query]. apply ok_ctx_query; [exact Hw|lia].
  - apply Hfn; [exact Hw|exact Hk].
Qed.

Lemma ok_fn_body name params h : forallb (wf_lv wv wr) params = true -> wt_lv wv wr (LFunction params name) + h <= S k ->
  ok h (fn_body r name params).
Proof.
  intros Hw Hk. unfold fn_body. cbn [wt_lv] in Hk.
  apply ok_bind; [|intros args; apply ok_bind; [apply ok_lift, nf_call_fn|intros res; apply ok_ret]].
  apply ok_mapM_in. intros p Hp. apply (ok_arg p h QLiteral); [eapply wf_lvs_in; eassumption|].
  pose proof (sumf_in (wt_lv wv wr) params p Hp). lia.
Qed.

Lemma lets_ok_in lets n v : lets_ok wv wr lets = true -> In (n, v) lets -> wt_lv wv wr v + 2 <= wv n /\ wf_lv wv wr v = true.
Proof.
  unfold lets_ok. rewrite forallb_forall. intros H Hin. specialize (H _ Hin). cbn in H.
  apply andb_prop in H. destruct H as [H1 H2]. unfold let_ok in H1. cbn in H1. apply Nat.leb_le in H1. auto.
Qed.

Lemma ok_resolve_scope is_root root lets memo name h : lets_ok wv wr lets = true -> wv name + h <= S k ->
  ok h (resolve_scope r is_root root lets memo name).
Proof.
  intros Hl Hk. unfold resolve_scope.
  destruct (find_literal name lets); [apply ok_ret|].
  destruct (assoc name memo); [apply ok_ret|].
  destruct (find_function name lets) as [[ps f]|] eqn:Ef.
  - apply find_function_in in Ef. destruct (lets_ok_in _ _ _ Hl Ef) as [Hw Hwf].
    apply ok_bind; [apply Hfn; [exact Hwf|lia]|]. intros result. oks.
  - destruct (find_query name lets) as [aq|] eqn:Eq.
    + apply find_query_in in Eq. destruct (lets_ok_in _ _ _ Hl Eq) as [Hw Hwf]. destruct aq as [q ma]. autorewrite with wt in Hw, Hwf.
      apply ok_bind; [apply Hq; cbn [skipn aq_query]; [exact Hwf|lia]|]. intros result. oks.
    + destruct is_root; [apply ok_failM|]. apply ok_with_parent. intros h' ->. apply Hres. lia.
Qed.

Lemma ok_resolve_body name h : wv name + h <= S k -> ok h (resolve_body r name).
Proof.
  intros Hk s Hi Hh. unfold resolve_body. case_eq (frames s); [intros E; split; discriminate|intros f fs E].
  assert (Hf : frame_ok wv wr f) by (unfold Inv in Hi; rewrite E in Hi; inversion Hi; assumption).
  assert (Hp : ok h (with_parent (ev_resolve r name))).
  { apply ok_with_parent. intros h' ->. apply Hres. lia. }
  destruct f as [root l memo|root l memo|root|b c m].
  - exact (ok_resolve_scope true root l memo name h Hf Hk s Hi Hh).
  - exact (ok_resolve_scope false root l memo name h Hf Hk s Hi Hh).
  - exact (Hp s Hi Hh).
  - destruct (assoc name b); [exact (ok_ret wv wr h _ s Hi Hh)|exact (Hp s Hi Hh)].
Qed.

Lemma ok_filter_cnf cnf h' : wf_cnf wv wr cnf = true -> wt_cnf wv wr cnf + h' <= k -> ok h' (eval_filter_cnf r cnf).
Proof.
  intros Hwc Hkc. unfold eval_filter_cnf. apply ok_cnf_body_in. intros line x Hl Hx. apply Hc.
  - unfold wf_cnf in Hwc. rewrite forallb_forall in Hwc. specialize (Hwc _ Hl). rewrite forallb_forall in Hwc. apply Hwc, Hx.
  - pose proof (sumf2_in (wt_clause wv wr) cnf line x Hl Hx). unfold wt_cnf in Hkc. lia.
Qed.

(* the query walk; nth_error q qi = Some part, so the rest of the query is lighter *)
Section Walk.
Variable q : query.
Variable qi : nat.
Variable part : query_part.
Variable h : nat.
Hypothesis Hn : nth_error q qi = Some part.
Hypothesis Hw : WFq (skipn qi q) = true.
Hypothesis Hk : Wq (skipn qi q) + h <= S k.

Lemma walk_split : wf_part wv wr part = true /\ WFq (skipn (S qi) q) = true /\ wt_part wv wr part + Wq (skipn (S qi) q) + h <= S k.
Proof.
  rewrite (skipn_nth q qi part Hn) in Hw, Hk. cbn in Hw, Hk. apply andb_prop in Hw. destruct Hw. repeat split; try assumption.
Qed.

Lemma part_ge3 : 3 <= wt_part wv wr part.
Proof. destruct part; cbn; lia. Qed.

Lemma ok_next cur cv : ok h (rq r (S qi) q cur cv).
Proof. destruct walk_split as (_ & H2 & H3). pose proof part_ge3. apply Hq; [exact H2|lia]. Qed.

Lemma ok_next_up cur cv : ok (S h) (rq r (S qi) q cur cv).
Proof. destruct walk_split as (_ & H2 & H3). pose proof part_ge3. apply Hq; [exact H2|lia]. Qed.

Lemma ok_next2_up cur cv : ok (S h) (rq r (S (S qi)) q cur cv).
Proof.
  destruct walk_split as (_ & H2 & H3). pose proof part_ge3. apply Hq.
  - rewrite skipn_S_suffix. destruct (skipn (S qi) q) as [|y l]; [reflexivity|]. cbn in H2. apply andb_prop in H2. apply H2.
  - rewrite skipn_S_suffix. destruct (skipn (S qi) q) as [|y l]; cbn in *; lia.
Qed.

Lemma ok_map_resolved qr cv : ok h (map_resolved qr (fun v => rq r (S qi) q v cv)).
Proof. unfold map_resolved. destruct qr; try apply ok_ret. apply ok_next. Qed.

Lemma ok_accumulate parent elements cv : ok h (accumulate r parent qi q elements cv).
Proof. unfold accumulate. destruct elements; [apply ok_ret|]. apply ok_concatMapM. intros each. apply ok_next. Qed.

Lemma ok_accumulate_map parent keys vals cv func :
  (forall key value, ok (S h) (func (S qi) q key value cv)) -> ok h (accumulate_map parent keys vals qi q cv func).
Proof.
  intros Hf. unfold accumulate_map. destruct vals; [apply ok_ret|]. apply ok_concatMapM. intros kv.
  apply ok_with_frame; [exact I|]. apply Hf.
Qed.

Lemma ok_check_and_delegate cnf name key value cv h' : part = QFilter name cnf -> h' <= S h ->
  ok h' (check_and_delegate r cnf name (S qi) q key value cv).
Proof.
  intros Hp Hh. destruct walk_split as (H1 & H2 & H3). rewrite Hp in H1, H3. autorewrite with wt in H1, H3.
  unfold check_and_delegate. apply ok_bind; [apply ok_node, ok_filter_cnf; [exact H1|lia]|]. intros st.
  apply ok_bind; [oks|]. intros _. destruct st; try apply ok_ret. apply Hq; [exact H2|lia].
Qed.

Lemma ok_lookup_key vals cur key cv : ok h (lookup_key conv r vals cur key qi q cv).
Proof.
  unfold lookup_key. pose proof ok_next as Hnx.
  destruct (map_get key vals); [apply Hnx|]. destruct cv as [c|].
  - destruct (conv c key); [|apply ok_unknownM]. destruct (map_get _ vals); [apply Hnx|apply ok_ret].
  - repeat (match goal with
            | |- okM _ _ _ (match conv ?c key with _ => _ end) => destruct (conv c key); [|apply ok_unknownM]
            | |- okM _ _ _ (match map_get ?x vals with _ => _ end) => destruct (map_get x vals); [apply Hnx|]
            end).
    apply ok_ret.
Qed.

Lemma ok_interpolate var vals cur cv : part = QKey (String "%" var) -> ok h (interpolate r var vals cur qi q cv).
Proof.
  intros Hp. destruct walk_split as (H1 & H2 & H3). rewrite Hp in H3. autorewrite with wt in H3. cbn [key_variable] in H3. rewrite Ascii.eqb_refl in H3.
  pose proof ok_next as Hnx. unfold interpolate.
  apply ok_bind; [apply Hres; lia|]. intros keys.
  assert (Hcont : forall ks, ok h (concatMapM (fun each_key =>
      match each_key with
      | QUnResolved _ => ret [unresolved_at cur (skipn qi q)]
      | QResolved key | QLiteral key =>
          match key with
          | PString _ k0 =>
              match map_get k0 vals with
              | Some next => rq r (S qi) q next cv
              | None => ret [unresolved_at cur (skipn qi q)]
              end
          | PList _ inner =>
              concatMapM (fun ek =>
                match ek with
                | PString _ k0 =>
                    match map_get k0 vals with
                    | Some next => rq r (S qi) q next cv
                    | None => ret [unresolved_at cur (skipn qi q)]
                    end
                | _ => failM ENotComparable
                end) inner
          | _ => failM ENotComparable
          end
      end) ks)).
  { intros ks. oks; apply Hnx. }
  destruct (nth_error q (S qi)) as [[]|]; try apply Hcont; try apply ok_failM.
  apply ok_bind; [apply ok_lift; unfold abs_index; apply nf_done|]. intros check.
  destruct (nth_error keys check); [apply Hcont|apply ok_ret].
Qed.

End Walk.

Lemma ok_old_report_value c x h : ok h (old_report_value c x).
Proof. unfold old_report_value. oks. Qed.

Lemma ok_real_binary_operation lhs rhs c0 h : ok h (real_binary_operation re lhs rhs c0).
Proof.
  unfold real_binary_operation. cbv zeta. generalize (if cmp_op_eqb (fst c0) OEq && Nat.ltb 1 (List.length rhs) then (OIn, snd c0) else c0) as c. intros c.
  apply ok_concatMapM. intros each. destruct each as [l|l|u]; [| |oks];
    (destruct l; try apply ok_unknownM;
     (apply ok_bind;
      [ apply ok_lift; destruct (fst c); try apply nf_panic; apply nf_each_lhs_compare; intros ? ?;
        first [apply nf_in_cmp | apply nf_not_compare; first [apply nf_compare_eq | apply nf_cmp_with]]
      | intros rs; destruct (fst c); oks; apply ok_old_report_value ])).
Qed.


Lemma ok_map_key_filter q qi h c w n keys vals cur cv :
  nth_error q qi = Some (QMapKeyFilter n c w) -> WFq (skipn qi q) = true -> Wq (skipn qi q) + h <= S k ->
  ok h (map_key_filter re r c w keys vals cur qi q cv).
Proof.
  intros Hn Hw Hk. destruct (walk_split q qi _ h Hn Hw Hk) as (H1 & H2 & H3). autorewrite with wt in H1, H3.
  pose proof (ok_next q qi _ h Hn Hw Hk) as Hnx.
  unfold map_key_filter. apply ok_bind.
  - destruct w as [v|a|ps f].
    + apply ok_ret.
    + destruct a as [q' ma]. autorewrite with wt in H1, H3. cbn [aq_query]. apply Hq; cbn [skipn]; [exact H1|lia].
    + apply Hfn; [exact H1|lia].
  - intros rhs. apply ok_bind; [apply ok_real_binary_operation|]. intros results.
    apply ok_bind; [oks|]. intros selected. oks; apply Hnx.
Qed.

Lemma wf_skipn q i : WFq q = true -> WFq (skipn i q) = true.
Proof.
  revert q. induction i as [|i IH]; intros q H; [exact H|]. destruct q as [|p q]; [reflexivity|].
  autorewrite with wt in H. apply andb_prop in H. cbn [skipn]. apply IH, H.
Qed.

Lemma wq_skipn q i : Wq (skipn i q) <= Wq q.
Proof.
  revert q. induction i as [|i IH]; intros q; [cbn [skipn]; lia|]. destruct q as [|p q]; [cbn [skipn]; lia|].
  cbn [skipn]. autorewrite with wt. specialize (IH q). lia.
Qed.

Lemma ok_query_body qi q cur cv h : WFq (skipn qi q) = true -> Wq (skipn qi q) + h <= S k ->
  ok h (query_body re conv r qi q cur cv).
Proof.
  intros Hw Hk. unfold query_body. destruct (nth_error q qi) as [part|] eqn:Hn; [|apply ok_ret].
  pose proof (ok_next q qi part h Hn Hw Hk) as Hnx.
  pose proof (ok_next_up q qi part h Hn Hw Hk) as Hnu.
  pose proof (ok_next2_up q qi part h Hn Hw Hk) as Hnu2.
  destruct (walk_split q qi part h Hn Hw Hk) as (H1 & H2 & H3).
  destruct (if Nat.eqb qi 0 then part_variable part else None) as [var|] eqn:Hv.
  - (* a variable head *)
    assert (Hwv : wv var + 3 <= wt_part wv wr part).
    { destruct (Nat.eqb qi 0); [|discriminate]. destruct part; try discriminate. cbn [part_variable] in Hv.
      autorewrite with wt. rewrite Hv. lia. }
    apply ok_bind; [apply Hres; lia|]. intros retrieved. apply ok_concatMapM. intros each.
    destruct each as [v|v|u]; try apply ok_ret;
      (match goal with |- okM _ _ _ (if ?c then _ else _) => destruct c end; [|apply ok_ret];
       apply ok_with_frame; [exact I|]; destruct (nth_error q (S qi)) as [[]|]; first [apply Hnu2 | apply Hnu]).
  - destruct part as [|key|n c w|n|n|i|n cnf].
    + apply Hnx.
    + destruct (parse_i32 key).
      * destruct cur; try apply ok_ret. apply ok_bind; [apply ok_lift, nf_retrieve_index|]. intros qr. eapply ok_map_resolved; eassumption.
      * destruct cur; try apply ok_ret. destruct (key_variable key) as [var|] eqn:Ekv.
        -- destruct key as [|a key']; [discriminate|]. cbn [key_variable] in Ekv. destruct (Ascii.eqb a "%") eqn:Ea; [|discriminate].
           apply Ascii.eqb_eq in Ea. inversion Ekv. subst. eapply ok_interpolate; [exact Hn|exact Hw|exact Hk|reflexivity].
        -- eapply ok_lookup_key; eassumption.
    + destruct cur; try apply ok_ret. eapply ok_map_key_filter; eassumption.
    + destruct cur; try apply Hnx.
      * eapply ok_accumulate; eassumption.
      * apply ok_accumulate_map. intros key value. oks; apply Hnu.
    + destruct cur; try apply Hnx.
      * eapply ok_accumulate; eassumption.
      * destruct n; [|apply Hnx]. apply ok_accumulate_map. intros key value. oks; apply Hnu.
    + destruct cur; try apply ok_ret. apply ok_bind; [apply ok_lift, nf_retrieve_index|]. intros qr. eapply ok_map_resolved; eassumption.
    + assert (Hcd : forall nm key value h', h' <= S h -> ok h' (check_and_delegate r cnf nm (S qi) q key value cv)).
      { intros nm key value h' Hh'. unfold check_and_delegate. autorewrite with wt in H1, H3.
        apply ok_bind; [apply ok_node, ok_filter_cnf; [exact H1|lia]|]. intros st.
        apply ok_bind; [oks|]. intros _. destruct st; try apply ok_ret. apply Hq; [exact H2|lia]. }
      autorewrite with wt in H1, H3.
      destruct cur; try (destruct qi as [|pi]; [apply ok_panicM|]; destruct (nth_error q pi) as [[]|]; try apply ok_ret;
                         apply ok_bind; [apply ok_node, ok_with_frame; [exact I|apply ok_filter_cnf; [exact H1|lia]]|];
                         intros st; destruct st; try apply ok_ret; apply Hnx).
      * apply ok_concatMapM. intros each.
        apply ok_bind; [apply ok_node, ok_with_frame; [exact I|apply ok_filter_cnf; [exact H1|lia]]|].
        intros st; destruct st; try apply ok_ret; apply Hnx.
      * destruct qi as [|pi]; [apply ok_panicM|]. destruct (nth_error q pi) as [[]|]; try apply ok_failM.
        -- destruct vals; [apply ok_ret|]. apply ok_accumulate_map. intros key value. apply Hcd. lia.
        -- apply ok_with_frame; [exact I|]. apply Hcd. lia.
        -- apply ok_with_frame; [exact I|]. apply Hcd. lia.
Qed.

(* ------------------------------------------------------------------ *)
(* clauses *)

Lemma ok_unary_operation lq c inverse custom h : WFq lq = true -> Wq lq + h <= k ->
  ok h (unary_operation r lq c inverse custom).
Proof.
  intros Hw Hk. unfold unary_operation. apply ok_bind; [apply ok_ctx_query; assumption|]. intros lhs.
  destruct lq as [|p0 lq']; [destruct (last [] QThis); apply ok_panicM|].
  generalize (last (p0 :: lq') QThis) as lastp. intros lastp.
  destruct lastp;
  repeat first
    [ match goal with |- okM _ _ _ (match unary_base ?o with _ => _ end) => destruct (unary_base o) as [base|] eqn:Eb end
    | match goal with |- okM _ _ _ (bind (lift (unary_op _ _ _ _)) _) => apply ok_bind; [apply ok_lift, nf_unary_op; eapply nf_unary_base; eassumption|intros ?] end
    | ok_step ].
Qed.

Lemma ok_binary_operation lq rhs c custom h : WFq lq = true -> Wq lq + h <= k ->
  ok h (binary_operation re r lq rhs c custom).
Proof.
  intros Hw Hk. unfold binary_operation. apply ok_bind; [apply ok_ctx_query; assumption|]. intros lhs.
  apply ok_bind; [apply ok_lift, nf_cmp_compare|]. intros results. oks.
Qed.

Lemma ok_access_clause_body g h : wf_ac wv wr g = true -> wt_ac wv wr g + h <= S k -> ok h (access_clause_body re r g).
Proof.
  intros Hw Hk. destruct g as [aq c w custom negation]. destruct aq as [lq ma]. autorewrite with wt in Hw, Hk.
  apply andb_prop in Hw. destruct Hw as [Hw1 Hw2]. unfold access_clause_body. cbn [aq_query aq_all].
  apply ok_bind; [|intros ?; apply ok_ret]. apply ok_node. apply ok_bind; [|intros res; oks].
  destruct (is_unary (fst c)); [apply ok_unary_operation; [exact Hw1|lia]|].
  destruct w as [wv0|]; [|apply ok_failM].
  apply ok_bind; [apply (ok_arg wv0 h QLiteral); [exact Hw2|lia]|]. intros rhs. apply ok_binary_operation; [exact Hw1|lia].
Qed.

Lemma stratified_rule x : In x (rf_rules prog) -> wt_rule wv wr x + 2 <= wr (rule_name x) /\ wf_rule wv wr x = true.
Proof.
  intros Hin. unfold stratified in Hprog. pur.
  match goal with H : forallb (rule_ok wv wr) _ = true |- _ => rewrite forallb_forall in H; specialize (H _ Hin); unfold rule_ok in H end.
  pur. split; [apply Nat.leb_le; assumption|assumption].
Qed.

Lemma stratified_param_rule p : In p (rf_param_rules prog) ->
  wt_rule wv wr (pr_rule p) + 2 <= wr (rule_name (pr_rule p)) /\ wf_rule wv wr (pr_rule p) = true.
Proof.
  intros Hin. unfold stratified in Hprog. pur.
  match goal with H : forallb (fun p => rule_ok wv wr (pr_rule p)) _ = true |- _ => rewrite forallb_forall in H; specialize (H _ Hin); unfold rule_ok in H end.
  pur. split; [apply Nat.leb_le; assumption|assumption].
Qed.

Lemma ok_first_non_skip rules : (forall x, In x rules -> wf_rule wv wr x = true /\ wt_rule wv wr x + 1 <= k) ->
  ok 1 (first_non_skip r rules).
Proof.
  induction rules as [|x rest IH]; intros H; cbn [first_non_skip]; [apply ok_ret|].
  destruct (H x (or_introl eq_refl)) as [Hw Hk].
  apply ok_bind; [apply Hrule; assumption|]. intros st.
  destruct st; try apply ok_ret. apply IH. intros y Hy. apply H. right. exact Hy.
Qed.

Lemma ok_rule_status_body name h : wr name <= S k -> ok h (rule_status_body prog r name).
Proof.
  intros Hk. unfold rule_status_body. apply ok_at_root. intros s Hi Hh.
  destruct (assoc name (statuses s)); [exact (ok_ret wv wr 1 _ s Hi Hh)|].
  destruct (rules_named prog name) as [|x rest] eqn:En; [split; discriminate|].
  assert (Hf : ok 1 (first_non_skip r (x :: rest))).
  { apply ok_first_non_skip. intros y Hy. rewrite <- En in Hy. unfold rules_named in Hy. apply filter_In in Hy.
    destruct Hy as [Hy Hname]. apply String.eqb_eq in Hname. destruct (stratified_rule y Hy) as [H1 H2]. split; [exact H2|]. rewrite Hname in H1. lia. }
  destruct (Hf s Hi Hh) as [Hno Hsh]. unfold bind.
  destruct (first_non_skip r (x :: rest) s) as [[[st r1] s1]| | | |] eqn:E; try (split; discriminate); [|contradiction].
  split; [discriminate|]. intros a recs s' H. inversion H; subst. specialize (Hsh _ _ _ eq_refl).
  unfold same_shape, shape in *. cbn. rewrite app_nil_r in *. exact Hsh.
Qed.

Lemma ok_named_clause_body n h : wt_nc wr n + h <= S k -> ok h (named_clause_body prog r n).
Proof.
  intros Hk. destruct n as [dep negation custom]. cbn [wt_nc] in Hk. unfold named_clause_body.
  apply ok_node. apply ok_bind; [apply ok_rule_status_body; lia|]. intros st. apply ok_ret.
Qed.

Lemma wf_cnf_in cnf line x : wf_cnf wv wr cnf = true -> In line cnf -> In x line -> wf_clause wv wr x = true.
Proof.
  intros H Hl Hx. unfold wf_cnf in H. rewrite forallb_forall in H. specialize (H _ Hl). rewrite forallb_forall in H. apply H, Hx.
Qed.
Lemma wf_conds_in cnf line x : wf_conds wv wr cnf = true -> In line cnf -> In x line -> wf_wc wv wr x = true.
Proof.
  intros H Hl Hx. unfold wf_conds in H. rewrite forallb_forall in H. specialize (H _ Hl). rewrite forallb_forall in H. apply H, Hx.
Qed.

Lemma ok_gblock_body b h : wf_block wv wr b = true -> wt_block wv wr b + h <= S k -> ok h (gblock_body r b).
Proof.
  intros Hw Hk. destruct b as [lets cnf]. autorewrite with wt in Hw, Hk. apply andb_prop in Hw. destruct Hw as [Hl Hc'].
  unfold gblock_body. apply ok_bind; [apply ok_ctx_root|]. intros root.
  apply ok_with_frame; [exact Hl|]. apply ok_cnf_body_in. intros line x Hln Hx. apply Hc.
  - eapply wf_cnf_in; eassumption.
  - pose proof (sumf2_in (wt_clause wv wr) cnf line x Hln Hx). unfold wt_cnf in Hk. lia.
Qed.

Lemma ok_block_clause_body aq b ne h : wf_aq wv wr aq = true -> wf_block wv wr b = true ->
  3 + wt_aq wv wr aq + wt_block wv wr b + h <= S k -> ok h (block_clause_body r aq b ne).
Proof.
  intros Hw1 Hw2 Hk. destruct aq as [lq ma]. autorewrite with wt in Hw1, Hk. unfold block_clause_body. cbn [aq_query aq_all].
  apply ok_node. apply ok_bind; [apply ok_ctx_query; [exact Hw1|lia]|]. intros values.
  destruct values; [apply ok_ret|]. apply ok_bind; [|intros ?; apply ok_ret].
  apply ok_mapM. intros each. destruct each; try (oks; fail); (apply ok_with_frame; [exact I|]; apply ok_gblock_body; [exact Hw2|lia]).
Qed.

Lemma ok_param_call_body params n h : forallb (wf_lv wv wr) params = true ->
  3 + sumf (wt_lv wv wr) params + wt_nc wr n + h <= S k -> ok h (param_call_body prog r params n).
Proof.
  intros Hw Hk. destruct n as [dep negation custom]. cbn [wt_nc] in Hk. unfold param_call_body.
  destruct (find_param_rule prog dep) as [p|] eqn:Ef; [|apply ok_failM].
  destruct (find_param_rule_in _ _ _ Ef) as [Hin Hname]. destruct (stratified_param_rule p Hin) as [H1 H2]. rewrite Hname in H1.
  match goal with |- okM _ _ _ (if ?c then _ else _) => destruct c end; [apply ok_failM|].
  apply ok_bind.
  - apply ok_mapM_in. intros each Hin'. apply (ok_arg each h QLiteral); [eapply wf_lvs_in; eassumption|].
    pose proof (sumf_in (wt_lv wv wr) params each Hin'). lia.
  - intros resolved. apply ok_with_frame; [exact I|]. apply Hrule; [exact H2|lia].
Qed.

Lemma ok_when_clause_body w h : wf_wc wv wr w = true -> wt_wc wv wr w + h <= S k -> ok h (when_clause_body re prog r w).
Proof.
  intros Hw Hk. destruct w as [c|n|ps n]; autorewrite with wt in Hw, Hk; cbn [when_clause_body].
  - apply ok_access_clause_body; [exact Hw|lia].
  - apply ok_named_clause_body. change (wt_wc wv wr (WNamedRule n)) with (1 + wt_nc wr n) in Hk. lia.
  - apply ok_param_call_body; [exact Hw|lia].
Qed.

Lemma ok_conds conds h mk : wf_conds wv wr conds = true -> wt_conds wv wr conds + h <= k ->
  ok h (node (cnf_body (when_clause_body re prog r) conds) mk).
Proof.
  intros Hw Hk. apply ok_node. apply ok_cnf_body_in. intros line x Hl Hx. apply ok_when_clause_body.
  - eapply wf_conds_in; eassumption.
  - pose proof (sumf2_in (wt_wc wv wr) conds line x Hl Hx). unfold wt_conds in Hk. lia.
Qed.

Lemma ok_when_block_body conds b h : wf_conds wv wr conds = true -> wf_block wv wr b = true ->
  3 + wt_conds wv wr conds + wt_block wv wr b + h <= S k -> ok h (when_block_body re prog r conds b).
Proof.
  intros Hw1 Hw2 Hk. unfold when_block_body. apply ok_node. apply ok_bind; [apply ok_conds; [exact Hw1|lia]|]. intros cst.
  destruct cst; try apply ok_ret. apply ok_gblock_body; [exact Hw2|lia].
Qed.

Lemma ok_clause_body g h : wf_clause wv wr g = true -> wt_clause wv wr g + h <= S k -> ok h (clause_body re prog r g).
Proof.
  intros Hw Hk. destruct g as [c|n|ps n|aq b ne|conds b]; cbn [clause_body].
  - autorewrite with wt in Hw, Hk. apply ok_access_clause_body; [exact Hw|lia].
  - apply ok_named_clause_body. change (wt_clause wv wr (GNamedRule n)) with (1 + wt_nc wr n) in Hk. lia.
  - autorewrite with wt in Hw, Hk. apply ok_param_call_body; [exact Hw|lia].
  - autorewrite with wt in Hw, Hk. apply andb_prop in Hw. destruct Hw. apply ok_block_clause_body; [assumption|assumption|lia].
  - autorewrite with wt in Hw, Hk. apply andb_prop in Hw. destruct Hw. apply ok_when_block_body; [assumption|assumption|lia].
Qed.

Lemma ok_oconds (conds : option when_conditions) h mk : wf_oconds wv wr conds = true -> wt_oconds wv wr conds + h <= S k ->
  ok h (match conds with
        | Some c => cst <- node (cnf_body (when_clause_body re prog r) c) mk ;; ret (status_eqb cst PASS)
        | None => ret true
        end).
Proof.
  intros Hw Hk. destruct conds as [c|]; [|apply ok_ret]. cbn [wf_oconds wt_oconds] in Hw, Hk.
  apply ok_bind; [apply ok_conds; [exact Hw|lia]|]. intros cst. apply ok_ret.
Qed.

Lemma ok_type_block_body tn conds b q h : wf_oconds wv wr conds = true -> wf_block wv wr b = true -> WFq q = true ->
  3 + wt_oconds wv wr conds + wt_block wv wr b + Wq q + h <= S k -> ok h (type_block_body re prog r tn conds b q).
Proof.
  intros Hw1 Hw2 Hw3 Hk. unfold type_block_body. apply ok_node.
  apply ok_bind; [apply ok_oconds; [exact Hw1|lia]|]. intros go. destruct (negb go); [apply ok_ret|].
  apply ok_bind; [apply ok_ctx_query; [exact Hw3|lia]|]. intros values. destruct values; [apply ok_ret|].
  apply ok_bind; [|intros ?; apply ok_ret]. apply ok_mapM. intros each.
  destruct each; try apply ok_failM; (apply ok_node, ok_with_frame; [exact I|]; apply ok_gblock_body; [exact Hw2|lia]).
Qed.

Lemma ok_rule_clause_body c h : wf_rc wv wr c = true -> wt_rc wv wr c + h <= k -> ok h (rule_clause_body re prog r c).
Proof.
  intros Hw Hk. destruct c as [g|conds b|tn conds b q]; cbn [rule_clause_body wf_rc wt_rc] in *.
  - apply Hc; [exact Hw|lia].
  - apply andb_prop in Hw. destruct Hw. apply ok_when_block_body; [assumption|assumption|lia].
  - pur. apply ok_type_block_body; try assumption. lia.
Qed.

Lemma ok_rule_body x h : wf_rule wv wr x = true -> wt_rule wv wr x + h <= S k -> ok h (rule_body re prog r x).
Proof.
  intros Hw Hk. unfold wf_rule in Hw. unfold wt_rule in Hk. pur. unfold rule_body. apply ok_node.
  apply ok_bind; [apply ok_oconds; [assumption|lia]|]. intros go. destruct (negb go); [apply ok_ret|].
  apply ok_bind; [apply ok_ctx_root|]. intros root. apply ok_with_frame; [assumption|].
  apply ok_cnf_body_in. intros line c Hl Hx. apply ok_rule_clause_body.
  - match goal with H : forallb (forallb (wf_rc wv wr)) _ = true |- _ => rewrite forallb_forall in H; specialize (H _ Hl); rewrite forallb_forall in H; apply H, Hx end.
  - pose proof (sumf2_in (wt_rc wv wr) (rule_cnf x) line c Hl Hx). lia.
Qed.

End Bodies.

(* ------------------------------------------------------------------ *)
(* every entry point, at every fuel *)

Section Main.
Variable wv wr : string -> nat.
Variable re : re_oracle.
Variable conv : conv_oracle.
Variable prog : rules_file.
Hypothesis Hprog : stratified wv wr prog = true.

Lemma wt_part_pos p : 3 <= wt_part wv wr p.
Proof. destruct p; autorewrite with wt; cbn; lia. Qed.

Lemma wq_zero l : wq wv wr l = 0 -> l = [].
Proof. destruct l as [|p l]; [reflexivity|]. autorewrite with wt. pose proof (wt_part_pos p). lia. Qed.

Lemma skipn_nil_nth {A} (q : list A) i : skipn i q = [] -> nth_error q i = None.
Proof.
  revert i. induction q as [|y q IH]; intros [|i] H; cbn in *; try reflexivity; [discriminate|apply IH; exact H].
Qed.

Lemma wt_clause_pos g : 1 <= wt_clause wv wr g.
Proof. destruct g; autorewrite with wt; lia. Qed.

Lemma good_base : Good wv wr (evalN re conv prog 1) 0.
Proof.
  unfold Good. cbn [evalN ev_query ev_clause ev_rule ev_resolve ev_fn]. split; [|split; [|split; [|split]]].
  - intros qi q cur cv h _ Hk. assert (E : skipn qi q = []) by (apply wq_zero; lia).
    unfold query_body. rewrite (skipn_nil_nth q qi E). apply ok_ret.
  - intros g h _ Hk. pose proof (wt_clause_pos g). lia.
  - intros x h _ Hk. unfold wt_rule in Hk. lia.
  - intros n h Hk s Hi Hh. assert (h = 0) by lia. subst h. unfold resolve_body.
    destruct (frames s); [split; discriminate|discriminate].
  - intros f ps h _ Hk. autorewrite with wt in Hk. lia.
Qed.

Theorem evalN_good n : Good wv wr (evalN re conv prog (S n)) n.
Proof.
  induction n as [|n IH]; [exact good_base|].
  change (evalN re conv prog (S (S n))) with
    (let r := evalN re conv prog (S n) in
     mkEv (query_body re conv r) (clause_body re prog r) (rule_body re prog r) (resolve_body r) (fn_body r)).
  cbv zeta. unfold Good. cbn [ev_query ev_clause ev_rule ev_resolve ev_fn]. (split; [|split; [|split; [|split]]]); intros.
  - eapply ok_query_body; eassumption.
  - eapply ok_clause_body; eassumption.
  - eapply ok_rule_body; eassumption.
  - eapply ok_resolve_body; eassumption.
  - eapply ok_fn_body; eassumption.
Qed.


Lemma init_inv doc : Inv wv wr (init_state prog doc) /\ List.length (frames (init_state prog doc)) = 1.
Proof.
  split; [|reflexivity]. unfold Inv, init_state. cbn. constructor; [|constructor]. cbn.
  unfold stratified in Hprog. apply andb_prop in Hprog. destruct Hprog as [H _]. apply andb_prop in H. apply H.
Qed.

Theorem eval_file_terminates fuel doc : file_weight wv wr prog <= fuel -> eval_file re conv prog fuel doc <> OutOfFuel.
Proof.
  intros Hf. unfold file_weight in Hf. destruct fuel as [|n]; [lia|].
  unfold eval_file, file_body. destruct (init_inv doc) as [Hi Hh].
  assert (Hok : okM wv wr 1 (node (sts <- mapM (ev_rule (evalN re conv prog (S n))) (rf_rules prog) ;; ret (fold_fail_pass_skip sts)) KFileCheck)).
  { apply ok_node. apply ok_bind; [|intros sts; apply ok_ret]. apply ok_mapM_in. intros x Hx.
    destruct (evalN_good n) as (_ & _ & Hrule & _).
    destruct (stratified_rule wv wr prog Hprog x Hx) as [_ Hw]. apply Hrule; [exact Hw|].
    pose proof (sumf_in (wt_rule wv wr) (rf_rules prog) x Hx). lia. }
  apply (Hok _ Hi Hh).
Qed.

(* with enough fuel the answer no longer depends on the fuel: a status, an error or a panic site, the same at every
   larger fuel (FuelProps) *)
Theorem eval_file_total fuel doc : file_weight wv wr prog <= fuel ->
  eval_file re conv prog fuel doc <> OutOfFuel /\
  forall m, fuel <= m -> eval_file re conv prog m doc = eval_file re conv prog fuel doc.
Proof.
  intros Hf. split; [apply eval_file_terminates; exact Hf|]. intros m Hm.
  apply eval_file_fuel_irrelevant; [exact Hm|]. apply eval_file_terminates; exact Hf.
Qed.

End Main.

(* the executable test of Strat.v is sound: when it answers `Some w`, fuel w is enough, for every document and oracle *)
Theorem terminates_within_sound re conv prog rounds w doc fuel :
  terminates_within prog rounds = Some w -> w <= fuel ->
  eval_file re conv prog fuel doc <> OutOfFuel /\
  forall m, fuel <= m -> eval_file re conv prog m doc = eval_file re conv prog fuel doc.
Proof.
  unfold terminates_within. destruct (auto_potentials prog rounds) as [a b].
  destruct (stratified (pot_get a) (pot_get b) prog) eqn:Hs; [|discriminate].
  intros E Hw. inversion E; subst. apply (eval_file_total (pot_get a) (pot_get b) re conv prog Hs). exact Hw.
Qed.

(* a fuel that is enough for one program is enough whatever the document: the bound depends on the program alone *)
Corollary recursion_depth_is_independent_of_the_document re conv prog rounds w :
  terminates_within prog rounds = Some w -> forall doc doc', 
  eval_file re conv prog w doc <> OutOfFuel /\ eval_file re conv prog w doc' <> OutOfFuel.
Proof.
  intros H doc doc'. split; eapply terminates_within_sound; try exact H; apply Nat.le_refl.
Qed.

From GV.Proofs Require RefineExample NoPanicProps.
Lemma termination_instance :
  terminates_within RefineExample.ex_prog 5 = Some 314 /\ terminates_within NoPanicProps.cyc_rule 5 = None /\ terminates_within NoPanicProps.cyc_vars 8 = None.
Proof. vm_compute. repeat split. Qed.

Lemma value_layer_total : forall re c lhs rhs name args,
  cmp_compare re c lhs rhs <> OutOfFuel /\ call_fn name args <> OutOfFuel.
Proof. intros. split; [apply nf_cmp_compare|apply nf_call_fn]. Qed.

Lemma ex_prog_pwf : pwf_prog RefineExample.ex_prog = true.
Proof. vm_compute. reflexivity. Qed.
