"""End-to-end runs of the real cfn-guard binary (built from /repo's working tree): scenario
directories, parallel execution, per-pair outcome matrices through the hook harness."""
import os, json, subprocess
from concurrent.futures import ThreadPoolExecutor
from . import impl
from .common import *


def write_files(d, files):
    """files: {relative path: text}"""
    os.makedirs(d, exist_ok=True)
    for rel, text in files.items():
        p = os.path.join(d, rel)
        os.makedirs(os.path.dirname(p), exist_ok=True)
        if isinstance(text, bytes):
            with open(p, 'wb') as f:
                f.write(text)
            continue
        with open(p, 'w', encoding='utf-8') as f:
            f.write(text)


def run_many(jobs, n=NPROC, timeout=60):
    """jobs: list of dict(args=[...], stdin=bytes|None, cwd=dir, env=dict|None).
    Returns list of (code, stdout bytes, stderr bytes); code is the exit status, -signal, or 'timeout'."""
    def work(j):
        try:
            e = dict(os.environ)
            e['NO_COLOR'] = '1'
            if j.get('env'):
                e.update(j['env'])
            p = subprocess.run([impl.CLI_BIN] + list(j['args']), input=j.get('stdin'), cwd=j.get('cwd'),
                               timeout=timeout, stdout=subprocess.PIPE, stderr=subprocess.PIPE, env=e)
            return p.returncode, p.stdout, p.stderr
        except subprocess.TimeoutExpired:
            return 'timeout', b'', b''
    with ThreadPoolExecutor(max_workers=n) as ex:
        return list(ex.map(work, jobs))


def status_of_code(code):
    """process exit status as the shell sees it (0..255), or a string for signals/timeouts"""
    if isinstance(code, int) and code >= 0:
        return code
    return str(code)


def pair_outcomes(pairs, wd, tag, loader='cli'):
    """pairs: list of (rules_text, data_text). Returns one of
    'PARSE_ERR' | 'EMPTY' | 'BAD_DATA' | 'PASS' | 'FAIL' | 'SKIP' | 'ERR' | 'PANIC' | 'ABORT' per pair,
    plus the raw results (for rule-level statuses)."""
    ops = [{'op': 'eval', 'rules': r, 'data': d, 'loader': loader} for r, d in pairs]
    res = impl.run_ops_parallel(ops, wd, tag)
    out = []
    for r in res:
        if 'panic' in r:
            out.append('PANIC')
        elif 'abort' in r or 'timeout' in r:
            out.append('ABORT')
        elif 'res' not in r or not isinstance(r['res'], dict):
            raise ToolingError('harness: %r' % (r,))
        else:
            d = r['res']
            ast = d.get('ast')
            if ast[0] == 'Empty':
                out.append('EMPTY')
            elif ast[0] != 'Ok':
                out.append('PARSE_ERR')
            elif d['doc'][0] != 'Ok':
                out.append('BAD_DATA')
            elif d['result'][0] == 'Ok':
                out.append(d['result'][1])
            else:
                out.append('ERR')
    return out, res


def rule_statuses(raw):
    """[(rule name, status)] in record order from a raw eval result (Ok case)"""
    from . import coqterm as ct
    res = raw['res']['result']
    out = []
    for c in ct.L(res[2][3]):
        cc = c[2]['O']
        if cc[0] == 'RuleCheck':
            out.append((ct.S(cc[1]), cc[2]))
    return out
