(* QuerySpellProps.v — every concrete spelling of a query parses to that query: `.n` or `[n]` (leading zeros, layout before the
   closing bracket), a key bare / quoted either way / in brackets, `%variable` parts, `.*`, `[*]` with layout inside, `[name]`,
   `some` / `SOME` with any layout after it, `this` / `THIS`, a variable / bare / quoted head, and any layout (blanks, line
   breaks, comments) in front of every part.  Concrete syntax trees as in ValueSpellProps. *)
From Coq Require Import Lia.
From GV.Model Require Import Ast.
From GV.Model Require Import ValueParse QueryParse.
From GV.Proofs Require Import LexProps ValueParseProps ValueSpellProps QueryParseProps.
Local Open Scope string_scope.
Local Open Scope nat_scope.

Ltac norm := repeat first [ rewrite sapp_assoc in * | progress cbn [append] in * ].
Ltac lens := repeat first [ rewrite len_app in * | progress cbn [String.length] in * ].

Inductive khow := KBare | KQuoted (dq : bool).

Inductive cpart :=
| CDotIndex (w : string) (neg : bool) (d : string)                 (* w . digits *)
| CBrIndex (w : string) (neg : bool) (d : string) (w2 : string)    (* w [ digits w2 ] *)
| CDotKey (w : string) (h : khow) (k : string)                     (* w . key *)
| CBrKey (w : string) (dq : bool) (k : string) (w2 : string)       (* w [ 'key' w2 ] *)
| CDotVar (w : string) (v : string)                                (* w . % name *)
| CDotStar (w : string)                                            (* w . * *)
| CBrStar (w w1 w2 : string)                                       (* w [ w1 * w2 ] *)
| CBrName (w : string) (v : string) (w2 : string).                 (* w [ name w2 ] *)

Inductive chead :=
| CThis (w : string) (upper : bool)
| CVar (v : string)
| CKey (h : khow) (k : string).

Record cquery := mkCQ { c_some : option (string * bool * string); c_head : chead; c_parts : list cpart }.

Definition render_key_how (h : khow) (k : string) : string :=
  match h with KBare => k | KQuoted dq => quote (qchar dq) k end.

Definition render_part (p : cpart) : string :=
  match p with
  | CDotIndex w neg d => w +++ ("." +++ render_int neg d)
  | CBrIndex w neg d w2 => w +++ ("[" +++ (render_int neg d +++ (w2 +++ "]")))
  | CDotKey w h k => w +++ ("." +++ render_key_how h k)
  | CBrKey w dq k w2 => w +++ ("[" +++ (quote (qchar dq) k +++ (w2 +++ "]")))
  | CDotVar w v => w +++ (".%" +++ v)
  | CDotStar w => w +++ ".*"
  | CBrStar w w1 w2 => w +++ ("[" +++ (w1 +++ ("*" +++ (w2 +++ "]"))))
  | CBrName w v w2 => w +++ ("[" +++ (v +++ (w2 +++ "]")))
  end.
Fixpoint render_parts (ps : list cpart) : string :=
  match ps with [] => EmptyString | p :: r => render_part p +++ render_parts r end.
Definition render_head (h : chead) : string :=
  match h with
  | CThis w upper => w +++ (if upper then "THIS" else "this")
  | CVar v => "%" +++ v
  | CKey h k => render_key_how h k
  end.
Definition render_some (o : option (string * bool * string)) : string :=
  match o with
  | Some (w0, upper, w1) => w0 +++ ((if upper then "SOME" else "some") +++ w1)
  | None => EmptyString
  end.
Definition qrender (c : cquery) : string := render_some (c_some c) +++ (render_head (c_head c) +++ render_parts (c_parts c)).

Definition denote_part (p : cpart) : query_part :=
  match p with
  | CDotIndex _ neg d | CBrIndex _ neg d _ => QIndex (wrap_i32 (int_val neg d))
  | CDotKey _ _ k | CBrKey _ _ k _ => QKey k
  | CDotVar _ v => QKey (String "%" v)
  | CDotStar _ => QAllValues None
  | CBrStar _ _ _ => QAllIndices None
  | CBrName _ v _ => QAllIndices (Some v)
  end.
Definition denote_head (h : chead) : query_part :=
  match h with CThis _ _ => QThis | CVar v => QKey (String "%" v) | CKey _ k => QKey k end.
Definition query_of (f : query_part) (ps : list cpart) : list query_part :=
  match ps with [] => [f] | _ => f :: after_variable f (map denote_part ps) end.
Definition qdenote (c : cquery) : access_query :=
  AccessQuery (query_of (denote_head (c_head c)) (c_parts c)) (match c_some c with Some _ => false | None => true end).

(* ---------------------------------------------------------------- well-formedness *)
Definition wf_name (v : string) : Prop := exists a r, v = String a r /\ is_alpha a = true /\ all_chars name_char r = true.
Definition wf_key_how (h : khow) (k : string) : Prop :=
  match h with KBare => wf_name k | KQuoted _ => ends_with_backslash k = false end.
Definition wf_part (p : cpart) : Prop :=
  match p with
  | CDotIndex w _ d => layout w /\ wf_digits d
  | CBrIndex w _ d w2 => layout w /\ wf_digits d /\ layout w2
  | CDotKey w h k => layout w /\ wf_key_how h k
  | CBrKey w _ k w2 => layout w /\ ends_with_backslash k = false /\ layout w2
  | CDotVar w v => layout w /\ wf_name v
  | CDotStar w => layout w
  | CBrStar w w1 w2 => layout w /\ layout w1 /\ layout w2
  | CBrName w v w2 => layout w /\ wf_name v /\ layout w2
  end.
(* a bare key at the head must not start like `this` or `some` (the parser takes the keyword first) *)
Definition no_keyword_prefix (k : string) : Prop :=
  str_prefix "this" k = false /\ str_prefix "THIS" k = false /\ str_prefix "some" k = false /\ str_prefix "SOME" k = false.
Definition wf_head (h : chead) : Prop :=
  match h with
  | CThis w _ => layout w
  | CVar v => wf_name v
  | CKey KBare k => wf_name k /\ no_keyword_prefix k
  | CKey (KQuoted _) k => ends_with_backslash k = false
  end.
Definition wf_some (o : option (string * bool * string)) (h : chead) : Prop :=
  match o with
  | Some (w0, _, w1) => layout w0 /\ layout w1 /\ w1 <> EmptyString
  | None => True
  end.
Definition qwf (c : cquery) : Prop := wf_some (c_some c) (c_head c) /\ wf_head (c_head c) /\ Forall wf_part (c_parts c).

(* what may follow the query: not a character that continues a name or a number, and nothing that reads as a further part *)
Definition name_end (X : string) : Prop :=
  match X with EmptyString => True | String c _ => name_char c = false /\ is_ascii c = true end.
Definition query_end (rest : string) : Prop :=
  name_end rest /\ match skip_ws_comments rest with EmptyString => True | String c _ => c <> "."%char /\ c <> "["%char end.

(* ---------------------------------------------------------------- characters *)
Lemma alpha_facts a : is_alpha a = true ->
  name_char a = true /\ is_digit a = false /\ int_start a = false /\ is_ws a = false /\ is_hash a = false /\ is_ascii a = true /\
  Ascii.eqb a "%" = false /\ Ascii.eqb a "*" = false /\ Ascii.eqb a "'" = false /\ Ascii.eqb a """" = false.
Proof. destruct a as [[] [] [] [] [] [] [] []]; cbv; intros H; try discriminate; repeat split. Qed.

Lemma name_char_facts a : name_char a = false -> is_alpha a = false /\ is_digit a = false.
Proof. destruct a as [[] [] [] [] [] [] [] []]; cbv; intros H; try discriminate; repeat split. Qed.

Definition sep_char (c : ascii) : bool := is_ws c || is_hash c || Ascii.eqb c "." || Ascii.eqb c "[" || Ascii.eqb c "]".
Lemma sep_char_facts c : sep_char c = true -> name_char c = false /\ is_ascii c = true.
Proof. destruct c as [[] [] [] [] [] [] [] []]; cbv; intros H; try discriminate; repeat split. Qed.
Definition sep_ok (X : string) : Prop := match X with EmptyString => True | String c _ => sep_char c = true end.
Lemma sep_ok_name_end X : sep_ok X -> name_end X.
Proof. destruct X as [|c r]; cbn; [trivial|apply sep_char_facts]. Qed.

Lemma layout_sep w c Y : layout w -> sep_char c = true -> sep_ok (w +++ String c Y).
Proof.
  intros Hw Hc. destruct Hw as [|a w Ha Hw|body w Hb Hw]; cbn; [exact Hc| |reflexivity].
  unfold sep_char. now rewrite Ha.
Qed.

Lemma name_end_digit X : name_end X -> match X with String c _ => is_digit c = false | EmptyString => True end.
Proof. destruct X as [|c r]; cbn; [trivial|]. intros [H _]. now apply name_char_facts in H. Qed.

(* ---------------------------------------------------------------- names, integers *)
Lemma span_alpha_name : forall v X, all_chars name_char v = true -> name_end X ->
  exists a b, v = a +++ b /\ span_while is_alpha (v +++ X) = (a, b +++ X) /\ all_chars name_char b = true.
Proof.
  induction v as [|c v IH]; intros X Hv HX.
  - exists EmptyString, EmptyString. cbn. repeat split. destruct X as [|c r]; [reflexivity|]. cbn in *. destruct HX as [H _].
    apply name_char_facts in H as [H _]. now rewrite H.
  - cbn in Hv. apply andb_prop in Hv as [Hc Hv]. cbn [append span_while]. destruct (is_alpha c) eqn:E.
    + destruct (IH X Hv HX) as (a & b & -> & Es & Hb). exists (String c a), b. rewrite Es. repeat split. exact Hb.
    + exists EmptyString, (String c v). cbn. rewrite Hc, Hv. repeat split.
Qed.

Lemma var_name_spelled v X : wf_name v -> name_end X -> var_name (v +++ X) = POk v X.
Proof.
  intros (a0 & r0 & -> & Ha & Hr) HX. unfold var_name. cbn [append span_while]. rewrite Ha.
  destruct (span_alpha_name r0 X Hr HX) as (a & b & -> & Es & Hb). rewrite Es.
  assert (Hn : match X with String c _ => name_char c = false | EmptyString => True end).
  { destruct X; cbn in *; tauto. }
  rewrite (span_while_all name_char b X Hb Hn). destruct X as [|c r]; [reflexivity|]. cbn in HX. destruct HX as [_ ->]. reflexivity.
Qed.

Lemma var_name_not c r : is_alpha c = false -> var_name (String c r) = PErr.
Proof. intros H. unfold var_name. cbn [span_while]. now rewrite H. Qed.

Lemma parse_int_end neg d X : wf_digits d -> (match X with String c _ => is_digit c = false | EmptyString => True end) ->
  parse_int (render_int neg d +++ X) = POk (VInt (int_val neg d)) X.
Proof.
  intros (Hne & Hall & Hmax) HX. unfold render_int, int_val, parse_int. apply Z.leb_le in Hmax. destruct neg; cbn [append].
  - cbn [span_while]. assert (is_digit "-" = false) as -> by reflexivity. cbn [expect]. rewrite Ascii.eqb_refl.
    rewrite (span_while_all is_digit d X Hall HX). destruct d as [|c0 d0]; [contradiction|]. now rewrite Hmax.
  - rewrite (span_while_all is_digit d X Hall HX). destruct d as [|c0 d0]; [contradiction|]. now rewrite Hmax.
Qed.

Lemma int_index_spelled neg d X : wf_digits d -> (match X with String c _ => is_digit c = false | EmptyString => True end) ->
  int_index (render_int neg d +++ X) = POk (QIndex (wrap_i32 (int_val neg d))) X.
Proof. intros Hd HX. unfold int_index. now rewrite (parse_int_end neg d X Hd HX). Qed.

Lemma int_index_not c r : int_start c = false -> int_index (String c r) = PErr.
Proof. intros H. unfold int_index. now rewrite (parse_int_not c r H). Qed.

Lemma quote_first dq k X : exists r, quote (qchar dq) k +++ X = String (qchar dq) r.
Proof. unfold quote. cbn [append]. eauto. Qed.

Lemma qchar_facts dq : is_alpha (qchar dq) = false /\ int_start (qchar dq) = false /\ Ascii.eqb (qchar dq) "%" = false /\ Ascii.eqb (qchar dq) "*" = false
  /\ is_ws (qchar dq) = false /\ is_hash (qchar dq) = false.
Proof. destruct dq; cbv; repeat split. Qed.

Lemma render_int_first neg d : wf_digits d -> exists c r, render_int neg d = String c r /\ int_start c = true /\ is_alpha c = false /\ Ascii.eqb c "*" = false
  /\ is_ws c = false /\ is_hash c = false /\ Ascii.eqb c "'" = false /\ Ascii.eqb c """" = false.
Proof.
  intros Hd. destruct (digits_first d Hd) as (c & r & -> & Hc). unfold render_int. destruct neg; cbn [append].
  - exists "-"%char, (String c r). cbv. repeat split.
  - exists c, r. split; [reflexivity|]. destruct c as [[] [] [] [] [] [] [] []]; cbv in Hc; try discriminate; cbv; repeat split.
Qed.

(* ---------------------------------------------------------------- one part *)
Definition part_follow (p : cpart) (X : string) : Prop :=
  match p with
  | CDotIndex _ _ _ | CDotKey _ KBare _ | CDotVar _ _ => name_end X
  | _ => True
  end.

Lemma dot_hit w Y : layout w -> ws_char "." (w +++ String "." Y) = Some Y.
Proof. intros Hw. apply ws_char_hit; [exact Hw|reflexivity|reflexivity]. Qed.
Lemma dot_miss w Y : layout w -> ws_char "." (w +++ String "[" Y) = None.
Proof. intros Hw. apply ws_char_miss; [exact Hw|reflexivity|reflexivity|reflexivity]. Qed.
Lemma open_hit w Y : layout w -> ws_char "[" (w +++ String "[" Y) = Some Y.
Proof. intros Hw. apply ws_char_hit; [exact Hw|reflexivity|reflexivity]. Qed.
Lemma close_hit w Y : layout w -> ws_char "]" (w +++ String "]" Y) = Some Y.
Proof. intros Hw. apply ws_char_hit; [exact Hw|reflexivity|reflexivity]. Qed.

Lemma part_spelled p X : wf_part p -> part_follow p X -> part (render_part p +++ X) = POk (denote_part p) X.
Proof.
  destruct p as [w neg d|w neg d w2|w h k|w dq k w2|w v|w|w w1 w2|w v w2]; cbn [wf_part part_follow render_part denote_part]; unfold part.
  - (* .n *) intros (Hw & Hd) HX. norm. unfold dotted_property. rewrite (dot_hit w _ Hw).
    rewrite (int_index_spelled neg d X Hd (name_end_digit X HX)). reflexivity.
  - (* [n] *) intros (Hw & Hd & Hw2) _. norm. unfold dotted_property. rewrite (dot_miss w _ Hw). cbn [palt].
    unfold predicate_or_index. rewrite (open_hit w _ Hw).
    destruct (render_int_first neg d Hd) as (c & r & Er & H1 & H2 & H3 & H4 & H5 & H6 & H7).
    assert (Ea : all_indices_body (render_int neg d +++ (w2 +++ String "]" X)) = PErr).
    { unfold all_indices_body. rewrite Er. cbn [append]. rewrite (skip_solid c _ H4 H5). unfold star. cbn [expect]. rewrite H3. cbn [palt].
      rewrite (var_name_not c _ H2). reflexivity. }
    rewrite Ea. cbn [palt]. unfold array_index_body.
    rewrite (int_index_spelled neg d (w2 +++ String "]" X) Hd).
    + unfold closed. rewrite (close_hit w2 X Hw2). reflexivity.
    + pose proof (layout_sep w2 "]" X Hw2 eq_refl) as Hs. apply sep_ok_name_end in Hs. now apply name_end_digit.
  - (* .key *) intros (Hw & Hk) HX. norm. unfold dotted_property. rewrite (dot_hit w _ Hw). destruct h as [|dq]; cbn [render_key_how wf_key_how] in *.
    + destruct Hk as (a & r & -> & Ha & Hr). destruct (alpha_facts a Ha) as (_ & _ & Hi & _).
      cbn [append]. rewrite (int_index_not a _ Hi). cbn [palt]. unfold property_name.
      change (String a (r +++ X)) with (String a r +++ X). rewrite (var_name_spelled (String a r) X); [reflexivity| |exact HX].
      exists a, r. auto.
    + destruct (quote_first dq k X) as (r & Er). destruct (qchar_facts dq) as (Q1 & Q2 & Q3 & Q4 & Q5 & Q6).
      rewrite Er at 1. rewrite (int_index_not _ _ Q2). cbn [palt]. unfold property_name. rewrite Er at 1. rewrite (var_name_not _ _ Q1). cbn [palt].
      rewrite (parse_string_r_roundtrip dq k X Hk). reflexivity.
  - (* ['key'] *) intros (Hw & Hk & Hw2) _. norm. unfold dotted_property. rewrite (dot_miss w _ Hw). cbn [palt].
    unfold predicate_or_index. rewrite (open_hit w _ Hw).
    destruct (quote_first dq k (w2 +++ String "]" X)) as (r & Er). destruct (qchar_facts dq) as (Q1 & Q2 & Q3 & Q4 & Q5 & Q6).
    assert (Ea : all_indices_body (quote (qchar dq) k +++ (w2 +++ String "]" X)) = PErr).
    { unfold all_indices_body. rewrite Er. rewrite (skip_solid _ _ Q5 Q6). unfold star. cbn [expect]. rewrite Q4. cbn [palt].
      rewrite (var_name_not _ _ Q1). reflexivity. }
    rewrite Ea. cbn [palt].
    assert (Eb : array_index_body (quote (qchar dq) k +++ (w2 +++ String "]" X)) = PErr).
    { unfold array_index_body. rewrite Er. rewrite (int_index_not _ _ Q2). reflexivity. }
    rewrite Eb. cbn [palt]. unfold map_key_lookup_body. rewrite (parse_string_r_roundtrip dq k _ Hk). cbn [pmap palt].
    unfold closed. rewrite (close_hit w2 X Hw2). reflexivity.
  - (* .%v *) intros (Hw & Hv) HX. norm. unfold dotted_property. rewrite (dot_hit w _ Hw).
    rewrite int_index_not by reflexivity. cbn [palt]. unfold property_name. rewrite var_name_not by reflexivity. cbn [palt].
    rewrite parse_string_not by reflexivity. cbn [pmap palt]. unfold var_access. cbn [expect]. rewrite Ascii.eqb_refl.
    rewrite (var_name_spelled v X Hv HX). reflexivity.
  - (* .* *) intros Hw _. norm. unfold dotted_property. rewrite (dot_hit w _ Hw).
    rewrite int_index_not by reflexivity. cbn [palt]. unfold property_name. rewrite var_name_not by reflexivity. cbn [palt].
    rewrite parse_string_not by reflexivity. cbn [pmap palt]. unfold var_access. cbn [expect]. reflexivity.
  - (* [*] *) intros (Hw & Hw1 & Hw2) _. norm. unfold dotted_property. rewrite (dot_miss w _ Hw). cbn [palt].
    unfold predicate_or_index. rewrite (open_hit w _ Hw). unfold all_indices_body. rewrite (skip_layout w1 _ Hw1).
    rewrite skip_solid by reflexivity. unfold star. cbn [expect]. rewrite Ascii.eqb_refl. cbn [palt].
    unfold closed. rewrite (close_hit w2 X Hw2). reflexivity.
  - (* [name] *) intros (Hw & Hv & Hw2) _. norm. unfold dotted_property. rewrite (dot_miss w _ Hw). cbn [palt].
    unfold predicate_or_index. rewrite (open_hit w _ Hw). unfold all_indices_body.
    destruct Hv as (a & r & -> & Ha & Hr). destruct (alpha_facts a Ha) as (_ & _ & _ & A1 & A2 & _ & _ & A3 & _).
    cbn [append]. rewrite (skip_solid a _ A1 A2). unfold star. cbn [expect]. rewrite A3. cbn [palt].
    change (String a (r +++ (w2 +++ String "]" X))) with (String a r +++ (w2 +++ String "]" X)).
    rewrite (var_name_spelled (String a r) (w2 +++ String "]" X)).
    + cbn [pmap]. unfold closed. rewrite (close_hit w2 X Hw2). reflexivity.
    + exists a, r. auto.
    + apply sep_ok_name_end. apply layout_sep; [exact Hw2|reflexivity].
Qed.

(* every part starts with a separator, so whatever precedes it ends there *)
Lemma render_part_sep p Y : wf_part p -> sep_ok (render_part p +++ Y).
Proof.
  destruct p; cbn [wf_part render_part]; intros H; norm;
    repeat match goal with H : _ /\ _ |- _ => destruct H as [? H] end; apply layout_sep; try assumption; reflexivity.
Qed.

Lemma render_part_len p : 1 <= len (render_part p).
Proof. destruct p; cbn [render_part]; lens; lia. Qed.

Lemma render_parts_len ps : List.length ps <= len (render_parts ps).
Proof. induction ps as [|p ps IH]; cbn [render_parts List.length]; [lia|]. lens. pose proof (render_part_len p). lia. Qed.

Lemma part_end rest : query_end rest -> part rest = PErr.
Proof.
  intros [_ H]. unfold part, dotted_property, predicate_or_index, ws_char.
  destruct (skip_ws_comments rest) as [|c r]; [reflexivity|]. destruct H as [H1 H2]. cbn [expect].
  destruct (Ascii.eqb_spec c "."); [contradiction|]. destruct (Ascii.eqb_spec c "["); [contradiction|]. reflexivity.
Qed.

Lemma parts_follow p ps rest : Forall wf_part ps -> query_end rest -> part_follow p (render_parts ps +++ rest).
Proof.
  intros Hps [Hr _]. assert (name_end (render_parts ps +++ rest)).
  { destruct ps as [|q qs]; [exact Hr|]. cbn [render_parts]. rewrite sapp_assoc. apply sep_ok_name_end. apply render_part_sep. now inversion Hps. }
  destruct p as [| |? [|]| | | | |]; cbn [part_follow]; trivial.
Qed.

Lemma parts_spelled : forall ps acc rest n, Forall wf_part ps -> query_end rest -> List.length ps < n ->
  parts_loop n acc (render_parts ps +++ rest) = POk (acc ++ map denote_part ps)%list rest.
Proof.
  induction ps as [|p ps IH]; intros acc rest n Hps Hr Hn; destruct n as [|n]; try lia; cbn [parts_loop render_parts map].
  - cbn [append]. rewrite (part_end rest Hr). now rewrite app_nil_r.
  - inversion Hps as [|? ? Hp Hps']; subst. rewrite sapp_assoc. rewrite (part_spelled p _ Hp (parts_follow p ps rest Hps' Hr)).
    rewrite (IH _ rest n Hps' Hr) by (cbn in Hn; lia). now rewrite <- app_assoc.
Qed.

(* ---------------------------------------------------------------- heads *)
Lemma str_prefix_name : forall t k X, all_chars is_alpha t = true -> str_prefix t k = false -> name_end X -> str_prefix t (k +++ X) = false.
Proof.
  induction t as [|a t IH]; intros k X Ht Hp HX; [destruct k; discriminate|].
  cbn in Ht. apply andb_prop in Ht as [Ha Ht]. destruct k as [|b k]; cbn [append].
  - destruct X as [|c r]; [reflexivity|]. cbn in HX. destruct HX as [Hc _]. apply name_char_facts in Hc as [Hc _]. cbn.
    destruct (Ascii.eqb_spec a c); [congruence|reflexivity].
  - cbn in *. destruct (Ascii.eqb a b); [|reflexivity]. cbn in *. now apply IH.
Qed.

Lemma keyword_free k X : no_keyword_prefix k -> name_end X ->
  alt_tags kw_this_keyword (k +++ X) = None /\ alt_tags kw_some_keyword (k +++ X) = None.
Proof.
  intros (H1 & H2 & H3 & H4) HX. unfold kw_this_keyword, kw_some_keyword. cbn [alt_tags].
  rewrite (str_prefix_name "this" k X eq_refl H1 HX), (str_prefix_name "THIS" k X eq_refl H2 HX),
          (str_prefix_name "some" k X eq_refl H3 HX), (str_prefix_name "SOME" k X eq_refl H4 HX). split; reflexivity.
Qed.

(* the head read by `access` once an optional `some` is gone: s1 is the text from the head on *)
Definition head_of (s1 : string) : pres query_part :=
  match this_keyword s1 with
  | Some r => POk QThis r
  | None => pmap QKey (palt (var_access s1) (property_name s1))
  end.

Lemma head_spelled h X : wf_head h -> name_end X -> head_of (render_head h +++ X) = POk (denote_head h) X.
Proof.
  destruct h as [w upper|v|[|dq] k]; cbn [wf_head render_head denote_head render_key_how]; unfold head_of, this_keyword.
  - intros Hw _. norm. destruct upper; cbn [append]; rewrite (skip_layout w _ Hw); rewrite skip_solid by reflexivity; reflexivity.
  - intros Hv HX. cbn [append]. rewrite skip_solid by reflexivity. cbn [alt_tags kw_this_keyword str_prefix Ascii.eqb Bool.eqb andb].
    unfold var_access. cbn [expect]. rewrite Ascii.eqb_refl. rewrite (var_name_spelled v X Hv HX). reflexivity.
  - intros (Hk & Hp) HX. destruct (keyword_free k X Hp HX) as [E1 _]. pose proof Hk as (a & r & -> & Ha & Hr).
    destruct (alpha_facts a Ha) as (_ & _ & _ & A1 & A2 & _ & A4 & _). cbn [append] in *. rewrite (skip_solid a _ A1 A2). rewrite E1.
    unfold var_access. cbn [expect]. rewrite A4. cbn [palt]. unfold property_name.
    change (String a (r +++ X)) with (String a r +++ X). rewrite (var_name_spelled (String a r) X Hk HX). reflexivity.
  - intros Hk _. destruct (quote_first dq k X) as (r & Er). destruct (qchar_facts dq) as (Q1 & Q2 & Q3 & Q4 & Q5 & Q6).
    rewrite Er at 1. rewrite (skip_solid _ _ Q5 Q6).
    assert (alt_tags kw_this_keyword (String (qchar dq) r) = None) as -> by (destruct dq; reflexivity).
    unfold var_access. rewrite Er at 1. cbn [expect]. rewrite Q3. cbn [palt]. unfold property_name. rewrite Er at 1.
    rewrite (var_name_not _ _ Q1). cbn [palt]. rewrite (parse_string_r_roundtrip dq k X Hk). reflexivity.
Qed.

(* a head is never read as `some` *)
Lemma head_not_some h X : wf_head h -> name_end X -> some_keyword (render_head h +++ X) = None.
Proof.
  destruct h as [w upper|v|[|dq] k]; cbn [wf_head render_head render_key_how]; unfold some_keyword.
  - intros Hw _. norm. rewrite (skip_layout w _ Hw). destruct upper; cbn [append]; rewrite skip_solid by reflexivity; reflexivity.
  - intros _ _. cbn [append]. rewrite skip_solid by reflexivity. reflexivity.
  - intros (Hk & Hp) HX. destruct (keyword_free k X Hp HX) as [_ E2]. destruct Hk as (a & r & -> & Ha & Hr).
    destruct (alpha_facts a Ha) as (_ & _ & _ & A1 & A2 & _). cbn [append] in *. rewrite (skip_solid a _ A1 A2). now rewrite E2.
  - intros _ _. destruct (quote_first dq k X) as (r & Er). destruct (qchar_facts dq) as (Q1 & Q2 & Q3 & Q4 & Q5 & Q6).
    rewrite Er. rewrite (skip_solid _ _ Q5 Q6). destruct dq; reflexivity.
Qed.

Lemma head_solid_or_this h X : wf_head h -> skip_ws_comments (render_head h +++ X) = render_head h +++ X \/ exists w u, h = CThis w u.
Proof.
  destruct h as [w upper|v|[|dq] k]; cbn [wf_head render_head render_key_how]; intros H.
  - right. eauto.
  - left. cbn [append]. apply skip_solid; reflexivity.
  - left. destruct H as ((a & r & -> & Ha & Hr) & _). destruct (alpha_facts a Ha) as (_ & _ & _ & A1 & A2 & _). cbn [append]. now apply skip_solid.
  - left. destruct (quote_first dq k X) as (r & Er). destruct (qchar_facts dq) as (Q1 & Q2 & Q3 & Q4 & Q5 & Q6). rewrite Er. now apply skip_solid.
Qed.

Lemma layout_nonempty_starts w Y : layout w -> w <> EmptyString -> starts_layout (w +++ Y) = true.
Proof.
  intros Hw Hne. destruct Hw as [|a w Ha Hw|body w Hb Hw]; [contradiction| |reflexivity]. cbn. now rewrite Ha.
Qed.

(* the text from the head on is all `head_of` looks at, with or without layout in front when the head is `this` *)
Lemma head_of_layout w0 h X : layout w0 -> wf_head h -> name_end X ->
  head_of (skip_ws_comments (w0 +++ (render_head h +++ X))) = POk (denote_head h) X.
Proof.
  intros Hw0 Hh HX. rewrite (skip_layout w0 _ Hw0). destruct (head_solid_or_this h X Hh) as [E|(w & u & ->)].
  - rewrite E. now apply head_spelled.
  - cbn [render_head wf_head denote_head] in *. norm. rewrite (skip_layout w _ Hh).
    unfold head_of, this_keyword. destruct u; cbn [append]; rewrite !skip_solid by reflexivity; reflexivity.
Qed.

(* ---------------------------------------------------------------- the theorem *)
Lemma tail_spelled f ps rest all n : Forall wf_part ps -> query_end rest -> List.length ps < n ->
  match dotted_access n (render_parts ps +++ rest) with
  | POk parts r' => POk (AccessQuery (f :: after_variable f parts) all) r'
  | PErr => POk (AccessQuery [f] all) (render_parts ps +++ rest)
  | other => pmap (fun _ => AccessQuery [] all) other
  end = POk (AccessQuery (query_of f ps) all) rest.
Proof.
  intros Hps Hr Hn. unfold dotted_access. destruct ps as [|p ps].
  - cbn [render_parts append]. now rewrite (part_end rest Hr).
  - inversion Hps as [|? ? Hp Hps']; subst. cbn [render_parts]. rewrite sapp_assoc.
    rewrite (part_spelled p _ Hp (parts_follow p ps rest Hps' Hr)).
    rewrite (parts_spelled ps [denote_part p] rest n Hps' Hr) by (cbn in Hn; lia). reflexivity.
Qed.

Lemma parts_name_end ps rest : Forall wf_part ps -> query_end rest -> name_end (render_parts ps +++ rest).
Proof.
  intros Hps [Hr _]. destruct ps as [|q qs]; [exact Hr|]. cbn [render_parts]. rewrite sapp_assoc. apply sep_ok_name_end. apply render_part_sep. now inversion Hps.
Qed.

Theorem query_spelling_parses_at : forall c rest n, qwf c -> query_end rest -> List.length (c_parts c) < n ->
  access n (qrender c +++ rest) = POk (qdenote c) rest.
Proof.
  intros [sm h ps] rest n (Hs & Hh & Hps) Hr Hn. unfold qrender, qdenote. cbn [c_some c_head c_parts] in *.
  pose proof (parts_name_end ps rest Hps Hr) as HX. unfold access. fold (head_of).
  destruct sm as [[[w0 upper] w1]|]; cbn [render_some wf_some] in *.
  - destruct Hs as (Hw0 & Hw1 & Hne). norm.
    assert (Es : some_keyword (w0 +++ ((if upper then "SOME" else "some") +++ (w1 +++ (render_head h +++ (render_parts ps +++ rest)))))
                 = Some (skip_ws_comments (w1 +++ (render_head h +++ (render_parts ps +++ rest))))).
    { unfold some_keyword. rewrite (skip_layout w0 _ Hw0).
      destruct upper; cbn [append]; rewrite skip_solid by reflexivity; cbn [alt_tags kw_some_keyword str_prefix Ascii.eqb Bool.eqb andb drop String.length];
        rewrite (layout_nonempty_starts w1 _ Hw1 Hne); reflexivity. }
    destruct upper; cbn [append] in Es |- *; rewrite Es;
      change (match this_keyword ?s with Some r => POk QThis r | None => pmap QKey (palt (var_access ?s) (property_name ?s)) end) with (head_of s);
      rewrite (head_of_layout w1 h _ Hw1 Hh HX); apply tail_spelled; assumption.
  - cbn [append]. rewrite sapp_assoc. rewrite (head_not_some h _ Hh HX).
    change (match this_keyword ?s with Some r => POk QThis r | None => pmap QKey (palt (var_access ?s) (property_name ?s)) end) with (head_of s).
    rewrite (head_spelled h _ Hh HX). apply tail_spelled; assumption.
Qed.

Theorem query_spelling_parses : forall c rest, qwf c -> query_end rest -> access_top (qrender c +++ rest) = POk (qdenote c) rest.
Proof.
  intros c rest Hc Hr. unfold access_top. apply query_spelling_parses_at; [exact Hc|exact Hr|]. unfold access_fuel, qrender.
  pose proof (render_parts_len (c_parts c)). lens. lia.
Qed.

Corollary query_spellings_agree : forall c1 c2 rest, qwf c1 -> qwf c2 -> query_end rest -> qdenote c1 = qdenote c2 ->
  access_top (qrender c1 +++ rest) = access_top (qrender c2 +++ rest).
Proof. intros c1 c2 rest H1 H2 Hr E. rewrite !query_spelling_parses by assumption. now rewrite E. Qed.

(* the two ways to write an index, a key *)
Corollary index_spellings_agree : forall w w' w2 neg d X, layout w -> layout w' -> layout w2 -> wf_digits d -> name_end X ->
  part (render_part (CDotIndex w neg d) +++ X) = part (render_part (CBrIndex w' neg d w2) +++ X).
Proof. intros. rewrite !part_spelled; cbn [wf_part part_follow]; auto. Qed.

Corollary key_spellings_agree : forall w w' w'' w2 dq dq' k X, layout w -> layout w' -> layout w'' -> layout w2 -> wf_name k -> ends_with_backslash k = false -> name_end X ->
  part (render_part (CDotKey w KBare k) +++ X) = part (render_part (CDotKey w' (KQuoted dq) k) +++ X) /\
  part (render_part (CDotKey w KBare k) +++ X) = part (render_part (CBrKey w'' dq' k w2) +++ X).
Proof. intros. rewrite !part_spelled; cbn [wf_part part_follow wf_key_how]; auto. Qed.
