(* ReportProps.v — the structured report partitions the rules as evaluated (C09). *)
From Coq Require Import Lia.
From GV.Model Require Import Report.
From GV.Proofs Require Import StatusProps.

(* induction over records with the list of children *)
Lemma record_ind2 : forall (P : record -> Prop),
  (forall c ch, Forall P ch -> P (Rec c ch)) -> forall r, P r.
Proof.
  intros P H. fix IH 1. intros [c ch]. apply H.
  induction ch as [|x xs IHl]; constructor; [apply IH|exact IHl].
Qed.

Lemma go_report : forall ch,
  (fix go (l : list record) : list creport :=
     match l with [] => [] | x :: xs => report_rec x ++ go xs end) ch = flat_map report_rec ch.
Proof. induction ch as [|x xs IH]; cbn; [reflexivity|]. now rewrite IH. Qed.

Lemma go_leaves : forall ch,
  (fix go (l : list creport) := match l with [] => [] | x :: xs => leaves x ++ go xs end) ch = flat_map leaves ch.
Proof. induction ch as [|x xs IH]; cbn; [reflexivity|]. now rewrite IH. Qed.

Lemma go_failing : forall ch,
  (fix go (l : list record) := match l with [] => [] | x :: xs => failing_checks x ++ go xs end) ch
  = flat_map failing_checks ch.
Proof. induction ch as [|x xs IH]; cbn; [reflexivity|]. now rewrite IH. Qed.

(* ---- rule names ---- *)

Lemma report_rule_record : forall n s msg ch,
  report_rec (Rec (KRuleCheck n s msg) ch) =
  match s with FAIL => [RRule n msg (flat_map report_rec ch)] | _ => [] end.
Proof. intros. cbn. rewrite go_report. now destruct s. Qed.

Definition all_rule_records (children : list record) : Prop :=
  Forall (fun c => exists n s m, rec_container c = KRuleCheck n s m) children.

Lemma names_of_status : forall children n,
  all_rule_records children ->
  (In n (rule_names_with PASS children) <-> In (n, PASS) (rule_entries children)) /\
  (In n (rule_names_with SKIP children) <-> In (n, SKIP) (rule_entries children)) /\
  (In n (not_compliant_names (report_failed children)) <-> In (n, FAIL) (rule_entries children)).
Proof.
  intros children n H. unfold rule_names_with, rule_entries, report_failed.
  induction H as [|c children (m & s & msg & Hc) Hall IH]; cbn; [tauto|].
  destruct c as [cc ch]. cbn in Hc. subst cc. cbn [rec_container].
  rewrite report_rule_record. unfold not_compliant_names in *. rewrite flat_map_app.
  destruct IH as (IH1 & IH2 & IH3).
  destruct s; cbn; rewrite ?in_app_iff; cbn; repeat split; intros H; try tauto;
    try (destruct H as [H|H]; [inversion H; subst; auto|]; tauto);
    try (destruct H as [H|H]; [subst; auto|]; tauto).
Qed.

(* every evaluated rule name appears in exactly one of the three lists (distinct rule names) *)
Theorem partition_exactly_one : forall st children n s,
  all_rule_records children -> NoDup (map fst (rule_entries children)) ->
  In (n, s) (rule_entries children) ->
  forall fr, simplified (Rec (KFileCheck st) children) = Some fr ->
  (In n (fr_compliant fr) <-> s = PASS) /\
  (In n (fr_not_applicable fr) <-> s = SKIP) /\
  (In n (not_compliant_names (fr_not_compliant fr)) <-> s = FAIL).
Proof.
  intros st children n s Hall Hnd Hin fr Hfr. inversion Hfr; subst; clear Hfr. cbn.
  destruct (names_of_status children n Hall) as (H1 & H2 & H3).
  assert (U : forall s', In (n, s') (rule_entries children) -> s' = s).
  { intros s' Hin'. clear -Hnd Hin Hin'. induction (rule_entries children) as [|[k v] l IH]; [destruct Hin|].
    cbn in Hnd. inversion Hnd as [|? ? Hnot Hnd']; subst.
    destruct Hin as [E|Hin], Hin' as [E'|Hin'].
    - congruence.
    - inversion E; subst. exfalso. apply Hnot. apply in_map_iff. exists (n, s'). auto.
    - inversion E'; subst. exfalso. apply Hnot. apply in_map_iff. exists (n, s). auto.
    - auto. }
  rewrite H1, H2, H3. repeat split; intros H; try (symmetry; now apply U); subst; assumption.
Qed.

(* the file status rule, given that the file record carries the fold of its rules (C02_file) *)
Theorem file_status_rule : forall children fr,
  all_rule_records children ->
  simplified (Rec (KFileCheck (fold_fail_pass_skip (map snd (rule_entries children)))) children) = Some fr ->
  (fr_status fr = FAIL <-> not_compliant_names (fr_not_compliant fr) <> []) /\
  (fr_status fr = PASS <-> not_compliant_names (fr_not_compliant fr) = [] /\ fr_compliant fr <> []) /\
  (fr_status fr = SKIP <-> not_compliant_names (fr_not_compliant fr) = [] /\ fr_compliant fr = []).
Proof.
  intros children fr Hall Hfr. inversion Hfr; subst; clear Hfr.
  cbn [fr_status fr_not_compliant fr_compliant].
  assert (HF : not_compliant_names (report_failed children) <> [] <-> In FAIL (map snd (rule_entries children))).
  { split.
    - intros Hne. destruct (not_compliant_names (report_failed children)) as [|n l] eqn:E; [congruence|].
      destruct (names_of_status children n Hall) as (_ & _ & H3).
      assert (In n (n :: l)) as Hin by now left. rewrite <- E in Hin. apply H3 in Hin.
      apply in_map_iff. exists (n, FAIL). auto.
    - intros Hin. apply in_map_iff in Hin as ([n s] & Hs & Hin). cbn in Hs. subst.
      destruct (names_of_status children n Hall) as (_ & _ & H3). apply H3 in Hin.
      intros E. rewrite E in Hin. destruct Hin. }
  assert (HP : rule_names_with PASS children <> [] <-> In PASS (map snd (rule_entries children))).
  { split.
    - intros Hne. destruct (rule_names_with PASS children) as [|n l] eqn:E; [congruence|].
      destruct (names_of_status children n Hall) as (H1 & _ & _).
      assert (In n (n :: l)) as Hin by now left. rewrite <- E in Hin. apply H1 in Hin.
      apply in_map_iff. exists (n, PASS). auto.
    - intros Hin. apply in_map_iff in Hin as ([n s] & Hs & Hin). cbn in Hs. subst.
      destruct (names_of_status children n Hall) as (H1 & _ & _). apply H1 in Hin.
      intros E. rewrite E in Hin. destruct Hin. }
  destruct (fold_fail_pass_skip_spec (map snd (rule_entries children))) as (SF & SP & SS).
  rewrite SF, SP, SS, <- HF, <- HP.
  generalize (not_compliant_names (report_failed children)) as A.
  generalize (rule_names_with PASS children) as B.
  intros B A. clear.
  destruct A, B; repeat split; intros; try tauto; try congruence;
    repeat match goal with H : _ /\ _ |- _ => destruct H end; try congruence; try tauto;
    try (split; congruence); try (split; [intros ?; congruence|congruence]);
    try (exfalso; match goal with H : ~ (_ :: _ <> []) |- _ => apply H; discriminate end).
Qed.

(* ---- attribution of checks ---- *)

Lemma in_flat_map' : forall A B (f : A -> list B) l y, In y (flat_map f l) <-> exists x, In x l /\ In y (f x).
Proof. intros. apply in_flat_map. Qed.

(* every check listed anywhere in the report of a record is a reportable failing check of that record's subtree *)
Theorem listed_checks_are_failing_checks : forall r l,
  In l (flat_map leaves (report_rec r)) -> In l (failing_checks r).
Proof.
  induction r as [c ch IH] using record_ind2. intros l Hin.
  assert (Hsub : In l (flat_map leaves (flat_map report_rec ch)) -> In l (flat_map failing_checks ch)).
  { intros H. apply in_flat_map in H as (cr & Hcr & Hl). apply in_flat_map in Hcr as (x & Hx & Hcr).
    apply in_flat_map. exists x. split; [assumption|].
    rewrite Forall_forall in IH. apply IH; [assumption|]. apply in_flat_map. eauto. }
  cbn [failing_checks]. rewrite go_failing. apply in_or_app.
  cbn [report_rec] in Hin. rewrite go_report in Hin.
  destruct c; try (destruct st); cbn in Hin; try tauto;
    try (right; apply Hsub; rewrite ?app_nil_r in Hin; try rewrite go_leaves in Hin; exact Hin).
  - (* block guard check FAIL *)
    destruct ch; cbn in Hin; [tauto|]. right. apply Hsub. exact Hin.
  - (* clause value check *)
    left. destruct (leaf_of c); cbn in Hin; [|tauto]. destruct Hin as [<-|[]]. now left.
Qed.

(* ... and it carries that clause's custom message: the leaf is leaf_of of a ClauseValueCheck record of the subtree *)
Fixpoint value_checks (r : record) : list clause_check :=
  match r with
  | Rec c ch =>
      (match c with KClauseValueCheck cc => [cc] | _ => [] end)
      ++ (fix go (l : list record) := match l with [] => [] | x :: xs => value_checks x ++ go xs end) ch
  end.

Theorem failing_check_origin : forall r l,
  In l (failing_checks r) -> exists cc, In cc (value_checks r) /\ leaf_of cc = Some l.
Proof.
  induction r as [c ch IH] using record_ind2. intros l Hin.
  cbn [failing_checks] in Hin. rewrite go_failing in Hin. apply in_app_or in Hin as [Hin|Hin].
  - destruct c; try (cbn in Hin; tauto). destruct (leaf_of c) eqn:E; cbn in Hin; [|tauto].
    destruct Hin as [<-|[]]. exists c. split; [cbn; now left|assumption].
  - apply in_flat_map in Hin as (x & Hx & Hl). rewrite Forall_forall in IH.
    destruct (IH x Hx l Hl) as (cc & Hcc & Hleaf). exists cc. split; [|assumption].
    cbn [value_checks]. apply in_or_app. right.
    clear -Hx Hcc. induction ch as [|y ys IHl]; [destruct Hx|]. apply in_or_app.
    destruct Hx as [->|Hx]; [left; assumption|right; now apply IHl].
Qed.

(* a reported check has status FAIL (or is one of the two status-less failure kinds) *)
Theorem reported_leaf_failed : forall cc l, leaf_of cc = Some l ->
  match cc with
  | CSuccess => False
  | CComparison _ _ _ _ _ st | CInComparison _ _ _ _ _ st | CUnary _ _ _ _ st => st = FAIL
  | CNoValueForEmptyCheck _ | CDependentRule _ _ _ _ | CMissingBlockValue _ _ _ _ => True
  end.
Proof.
  intros cc l H. destruct cc; cbn in H; try discriminate; auto; destruct st; try discriminate; reflexivity.
Qed.

(* nothing is reported under a rule that passed or was skipped; a FAIL rule is always listed, with its checks *)
Theorem rule_report_by_status : forall n s msg ch,
  (s <> FAIL -> report_rec (Rec (KRuleCheck n s msg) ch) = []) /\
  (s = FAIL -> report_rec (Rec (KRuleCheck n s msg) ch) = [RRule n msg (report_failed ch)]).
Proof.
  intros. rewrite report_rule_record. unfold report_failed. destruct s; split; intros; congruence.
Qed.

(* ---- combine ---- *)

Lemma combine_all_acc : forall l acc,
  fold_left combine l acc =
  mkFileReport (fold_left status_and (map fr_status l) (fr_status acc))
               (fr_not_compliant acc ++ flat_map fr_not_compliant l)
               (fr_not_applicable acc ++ flat_map fr_not_applicable l)
               (fr_compliant acc ++ flat_map fr_compliant l).
Proof.
  induction l as [|x l IH]; intros acc; cbn.
  - destruct acc; cbn. now rewrite !app_nil_r.
  - rewrite IH. cbn. now rewrite <- !app_assoc.
Qed.

Lemma fold_and_spec : forall l acc,
  fold_left status_and l acc =
  if status_eqb acc FAIL || existsb (status_eqb FAIL) l then FAIL
  else if status_eqb acc PASS || existsb (status_eqb PASS) l then PASS else SKIP.
Proof.
  induction l as [|x l IH]; intros acc; cbn.
  - destruct acc; reflexivity.
  - rewrite IH. destruct acc, x; cbn; try reflexivity;
      destruct (existsb (status_eqb FAIL) l), (existsb (status_eqb PASS) l); reflexivity.
Qed.

(* reports for several rules files against one data file: the union of the individual reports, and the combined
   status again follows the FAIL > PASS > SKIP rule over the individual statuses *)
Theorem combine_is_union : forall l,
  fr_not_compliant (combine_all l) = flat_map fr_not_compliant l /\
  fr_not_applicable (combine_all l) = flat_map fr_not_applicable l /\
  fr_compliant (combine_all l) = flat_map fr_compliant l /\
  fr_status (combine_all l) = fold_fail_pass_skip (map fr_status l).
Proof.
  intros l. unfold combine_all. rewrite combine_all_acc. cbn. repeat split.
  rewrite fold_and_spec. cbn. unfold fold_fail_pass_skip. reflexivity.
Qed.

(* ---- C07 ---- *)

Lemma names_failed : forall children n,
  all_rule_records children ->
  (In n (rule_names_with FAIL children) <-> In (n, FAIL) (rule_entries children)).
Proof.
  intros children n H. unfold rule_names_with, rule_entries.
  induction H as [|c children (m & s & msg & Hc) Hall IH]; cbn; [tauto|].
  destruct c as [cc ch]. cbn in Hc. subst cc. cbn [rec_container].
  destruct s; cbn; rewrite ?IH; split; intros H; try tauto;
    try (destruct H as [H|H]; [inversion H; subst; auto|]; tauto);
    try (destruct H as [H|H]; [subst; auto|]; tauto).
Qed.

(* the console summary table and the structured report list the same rules under the same verdicts *)
Theorem summary_agrees_with_structured : forall st children fr n,
  all_rule_records children -> NoDup (map fst (rule_entries children)) ->
  simplified (Rec (KFileCheck st) children) = Some fr ->
  (In n (summary_passed children) <-> In n (fr_compliant fr)) /\
  (In n (summary_failed children) <-> In n (not_compliant_names (fr_not_compliant fr))) /\
  (In n (summary_skipped children) <-> In n (fr_not_applicable fr)).
Proof.
  intros st children fr n Hall Hnd Hfr. inversion Hfr; subst; clear Hfr. cbn.
  destruct (names_of_status children n Hall) as (H1 & H2 & H3).
  pose proof (names_failed children n Hall) as H4.
  split; [reflexivity|]. split; [now rewrite H3, H4|].
  unfold summary_skipped. rewrite filter_In. split; [tauto|]. intros Hs. split; [assumption|].
  apply negb_true_iff. apply orb_false_iff.
  assert (U : forall s s', In (n, s) (rule_entries children) -> In (n, s') (rule_entries children) -> s = s').
  { clear -Hnd. induction (rule_entries children) as [|[k v] l IH]; intros s s' A B; [destruct A|].
    cbn in Hnd. inversion Hnd as [|? ? Hnot Hnd']; subst.
    destruct A as [E|A], B as [E'|B].
    - congruence.
    - inversion E; subst. exfalso. apply Hnot. apply in_map_iff. exists (n, s'). auto.
    - inversion E'; subst. exfalso. apply Hnot. apply in_map_iff. exists (n, s). auto.
    - eauto. }
  apply H2 in Hs. split.
  - destruct (existsb (String.eqb n) (rule_names_with PASS children)) eqn:E; [|reflexivity].
    apply existsb_exists in E as (x & Hx & Hxe). apply String.eqb_eq in Hxe. subst x.
    apply H1 in Hx. specialize (U _ _ Hs Hx). discriminate.
  - destruct (existsb (String.eqb n) (rule_names_with FAIL children)) eqn:E; [|reflexivity].
    apply existsb_exists in E as (x & Hx & Hxe). apply String.eqb_eq in Hxe. subst x.
    apply H4 in Hx. specialize (U _ _ Hs Hx). discriminate.
Qed.

Lemma creport_ind2 : forall (P : creport -> Prop),
  (forall n m ch, Forall P ch -> P (RRule n m ch)) -> P RBlockEmpty ->
  (forall ch, Forall P ch -> P (RDisj ch)) -> (forall l, P (RLeaf l)) -> forall r, P r.
Proof.
  intros P Hrule Hblock Hdisj Hleaf. fix IH 1. intros [n m ch| |ch|l].
  - apply Hrule. induction ch as [|x xs IHl]; constructor; [apply IH|exact IHl].
  - exact Hblock.
  - apply Hdisj. induction ch as [|x xs IHl]; constructor; [apply IH|exact IHl].
  - apply Hleaf.
Qed.

(* SARIF: one result per reported failing check *)
Theorem sarif_one_result_per_check : forall r, message_count r = check_nodes r.
Proof.
  unfold check_nodes.
  induction r as [n m ch IH| |ch IH|l] using creport_ind2; cbn; try reflexivity.
  - rewrite go_leaves. induction IH as [|x xs Hx Hxs IHl]; [reflexivity|].
    cbn. rewrite app_length, Hx, IHl. lia.
  - rewrite go_leaves. induction IH as [|x xs Hx Hxs IHl]; [reflexivity|].
    cbn. rewrite app_length, Hx, IHl. lia.
Qed.
