"""Site inventories regenerated from /repo's current source and compared with the reviewed
classification committed under /verif/inventory/*.json. Entries are keyed by file + enclosing fn +
normalised snippet (not by line number), so unrelated edits do not disturb them.

kinds:
  root_scope : every construction of the evaluation state (`root_scope(`) with the loops it sits in
  static     : every `static` / lazy_static! / thread_local! / OnceCell / Mutex item (process-wide state)
  hash_iter  : every iteration over a HashMap / HashSet (order depends on the hash seed)
  panic      : unreachable!/unimplemented!/panic!/unwrap()/expect( sites of the files C08 anchors
"""
import os, re, json, glob
from .common import *

INV_DIR = os.path.join(VERIF, 'inventory')
SRC = 'guard/src'


def rust_files():
    base = os.path.join(REPO, SRC)
    out = []
    for p in sorted(glob.glob(os.path.join(base, '**', '*.rs'), recursive=True)):
        rel = os.path.relpath(p, REPO)
        if rel.endswith('_tests.rs') or rel.endswith('verif_hooks.rs') or '/tests/' in rel or rel.endswith('/tests.rs'):
            continue
        out.append(rel)
    return out


def strip_comments(text):
    text = re.sub(r'//[^\n]*', '', text)
    return text


def enclosing(lines, i):
    """name of the enclosing fn, and the list of loop headers between it and line i (by indentation)"""
    ind = len(lines[i]) - len(lines[i].lstrip())
    fn, loops = None, []
    cur = ind
    want_fn_at = None
    fn_re = r'(?:pub(?:\([^)]*\))?\s+)?(?:async\s+)?fn\s+([A-Za-z0-9_]+)'
    for j in range(i - 1, -1, -1):
        l = lines[j]
        if not l.strip():
            continue
        k = len(l) - len(l.lstrip())
        s = l.strip()
        if want_fn_at is not None and k == want_fn_at:
            m = re.match(fn_re, s)
            if m:
                fn = m.group(1)
                break
        if k < cur:
            m = re.match(fn_re, s)
            if m:
                fn = m.group(1)
                break
            if s.startswith(')'):
                want_fn_at = k
            elif re.match(r'(for\s|while\s|loop\b)', s) or re.search(r'\.(iter|into_iter)\(\)\.(try_)?fold\(|\.try_fold\(|\.fold\(|\.map\(\|', s) or re.match(r'\|mut \w+, ', s):
                loops.append(re.sub(r'\s+', ' ', s)[:60])
            cur = k
    return fn, list(reversed(loops))


def norm(s):
    return re.sub(r'\s+', ' ', s.strip())[:140]


def scan(kind):
    out = []
    for rel in rust_files():
        text = open(os.path.join(REPO, rel), encoding='utf-8').read()
        # drop #[cfg(test)] mod tail
        cut = text.find('#[cfg(test)]\nmod ')
        if cut >= 0:
            text = text[:cut]
        lines = strip_comments(text).split('\n')
        for i, l in enumerate(lines):
            hit = False
            if kind == 'root_scope':
                hit = 'root_scope(' in l and 'fn root_scope' not in l and not l.strip().startswith('use ')
            elif kind == 'static':
                hit = bool(re.search(r'lazy_static!|thread_local!|\bstatic\s+mut\b|^\s*(pub\s+)?static\s+(ref\s+)?[A-Z_]+|OnceCell|once_cell|Lazy<|AtomicUsize|AtomicBool|Mutex<|RwLock<', l))
            elif kind == 'hash_iter':
                hit = False   # computed below with a type-aware pass
            elif kind == 'panic':
                hit = bool(re.search(r'unreachable!\(|unimplemented!\(|panic!\(|todo!\(|\.unwrap\(\)|\.expect\(', l))
            if hit:
                fn, loops = enclosing(lines, i)
                e = {'file': rel, 'fn': fn, 'snippet': norm(l)}
                if kind == 'root_scope':
                    e['loops'] = loops
                out.append(e)
    if kind == 'hash_iter':
        out = scan_hash_iter()
    return out


def scan_hash_iter():
    """functions that mention HashMap/HashSet and iterate: for .. in <ident>, .iter(), .keys(), .values(), into_iter, {:?}.
    Coarse on purpose: every function whose body both names a hash container type (or a known hash-typed
    binding) and iterates over something is listed with its iteration snippets."""
    out = []
    hash_typed = re.compile(r'HashMap|HashSet')
    for rel in rust_files():
        text = open(os.path.join(REPO, rel), encoding='utf-8').read()
        cut = text.find('#[cfg(test)]\nmod ')
        if cut >= 0:
            text = text[:cut]
        text = strip_comments(text)
        # split into top-level-ish fn chunks
        for m in re.finditer(r'\bfn\s+([A-Za-z0-9_]+)[^{;]*\{', text):
            start = m.end()
            depth, j = 1, start
            while j < len(text) and depth:
                c = text[j]
                depth += (c == '{') - (c == '}')
                j += 1
            body = text[m.start():j]
            if not hash_typed.search(body):
                continue
            its = sorted(set(norm(x) for x in re.findall(r'for\s+[^\n]*\s+in\s+[^\n{]*|\b\w+\.(?:iter|keys|values|into_iter|drain)\(\)[^\n;]{0,40}', body)))
            if its:
                out.append({'file': rel, 'fn': m.group(1), 'snippet': ' ;; '.join(its)[:400]})
    return out


def key(e):
    return (e['file'], e.get('fn'), e['snippet'], tuple(e.get('loops', [])))


def compare(kind):
    """returns (current entries, problems[list of str], reviewed entries)"""
    cur = scan(kind)
    if kind == 'panic':
        # a site that merely moves to another function of the same file (a helper is extracted, a function renamed) is
        # the same site: panic sites are matched by file and normalised snippet
        global key
        saved = key
        key = lambda e: (e['file'], None, e['snippet'], ())
        try:
            return _compare(kind, cur)
        finally:
            key = saved
    return _compare(kind, cur)


def _compare(kind, cur):
    path = os.path.join(INV_DIR, kind + '.json')
    if not os.path.exists(path):
        return cur, ['no reviewed inventory %s' % path], []
    rev = json.load(open(path))['sites']
    ck = {}
    for e in cur:
        ck[key(e)] = ck.get(key(e), 0) + 1
    rk = {}
    for e in rev:
        rk[key(e)] = rk.get(key(e), 0) + 1
    problems = []
    for k, n in ck.items():
        if rk.get(k, 0) < n:
            problems.append('new or changed site: %s fn %s: %s %s' % (k[0], k[1], k[2], list(k[3]) or ''))
    # a reviewed site that is gone (an unwrap removed, a static dropped) cannot break a property: it is only reported when
    # something new appeared as well (then it usually is the old form of the changed site)
    vanished = []
    for k, n in rk.items():
        if ck.get(k, 0) < n:
            vanished.append('site vanished or changed: %s fn %s: %s %s' % (k[0], k[1], k[2], list(k[3]) or ''))
    if problems:
        problems.extend(vanished)
    return cur, problems, rev


def write_reviewed(kind, note_for=None):
    os.makedirs(INV_DIR, exist_ok=True)
    cur = scan(kind)
    path = os.path.join(INV_DIR, kind + '.json')
    old = {}
    if os.path.exists(path):
        for e in json.load(open(path))['sites']:
            old[key(e)] = e
    sites = []
    for e in cur:
        o = old.get(key(e), {})
        e = dict(e)
        e['class'] = o.get('class', note_for(e) if note_for else 'unreviewed')
        sites.append(e)
    with open(path, 'w') as f:
        json.dump({'kind': kind, 'sites': sites}, f, indent=1)
    return sites


if __name__ == '__main__':
    import sys
    for k in sys.argv[1:]:
        print(json.dumps(scan(k), indent=1))
