(* C07 — the verdict is independent of output format, verbosity and entry point (partial). Pinned statements only.
   Proved: every rendering is a function of one evaluation record / report, and the exit status is the same function
   of the outcome matrix in every mode when all rules files parse. Not provable here: well-formedness of the bytes
   serde_json / serde_yaml / quick_xml emit (checked by parsing every output back in the correspondence run). *)
From GV.Model Require Import Report Cli.
From GV.Proofs Require Import ReportProps CliProps.

Theorem C07_summary_agrees_with_structured : forall st children fr n,
  all_rule_records children -> NoDup (map fst (rule_entries children)) ->
  simplified (Rec (KFileCheck st) children) = Some fr ->
  (In n (summary_passed children) <-> In n (fr_compliant fr)) /\
  (In n (summary_failed children) <-> In n (not_compliant_names (fr_not_compliant fr))) /\
  (In n (summary_skipped children) <-> In n (fr_not_applicable fr)).
Proof. exact summary_agrees_with_structured. Qed.
Print Assumptions C07_summary_agrees_with_structured.

Theorem C07_sarif_one_result_per_check : forall r, message_count r = check_nodes r.
Proof. exact sarif_one_result_per_check. Qed.
Print Assumptions C07_sarif_one_result_per_check.

Theorem C07_modes_agree : forall m m' n rs,
  well_shaped n rs = true -> all_parsed rs = true ->
  exit_status (validate_exit m true n rs) = exit_status (validate_exit m' true n rs).
Proof. exact modes_agree. Qed.
Print Assumptions C07_modes_agree.

(* the mixed case the statement does not cover is really mode-dependent (a finding, see DESIGN.md) *)
Theorem C07_mixed_parse_error_and_fail_differs :
  exit_status (validate_exit VStructured true 1 [RParsed [DFail]; RParseErr]) = 19 /\
  exit_status (validate_exit VJunit true 1 [RParsed [DFail]; RParseErr]) = 5 /\
  exit_status (validate_exit VPlain true 1 [RParsed [DFail]; RParseErr]) = 5 /\
  exit_status (validate_exit VPlain true 1 [RParseErr; RParsed [DFail]]) = 19.
Proof. exact (conj eq_refl (conj eq_refl (conj eq_refl eq_refl))). Qed.
Print Assumptions C07_mixed_parse_error_and_fail_differs.
