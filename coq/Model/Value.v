(* Value.v — PathAwareValue, Path, floats, query results
   (path_value.rs 29-185, rules/mod.rs 165-193). No proofs here. *)
From GV.Model Require Export Base.

(* Path(String, Location{line,col}) *)
Record path := mkPath { pstr : string; pline : N; pcol : N }.
Definition root_path : path := mkPath "" 0 0.
Definition path_extend (p : path) (part : string) : path :=
  mkPath (pstr p +++ "/" +++ part) (pline p) (pcol p).
Definition path_with_loc (p : path) (l c : N) : path := mkPath (pstr p) l c.
Definition path_eqb (a b : path) : bool :=
  String.eqb (pstr a) (pstr b) && N.eqb (pline a) (pline b) && N.eqb (pcol a) (pcol b).

(* f64: NaN, ±inf, or the exact dyadic m * 2^e (m signed; both zeros are m = 0;
   the sign of zero is kept apart only so that dumps compare exactly) *)
Inductive f64 :=
| FNaN
| FInf (neg : bool)
| FFin (m e : Z) (negzero : bool).

Definition f64_cmp (a b : f64) : option comparison :=
  match a, b with
  | FNaN, _ | _, FNaN => None
  | FInf n1, FInf n2 =>
      Some (match n1, n2 with
            | true, true | false, false => Eq
            | true, false => Lt
            | false, true => Gt end)
  | FInf true, FFin _ _ _ => Some Lt
  | FInf false, FFin _ _ _ => Some Gt
  | FFin _ _ _, FInf true => Some Gt
  | FFin _ _ _, FInf false => Some Lt
  | FFin m1 e1 _, FFin m2 e2 _ =>
      let k := Z.min e1 e2 in
      Some (Z.compare (m1 * 2 ^ (e1 - k)) (m2 * 2 ^ (e2 - k)))
  end.

Definition f64_eqb_bits (a b : f64) : bool :=
  match a, b with
  | FNaN, FNaN => true
  | FInf x, FInf y => Bool.eqb x y
  | FFin m1 e1 z1, FFin m2 e2 z2 => Z.eqb m1 m2 && Z.eqb e1 e2 && Bool.eqb z1 z2
  | _, _ => false
  end.

(* PathAwareValue. Map = (path, keys vector, values IndexMap in insertion order). *)
Inductive pv :=
| PNull (p : path)
| PString (p : path) (s : string)
| PRegex (p : path) (s : string)
| PBool (p : path) (b : bool)
| PInt (p : path) (z : Z)
| PFloat (p : path) (f : f64)
| PChar (p : path) (c : N)
| PList (p : path) (l : list pv)
| PMap (p : path) (keys : list pv) (vals : list (string * pv))
| PRangeInt (p : path) (lo hi : Z) (incl : N)
| PRangeFloat (p : path) (lo hi : f64) (incl : N)
| PRangeChar (p : path) (lo hi : N) (incl : N).

Definition self_path (v : pv) : path :=
  match v with
  | PNull p | PString p _ | PRegex p _ | PBool p _ | PInt p _ | PFloat p _
  | PChar p _ | PList p _ | PMap p _ _ | PRangeInt p _ _ _ | PRangeFloat p _ _ _
  | PRangeChar p _ _ _ => p
  end.

Definition is_list (v : pv) := match v with PList _ _ => true | _ => false end.
Definition is_map (v : pv) := match v with PMap _ _ _ => true | _ => false end.
Definition is_null (v : pv) := match v with PNull _ => true | _ => false end.
Definition is_scalar (v : pv) := negb (is_list v) && negb (is_map v).

(* type_info(), used only to classify; kept for diagnostics *)
Inductive vtype := TNull | TString | TRegex | TBool | TInt | TFloat | TChar | TList | TMap
                 | TRangeInt | TRangeFloat | TRangeChar.
Definition type_of (v : pv) : vtype :=
  match v with
  | PNull _ => TNull | PString _ _ => TString | PRegex _ _ => TRegex | PBool _ _ => TBool
  | PInt _ _ => TInt | PFloat _ _ => TFloat | PChar _ _ => TChar | PList _ _ => TList
  | PMap _ _ _ => TMap | PRangeInt _ _ _ _ => TRangeInt | PRangeFloat _ _ _ _ => TRangeFloat
  | PRangeChar _ _ _ _ => TRangeChar
  end.

(* structural equality including paths (used to compare dumps, not by the evaluator) *)
Fixpoint pv_eqb (a b : pv) : bool :=
  match a, b with
  | PNull p, PNull q => path_eqb p q
  | PString p s, PString q t => path_eqb p q && String.eqb s t
  | PRegex p s, PRegex q t => path_eqb p q && String.eqb s t
  | PBool p x, PBool q y => path_eqb p q && Bool.eqb x y
  | PInt p x, PInt q y => path_eqb p q && Z.eqb x y
  | PFloat p x, PFloat q y => path_eqb p q && f64_eqb_bits x y
  | PChar p x, PChar q y => path_eqb p q && N.eqb x y
  | PList p l, PList q m =>
      path_eqb p q &&
      (fix go (l m : list pv) : bool :=
         match l, m with
         | [], [] => true
         | x :: l', y :: m' => pv_eqb x y && go l' m'
         | _, _ => false
         end) l m
  | PMap p k v, PMap q k' v' =>
      path_eqb p q &&
      (fix go (l m : list pv) : bool :=
         match l, m with
         | [], [] => true
         | x :: l', y :: m' => pv_eqb x y && go l' m'
         | _, _ => false
         end) k k' &&
      (fix go (l m : list (string * pv)) : bool :=
         match l, m with
         | [], [] => true
         | (s, x) :: l', (t, y) :: m' => String.eqb s t && pv_eqb x y && go l' m'
         | _, _ => false
         end) v v'
  | PRangeInt p a1 b1 i, PRangeInt q a2 b2 j =>
      path_eqb p q && Z.eqb a1 a2 && Z.eqb b1 b2 && N.eqb i j
  | PRangeFloat p a1 b1 i, PRangeFloat q a2 b2 j =>
      path_eqb p q && f64_eqb_bits a1 a2 && f64_eqb_bits b1 b2 && N.eqb i j
  | PRangeChar p a1 b1 i, PRangeChar q a2 b2 j =>
      path_eqb p q && N.eqb a1 a2 && N.eqb b1 b2 && N.eqb i j
  | _, _ => false
  end.

(* forget paths: the plain Value (values.rs 81-95) *)
Inductive value :=
| VNull | VString (s : string) | VRegex (s : string) | VBool (b : bool) | VInt (z : Z)
| VFloat (f : f64) | VChar (c : N) | VList (l : list value) | VMap (m : list (string * value))
| VRangeInt (lo hi : Z) (incl : N) | VRangeFloat (lo hi : f64) (incl : N)
| VRangeChar (lo hi : N) (incl : N).

Fixpoint strip (v : pv) : value :=
  match v with
  | PNull _ => VNull
  | PString _ s => VString s
  | PRegex _ s => VRegex s
  | PBool _ b => VBool b
  | PInt _ z => VInt z
  | PFloat _ f => VFloat f
  | PChar _ c => VChar c
  | PList _ l => VList (map strip l)
  | PMap _ _ vals => VMap (map (fun kv => (fst kv, strip (snd kv))) vals)
  | PRangeInt _ a b i => VRangeInt a b i
  | PRangeFloat _ a b i => VRangeFloat a b i
  | PRangeChar _ a b i => VRangeChar a b i
  end.

(* TryFrom<(&Value, Path)> for PathAwareValue (path_value.rs 359-405) *)
Fixpoint annotate (p : path) (v : value) : pv :=
  match v with
  | VNull => PNull p
  | VString s => PString p s
  | VRegex s => PRegex p s
  | VBool b => PBool p b
  | VInt z => PInt p z
  | VFloat f => PFloat p f
  | VChar c => PChar p c
  | VList l =>
      PList p ((fix go (i : N) (l : list value) : list pv :=
                  match l with
                  | [] => []
                  | x :: r => annotate (path_extend p (N_to_string i)) x :: go (N.succ i) r
                  end) 0%N l)
  | VMap m =>
      PMap p
        (map (fun kv => PString (path_extend p (fst kv)) (fst kv)) m)
        ((fix go (m : list (string * value)) : list (string * pv) :=
            match m with
            | [] => []
            | (k, x) :: r => (k, annotate (path_extend p k) x) :: go r
            end) m)
  | VRangeInt a b i => PRangeInt p a b i
  | VRangeFloat a b i => PRangeFloat p a b i
  | VRangeChar a b i => PRangeChar p a b i
  end.

(* rules/mod.rs 165-193 *)
Record unresolved := mkUnres {
  ur_traversed_to : pv;
  ur_remaining : string;
  ur_has_reason : bool }.

Inductive qres :=
| QLiteral (v : pv)
| QResolved (v : pv)
| QUnResolved (u : unresolved).

Definition qres_eqb (a b : qres) : bool :=
  match a, b with
  | QLiteral x, QLiteral y => pv_eqb x y
  | QResolved x, QResolved y => pv_eqb x y
  | QUnResolved x, QUnResolved y =>
      pv_eqb (ur_traversed_to x) (ur_traversed_to y)
      && String.eqb (ur_remaining x) (ur_remaining y)
      && Bool.eqb (ur_has_reason x) (ur_has_reason y)
  | _, _ => false
  end.

Definition map_get (k : string) (vals : list (string * pv)) : option pv := assoc k vals.
