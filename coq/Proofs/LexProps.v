(* LexProps.v — alternative spellings, layout and comments at the lexical level (C14). *)
From Coq Require Import Lia.
From GV.Model Require Import Lex.

(* the tag sets the parser accepts NOW (regenerated from parser.rs) are the documented synonym classes *)
Theorem keyword_tables_are_the_documented_ones :
  set_eqb kw_in_keyword ["in"; "IN"] = true /\ set_eqb kw_keys ["keys"; "KEYS"] = true /\
  set_eqb kw_exists ["exists"; "EXISTS"] = true /\ set_eqb kw_empty ["empty"; "EMPTY"] = true /\
  set_eqb kw_is_list ["is_list"; "IS_LIST"] = true /\ set_eqb kw_is_struct ["is_struct"; "IS_STRUCT"] = true /\
  set_eqb kw_is_string ["is_string"; "IS_STRING"] = true /\ set_eqb kw_is_bool ["is_bool"; "IS_BOOL"] = true /\
  set_eqb kw_is_int ["is_int"; "IS_INT"] = true /\ set_eqb kw_is_float ["is_float"; "IS_FLOAT"] = true /\
  set_eqb kw_is_null ["is_null"; "IS_NULL"] = true /\ set_eqb kw_some_keyword ["some"; "SOME"] = true /\
  set_eqb kw_this_keyword ["this"; "THIS"] = true /\ set_eqb kw_when ["when"; "WHEN"] = true /\
  set_eqb kw_or_term ["or"; "OR"; "|OR|"] = true /\ set_eqb kw_parse_null ["null"; "NULL"] = true /\
  set_eqb kw_not_words ["not"; "NOT"] = true /\ set_eqb kw_not_chars ["!"] = true /\
  set_eqb kw_assign ["="; ":="] = true /\ set_eqb kw_let_keyword ["let"] = true /\
  set_eqb kw_bool_true ["true"; "True"] = true /\ set_eqb kw_bool_false ["false"; "False"] = true.
Proof. repeat split; vm_compute; reflexivity. Qed.

(* whichever spelling of a class is written, the same token comes out *)
Theorem synonyms_same_token : forall T (x : T) tags s r1,
  alt_tags tags s = Some r1 -> keyword x tags s = Some (x, r1).
Proof. intros T x tags s r1 H. unfold keyword. now rewrite H. Qed.

Lemma str_prefix_app : forall t rest, str_prefix t (t +++ rest) = true.
Proof. induction t as [|a t IH]; intros rest; cbn; [reflexivity|]. now rewrite Ascii.eqb_refl, IH. Qed.

Lemma drop_app : forall t rest, drop (String.length t) (t +++ rest) = rest.
Proof. induction t as [|a t IH]; intros rest; cbn; [reflexivity|apply IH]. Qed.

(* every member of a class is accepted (when no earlier alternative is a prefix of it) and leaves the same remainder *)
Theorem tag_accepted : forall tags t rest,
  In t tags -> (forall u, In u tags -> u <> t -> str_prefix u (t +++ rest) = false) ->
  alt_tags tags (t +++ rest) = Some rest.
Proof.
  induction tags as [|u tags IH]; intros t rest Hin Hno; [destruct Hin|].
  cbn [alt_tags]. destruct (string_dec u t) as [->|Hne].
  - now rewrite str_prefix_app, drop_app.
  - rewrite (Hno u (or_introl eq_refl) Hne). apply IH.
    + destruct Hin as [E|Hin]; [congruence|assumption].
    + intros v Hv. apply Hno. now right.
Qed.

(* ---- white space and comments ---- *)

(* a stretch made only of blanks, line breaks and complete `#` comments *)
Inductive layout : string -> Prop :=
| L_nil : layout EmptyString
| L_ws : forall c w, is_ws c = true -> layout w -> layout (String c w)
| L_comment : forall body w, (forall c, In c (list_ascii_of_string body) -> is_nl c = false) ->
    layout w -> layout (String "#" (body +++ String (ascii_of_N 10) w)).

Definition solid (s : string) : Prop :=
  match s with EmptyString => True | String c _ => is_ws c = false /\ is_hash c = false end.

Lemma skip_comment_body : forall body rest,
  (forall c, In c (list_ascii_of_string body) -> is_nl c = false) ->
  skip true (body +++ String (ascii_of_N 10) rest) = skip false rest.
Proof.
  induction body as [|c body IH]; intros rest H; cbn.
  - reflexivity.
  - rewrite (H c) by (cbn; auto). apply IH. intros d Hd. apply H. cbn. auto.
Qed.

Lemma sapp_assoc : forall a b c, (a +++ b) +++ c = a +++ (b +++ c).
Proof. induction a as [|x a IH]; intros b c; cbn; [reflexivity|]. now rewrite IH. Qed.

(* any mix of blanks, line breaks and comments is consumed, down to the same remainder *)
Theorem ws_comment_absorbing : forall w rest, layout w -> solid rest -> skip_ws_comments (w +++ rest) = rest.
Proof.
  intros w rest Hw Hs. unfold skip_ws_comments. induction Hw as [|c w Hc Hw IH|body w Hb Hw IH].
  - cbn. destruct rest as [|c r]; [reflexivity|]. cbn in *. destruct Hs as [H1 H2]. now rewrite H1, H2.
  - cbn. now rewrite Hc.
  - cbn [append skip]. assert (is_ws "#" = false) as -> by reflexivity. assert (is_hash "#" = true) as -> by reflexivity.
    rewrite sapp_assoc. cbn [append]. rewrite skip_comment_body by assumption. exact IH.
Qed.

Corollary layouts_are_interchangeable : forall w1 w2 rest,
  layout w1 -> layout w2 -> solid rest -> skip_ws_comments (w1 +++ rest) = skip_ws_comments (w2 +++ rest).
Proof. intros. now rewrite !ws_comment_absorbing. Qed.

(* ---- quoted strings ---- *)
Fixpoint ends_with_backslash (s : string) : bool :=
  match s with
  | EmptyString => false
  | String c EmptyString => Ascii.eqb c "\"
  | String _ r => ends_with_backslash r
  end.

Lemma sapp_nil_r : forall s, s +++ EmptyString = s.
Proof. induction s as [|c s IH]; cbn; [reflexivity|now rewrite IH]. Qed.

Lemma read_quoted_escape : forall q, q <> "\"%char -> forall s acc prev rest,
  ends_with_backslash s = false -> (s = EmptyString -> prev = false) ->
  read_quoted q (escape q s +++ String q rest) prev acc
  = Some (acc +++ (if prev then "\" else EmptyString) +++ s, rest).
Proof.
  intros q Hq. assert (Hbq : Ascii.eqb "\" q = false) by (apply Ascii.eqb_neq; congruence).
  induction s as [|c s IH]; intros acc prev rest Hend Hprev.
  - rewrite (Hprev eq_refl). cbn. rewrite Ascii.eqb_refl, !sapp_nil_r. reflexivity.
  - assert (Hend' : ends_with_backslash s = false).
    { destruct s; [reflexivity|exact Hend]. }
    cbn [escape]. destruct (Ascii.eqb c q) eqn:Ecq.
    + (* an inner quote: written as backslash quote *)
      apply Ascii.eqb_eq in Ecq. subst c. cbn [append read_quoted]. rewrite Hbq, Ascii.eqb_refl.
      cbn [read_quoted]. rewrite Ascii.eqb_refl.
      rewrite IH; [|exact Hend'|reflexivity].
      f_equal. f_equal. rewrite !sapp_assoc. cbn. destruct prev; cbn; rewrite ?sapp_assoc; reflexivity.
    + cbn [append read_quoted]. rewrite Ecq.
      destruct (Ascii.eqb c "\") eqn:Ecb.
      * apply Ascii.eqb_eq in Ecb. subst c.
        rewrite IH; [|exact Hend'|].
        -- f_equal. f_equal. destruct prev; cbn; rewrite ?sapp_assoc, ?sapp_nil_r; cbn; rewrite ?sapp_assoc; reflexivity.
        -- intros ->. cbn in Hend. discriminate.
      * rewrite IH; [|exact Hend'|reflexivity].
        f_equal. f_equal. destruct prev; cbn; rewrite ?sapp_assoc, ?sapp_nil_r; cbn; rewrite ?sapp_assoc; reflexivity.
Qed.

(* a string written with either quote character (inner quotes escaped) is read back as the same bytes, and the rest
   of the input is left untouched *)
Theorem string_quote_roundtrip : forall q s rest,
  q <> "\"%char -> ends_with_backslash s = false ->
  parse_quoted q (quote q s +++ rest) = Some (s, rest).
Proof.
  intros q s rest Hq Hend. unfold parse_quoted, quote. cbn [append]. rewrite Ascii.eqb_refl.
  rewrite sapp_assoc. cbn [append].
  rewrite read_quoted_escape; [reflexivity|exact Hq|exact Hend|reflexivity].
Qed.

Corollary single_and_double_quotes_agree : forall s rest,
  ends_with_backslash s = false ->
  parse_quoted "'" (quote "'" s +++ rest) = parse_quoted """" (quote """" s +++ rest).
Proof. intros. rewrite !string_quote_roundtrip; try assumption; try reflexivity; discriminate. Qed.
